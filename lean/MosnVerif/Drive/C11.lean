import MosnVerif.Drive.Util
import MosnVerif.Model.Shutdown
import MosnVerif.Model.Transfer
import MosnVerif.Model.H2GoAway
import MosnVerif.Model.TransferLookup
import MosnVerif.Drive.C11Upgrade
import MosnVerif.Drive.C11Drain
import MosnVerif.Drive.C11Tls
import MosnVerif.Drive.C11Stream
/-! `mosnmodel` driver for C11: evaluates the models on one case line and the property predicate (`Spec…`, written
against literal reference values, never against regenerated code) on the implementation's output. -/
namespace MosnVerif.Drive.C11
open MosnVerif.Drive MosnVerif.Model.Shutdown MosnVerif.Model.Transfer

def verdict (agree spec : Bool) (out : String) : String :=
  s!"{if agree then "A" else "D"} {if spec then "S" else "V"} {out}"

/-! ### transfer codec -/

/-- reference split of a "transfer read" stream, literal layout: 4-byte big-endian data length, 4-byte big-endian TLS
length, data, TLS. -/
def refU32 : List UInt8 → Nat
  | a :: b :: c :: d :: _ => ((a.toNat * 256 + b.toNat) * 256 + c.toNat) * 256 + d.toNat
  | _ => 0
def refSplit (w : List UInt8) : Option (List UInt8 × List UInt8 × List UInt8) :=
  if w.length < 8 then none else
  let n1 := refU32 w
  let n2 := refU32 (w.drop 4)
  let p := w.drop 8
  if p.length < n1 + n2 then none else some (p.take n1, (p.drop n1).take n2, p.drop (n1 + n2))

def th (s1 s2 : String) (impl : List String) : String :=
  match s1.toNat?, s2.toNat?, impl with
  | some a, some b, [w, st, r1, r2] =>
    let mw := buildHead a b
    let (m1, m2, mst) := match recvHead mw with
      | some (x, y, _) => (x, y, "ok")
      | none => (0, 0, "short")
    let out := s!"{hex mw} {mst} {m1} {m2}"
    verdict (s!"{w} {st} {r1} {r2}" == out) (st == "ok" && r1 == s1 && r2 == s2 && (unhex w).map (·.length) == some 8) out
  | _, _, _ => "E E bad-case"

def tr (d t r : String) (impl : List String) : String :=
  match unhex d, unhex t, unhex r, impl with
  | some data, some tls, some rest, [sst, w, rst, id, it, il] =>
    let mw := encodeRead data tls
    let out := match decodeRead (mw ++ rest) with
      | some (x, y, z) => s!"ok {hex mw} ok {hex x} {hex y} {hex z}"
      | none => s!"ok {hex mw} short - - -"
    verdict (s!"{sst} {w} {rst} {id} {it} {il}" == out)
      (sst == "ok" && rst == "ok" && id == d && it == t && il == r) out
  | _, _, _, _ => "E E bad-case"

def tw (i d r : String) (impl : List String) : String :=
  match i.toNat?, unhex d, unhex r, impl with
  | some id, some data, some rest, [sst, w, rst, gid, gd, gl] =>
    let mw := encodeWrite id data
    let out := match decodeWrite (mw ++ rest) with
      | some (x, y, z) => s!"ok {hex mw} ok {x} {hex y} {hex z}"
      | none => s!"ok {hex mw} short 0 - -"
    verdict (s!"{sst} {w} {rst} {gid} {gd} {gl}" == out)
      (sst == "ok" && rst == "ok" && gid == i && gd == d && gl == r) out
  | _, _, _, _ => "E E bad-case"

def ti (i : String) (impl : List String) : String :=
  match i.toNat?, impl with
  | some id, [sst, w, got] =>
    let mw := encodeID id
    let out := s!"ok {hex mw} {decodeID mw}"
    verdict (s!"{sst} {w} {got}" == out) (sst == "ok" && got == i) out
  | _, _ => "E E bad-case"

def tm (w : String) (impl : List String) : String :=
  match unhex w, impl with
  | some wire, [rst, d, t, l] =>
    let out := match decodeRead wire with
      | some (x, y, z) => s!"ok {hex x} {hex y} {hex z}"
      | none => "short - - -"
    let spec := match refSplit wire with
      | some (x, y, z) => rst == "ok" && d == hex x && t == hex y && l == hex z
      | none => rst == "short"
    verdict (s!"{rst} {d} {t} {l}" == out) spec out
  | _, _ => "E E bad-case"

def tt (w : String) (impl : List String) : String :=
  match impl with
  | [sst, rst, kind, same] =>
    let withFD := w == "1"
    let mk := if recvIsWrite (typeByte withFD) then "write" else "read"
    let out := s!"ok ok {mk} {if mk == "read" && withFD then "1" else "0"}"
    verdict (s!"{sst} {rst} {kind} {same}" == out)
      (sst == "ok" && rst == "ok" && kind == (if withFD then "read" else "write") && (!withFD || same == "1")) out
  | _ => "E E bad-case"

/-! ### listener operation sequences -/

def parseOp (s : String) : Option LOp :=
  if s == "S0" then some (.start false) else if s == "S1" then some (.start true)
  else if s == "C" then some .close else if s == "P" then some .probe
  else if s.startsWith "H" then (s.drop 1).toInt?.map LOp.shutdown else none

def obsTok (p : Int × LObs) : String := s!"{p.1}:{p.2.shutdownCb}:{p.2.closeCb}:{p.2.ret}"

/-- reference property on the implementation's observations: between a Shutdown and the next Start no probe is
accepted; after a Shutdown outside the upgrade stage (literal 13) on a bound listener every probe is refused (or the
listener never had an address). -/
def lsSpec (bind : Bool) : List LOp → List String → Option Int → Bool
  | [], [], _ => true
  | op :: ops, o :: os, stopped =>
    let ret := ((o.splitOn ":").getLast?).getD ""
    match op with
    | .start _ => lsSpec bind ops os none
    | .shutdown st => lsSpec bind ops os (some st)
    | .close => lsSpec bind ops os stopped
    | .probe =>
      (match stopped with
       | none => true
       | some st => ret != "acc" && (st == 13 || !bind || ret == "ref" || ret == "none")) && lsSpec bind ops os stopped
  | _, _, _ => false

def ls (b i o : String) (impl : List String) : String :=
  match (o.splitOn ",").mapM parseOp, impl with
  | some ops, [obs] =>
    let tr := lisTrace (lisInit (b == "1") (i == "1")) ops
    let out := joinWith "," (tr.map obsTok)
    verdict (obs == out) (lsSpec (b == "1") ops (obs.splitOn ",") none) out
  | _, _ => "E E bad-case"

/-! ### stage manager scripts -/

def actionOf (a : String) : Option (Int × Option Bool × Bool) :=   -- (action, handler, releases the main goroutine)
  if a == "term" then some (Gen.Shutdown.actGracefulStop, none, true)
  else if a == "int" then some (Gen.Shutdown.actStop, none, true)
  else if a == "upgok" then some (Gen.Shutdown.actUpgrade, some true, true)
  else if a == "upgerr" then some (Gen.Shutdown.actUpgrade, some false, false)
  else if a == "upgnil" then some (Gen.Shutdown.actUpgrade, none, false)
  else none

def smEvents (flags : List String) (acts : List (Int × Option Bool × Bool)) : List SMEv :=
  let early : Option Int := if flags.contains "earlyterm" then some Gen.Shutdown.actGracefulStop
    else if flags.contains "earlyint" then some Gen.Shutdown.actStop else none
  let sf := flags.contains "shuterr"
  let boots := (List.range Gen.Shutdown.runSeq.length).map
    (fun _ => SMEv.boot early (flags.contains "initfail") (flags.contains "inhfail"))
  boots ++ acts.flatMap (fun a => [SMEv.notice a.1 a.2.1 sf] ++ (if a.2.2 then [SMEv.mainStop sf] else []))

def intsTok (l : List Int) : String := if l.isEmpty then "-" else joinWith "," (l.map toString)
def strsTok (l : List String) : String := if l.isEmpty then "-" else joinWith "," l

/-- reference property on the implementation's trace (literal values): ignoring the BeforeStop notification (7), the
states never go down in rank (12 and 13 rank as 6); the Application is never shut down while the state is Upgrading (13)
(the hot-upgrade hand-over runs in the upgrade handler, at 13, and nowhere else); `shutdown` precedes `close`. -/
def smSpec (flags acts states calls : List String) : Bool :=
  let rk (n : Int) : Int := if n == 12 || n == 13 then 6 else n
  let ns := (states.filterMap String.toInt?).filter (· != 7)
  let rec mono : List Int → Bool
    | a :: b :: r => rk a ≤ rk b && mono (b :: r)
    | _ => true
  let rec order : List String → Bool → Bool
    | [], _ => true
    | c :: r, closed => if c.startsWith "close" then order r true
                        else if c.startsWith "shutdown" then !closed && order r closed else order r closed
  -- a SIGTERM / a successful upgrade of a started server shuts the Application down gracefully, at state 8
  let started := !(flags.contains "initfail" || flags.contains "inhfail" || flags.contains "earlyterm" || flags.contains "earlyint")
  let graceful := match acts.getLast? with
    | some a => a == "term" || a == "upgok"
    | none => false
  mono ns && !calls.contains "shutdown@13" && calls.all (fun c => !c.startsWith "upgrade@" || c == "upgrade@13") && order calls false
    && (!(started && graceful) || calls.contains "shutdown@8")

def sm (f a : String) (impl : List String) : String :=
  let flags := if f == "-" then [] else f.splitOn "+"
  let acts := if a == "-" then some [] else (a.splitOn ",").mapM actionOf
  match acts, impl with
  | some acts, [states, calls, code] =>
    let m := smRun (smInit (flags.contains "fromupg")) (smEvents flags acts)
    let out := s!"{intsTok m.notes.reverse} {strsTok m.calls.reverse} {m.exit.getD 0}"
    verdict (s!"{states} {calls} {code}" == out)
      (smSpec flags (if a == "-" then [] else a.splitOn ",") (if states == "-" then [] else states.splitOn ",")
        (if calls == "-" then [] else calls.splitOn ",")) out
  | _, _ => "E E bad-case"

/-! ### graceful stop of the in-process assembly -/

def kv (toks : List String) (k : String) : Option String :=
  toks.findSome? (fun t => match t.splitOn "=" with
    | [a, b] => if a == k then some b else none
    | _ => none)

def kvNat (toks : List String) (k : String) : Option Nat := (kv toks k).bind String.toNat?

/-- protocol traits of the stream layers (regenerated facts): (go-away notification on the wire, new streams refused
after go-away, the request is decoded — a stream exists — as soon as its head is complete). -/
def traits (proto : String) : Bool × Bool × Bool :=
  if proto == "h2" then (Gen.Shutdown.h2GoAwayCarriesLastStream, Gen.Shutdown.h2IgnoresNewStreamsAfterGoAway, true)
  else if proto == "bolt" then (Gen.Shutdown.xprotocolSendsGoAwayFrame, false, false)
  else (!Gen.Shutdown.http1GoAwayIsNoop, false, false)

/-- events of one run: connections, the in-flight request advanced to `phase`, the signal, then `hold` ticks with an
exit attempt before each of them (does the exit label fire before the request may proceed?). -/
def gsModel (proto : String) (stage : Int) (phase : String) (nconn drain hold : Nat) : Sys :=
  let tickMs : Nat := Gen.Shutdown.drainSleepMs.toNat
  let main := nconn - 1
  let (notifies, refuseNew, headDecodes) := traits proto
  let s0 := sysInit ((drain * tickMs : Nat) : Int) notifies refuseNew
  let pre := (List.replicate nconn Ev.connect) ++
    (if phase == "hdr" then [Ev.bytes main]
     else if phase == "body" || phase == "dfr" then (if headDecodes then [Ev.bytes main, Ev.decoded main] else [Ev.bytes main])
     else if phase == "wait" || phase == "resp" then [Ev.bytes main, Ev.decoded main] else [])
  let s1 := Model.Shutdown.run s0 (pre ++ [Ev.signal stage])
  Model.Shutdown.run s1 ((List.replicate hold [Ev.exit, Ev.tick tickMs]).flatten ++ [Ev.exit])

/-- outcome of the request on connection `i` after the remaining events were played: ok / retry (refused on a
gone-away connection, retryable) / fail -/
def outcome (before after : Sys) (i : Nat) : String :=
  match before.conns[i]?, after.conns[i]? with
  | some b, some a => if a.served == b.served + 1 then "ok" else if a.refusedReq == b.refusedReq + 1 then "retry" else "fail"
  | _, _ => "fail"

def gs (c : List String) (impl : List String) : String :=
  match kv c "proto", kv c "stage" >>= String.toInt?, kv c "phase", kvNat c "idle", kvNat c "bg", kvNat c "drain", kvNat c "hold", kv c "succ" with
  | some proto, some stage, some phase, some idle, some bg, some drain, some hold, some succ =>
    let n := idle + bg + 1
    let s := gsModel proto stage phase n drain hold
    let extra := kv c "extra" == some "1"
    -- a further request begun on the same (multiplexed) connection right after the signal is independent of the one in
    -- flight — unless the HTTP/2 layer answers the DATA frame of the ignored stream with a connection error
    let killed := extra && proto == "h2" && !Gen.Shutdown.h2DiscardsDataAboveLastStream
    let exitFirst := s.exited || killed
    -- in one process nothing exits: the rest of the request, a late request and a new connection are then played
    let s1 := { s with exited := false }
    let main := n - 1
    let s2 := Model.Shutdown.run s1 [Ev.bytes main, Ev.decoded main, Ev.respDone main]
    let req := if killed then "fail" else outcome s1 s2 main
    let extraOut := if !extra then "na" else
      outcome s1 (Model.Shutdown.run { s1 with conns := modifyAt s1.conns main (fun k => { k with phase := Phase.idle }) }
        [Ev.decoded main, Ev.respDone main]) main
    let s3 := Model.Shutdown.run s2 [Ev.decoded 0, Ev.respDone 0]
    let late := if idle == 0 then "na" else outcome s2 s3 0
    -- background clients: each issues a further request after the signal
    let bgOut := (List.range bg).map (fun k => outcome s1 (Model.Shutdown.run s1 [Ev.decoded (idle + k), Ev.respDone (idle + k)]) (idle + k))
    let newc := if succ == "1" then "srv" else
      (match probeResult s.lis with | "acc" => "srv" | x => x)
    let ga := joinWith "," (s.conns.map (fun k => toString k.goAway))
    let cga := (s.conns.map (·.notified)).foldl (· + ·) 0
    let out := s!"req={req} new={newc} exitfirst={if exitFirst then 1 else 0} goaway={ga} cga={cga} late={late} bgfail={(bgOut.filter (· == "fail")).length} bgretry={(bgOut.filter (· == "retry")).length} lstate={s.lis.state} shut=ok extra={extraOut}"
    -- reference property, literal values: 13 = Upgrading; h2 = the protocol whose go-away lets the client retry
    let g (k : String) := (kv impl k).getD "?"
    let upgrade := stage == 13
    let gas := (g "goaway").splitOn ","
    let started := phase != "pre" && !(proto == "h2" && phase == "hdr")   -- MOSN had (part of) the request before the signal ...
    let retryOk := proto == "h2" && (phase == "pre" || phase == "hdr")     -- ... except an HTTP/2 stream not yet opened: refused, retryable
    let spec := (g "req" == "ok" || (retryOk && g "req" == "retry")) && g "bgfail" == "0" && g "shut" == "ok"
      && (proto == "h2" || g "bgretry" == "0")
      && (if succ == "1" then g "new" == "srv" else if upgrade then g "new" == "pend" else g "new" == "ref")
      && (upgrade || !started || g "exitfirst" == "0" || hold > drain)
      && gas.length == n && gas.all (· == "1")
      && (proto == "h1" || g "cga" == toString n)
      && (!upgrade || idle == 0 || g "late" == "ok" || (proto == "h2" && g "late" == "retry"))
      && (g "extra" == "na" || g "extra" == "ok" || (proto == "h2" && g "extra" == "retry"))
    verdict (joinWith " " impl == out) spec out
  | _, _, _, _, _, _, _, _ => "E E bad-case"

/-! ### real SIGTERM to the real binary -/

def rs (c : List String) (impl : List String) : String :=
  match kv c "proto", kv c "phase", kvNat c "hold" with
  | some proto, some phase, some hold =>
    let drainTicks := (Gen.Shutdown.drainDefaultMs / Gen.Shutdown.drainSleepMs).toNat
    -- SIGTERM: the graceful-stop stage sets GracefulStopping before app.Shutdown (stage manager model)
    let sm := smRun (smInit false) ((List.replicate Gen.Shutdown.runSeq.length (SMEv.boot none false false)) ++
      [SMEv.notice ((Gen.Shutdown.signalActions.find? (fun p => p.1 == "SIGTERM")).map (·.2) |>.getD (-1)) none false, SMEv.mainStop false])
    let stage := if sm.calls.contains "shutdown@8" then Gen.Shutdown.GracefulStopping else Gen.Shutdown.Running
    let graceful := sm.calls.any (fun x => x.startsWith "shutdown@")
    let s := gsModel proto stage phase 1 drainTicks hold
    let exitFirst := !graceful || s.exited
    let (_, refuseNew, _) := traits proto
    let req := if !exitFirst then "ok"
      else if refuseNew && (s.conns[0]?).map (fun k => decide (k.notified > 0 && k.phase != Phase.active)) == some true then "retry"
      else "fail"
    let g (k : String) := (kv impl k).getD "?"
    -- the exiting process may reset the connection before the client has read the GOAWAY: then the refusal cannot be
    -- recognised as retryable (both outcomes are the implementation's; the property predicate judges them)
    let req := if req == "retry" && exitFirst && g "req" == "fail" then "fail" else req
    let out := s!"req={req} exitfirst={if exitFirst then 1 else 0} exit={sm.exit.getD (-1)} after={probeResult s.lis}"
    let spec := (g "req" == "ok" || (proto == "h2" && phase == "hdr" && g "req" == "retry")) && g "exit" == "0" && g "after" == "ref"
    verdict (joinWith " " impl == out) spec out
  | _, _, _ => "E E bad-case"

/-! ### two real processes: hot upgrade under load (kind up2), SIGTERM of one process under load (kind gs2) -/

/-- the stage manager's run of a started process that receives one stop notice: (calls, exit code) -/
def smAfter (act : Int) (handler : Option Bool) : List String × Int :=
  let m := smRun (smInit false) ((List.replicate Gen.Shutdown.runSeq.length (SMEv.boot none false false)) ++
    [SMEv.notice act handler false, SMEv.mainStop false])
  (m.calls, m.exit.getD (-1))

/-- `up2 g= drain= h1= bp= bg= win= dmax= lo= hi= sa= => fail= dup= bad= refused= exit= code= newserves= handed= gamoved= h1moved=`
(times in ms).  The prediction is assembled from the models of the pieces: the old process's step list
(UpgHandshake, ready byte at instant 0) with the exit timer of UpgTiming gives the window of its exit and the instants
at which each process accepts; the Shutdown model at stage Upgrading says whether a request decoded before the stop is
waited for and that the inherited socket stays open; UpgTiming.fits whether every hand-over happens before the exit;
HandoverQueue whether the answers written during a hand-over survive; the stage manager model the exit code.
Reference (literal): nothing failed, nothing was answered twice or wrongly, no connect was refused, the old process
exited by itself inside the window, the new one serves. -/
def up2 (c impl : List String) : String :=
  match kvNat c "g", kvNat c "drain", kvNat c "h1", kvNat c "bp", kvNat c "bg", kvNat c "win", kvNat c "dmax", kvNat c "lo", kvNat c "hi", kvNat c "sa" with
  | some g, some drain, some h1, some bp, some bg, some win, some dmax, some lo, some hi, some sa =>
    let R : Nat := Gen.UpgTiming.defaultConnReadTimeoutMs
    let G := Model.UpgTiming.graceful g
    let T := Model.UpgTiming.transferTimeoutAfterStart false g      -- the old process was started cold
    let life := Model.UpgTiming.lifetime G R
    let oMin := Model.UpgHandshake.upgrade 0 drain [] life           -- nothing in flight when the old process stops accepting
    let oMax := Model.UpgHandshake.upgrade 0 drain [drain] life      -- requests in flight during the whole drain time
    let exit := match oMin.exitAt, oMax.exitAt with
      | some a, some b => if a < lo then "early" else if hi < b + sa then "late" else "intime"
      | _, _ => "never"
    let horizon := (oMax.exitAt.getD 0) + 1000
    let gaps := (List.range (horizon / 50 + 1)).filter (fun i =>
      !(Model.UpgHandshake.oldAccepts oMax (i * 50) || Model.UpgHandshake.newAccepts oMax 0 (i * 50))
      || !(Model.UpgHandshake.oldAccepts oMin (i * 50) || Model.UpgHandshake.newAccepts oMin 0 (i * 50)))
    let lisOld := (lisShutdown ⟨Gen.Shutdown.ListenerRunning, true, true, true, true⟩ Gen.Shutdown.Upgrading).1
    let refused := if gaps.isEmpty && probeResult lisOld != "ref" then 0 else 1
    -- a request waiting for the upstream when the old process shuts its servers down (stage Upgrading): answered
    let tickMs : Nat := Gen.Shutdown.drainSleepMs.toNat
    let waits (proto : String) (n : Nat) : Bool :=
      n == 0 || (let s1 := { gsModel proto Gen.Shutdown.Upgrading "wait" n (drain / tickMs) (min (dmax / tickMs + 1) (drain / tickMs)) with exited := false }
                 outcome s1 (Model.Shutdown.run s1 [Ev.respDone (n - 1)]) (n - 1) == "ok")
    -- the answers written while a connection is being handed over
    let ws := List.range win
    let q1 := Model.HandoverQueue.runG ws (Model.HandoverQueue.harnessWindow win)
    let q2 := Model.HandoverQueue.run Gen.HandoverQueue.enqueueMode Gen.HandoverQueue.writeBufferCap q1 (Model.HandoverQueue.harnessRest win)
    let writesKept := ws.all (fun i => q2.forwarded.contains i) && q2.dropped.isEmpty
    let handsOver := Gen.Shutdown.transferableXprotocol && Model.UpgTiming.fits T G R
    let fail := (if waits "h1" h1 then 0 else 1) + (if waits "bolt" (bp + bg) then 0 else 1)
      + (if bp == 0 || (handsOver && writesKept) then 0 else 1)
    let (_, code) := smAfter Gen.Shutdown.actUpgrade (some true)
    let newServes := Model.UpgHandshake.newAccepts oMax 0 horizon && Model.UpgHandshake.newAccepts oMin 0 horizon
    let out := s!"fail={fail} dup=0 bad=0 refused={refused} exit={exit} code={code} newserves={if newServes then 1 else 0} handed={if handsOver then bp else 0} gamoved={if Gen.Shutdown.xprotocolSendsGoAwayFrame then bg else 0} h1moved={if Gen.Shutdown.transferableHttp1 then 0 else h1}"
    let gi (k : String) := (kv impl k).getD "?"
    -- reference window, literal: 3 s pause + twice the graceful timeout + twice the 15 s read timeout after the ready
    -- byte at the earliest; the drain time and the start-up allowance on top at the latest
    let window := lo == 3000 + 2 * g + 30000 && hi == sa + 3000 + drain + 2 * g + 30000
    let spec := gi "fail" == "0" && gi "dup" == "0" && gi "bad" == "0" && gi "refused" == "0" && gi "exit" == "intime"
      && gi "newserves" == "1" && window
    verdict (joinWith " " impl == out) spec out
  | _, _, _, _, _, _, _, _, _, _ => "E E bad-case"

/-- `gs2 drain= h1= bp= win= dmax= hi= => fail= dup= bad= exitfirst= exit= code= after=`: every request was received
completely before SIGTERM and is answered by the upstream within dmax ms. -/
def gs2 (c impl : List String) : String :=
  match kvNat c "drain", kvNat c "h1", kvNat c "bp", kvNat c "dmax", kvNat c "hi" with
  | some drain, some h1, some bp, some dmax, some hi =>
    let (calls, code) := smAfter ((Gen.Shutdown.signalActions.find? (fun p => p.1 == "SIGTERM")).map (·.2) |>.getD (-1)) none
    let stage := if calls.contains "shutdown@8" then Gen.Shutdown.GracefulStopping else Gen.Shutdown.Running
    let graceful := calls.any (fun x => x.startsWith "shutdown@")
    let tickMs : Nat := Gen.Shutdown.drainSleepMs.toNat
    let hold := dmax / tickMs + 1
    let runs := (if h1 > 0 then [gsModel "h1" stage "wait" h1 (drain / tickMs) hold] else [])
      ++ (if bp > 0 then [gsModel "bolt" stage "wait" bp (drain / tickMs) hold] else [])
    let exitFirst := !graceful || runs.any (·.exited)
    let after := match runs with
      | s :: _ => probeResult s.lis
      | [] => "ref"
    let exit := if min drain dmax + 3000 ≤ hi then "intime" else "late"
    let out := s!"fail={if exitFirst then 1 else 0} dup=0 bad=0 exitfirst={if exitFirst then 1 else 0} exit={exit} code={code} after={after}"
    let gi (k : String) := (kv impl k).getD "?"
    let spec := gi "fail" == "0" && gi "dup" == "0" && gi "bad" == "0" && gi "exit" == "intime" && gi "code" == "0" && gi "after" == "ref"
      && hi == drain + 3000
    verdict (joinWith " " impl == out) spec out
  | _, _, _, _, _ => "E E bad-case"

/-! ### hot-upgrade hand-over in one process -/

def up (c : List String) (impl : List String) : String :=
  match kvNat c "half", kvNat c "idle", kvNat c "wait", kvNat c "h1" with
  | some half, some idle, some wait, some h1 =>
    -- the frame as 0,1,2,…: what the new connection's read buffer holds after the hand-over, then the rest arrives
    let frameLen := half + 7
    let frame : List UInt8 := (List.range frameLen).map (fun i => UInt8.ofNat (i % 251))
    let halfOk := adoptedSurvives half && (match handover (frame.take half) [] with
      | some (b, _) => b ++ frame.drop half == frame
      | none => false)
    let bolt := Gen.Shutdown.transferableXprotocol
    let adopted := if bolt then idle + 1 + wait else 0
    let adoptedH := if Gen.Shutdown.transferableHttp1 then h1 else 0
    let oldSt := (lisShutdown ⟨Gen.Shutdown.ListenerRunning, true, true, true, true⟩ Gen.Shutdown.Upgrading).1.state
    let na (b : Bool) (x : String) := if b then x else "na"
    let out := s!"fds={1 + h1} oldstate={oldSt} adopted={adopted} adoptedh1={adoptedH} half={if halfOk then "ok" else "fail"} wait={na (wait == 1) "ok"} idle={na (idle > 0) "ok"} h1={na (h1 == 1) "ok"} new=srv newreq={idle + 1 + (if halfOk then 1 else 0)} exit=0"
    let g (k : String) := (kv impl k).getD "?"
    let spec := g "fds" == toString (1 + h1) && g "adopted" == toString (idle + 1 + wait) && g "half" == "ok"
      && (g "wait" == "ok" || (wait == 0 && g "wait" == "na")) && (g "idle" == "ok" || (idle == 0 && g "idle" == "na"))
      && (g "h1" == "ok" || (h1 == 0 && g "h1" == "na")) && g "new" == "srv" && g "exit" == "0"
      && g "newreq" == toString (idle + 2)
    verdict (joinWith " " impl == out) spec out
  | _, _, _, _ => "E E bad-case"

/-! ### graceful stop / hot-upgrade Shutdown with the traffic on a listener that binds no port (kind vl) -/

def vl (c : List String) (impl : List String) : String :=
  match kv c "stage" >>= String.toInt?, kv c "phase", kvNat c "idle", kvNat c "drain", kvNat c "hold" with
  | some stage, some phase, some idle, some drain, some hold =>
    let tickMs : Nat := Gen.Shutdown.drainSleepMs.toNat
    let n := idle + 1
    let main := n - 1
    let s0 := sysVirtual ((drain * tickMs : Nat) : Int) Gen.Shutdown.xprotocolSendsGoAwayFrame false n
    let decoded := phase == "wait" || phase == "resp"
    let pre := if decoded then [Ev.bytes main, Ev.decoded main] else if phase == "hdr" || phase == "body" then [Ev.bytes main] else []
    let sSig := Model.Shutdown.run s0 (pre ++ [Ev.signal stage])
    -- without the shutdown callback nothing waits: Shutdown returns at once
    let cbRan := sSig.draining || sSig.exited
    let s := Model.Shutdown.run sSig ((List.replicate hold [Ev.exit, Ev.tick tickMs]).flatten ++ [Ev.exit])
    let exitFirst := s.exited || !cbRan
    let s1 := { s with exited := false }
    let s2 := Model.Shutdown.run s1 [Ev.bytes main, Ev.decoded main, Ev.respDone main]
    let req := outcome s1 s2 main
    let late := if idle == 0 then "na" else outcome s2 (Model.Shutdown.run s2 [Ev.decoded 0, Ev.respDone 0]) 0
    let ga := joinWith "," (s.conns.map (fun k => toString k.goAway))
    let cga := (s.conns.map (·.notified)).foldl (· + ·) 0
    -- the feeder: a bound, running listener of the same server, shut down by the same call
    let f := (lisShutdown ⟨Gen.Shutdown.ListenerRunning, true, true, true, true⟩ stage).1
    let newc := match probeResult f with | "acc" => "srv" | x => x
    let out := s!"req={req} exitfirst={if exitFirst then 1 else 0} goaway={ga} cga={cga} late={late} vstate0={lisVirtual.state} vstate={s.lis.state} fstate={f.state} new={newc} shut=ok"
    -- reference property, literal values: 13 = Upgrading, listener state 1 = Running
    let g (k : String) := (kv impl k).getD "?"
    let upgrade := stage == 13
    let gas := (g "goaway").splitOn ","
    let spec := g "req" == "ok" && g "shut" == "ok" && g "vstate0" != "1" && g "vstate" != "1"
      && gas.length == n && gas.all (· == "1") && g "cga" == toString n
      && (if upgrade then g "new" == "pend" else g "new" == "ref")
      && (upgrade || !decoded || g "exitfirst" == "0" || hold > drain)
      && (idle == 0 || g "late" == "ok")
    verdict (joinWith " " impl == out) spec out
  | _, _, _, _, _ => "E E bad-case"

/-! ### which listener of the new process adopts a handed-over connection (kinds tl, tf) -/
section lookup
open MosnVerif.Model.TransferLookup

def parseLsts (t : String) : Option (List Lst) :=
  if t == "-" then some [] else
  (t.splitOn ",").mapM (fun x => match x.splitOn "|" with
    | [n, a] => some (⟨n, a⟩ : Lst)
    | _ => none)

/-- reference, literal forms: the listener is configured on exactly the printed local address, or (TCP) on the IPv4 or
the IPv6 wildcard of its port -/
def refAccepts (kind net str port : String) (l : Lst) : Bool :=
  kind != "other" && l.network == net && (l.addr == str || (kind == "tcp" && (l.addr == "0.0.0.0:" ++ port || l.addr == "[::]:" ++ port)))

/-- reference property of a look-up result `r` (index or none): a listener is found iff one accepts the address; the one
found accepts it; a listener on exactly the address is preferred to a wildcard -/
def lookupSpec (ls : List Lst) (kind net str port : String) (r : Option Nat) : Bool :=
  match r with
  | none => !ls.any (refAccepts kind net str port)
  | some i => match ls[i]? with
    | none => false
    | some l => refAccepts kind net str port l && (!(ls.any (fun m => m.network == net && m.addr == str)) || l.addr == str)

def idxTok : Option Nat → String
  | some i => toString i
  | none => "-"

def tl (lsTok kind net str port v4 : String) (impl : List String) : String :=
  match parseLsts lsTok, impl with
  | some ls, [r] =>
    let a : Local := ⟨kind == "unix", net, str, port, v4 == "1"⟩
    -- the default branch of the type switch (neither TCP nor unix address) finds nothing
    let m := if kind == "other" then none else findIdx ls a
    let ri := if r == "-" then some none else r.toNat?.map some
    let spec := match ri with
      | some x => lookupSpec ls kind net str port x
      | none => false
    verdict (r == idxTok m) spec (idxTok m)
  | _, _ => "E E bad-case"

def tf (lsTok : String) (c : List String) (impl : List String) : String :=
  match parseLsts lsTok, kv c "acc", kv c "fam", kvNat c "half", kv impl "local", kv impl "v4" with
  | some ls, some acc, some fam, some half, some loc, some v4 =>
    let port := ((loc.splitOn ":").getLast?).getD ""
    let a : Local := ⟨false, "tcp", loc, port, v4 == "1"⟩
    let bytes : List UInt8 := (List.range half).map (fun i => UInt8.ofNat (i % 251))
    let res := match findIdx ls a, adopt ls a bytes [] with
      | some i, some (_, b, _) => if Model.Transfer.adoptedSurvives half && b == bytes then s!"id=1 by={i} req=ok" else s!"id=1 by={i} req=fail"
      | _, _ => s!"id={Gen.Transfer.transferErr} by=- req=fail"
    let out := s!"local={loc} v4={v4} {res}"
    let g (k : String) := (kv impl k).getD "?"
    -- the listener that accepted the connection in the old process is configured on an address that accepts the printed
    -- local address (checks the hand-modelled address forms), the family is the client's
    let accOk := acc == "-" || (match acc.toNat? >>= (ls[·]?) with
      | some l => refAccepts "tcp" "tcp" loc port l
      | none => false)
    let by_ := if g "by" == "-" then some none else (g "by").toNat?.map some
    let spec := accOk && (if fam == "4" then v4 == "1" else v4 == "0")
      && (if ls.any (refAccepts "tcp" "tcp" loc port) then
            g "id" == "1" && g "req" == "ok" && (match by_ with
              | some (some j) => lookupSpec ls "tcp" "tcp" loc port (some j)
              | _ => false)
          else g "id" == "0")
    verdict (joinWith " " impl == out) spec out
  | _, _, _, _, _, _ => "E E bad-case"
end lookup

/-! ### HTTP/2 graceful stop at frame granularity (kind h2ga) -/
section h2ga
open MosnVerif.Model

def parseGaEv (t : String) : Option H2GoAway.Ev :=
  if t == "G" then some .shutdown else
  let body := (t.drop 1).toString.splitOn "."
  match t.front, body with
  | 'H', [i, es, d] => i.toNat?.map (fun i => H2GoAway.Ev.headers i (es == "1") d.toNat?)
  | 'D', [i, n, es] => match i.toNat?, n.toNat? with
    | some i, some n => some (H2GoAway.Ev.data i n (es == "1"))
    | _, _ => none
  | 'R', [i] => i.toNat?.map H2GoAway.Ev.rst
  | _, _ => none

def gaOutTok : H2GoAway.Out → String
  | .deliver id b => s!"d{id}:{b}"
  | .goAway last code => s!"g{last}:{code}"
  | .rst id code => s!"r{id}:{code}"
  | .closed => "x"

def gaOutsTok (l : List H2GoAway.Out) : String := if l.isEmpty then "-" else joinWith "+" (l.map gaOutTok)

/-- reference bookkeeping of a well-behaved client's view (RFC 7540 §5.1, §6.8; literal values, no code of MOSN):
status of every stream the client opened, whether the server's GOAWAY has been triggered -/
inductive GaStatus
  | opened (bytes : Nat) (decl : Option Nat)
  | ended | reset | refused
deriving Inhabited

structure GaRef where
  maxSeen : Nat := 0          -- highest stream id the client used
  lastOpen : Nat := 0         -- highest stream id opened before the go-away
  gSeen : Bool := false
  strms : List (Nat × GaStatus) := []
  viol : Bool := false        -- the client broke the protocol: nothing is demanded from here on
  ok : Bool := true

def GaRef.get (r : GaRef) (id : Nat) : Option GaStatus := (r.strms.find? (fun p => p.1 == id)).map (·.2)
def GaRef.set (r : GaRef) (id : Nat) (s : GaStatus) : GaRef :=
  { r with strms := (id, s) :: r.strms.filter (fun p => p.1 != id) }

/-- one event and what was observed for it: every request opened before the go-away whose last frame this is must
be delivered here with its complete body and nothing else may happen (no reset, no connection error); the first
go-away must name the highest stream opened so far with code 0 -/
def gaRefStep (r : GaRef) (eo : H2GoAway.Ev × String) : GaRef :=
  if r.viol then r else
  let (e, o) := eo
  let expect (r' : GaRef) (want : String) : GaRef := { r' with ok := r'.ok && o == want }
  match e with
  | .shutdown =>
    if r.gSeen then expect r "-" else expect { r with gSeen := true } s!"g{r.lastOpen}:0"
  | .headers id es decl =>
    match r.get id with
    | none =>
      if id % 2 != 1 || id ≤ r.maxSeen then { r with viol := true }
      else if r.gSeen then expect ({ r with maxSeen := id }.set id .refused) "-"
      else if es then expect ({ r with maxSeen := id, lastOpen := id }.set id .ended) s!"d{id}:0"
      else expect ({ r with maxSeen := id, lastOpen := id }.set id (.opened 0 decl)) "-"
    | some (.opened b _) => if es then expect (r.set id .ended) s!"d{id}:{b}" else { r with viol := true }
    | some .refused => expect r "-"
    | some _ => { r with viol := true }
  | .data id n es =>
    match r.get id with
    | some (.opened b decl) =>
      if (match decl with | some d => decide (d < b + n) | none => false) then { r with viol := true }
      else if es then expect (r.set id .ended) s!"d{id}:{b + n}"
      else expect (r.set id (.opened (b + n) decl)) "-"
    | some .refused => expect r "-"
    | _ => { r with viol := true }
  | .rst id =>
    match r.get id with
    | some (.opened _ _) | some .ended => expect (r.set id .reset) "-"
    | some .refused => expect r "-"
    | _ => { r with viol := true }

def h2ga (evTok : String) (impl : List String) : String :=
  match (evTok.splitOn ",").mapM parseGaEv, impl with
  | some evs, [obsTok] =>
    let obs := obsTok.splitOn ","
    if obs.length != evs.length then "E E events-observations-mismatch" else
    let model := joinWith "," ((H2GoAway.trace H2GoAway.Conn.initial evs).map gaOutsTok)
    let ref := (evs.zip obs).foldl gaRefStep {}
    verdict (model == obsTok) ref.ok model
  | _, _ => "E E bad-case"
end h2ga

def run (caseToks impl : List String) : String :=
  match caseToks with
  | ["h2ga", evs] => h2ga evs impl
  | ["h1d", evs] => C11D.h1d evs impl
  | ["h2gw", evs] => C11D.h2gw evs impl
  | ["th", a, b] => th a b impl
  | ["tr", d, t, r] => tr d t r impl
  | ["tw", i, d, r] => tw i d r impl
  | ["ti", i] => ti i impl
  | ["tm", w] => tm w impl
  | ["tt", w] => tt w impl
  | ["ls", b, i, o] => ls b i o impl
  | ["sm", f, a] => sm f a impl
  | "gs" :: c => gs c impl
  | "vl" :: c => vl c impl
  | ["tl", ls, kind, net, str, port, v4] => tl ls kind net str port v4 impl
  | "tf" :: ls :: c => tf ls c impl
  | "up" :: c => up c impl
  | "rs" :: c => rs c impl
  | "up2" :: c => up2 c impl
  | "gs2" :: c => gs2 c impl
  | "st" :: c => C11U.st c impl
  | "hw" :: c => C11U.hw c impl
  | "hwl" :: c => C11S.hwl c impl
  | "rh" :: c => C11U.rh c impl
  | "tg" :: c => C11T.tg c impl
  | "tx" :: c => C11T.tx c impl
  | _ => "E E unknown-kind"

end MosnVerif.Drive.C11
