import MosnVerif.Drive.Util
import MosnVerif.Model.DispatchCtxSpec
/-!
Driver of the kind `ctx` (shared by C02 and C07; core Lean only):

  `ctx <proto> <stream hex> <frames> <chunks> => <as> <bs> <cls> <decoded classes> <acks> <residue length> <failed>`

`frames`: `,`-separated `k:id:tokF:tokR:len` with k = q (request) | o (one-way) | r (response) | h (heartbeat), as the
real decoder classifies the frame in isolation; `chunks`: byte counts of the reads.  `as` / `bs`: per delivered request
`fid.ftok.sid.vid.rtok` (`-` = nothing there) read back after the Dispatch call / after the last read; `cls`: index of
the first decoded frame that was decoded with the same context.
-/
namespace MosnVerif.Drive.DispatchCtx
open MosnVerif.Drive MosnVerif.Model.DispatchCtx

def list (s : String) : List String := if s == "-" then [] else s.splitOn ","

def parseFrame (s : String) : Option (Frame × Nat) :=
  match s.splitOn ":" with
  | [k, id, tf, tr, len] =>
    let kind : Option Kind := match k with
      | "q" => some .request | "o" => some .oneway | "r" => some .response | "h" => some .heartbeat | _ => none
    match kind, id.toNat?, tf.toNat?, tr.toNat?, len.toNat? with
    | some kind, some id, some tf, some tr, some len => some ({ kind := kind, id := id, tokF := tf, tokR := tr }, len)
    | _, _, _, _, _ => none
  | _ => none

/-- frames with the stream offset at which each ends -/
def withEnds (acc : Nat) : List (Frame × Nat) → List (Frame × Nat)
  | [] => []
  | (f, n) :: r => (f, acc + n) :: withEnds (acc + n) r

/-- the frames each read completes: a frame is decoded by the Dispatch call of the read that brings its last byte -/
def group (acc : Nat) (fs : List (Frame × Nat)) : List Nat → List (List Frame)
  | [] => []
  | n :: ns =>
    let a := acc + n
    let done := fs.takeWhile (·.2 ≤ a)
    done.map (·.1) :: group a (fs.drop done.length) ns

def optS : Option Nat → String
  | none => "-"
  | some n => toString n

def seenS (s : Seen) : String := s!"{optS s.fid}.{optS s.ftok}.{optS s.sid}.{optS s.vid}.{optS s.rtok}"

def parseOpt (s : String) : Option (Option Nat) := if s == "-" then some none else s.toNat?.map some

def parseSeen (s : String) : Option Seen :=
  match s.splitOn "." with
  | [a, b, c, d, e] =>
    match parseOpt a, parseOpt b, parseOpt c, parseOpt d, parseOpt e with
    | some a, some b, some c, some d, some e => some ⟨a, b, c, d, e⟩
    | _, _, _, _, _ => none
  | _ => none

def natsS (l : List Nat) : String := if l.isEmpty then "-" else joinWith "," (l.map toString)
def seensS (l : List Seen) : String := if l.isEmpty then "-" else joinWith "," (l.map seenS)

/-- bolt and boltv2 decode into the Request object pooled in the context; the other codecs allocate a frame per decode -/
def poolsFrame (proto : String) : Bool := proto == "bolt" || proto == "boltv2"

def run (proto framesT chunksT : String) (impl : List String) : String :=
  match (list framesT).mapM parseFrame, (list chunksT).mapM (·.toNat?), impl with
  | some fls, some chunks, [asT, bsT, clsT, decT, acksT, resT, failT] =>
    match (list asT).mapM parseSeen, (list bsT).mapM parseSeen, (list clsT).mapM (·.toNat?), (list acksT).mapM (·.toNat?) with
    | some ias, some ibs, some icls, some iacks =>
      let frames := fls.map (·.1)
      let pf := poolsFrame proto
      let calls := group 0 (withEnds 0 fls) chunks
      let (s, as) := runA genShape pf init [] calls
      let bs := views genShape pf s
      let total := chunks.foldl (· + ·) 0
      let consumed := (fls.map (·.2)).foldl (· + ·) 0
      let model := s!"{seensS as} {seensS bs} {natsS (deliveredClasses s)} {natsS (classes s.decoded)} {natsS s.acks} {total - consumed} 0"
      let implS := s!"{asT} {bsT} {clsT} {decT} {acksT} {resT} {failT}"
      let agree := model == implS
      let spec := failT == "0" && specCtx frames ias ibs icls iacks
      s!"{if agree then "A" else "D"} {if spec then "S" else "V"} {model}"
    | _, _, _, _ => "E E bad-impl"
  | _, _, _ => "E E bad-case"

end MosnVerif.Drive.DispatchCtx
