import MosnVerif.Drive.Util
import MosnVerif.Model.H2ClientSettings
/-! [c08l9] helper driver of C08, kind `h2set` (SETTINGS values of an upstream at and outside every range edge, then a
request with a large header block / body under a frame watchdog). Core Lean only; no `main`. -/
namespace MosnVerif.Drive.C08Set
open MosnVerif.Drive MosnVerif.Model.H2ClientSettings MosnVerif.Gen

def cnt : Option Nat → String
  | some n => toString n
  | none => "run"

def parseCnt (s : String) : Option (Option Nat) :=
  if s == "run" then some none else s.toNat?.map some

def showOut (o : Outcome) (h b : Nat) : String :=
  s!"{o.settle} {o.r1} {o.same} {h} {cnt o.nH} {o.maxH} {b} {cnt o.nD} {o.maxD} {o.zero}"

/-- `h2set <id>:<val> <hdr> <body> => <settle> <r1> <same> <H> <nH> <maxH> <B> <nD> <maxD> <zero>`.  Model: the
regenerated callback of MClientConn.processSettings on the one parameter, then the chunking loops with the stored frame
size on the header block the peer measured (H) and the body.  Predicate: `h2setSpec` of what the peer observed. -/
def h2set (setting hdr body : String) (impl : List String) : String :=
  match setting.splitOn ":", hdr.toNat?, body.toNat?, impl with
  | [i, v], some hdr, some b, [settle, r1, same, hS, nH, maxH, bS, nD, maxD, zr] =>
    match i.toNat?, v.toNat?, hS.toNat?, parseCnt nH, maxH.toNat?, bS.toNat?, parseCnt nD, maxD.toNat?, zr.toNat? with
    | some id, some val, some h, some nH, some maxH, some bI, some nD, some maxD, some zeroN =>
      let o : Outcome := { settle, r1, same, nH, maxH, nD, maxD, zero := zeroN }
      let m := h2setModel C08H2Settings.clientValidatesFirst C08H2Settings.clientApplies id val hdr h b
      -- a request refused before anything was written has no body on the wire
      let bM := if m.nD == some 0 then 0 else b
      let agree := m == o && bI == bM
      s!"{if agree then "A" else "D"} {if h2setSpec o then "S" else "V"} {showOut m h bM}"
    | _, _, _, _, _, _, _, _, _ => "E E bad-h2set-numbers"
  | _, _, _, _ => "E E bad-h2set-case"

end MosnVerif.Drive.C08Set
