import MosnVerif.Drive.Util
import MosnVerif.Model.PerTryArm
/-!
[c17pt] kind `pa`: k retriable outcomes, then a silent upstream on attempt k (line format: harness/c17/c17pt.go).
Model = the attempt machine of `Model/Retry.lean` + the regenerated arming condition and call sites (`Model/PerTryArm.lean`):
is a per-try timer held for the silent attempt, which timer ends it, how many attempts, which final status.
Predicate (written without the regenerated code): the timer is held, the attempt is ended by the per-try timer, and a
per-try timeout is retried exactly when retry_on is configured and budget max(3, num_retries) is left.
-/
namespace MosnVerif.Drive.C17PerTry
open MosnVerif.Drive MosnVerif.Model.Retry MosnVerif.Model.PerTryArm

def lastReply (t : List Ev) : String :=
  match (t.filterMap (fun e => match e with | .reply c => some c | _ => none)).getLast? with
  | some c => toString c
  | none => "-"

def pa (a : List String) (impl : List String) : String :=
  match a, impl with
  | [onS, nrS, kS, cause, tryS, globalS], [iAtt, iFinal, iHeld, iCause] =>
    match nrS.toNat?, kS.toNat?, tryS.toNat?, globalS.toNat? with
    | some nr, some k, some tryMs, some globalMs =>
      let on := onS == "1"
      let bud := max 3 nr
      if k > bud ∨ (cause == "s5" ∧ !on) ∨ !(["pc", "pb", "cf", "s5"].contains cause) ∨ tryMs = 0 ∨ tryMs * 20 > globalMs then "E E bad-case" else
      let p : Policy := { retryOn := on, numRetries := nr, codes := [], tryTimeout := true, disable := false }
      let o : Outcome := if cause == "cf" then .connFail else if cause == "s5" then .resp 503 else .poolConnFail
      let ls : List Label := (List.range k).map (fun i => ⟨o, true, some ((i + 1) % 2)⟩)
      -- a refused first attempt of a request with a body ends before the request was completely sent: the global timer
      -- is not armed yet when doRetry sends the second attempt
      let g : Nat → Bool := fun n => !(cause == "pb" && n == 2)
      let s := run p (some 0) ls
      let armed := ((armLog p (tryMs : Int) g (some 0) ls)[k]?).getD false
      let endC := (silentEnd armed ((k * 10 : Nat) : Int) (tryMs : Int) (globalMs : Int)).2
      let nxt : Label := ⟨if endC == .perTry then .perTry else .global, true, some ((k + 1) % 2)⟩
      let s2 := step { p with tryTimeout := armed } s nxt
      let s3 := if s2.live then step p s2 ⟨.resp 200, true, some 0⟩ else s2
      let m := s!"{s3.attempts} {lastReply s3.trace} {if armed then "1" else "0"} {if endC == .perTry then "try" else "global"}"
      let retried := on && decide (k < bud)
      let want := s!"{k + 1 + (if retried then 1 else 0)} {if retried then "200" else "504"} 1 try"
      let out := s!"{iAtt} {iFinal} {iHeld} {iCause}"
      s!"{if m == out then "A" else "D"} {if want == out then "S" else "V"} {m}"
    | _, _, _, _ => "E E bad-case"
  | _, _ => "E E bad-case"

end MosnVerif.Drive.C17PerTry
