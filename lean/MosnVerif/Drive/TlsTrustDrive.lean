import MosnVerif.Drive.Util
import MosnVerif.Model.TlsTrust
/-!
Driver of the trust-anchor kinds of C13 (called from Drive/C13.lean):
  trust2 <cls> <store> <cfg> <require> <verify> <peer>            => ok|fail   listener verifying a client
  trustc2 <cls> <store> <cfg> <hook> <insecure> <snset> <cert>    => ok|fail   cluster verifying its upstream
store = authorities of the host's root store, cfg = authorities of the configured ca_cert (ids joined by `+`, `-` = none);
peer = `none` | `<issuer>:<e|v>:<k|s>` (expired / valid, holds the key / stolen certificate);
cert = `<issuer>:<e|v>:<n|w>:<u|x>` (carries the configured server_name / another name, the configured URI / none).
-/
namespace MosnVerif.Drive.TlsTrustDrive
open MosnVerif.Drive MosnVerif.Model.TlsTrust

def cas? (s : String) : Option (List CA) :=
  if s == "-" then some [] else (s.splitOn "+").mapM (·.toNat?)

def bool? (s : String) : Option Bool :=
  if s == "1" then some true else if s == "0" then some false else none

def pick? (t f s : String) : Option Bool :=
  if s == t then some true else if s == f then some false else none

def peer? (s : String) : Option (Option Cert) :=
  if s == "none" then some none
  else match s.splitOn ":" with
    | [i, e, k] => match i.toNat?, pick? "e" "v" e, pick? "k" "s" k with
      | some i, some e, some k => some (some ⟨i, e, k⟩)
      | _, _, _ => none
    | _ => none

def scert? (s : String) : Option SCert :=
  match s.splitOn ":" with
  | [i, e, n, u] => match i.toNat?, pick? "e" "v" e, pick? "n" "w" n, pick? "u" "x" u with
    | some i, some e, some n, some u => some ⟨⟨i, e, true⟩, n, u⟩
    | _, _, _, _ => none
  | _ => none

def okfail (b : Bool) : String := if b then "ok" else "fail"

def verdict (model : String) (impl : String) (spec : Bool) : String :=
  s!"{if model == impl then "A" else "D"} {if spec then "S" else "V"} {model}"

def run (caseToks impl : List String) : String :=
  match caseToks, impl with
  | ["trust2", _, store, cfg, req, ver, peer], [r] =>
    match cas? store, cas? cfg, bool? req, bool? ver, peer? peer with
    | some sys, some cfg, some req, some ver, some p =>
      verdict (okfail (listenerAccepts sys cfg req ver p)) r (r == okfail (specListenerAccepts sys cfg req ver p))
    | _, _, _, _, _ => "E E bad-case"
  | ["trustc2", _, store, cfg, hook, ins, sn, cert], [r] =>
    match cas? store, cas? cfg, bool? hook, bool? ins, bool? sn, scert? cert with
    | some sys, some cfg, some hook, some ins, some sn, some s =>
      verdict (okfail (upstreamAccepts sys cfg hook ins sn s)) r (r == okfail (specUpstreamAccepts sys cfg hook ins sn s))
    | _, _, _, _, _, _ => "E E bad-case"
  | _, _ => "E E unknown-kind"

end MosnVerif.Drive.TlsTrustDrive
