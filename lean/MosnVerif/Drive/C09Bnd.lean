import MosnVerif.Drive.C09MxWin
import MosnVerif.Model.PoolPlace
/-!
Driver of kind `bnd` (pool9): histories on the REAL xprotocol binding pool (one upstream connection per downstream
connection; the harness uses one downstream connection at a time).

case : `bnd <maxReq> <ops>`     impl: one token per op, format of kind `mxw`
ops  : `N` NewStream, `Y` NewStream with the upstream connection closed by MOSN between the creation of the stream and
       the registration of the pool's listener (yield hook; model: a `netClose` label between `place` and `listen` of the
       REGENERATED NewStream program `Gen/PoolPlace.bindNewStreamProg`), `R<s>` response, `L<s>` local reset,
       `CR<c>` / `CL<c>` close by the upstream / by MOSN, `E+` / `E-` breaker slot held elsewhere.
`A`: `Model/PoolMxWin` with the binding pool's regenerated programs (`Model/PoolPlace.bindProgs`), run to quiescence
after every operation, predicts every token.  `Spec`: the predicate of kind `h2w` (counters = truth after every
operation; nothing in flight on a closed connection; a stream is granted only on an open connection and only while the
breaker has room) — pp_/bind_place_listen_ledger_exact_steps.
-/
namespace MosnVerif.Drive.C09Bnd
open MosnVerif.Drive MosnVerif.Drive.C09MxWin
open MosnVerif.Model.PoolMxWin

def parseOp (t : String) : Option XOp :=
  if t == "Y" then some (.nw 0) else C09MxWin.parseOp true t

def run (mr ops : String) (impl : List String) : String :=
  match mr.toNat?, (ops.splitOn ",").mapM parseOp with
  | some maxReq, some opl =>
    let s0 := initWith .h2 1 maxReq MosnVerif.Model.PoolPlace.bindProgs
    let toks := modelToks true s0 [] opl
    let agree := impl == toks
    let spec := impl.length == opl.length && specAlong true maxReq 0 [] emptyObs opl impl
    s!"{if agree then "A" else "D"} {if spec then "S" else "V"} {joinWith " " toks}"
  | _, _ => "E E bad-case"

end MosnVerif.Drive.C09Bnd
