import MosnVerif.Drive.Util
import MosnVerif.Model.FrameSteps
import MosnVerif.Model.Match
import MosnVerif.Model.FrameSpec
import MosnVerif.Model.FrameH2
import MosnVerif.Model.ReadLoop
import MosnVerif.Model.ReadLoopSpec
import MosnVerif.Drive.DispatchCtx
import MosnVerif.Model.FrameOwn
import MosnVerif.Drive.C07H1Seg
import MosnVerif.Drive.C07H1Cont
/-! driver of C07 (segmentation independence): see `run` for the case kinds. Core Lean only. -/
namespace MosnVerif.Drive.C07
open MosnVerif.Model.FramingS MosnVerif.Model.FrameH2 MosnVerif.Gen.FrameConsts
open MosnVerif.Drive MosnVerif.Model.Framing MosnVerif.Model.FrameSteps MosnVerif.Model.FrameSpec MosnVerif.Model.Match

def parseNats (s : String) : Option (List Nat) :=
  if s == "-" then some [] else (s.splitOn ",").mapM (·.toNat?)

def parseHexList (s : String) : Option (List Bytes) :=
  if s == "-" then some [] else (s.splitOn ",").mapM unhex

def chunk : Bytes → List Nat → List Bytes
  | s, [] => if s.isEmpty then [] else [s]
  | s, n :: ns => s.take n :: chunk (s.drop n) ns

def hexList (l : List Bytes) : String := if l.isEmpty then "-" else joinWith "," (l.map hex)

def hex32 (h : UInt32) : String :=
  let n := h.toNat
  String.ofList ((List.range 8).map (fun i => hexDigit ((n / 16 ^ (7 - i)) % 16)))

def parseHex32 (s : String) : Option UInt32 :=
  if s.length != 8 then none else
  (s.toList.foldlM (fun (acc : Nat) c => (hexVal c).map (fun v => acc * 16 + v)) 0).map UInt32.ofNat

def flag (b : Bool) : String := if b then "1" else "0"

/-- every generated frame was accepted by the real decoder in isolation, so the black-box payload parsers (hessian2,
thrift, TarsGo) are instantiated with the oracle "accepts" -/
def accept : Bytes → Bool := fun _ => true

/-- `seg <proto> <stream> <frame lengths> <chunk lengths> => <frames> <residue> <failed>` -/
def seg (proto stream lens chunks : String) (impl : List String) : String :=
  match frameStepOf proto accept, unhex stream, parseNats lens, parseNats chunks, impl with
  | some d, some s, some ls, some cs, [fr, res, fl] =>
    match parseHexList fr, unhex res with
    | some ifr, some ires =>
      let c := MosnVerif.Model.Framing.run d (chunk s cs)
      let agree := c.out == ifr && c.buf == ires && flag c.failed == fl
      let spec := specSeg s ls ifr ires (fl != "0")
      s!"{if agree then "A" else "D"} {if spec then "S" else "V"} {hexList c.out} {hex c.buf} {flag c.failed}"
    | _, _ => "E E bad-impl"
  | _, _, _, _, _ => "E E bad-case"

def cutObs (c : Conn Bytes) (afterFirst : Nat) : String :=
  s!"{afterFirst}:{c.out.length}:{hex32 (digest c.out c.buf)}:{flag c.failed}"

/-- `cuts <proto> <stream> <frame lengths> => <a:b:digest:failed>,…` one entry per cut offset 1 … |stream|-1 -/
def cuts (proto stream lens : String) (impl : List String) : String :=
  match frameStepOf proto accept, unhex stream, parseNats lens, impl with
  | some d, some s, some ls, [obs] =>
    let ks := (List.range (s.length - 1)).map (· + 1)
    let model := ks.map (fun k =>
      let c1 := feed d Conn.init (s.take k)
      let c2 := feed d c1 (s.drop k)
      cutObs c2 c1.out.length)
    let io := if obs == "-" then [] else obs.splitOn ","
    let agree := model == io
    let specOne (k : Nat) (o : String) : Bool :=
      match o.splitOn ":" with
      | [a, b, h, f] =>
        (match a.toNat?, b.toNat?, parseHex32 h with
         | some a, some b, some dg => specCut s ls k a b dg (f != "0")
         | _, _, _ => false)
      | _ => false
    let spec := io.length == ks.length && (ks.zip io).all (fun p => specOne p.1 p.2)
    let firstDiff := ((ks.zip (model.zip io)).find? (fun p => p.2.1 != p.2.2)).map (fun p => s!"k={p.1} model={p.2.1}")
    s!"{if agree then "A" else "D"} {if spec then "S" else "V"} {firstDiff.getD "all-cuts-agree"}"
  | _, _, _, _ => "E E bad-case"

def mrChar : MR → Char
  | .again => 'A' | .success => 'S' | .failed => 'F'

/-- `match <stream> <maxprefix> => name=AAS…,name=…` answers of every matcher on the prefixes 0 … maxprefix -/
def matchK (stream maxp : String) (impl : List String) : String :=
  match unhex stream, maxp.toNat?, impl with
  | some s, some mp, [obs] =>
    let entries := obs.splitOn ","
    let results := entries.map (fun e =>
      match e.splitOn "=" with
      | [name, str] =>
        (match matcherOf name with
         | some m =>
           let model := String.ofList ((List.range (mp + 1)).map (fun k => mrChar (m (s.take k))))
           (name, model, str, specMono str.toList && str.length == mp + 1 && str.toList.all (fun ch => ch == 'A' || ch == 'S' || ch == 'F'))
         | none => (name, "?", str, false))
      | _ => (e, "?", "", false))
    let agree := results.all (fun r => r.2.1 == r.2.2.1)
    let spec := results.all (fun r => r.2.2.2) && !results.isEmpty
    let bad := (results.find? (fun r => r.2.1 != r.2.2.1)).map (fun r => s!"{r.1}={r.2.1}")
    s!"{if agree then "A" else "D"} {if spec then "S" else "V"} {bad.getD "all-matchers-agree"}"
  | _, _, _ => "E E bad-case"

def selChar (names : List String) : SelRes → String
  | .again => "A" | .failed => "F"
  | .proto n => toString ((names.idxOf n))

/-- `select <scope: name,name,…> <stream> <maxprefix> => r0,r1,…` result of `SelectStreamFactoryProtocol` with that
scope on every prefix (`A`, `F` or the index of the chosen protocol in the scope).  Property: once a protocol is
chosen or the selection failed, every longer prefix gives the same answer. -/
def selectK (scope stream maxp : String) (impl : List String) : String :=
  match unhex stream, maxp.toNat?, impl with
  | some s, some mp, [obs] =>
    let names := scope.splitOn ","
    match names.mapM (fun n => (matcherOf n).map (fun m => (n, m))) with
    | some ms =>
      let model := (List.range (mp + 1)).map (fun k => selChar names (select ms (s.take k)))
      let io := obs.splitOn ","
      let agree := model == io
      let rec stable : List String → Bool
        | [] => true
        | [_] => true
        | a :: b :: r => (a == "A" || a == b) && stable (b :: r)
      let spec := stable io && io.length == mp + 1
      s!"{if agree then "A" else "D"} {if spec then "S" else "V"} {joinWith "," model}"
    | none => "E E unknown-matcher"
  | _, _, _ => "E E bad-case"

/-- the HTTP/2 server-side decoder with the default read limit; payload parsers and HPACK are instantiated with
"accepts" (the generated frames are valid) -/
def h2d : Bool → Bytes → Step (Option Bytes × Bool) := h2Step http2_defaultMaxReadFrameSize accept accept

def h2Items (l : List (Option Bytes)) : List Bytes := l.filterMap id

/-- `h2seg <stream> <item lengths> <chunk lengths> => <items> <residue> <failed>`: item = the preface or one frame /
HEADERS+CONTINUATION group, as drained by the real `ServerProto.Decode` in a loop shaped like http2 `Dispatch` -/
def h2seg (stream lens chunks : String) (impl : List String) : String :=
  match unhex stream, parseNats lens, parseNats chunks, impl with
  | some s, some ls, some cs, [fr, res, fl] =>
    match parseHexList fr, unhex res with
    | some ifr, some ires =>
      let c := srun h2d false (chunk s cs)
      -- the preface item is printed by its bytes as well
      let out := c.out.map (fun o => o.getD ((http2_preface.map UInt8.ofNat)))
      let agree := out == ifr && c.buf == ires && flag c.failed == fl
      let spec := specSeg s ls ifr ires (fl != "0")
      s!"{if agree then "A" else "D"} {if spec then "S" else "V"} {hexList out} {hex c.buf} {flag c.failed}"
    | _, _ => "E E bad-impl"
  | _, _, _, _ => "E E bad-case"

/-- `h2cuts <stream> <item lengths> => <a:b:digest:failed>,…` every two-read delivery -/
def h2cuts (stream lens : String) (impl : List String) : String :=
  match unhex stream, parseNats lens, impl with
  | some s, some ls, [obs] =>
    let ks := (List.range (s.length - 1)).map (· + 1)
    let pre := http2_preface.map UInt8.ofNat
    let init : SConn (Option Bytes) Bool := { buf := [], out := [], failed := false, st := false }
    let model := ks.map (fun k =>
      let c1 := sfeed h2d init (s.take k)
      let c2 := sfeed h2d c1 (s.drop k)
      s!"{c1.out.length}:{c2.out.length}:{hex32 (digest (c2.out.map (fun o => o.getD pre)) c2.buf)}:{flag c2.failed}")
    let io := if obs == "-" then [] else obs.splitOn ","
    let agree := model == io
    let specOne (k : Nat) (o : String) : Bool :=
      match o.splitOn ":" with
      | [a, b, h, f] =>
        (match a.toNat?, b.toNat?, parseHex32 h with
         | some a, some b, some dg => specCut s ls k a b dg (f != "0")
         | _, _, _ => false)
      | _ => false
    let spec := io.length == ks.length && (ks.zip io).all (fun p => specOne p.1 p.2)
    let firstDiff := ((ks.zip (model.zip io)).find? (fun p => p.2.1 != p.2.2)).map (fun p => s!"k={p.1} model={p.2.1}")
    s!"{if agree then "A" else "D"} {if spec then "S" else "V"} {firstDiff.getD "all-cuts-agree"}"
  | _, _, _ => "E E bad-case"

/-! ### kind `rl`: the connection read loop -/
open MosnVerif.Model.ReadLoop (Ev Params St dispatchConsumer toConn)
open MosnVerif.Gen.ReadLoopConn (CloseEv)

inductive Tok where
  | r (n : Nat) | t | o (len cap : Nat) | c (k : String) | bad
deriving DecidableEq

def parseTok (s : String) : Tok :=
  match s.toList with
  | ['t'] => .t
  | 'r' :: rest => match (String.ofList rest).toNat? with | some n => .r n | none => .bad
  | 'c' :: rest => .c (String.ofList rest)
  | 'o' :: rest =>
    match (String.ofList rest).splitOn "." with
    | [a, b] => (match a.toNat?, b.toNat? with | some x, some y => .o x y | _, _ => .bad)
    | _ => .bad
  | _ => .bad

/-- the `ReadOnce` results behind an observed trace (hand-off tokens removed): `r<n>` directly followed by the close
event `ce` was a read that returned io.EOF, `cx` alone a read error; a close by anyone else ends the trace. -/
def toEvents (s : Bytes) : Nat → List Tok → Option (List Ev)
  | _, [] => some []
  | pos, .r n :: .c "e" :: rest =>
    let chunk := (s.drop pos).take n
    if chunk.length != n then none else (toEvents s (pos + n) rest).map (fun l => Ev.eof chunk :: l)
  | pos, .r n :: rest =>
    let chunk := (s.drop pos).take n
    if chunk.length != n then none else (toEvents s (pos + n) rest).map (fun l => Ev.read chunk :: l)
  | pos, .t :: rest => (toEvents s pos rest).map (fun l => Ev.timeout :: l)
  | pos, .c "x" :: rest => (toEvents s pos rest).map (fun l => Ev.error :: l)
  | _, .c _ :: _ => some []
  | _, _ => none

def closeTok : CloseEv → String
  | .remoteClose => "ce" | .onReadErrClose => "cx" | .localClose => "cl" | .other => "co"

/-- the trace the model predicts for these `ReadOnce` results, and the final state -/
def modelTrace (P : Params) (d : Bytes → Step Bytes) (evs : List Ev) : List String × St (List Bytes × Bool) :=
  evs.foldl (fun (acc : List String × St (List Bytes × Bool)) e =>
    let s := acc.2
    if s.closed.isSome then acc else
    let s' := MosnVerif.Model.ReadLoop.step P (dispatchConsumer d) s e
    let ob := match MosnVerif.Model.ReadLoop.observe P s e with
      | some (l, c) => [s!"o{l}.{c}"]
      | none => []
    let cl := match s'.closed with | some k => [closeTok k] | none => []
    let toks := match e with
      | .read c => [s!"r{c.length}"] ++ ob ++ cl
      | .eof c => [s!"r{c.length}"] ++ ob ++ cl
      | .timeout => ["t"] ++ cl
      | .error => cl
    (acc.1 ++ toks, s')) ([], St.init ([], false))

/-- `rl|rlnp <proto> <stream> <frame lengths> <default read buffer size, 0 = not configured> <script> =>
<trace> <frames> <residue> <failed>`: the script (writes and stalls of the peer) is not used by the model: what the read
loop saw is in the observed trace (`r<n>` read of n bytes, `t` read timeout, `o<len>.<cap>` hand-off of the read buffer
to the filter, `c<e|x|l|o>` close event).  The model is run on the observed `ReadOnce` results and must reproduce the
hand-offs (buffered length and capacity), the close, the frames, the residue and the failed flag. -/
def rl (netpoll : Bool) (proto stream lens dflt : String) (impl : List String) : String :=
  match frameStepOf proto accept, unhex stream, parseNats lens, dflt.toNat?, impl with
  | some d, some s, some ls, some df, [tr, fr, res, fl] =>
    match parseHexList fr, unhex res with
    | some ifr, some ires =>
      let toks := (if tr == "-" then [] else tr.splitOn ",").map parseTok
      let sizes := toks.filterMap (fun tk => match tk with | .r n => some n | _ => none)
      let spec := MosnVerif.Model.ReadLoopSpec.specReadLoop s ls sizes ifr ires (fl != "0")
      let sv := if spec then "S" else "V"
      match toEvents s 0 (toks.filter (fun tk => match tk with | .o _ _ => false | _ => true)) with
      | none => s!"D {sv} trace-does-not-parse"
      | some evs =>
        let dfl : Int := if df == 0 then MosnVerif.Gen.ReadLoopConn.defaultReadBufferSize else (df : Int)
        -- netpoll mode (kind rlnp): the copies of the statement in the read-timeout timer / event-loop onRead; the timer
        -- runs on its own goroutine, so the position of `t` among the other tokens is not exact: contents only.  An observed
        -- `t` is the timer callback: the first copy in source order (the second one, in the event loop's onRead, needs a
        -- deadline error from a read that epoll announced as readable)
        let P : Params := if netpoll then { network := "tcp", dflt := dfl, shrinks := MosnVerif.Gen.ReadLoopConn.netpollShrinks.take 1 }
          else Params.actual dfl
        let m := modelTrace P d evs
        let c := toConn m.2
        let mt := if m.1.isEmpty then "-" else joinWith "," m.1
        let agree := (netpoll || mt == tr) && c.out == ifr && c.buf == ires && flag c.failed == fl
        s!"{if agree then "A" else "D"} {sv} {mt} {hexList c.out} {hex c.buf} {flag c.failed}"
    | _, _ => "E E bad-impl"
  | _, _, _, _, _ => "E E bad-case"

/-! ### kinds `pkt` (decoded content is frame-local) and `h2own` (delivered HTTP/2 messages are owned) -/
open MosnVerif.Model.FrameOwn in
/-- `pkt <proto> <stream> <len:tok,…> <chunk lengths> => <tok,…> <residue length> <failed>`: tok of a frame in the case =
content token of that frame decoded ALONE by the real decoder (fresh connection, nothing behind it); observed = content
token of every frame the real Dispatch decoded in this chunking.  The model runs `contentStep proto parse` (header stage
and the view of the payload parser regenerated) with `parse` = the table frame bytes ↦ token: bytes that are not exactly
one of the frames have no content (a parser that sees more than its frame fails or reads the neighbour). -/
def pkt (proto stream frames chunks : String) (impl : List String) : String :=
  let parseFr (e : String) : Option (Nat × String) :=
    match e.splitOn ":" with
    | [l, t] => l.toNat?.map (fun n => (n, t))
    | _ => none
  match unhex stream, (frames.splitOn ",").mapM parseFr, parseNats chunks, impl with
  | some s, some frs, some cs, [got, res, fl] =>
    let table := (splitBy s (frs.map (·.1))).1.zip (frs.map (·.2))
    let parse : Bytes → Option String := fun w => (table.find? (fun p => p.1 == w)).map (·.2)
    match contentStep proto parse, res.toNat? with
    | some d, some rn =>
      let c := MosnVerif.Model.Framing.run d (chunk s cs)
      let mtoks := c.out.map (·.2)
      let itoks := if got == "-" then [] else got.splitOn ","
      let agree := mtoks == itoks && c.buf.length == rn && flag c.failed == fl
      let spec := specPkt s.length frs itoks rn (fl != "0")
      s!"{if agree then "A" else "D"} {if spec then "S" else "V"} {if mtoks.isEmpty then "-" else joinWith "," mtoks} {c.buf.length} {flag c.failed}"
    | _, _ => "E E bad-proto"
  | _, _, _, _ => "E E bad-case"

open MosnVerif.Model.FrameOwn in
/-- `h2own <req|resp> <stream> <message,…> <chunk lengths> => <views at delivery> <views at the end> <failed>`:
message = `id.headers-token.body-hex.trailers-token` as the generator wrote it; the views are what the receiver reads
from the header / body / trailer objects it KEPT: when it was handed them, and again after all reads of the case were
dispatched and the read buffer was rewritten.  Model: under the regenerated copy discipline of handleFrame the kept
objects hold the message; an aliased body has no predictable content (`?`). -/
def h2own (dir stream msgs chunks : String) (impl : List String) : String :=
  match unhex stream, parseNats chunks, impl with
  | some s, some cs, [atD, atE, fl] =>
    if cs.sum != s.length then "E E chunks-do-not-cover" else
    let sent := if msgs == "-" then [] else msgs.splitOn ","
    let ld := if atD == "-" then [] else atD.splitOn ","
    let le := if atE == "-" then [] else atE.splitOn ","
    let pass := if dir == "req" then passServer else passClient
    let model := match pass with
      | .copy => sent
      | .alias => sent.map (fun _ => "?")
    let agree := ld == sent && le == model && fl == "0"
    let spec := specOwn sent ld le (fl != "0")
    s!"{if agree then "A" else "D"} {if spec then "S" else "V"} {if model.isEmpty then "-" else joinWith "," model}"
  | _, _, _ => "E E bad-case"

def run (caseToks impl : List String) : String :=
  match caseToks with
  | ["seg", proto, stream, lens, chunks] => seg proto stream lens chunks impl
  | ["cuts", proto, stream, lens] => cuts proto stream lens impl
  | ["match", stream, maxp] => matchK stream maxp impl
  | ["select", scope, stream, maxp] => selectK scope stream maxp impl
  | ["h2seg", stream, lens, chunks] => h2seg stream lens chunks impl
  | ["h2cuts", stream, lens] => h2cuts stream lens impl
  | ["rl", proto, stream, lens, dflt, _script] => rl false proto stream lens dflt impl
  | ["rlnp", proto, stream, lens, dflt, _script] => rl true proto stream lens dflt impl
  | ["pkt", proto, stream, frames, chunks] => pkt proto stream frames chunks impl
  | ["h2own", dir, stream, msgs, chunks] => h2own dir stream msgs chunks impl
  | ["ctx", proto, _stream, frames, chunks] => MosnVerif.Drive.DispatchCtx.run proto frames chunks impl
  | ["h1seg", "exp", delay, stream, chunks] => MosnVerif.Drive.C07H1Cont.runExp delay stream chunks impl
  | ["h1seg", "trl", delay, stream, chunks] => MosnVerif.Drive.C07H1Cont.runTrl delay stream chunks impl
  | ["h1seg", side, delay, stream, chunks] => MosnVerif.Drive.C07H1Seg.run side delay stream chunks impl
  | _ => "E E unknown-kind"

end MosnVerif.Drive.C07
