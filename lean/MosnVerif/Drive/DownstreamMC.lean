import Std.Data.HashSet
import MosnVerif.Drive.Downstream
import MosnVerif.Model.DownstreamSpec
/-!
Model checker of the downstream machine (driver side, not part of any proof): explores every reachable state of one
configuration at the granularity of single labels (single `work` steps included) and evaluates the invariant and the
property predicates in each state.  Used to validate candidate invariants and as an extra exhaustive small-scope
check in the thorough tier.
-/
namespace MosnVerif.Drive.DownstreamMC
open MosnVerif.Drive MosnVerif.Drive.Downstream MosnVerif.Model.Downstream MosnVerif.Gen.ProxyPhase MosnVerif.Gen.ProxyReason

def labelsFor (s : S) : List Label :=
  let ks := List.range s.streams.length
  [Label.work, .perTryFire, .globalFire, .downReset .StreamConnectionTermination, .connClose, .terminate 418,
   .terminateStale 0 419, .gtInSetup false, .gtInSetup true] ++
  (ks.map (fun k => Label.terminateRaced 418 k true false)) ++
  (ks.map (fun k => Label.lateResp k true false)) ++
  (if s.failNext.length < 2 then [.poolFail .overflow, .poolFail .connfail] else []) ++
  (if s.hostsGone then [] else [.hostsGone]) ++
  ks.flatMap (fun k =>
    [Label.upResp k 200 false false, .upResp k 503 false false, .upResp k 200 true false, .upResp k 200 true true,
     .upReset k .StreamConnectionTermination, .upReset k .StreamRemoteReset, .upReset k .StreamConnectionFailed,
     .upRespS k 200 true false, .upRespS k 200 false true, .upRespS k 200 true true, .upRespS k 503 true false, .upEnd k])

def labelTok : Label → String
  | .work => "w"
  | .upResp k code d t => s!"R{k}:{code}:{bs d}{bs t}"
  | .upReset k r => s!"X{k}:{r.name}"
  | .upRespS k code d t => s!"B{k}:{code}:{bs d}{bs t}"
  | .upEnd k => s!"E{k}"
  | .poolFail .overflow => "PFo"
  | .poolFail .connfail => "PFc"
  | .hostsGone => "HG"
  | .perTryFire => "PT"
  | .globalFire => "GT"
  | .downReset _ => "DR"
  | .connClose => "CC"
  | .terminate code => s!"TM{code}"
  | .terminateStale _ code => s!"TS{code}"
  | .terminateRaced code k d t => s!"TR{code}:{k}:{bs d}{bs t}"
  | .lateResp k d t => s!"L{k}:{bs d}{bs t}"
  | .gtInSetup b => s!"GS{bs b}"

/-- extra per-state checks besides `inv`: a finished exchange has a classified outcome; a parked worker of a two-way
request can be completed by the global timer -/
def stateOk (c : Cfg) (ar aq : Nat) (s : S) : Option String :=
  if !inv c ar aq s then
    some s!"inv-clause-{((invList c ar aq s).zipIdx.filter (fun (b, _) => !b)).map (·.2)}"
  else if s.cleaned && outcome c s == .silent then some "silent-outcome"
  else if blocked s && !c.oneway && !(settle c fuel (step c s .globalFire)).cleaned then some "timeout-does-not-complete"
  else if blocked s && liveCount s.streams == 0 then some "parked-without-live-upstream"
  else if (match s.resp with
      | some r => (r.hasData && s.dTok != s.hTok) || (r.hasTrailers && s.tTok != s.hTok)
      | none => false) then some "stored-response-of-two-answers"
  else if s.gtGen > 1 then some "global-timer-armed-twice"
  else if s.reqSent == false && s.gtGen != 0 then some "global-timer-armed-before-request-sent"
  else none

structure Res where
  states : Nat
  bad : Option (String × List Label × S)

partial def explore (c : Cfg) (ar aq : Nat) (limit : Nat) : Res := Id.run do
  let s0 := init ar aq
  let mut seen : Std.HashSet S := {}
  let mut frontier : List (S × List Label) := [(s0, [])]
  seen := seen.insert s0
  let mut n := 0
  while !frontier.isEmpty do
    let mut next : List (S × List Label) := []
    for (s, path) in frontier do
      n := n + 1
      match stateOk c ar aq s with
      | some why => return ⟨n, some (why, path.reverse, s)⟩
      | none => pure ()
      if n > limit then return ⟨n, none⟩
      for lb in labelsFor s do
        let s' := step c s lb
        if !seen.contains s' then
          seen := seen.insert s'
          next := (s', lb :: path) :: next
    frontier := next
  return ⟨n, none⟩

/-- `mc <cfg> <ambient> <limit>` -/
def run (caseToks : List String) : String :=
  match caseToks with
  | ["mc", cs, amb, lim] =>
    match parseCfg cs, parseAmb amb, lim.toNat? with
    | some c, some (ar, aq), some limit =>
      let r := explore c ar aq limit
      match r.bad with
      | none => s!"A S states={r.states}"
      | some (why, path, s) => s!"A V {why} states={r.states} path={joinWith "," (path.map labelTok)} phase={s.phase.toNat} {render s}"
    | _, _, _ => "E E bad-mc-case"
  | _ => "E E bad-mc-case"

end MosnVerif.Drive.DownstreamMC
