import MosnVerif.Drive.Util
import MosnVerif.Model.HuffTree
/-! `mosnmodel` side of the C18 kinds `hufftree`, `huff`, `huffenc` (core Lean only). -/
namespace MosnVerif.Drive.C18Huff
open MosnVerif.Drive MosnVerif.Model.Huffman MosnVerif.Model.HuffTree

def verdict (agree spec : Bool) (out : String) : String :=
  s!"{if agree then "A" else "D"} {if spec then "S" else "V"} {out}"

/-! ### the tree, internal nodes renumbered in depth-first preorder as the hook numbers them -/

/-- preorder walk: returns the rows (reversed) with child ids renumbered -/
partial def preorder (t : Tree) (n : Nat) (acc : Array (Array String)) : Array (Array String) :=
  let id := acc.size
  let acc := acc.push #[]
  let (row, acc) := (List.range 256).foldl (fun (st : Array String × Array (Array String)) i =>
    match t.child n i with
    | .none => (st.1.push "-", st.2)
    | .leaf sym len => (st.1.push s!"L{sym}.{len}", st.2)
    | .ptr c =>
      let cid := st.2.size
      (st.1.push s!"P{cid}", preorder t c st.2)) (#[], acc)
  acc.set! id row

def rle (row : List String) : String :=
  let rec go : List String → Option (String × Nat) → List String → List String
    | [], none, out => out.reverse
    | [], some (t, k), out => ((if k > 1 then s!"{t}*{k}" else t) :: out).reverse
    | x :: r, none, out => go r (some (x, 1)) out
    | x :: r, some (t, k), out =>
      if x == t then go r (some (t, k + 1)) out else go r (some (x, 1)) ((if k > 1 then s!"{t}*{k}" else t) :: out)
  joinWith "," (go row none [])

def treeTok (t : Tree) : String :=
  joinWith ";" ((preorder t 0 #[]).toList.map (fun r => rle r.toList))

/-- declarative reference of one slot (written without the build): child `idx` of the node reached by the `8d` bits `pv` -/
def refSlot (d pv idx : Nat) : String :=
  let bits := bitsOf pv (8 * d) ++ bitsOf idx 8
  match symTable.find? (fun e => (bitsOf e.2.1 e.2.2).isPrefixOf bits) with
  | some e => if e.2.2 > 8 * d then s!"L{e.1}.{e.2.2 - 8 * d}" else "?"
  | none => if (bitsOf eosCode eosLen).isPrefixOf bits then "-" else "P"

/-- the reference tree in preorder: a slot that is no leaf and no EOS is an internal node -/
partial def refPreorder (d pv : Nat) (acc : Array (Array String)) : Array (Array String) :=
  let id := acc.size
  let acc := acc.push #[]
  let (row, acc) := (List.range 256).foldl (fun (st : Array String × Array (Array String)) i =>
    let s := refSlot d pv i
    if s == "P" then
      let cid := st.2.size
      (st.1.push s!"P{cid}", if d < 4 then refPreorder (d + 1) (pv * 256 + i) st.2 else st.2)
    else (st.1.push s, st.2)) (#[], acc)
  acc.set! id row

def refTreeTok : String := joinWith ";" ((refPreorder 0 0 #[]).toList.map (fun r => rle r.toList))

def huffTreeCase (impl : List String) : String :=
  match impl with
  | [t] =>
    let m := if buildRoot.bad then "panic" else treeTok huffTree
    verdict (m == t) (refTreeTok == t) s!"{huffTree.count}-nodes"
  | _ => "E E bad-hufftree"

/-! ### decoder -/

def resTok : Except HErr Bytes → String
  | .ok s => s!"ok:{hex s}"
  | .error .invalid => "huffman"
  | .error .strLen => "strlen"

def huffCase (maxTok hexTok : String) (impl : List String) : String :=
  match maxTok.toNat?, unhex hexTok, impl with
  | some maxLen, some v, [m, x] =>
    let model := resTok (walk maxLen v)
    let ref := resTok (decodeSpecMax maxLen v)
    verdict (m == "m=" ++ model) (m == "m=" ++ ref && (x == "x=na" || x == "x=" ++ ref)) model
  | _, _, _ => "E E bad-huff"

/-! ### encoder -/

def huffEncCase (hexTok : String) (impl : List String) : String :=
  match unhex hexTok, impl with
  | some s, [e, l, xe, xl, xd, md] =>
    let me := hex (goEncode s)
    let ml := goEncodeLen s
    let ref := hex (encode s)
    let want := "ok:" ++ hex s
    let agree := e == "e=" ++ me && l == s!"l={ml}"
    let spec := e == "e=" ++ ref && l == s!"l={(encode s).length}" && xe == "xe=" ++ ref && xl == s!"xl={(encode s).length}" &&
      xd == "xd=" ++ want && md == "md=" ++ want && decodeSpec (encode s) == some s
    verdict agree spec s!"{me} {ml}"
  | _, _ => "E E bad-huffenc"

end MosnVerif.Drive.C18Huff
