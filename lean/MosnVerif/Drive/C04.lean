import MosnVerif.Drive.Util
import MosnVerif.Model.Route
import MosnVerif.Model.RouteRegex
/-!
Driver for C04 case lines (harness/c04/c04.go):

```
C04 <kind> <nvh> { vh <ndom> <dom>… <nrules> { r <prefix> <path> <rx> <nvars> {<name> <value> <rx> <model>}… <nhdrs> {<name> <value> <isregex> <rxid> <rxok>}…
                                                     <ndsl> {<empty 0|1> <id> <compiles 0|1>}… }… }…
           req <map c|b|h|2> <nvars> {<name> <value|!>}… <nhdrs> {<name> <value>}… ps <n> {<:name> <value>}…
           rx <n> {<id> <input> <0|1>}…  dx <n> {<id> <t|f|e|n>}…   (e = evaluation error, n = not a boolean)
           pt <n> {<id> <pattern text>}…
    => <errorName> | panic | ok <vhostIndex|-1> <vh.rule|none> <vh.rule,…|->
```
strings are percent-escaped (`%` alone = empty), `!` = unset / no regex, `<rx>` = `<id>:<compiles 0|1>`.
`<map>` = the `api.HeaderMap` implementation carrying the request headers: `c` protocol.CommonHeader, `b`
header.BytesHeader (xprotocol) — both compare names exactly; `h` the HTTP/1 map (fasthttp), `2` the HTTP/2 request map —
both compare names ignoring case; the headers are listed in the order they were added (a name may repeat on `h`/`2`);
`ps` lists the HTTP/2 pseudo headers (request line).
-/
namespace MosnVerif.Drive.C04
open MosnVerif.Drive MosnVerif.Model.Route

def untok (s : String) : Option Str :=
  if s == "%" then some [] else
  let rec go : List Char → List Char → Option Str
    | [], acc => some acc.reverse
    | '%' :: a :: b :: r, acc =>
      match hexVal a, hexVal b with
      | some x, some y => go r (Char.ofNat (x * 16 + y) :: acc)
      | _, _ => none
    | '%' :: _, _ => none
    | c :: r, acc => go r (c :: acc)
  go s.toList []

/-- a tiny token-stream parser -/
abbrev P := StateT (List String) Option

def next : P String := fun s => match s with
  | [] => none
  | t :: r => some (t, r)

def str : P Str := do
  let t ← next
  match untok t with
  | some s => pure s
  | none => failure

def nat : P Nat := do
  let t ← next
  match t.toNat? with
  | some n => pure n
  | none => failure

def bit : P Bool := do
  let t ← next
  if t == "1" then pure true else if t == "0" then pure false else failure

def lit (w : String) : P Unit := do
  let t ← next
  if t == w then pure () else failure

def rep {α : Type} (n : Nat) (p : P α) : P (List α) :=
  match n with
  | 0 => pure []
  | k + 1 => do
    let x ← p
    let xs ← rep k p
    pure (x :: xs)

def rxRef : P (Option Rx) := do
  let t ← next
  if t == "!" then pure none else
  match t.splitOn ":" with
  | [a, b] => match a.toNat? with
    | some id => pure (some ⟨id, b == "1"⟩)
    | none => failure
  | _ => failure

def varCfg : P VarCfg := do
  let name ← str
  let value ← str
  let rx ← rxRef
  let model ← str
  pure ⟨name, value, rx, model⟩

def hdrCfg : P HeaderCfg := do
  let name ← str
  let value ← str
  let isRx ← bit
  let id ← nat
  let ok ← bit
  pure ⟨name, value, isRx, ⟨id, ok⟩⟩

def ruleCfg : P MatchCfg := do
  lit "r"
  let pre ← str
  let path ← str
  let rx ← rxRef
  let nv ← nat
  let vars ← rep nv varCfg
  let nh ← nat
  let hdrs ← rep nh hdrCfg
  let nd ← nat
  let dsl ← rep nd (do let e ← bit; let i ← nat; let ok ← bit; pure (⟨e, i, ok⟩ : DslCfg))
  pure ⟨pre, path, rx, vars, hdrs, dsl⟩

def vhCfg : P VHostCfg := do
  lit "vh"
  let nd ← nat
  let doms ← rep nd str
  let nr ← nat
  let rules ← rep nr ruleCfg
  pure ⟨doms, rules⟩

def optStr : P (Option Str) := do
  let t ← next
  if t == "!" then pure none else
  match untok t with
  | some s => pure (some s)
  | none => failure

structure Case where
  cfg : Config
  vars : List (Str × Option Str)
  kind : MapKind
  hdrs : List (Str × Str)
  pseudo : List (Str × Str)
  rxTab : List (Nat × Str × Bool)
  dxTab : List (Nat × Option Bool)
  pats : List (Nat × Str) := []

def caseP : P Case := do
  let n ← nat
  let cfg ← rep n vhCfg
  lit "req"
  let kt ← next
  let kind ← (if kt == "c" || kt == "b" then pure MapKind.exact else if kt == "h" then pure MapKind.fold
    else if kt == "2" then pure MapKind.h2 else failure : P MapKind)
  let nv ← nat
  let vars ← rep nv (do let k ← str; let v ← optStr; pure (k, v))
  let nh ← nat
  let hdrs ← rep nh (do let k ← str; let v ← str; pure (k, v))
  lit "ps"
  let np ← nat
  let pseudo ← rep np (do let k ← str; let v ← str; pure (k, v))
  lit "rx"
  let nr ← nat
  let tab ← rep nr (do let i ← nat; let s ← str; let b ← bit; pure (i, s, b))
  lit "dx"
  let nx ← nat
  let dtab ← rep nx (do
    let i ← nat
    let t ← next
    if t == "t" then pure (i, some true) else if t == "f" then pure (i, some false)
    else if t == "e" || t == "n" then pure (i, (none : Option Bool)) else failure)
  lit "pt"
  let npt ← nat
  let pats ← rep npt (do let i ← nat; let s ← str; pure (i, s))
  pure ⟨cfg, vars, kind, hdrs, pseudo, tab, dtab, pats⟩

def lookupStr {β : Type} (l : List (Str × β)) (k : Str) : Option β :=
  match l.find? (fun kv => kv.1 = k) with
  | some kv => some kv.2
  | none => none

def Case.req (c : Case) : Req :=
  { var := fun k => (lookupStr c.vars k).join, kind := c.kind, hdrs := c.hdrs, pseudo := c.pseudo,
    dsl := fun i => match c.dxTab.find? (fun r => r.1 = i) with
      | some r => r.2
      | none => none }

def Case.rx (c : Case) : RxOracle := fun id s =>
  match c.rxTab.find? (fun r => r.1 = id ∧ r.2.1 = s) with
  | some r => r.2.2
  | none => false

/-- the text of pattern `id` -/
def Case.patOf (c : Case) : Nat → Option Str := fun id => (c.pats.find? (fun r => r.1 = id)).map (·.2)

/-- the reference oracle: patterns inside the subset of Model/RouteRegex.lean are matched by the Lean matcher -/
def Case.refRx (c : Case) : RxOracle := MosnVerif.Model.RouteRegex.refRx c.patOf c.rx

/-- Go's `regexp` (the shipped truth table) and the reference matcher agree on every row of every pattern inside the
subset, and Go compiles every such pattern (it has a row for the empty input) -/
def Case.refAgrees (c : Case) : Bool :=
  c.pats.all (fun ip =>
    match MosnVerif.Model.RouteRegex.parseRe ip.2 with
    | none => true
    | some re =>
      c.rxTab.any (fun r => r.1 = ip.1) &&
      c.rxTab.all (fun r => r.1 != ip.1 || MosnVerif.Model.RouteRegex.matchesRe re r.2.1 == r.2.2))

/-- every compiling pattern of the configuration has a truth value for every request string and for "" -/
def Case.rxComplete (c : Case) : Bool :=
  let ids : List Nat := c.cfg.flatMap (fun vh => vh.routers.flatMap (fun m =>
    (match m.regex with | some r => if r.ok then [r.id] else [] | none => []) ++
    m.variables.flatMap (fun v => match v.regex with | some r => if r.ok then [r.id] else [] | none => []) ++
    m.headers.flatMap (fun h => if h.regex && h.rx.ok then [h.rx.id] else [])))
  let inputs : List Str := [] :: (c.vars.filterMap (·.2) ++ c.hdrs.map (·.2) ++ c.pseudo.map (·.2))
  let dids : List Nat := c.cfg.flatMap (fun vh => vh.routers.flatMap (fun m =>
    m.dsl.filterMap (fun d => if !d.empty && d.ok then some d.id else none)))
  ids.all (fun i => inputs.all (fun s => c.rxTab.any (fun r => r.1 = i ∧ r.2.1 = s))) &&
  dids.all (fun i => c.dxTab.any (fun r => r.1 = i))

def errName : Err → String
  | .nilConfig => "nilConfig"
  | .noVirtualHost => "noVirtualHost"
  | .noVirtualHostPort => "noVirtualHostPort"
  | .duplicateVirtualHost => "duplicateVirtualHost"
  | .duplicateHostPort => "duplicateHostPort"
  | .badRegex => "badRegex"
  | .badVariable => "badVariable"

def showRoute (i j : Nat) : String := s!"{i}.{j}"

def render (a : Int × Option Nat × List Nat) : String :=
  let (vh, one, all) := a
  if vh < 0 then "ok -1 none -" else
  let i := vh.toNat
  let o := match one with | some j => showRoute i j | none => "none"
  let l := if all.isEmpty then "-" else joinWith "," (all.map (showRoute i))
  s!"ok {vh} {o} {l}"

/-- the model's answer: `NewRouters` (with the executable sorter) then `MatchRoute` / `MatchAllRoutes` -/
def model (c : Case) : String :=
  match build isort c.cfg with
  | .error e => errName e
  | .ok t => render (answer c.rx t c.cfg c.req)

/-- the declarative reference's answer for a configuration that MOSN accepted (`Props.C04.answer_refines`:
the model's answer always equals it; `answer_refines_reference`: with the reference regex matcher in place of the
oracle on the patterns of the subset) -/
def spec (c : Case) : String := render (Spec.answer c.refRx c.cfg c.req)

def run (caseToks impl : List String) : String :=
  match caseToks with
  | _kind :: toks =>
    match caseP toks with
    | some (c, []) =>
      if !c.rxComplete then "E E oracle-table-incomplete" else
      if !c.refAgrees then "E E regex-reference-differs-from-go-regexp" else
      let m := model c
      let i := joinWith " " impl
      let agree := m == i
      -- the property speaks about selection on accepted configurations: a rejected configuration has no selection
      let holds := match impl with
        | "ok" :: _ => spec c == i
        | ["panic"] => false
        | _ => true
      s!"{if agree then "A" else "D"} {if holds then "S" else "V"} {m}"
    | _ => "E E bad-case"
  | _ => "E E unknown-kind"

end MosnVerif.Drive.C04
