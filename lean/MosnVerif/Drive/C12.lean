import MosnVerif.Drive.Util
import MosnVerif.Model.UpdatesSpec
import MosnVerif.Model.DumpProto
import MosnVerif.Model.ResourceUpd
import MosnVerif.Model.DirHist
import MosnVerif.Drive.C12Vhost
/-!
Driver for C12. Case line: `hist <op> …` (one token per operation, fields separated by `/`), implementation output:
`<results> <liveRouters> <rebuiltRouters> <liveClusters> <rebuiltClusters>` (see harness/c12/c12.go).
-/
namespace MosnVerif.Drive.C12
open MosnVerif.Drive MosnVerif.Model.Updates

def splitList (sep : String) (s : String) : List String := if s.isEmpty then [] else s.splitOn sep

/-- path prefix from its letter code: "" ↦ "/", "ab" ↦ "/a/b" -/
def pfxPath (p : String) : String :=
  if p.isEmpty then "/" else String.join (p.toList.map (fun c => "/" ++ String.singleton c))

def parseRoute (s : String) : Option Route :=
  match s.splitOn "^" with
  | [id, p, "p"] => some ⟨id, pfxPath p, true⟩
  | [id, p, "x"] => some ⟨id, pfxPath p, false⟩
  | _ => none

def unDom (s : String) : String := if s == "_" then "" else s

def parseVHost (s : String) : Option VHost :=
  match s.splitOn "~" with
  | [name, ds, rs] => do
    let routes ← (splitList "+" rs).mapM parseRoute
    pure ⟨name, (splitList "+" ds).map unDom, routes⟩
  | _ => none

def unName (s : String) : String := if s == "-" then "" else s

def parseHost (s : String) : Option Host :=
  match s.splitOn "~" with
  | [a, n, w] => w.toNat?.map (fun w => ⟨a, unName n, w⟩)
  | _ => none

def parseHosts (s : String) : Option (List Host) := (splitList "," s).mapM parseHost

def parseXHost (s : String) : Option XHost :=
  match s.splitOn "~" with
  | [a, "-"] => some ⟨a, none⟩
  | [a, w] => w.toNat?.map (fun w => ⟨a, some w⟩)
  | _ => none

def parseLoc (s : String) : Option (List XHost) := if s == "_" then some [] else (splitList "," s).mapM parseXHost

def parseAssigns : List String → Option (List (String × List (List XHost)))
  | [] => some []
  | c :: locs :: r => do
    let ls ← (splitList ";" locs).mapM parseLoc
    let rest ← parseAssigns r
    pure ((c, ls) :: rest)
  | _ => none

def parseOp1 (fields : List String) : Option Op :=
  match fields with
  | ["RN"] => some .routersNil
  | ["RU", r, vhs] => do
    let vs ← (splitList "," vhs).mapM parseVHost
    pure (.addOrUpdateRouters { name := r, vhosts := vs })
  | ["RA", r, d, rt] => (parseRoute rt).map (fun x => .addRoute r (unDom d) x)
  | ["RR", r, d] => some (.removeAllRoutes r (unDom d))
  | ["CP", c, tag, hs] => do
    let t ← tag.toNat?
    let h ← parseHosts hs
    pure (.addOrUpdateCluster c t h)
  | ["CH", c, tag, chs, hs] => do
    let t ← tag.toNat?
    let ch ← parseHosts chs
    let h ← parseHosts hs
    pure (.addOrUpdateClusterAndHost c t ch h)
  | ["CN", c] => some (.addClusterNil c)
  | ["HU", c, hs] => (parseHosts hs).map (fun h => .updateHosts c h)
  | ["HA", c, hs] => (parseHosts hs).map (fun h => .appendHosts c h)
  | ["HR", c, as] => some (.removeHosts c (splitList "," as))
  | ["CR", ns] => some (.removeClusters (splitList "," ns))
  | "XE" :: rest => (parseAssigns rest).map (fun a => .xdsEndpoints a)
  | ["LA", n, addr, chains, sf, nf, idle, keep, tls] => do
    let ch ← chains.toNat?
    let nf ← nf.toNat?
    let idle ← idle.toNat?
    let keep ← keep.toNat?
    let t ← if tls == "T1" then some true else if tls == "T0" then some false else none
    pure (.addOrUpdateListener ⟨unName n, addr, ch, if sf == "-" then [] else sf.splitOn "+", nf, idle, keep, t⟩)
  | ["LD", n] => some (.deleteListener n)
  | _ => none

/-- one case token ↦ (model operation, `void`): lower-case kinds are the same calls through `cluster.MngAdapter`;
`XC`/`XD` are `ConvertUpdateClusters` / `ConvertDeleteClusters` on one envoy cluster (conversion = black box): an EDS cluster is
`AddOrUpdatePrimaryCluster` / `RemovePrimaryCluster`, any other is `AddOrUpdateClusterAndHost` with the concatenated endpoints /
ignored; these two report nothing (`void`), the harness prints `ok`. -/
def parseOp (tok : String) : Option (Op × Bool) :=
  match tok.splitOn "/" with
  | ["XC", c, tag, et, locs] => do
    let t ← tag.toNat?
    let ls ← (splitList ";" locs).mapM parseLoc
    let hosts := (ls.map (·.map convHost)).flatten
    if et == "E" then pure (.addOrUpdateCluster c t hosts, true)
    else if et == "S" then pure (.addOrUpdateClusterAndHost c t hosts hosts, true)
    else none
  | ["XD", c, et] =>
    if et == "E" then some (.removeClusters [c], true) else if et == "S" then some (.removeClusters [], true) else none
  | k :: rest =>
    let up := k.toUpper
    if k != up && !["CP", "CH", "HU", "HA", "HR", "CR"].contains up then none
    else (parseOp1 (up :: rest)).map (fun o => (o, false))
  | _ => none

def okTok (b : Bool) : String := if b then "ok" else "err"

def parseResults (s : String) : Option (List Bool) :=
  if s == "-" then some [] else
  (s.splitOn ",").mapM (fun t => if t == "ok" then some true else if t == "err" then some false else none)

/-- `name@obs;name@obs` → association list -/
def parseObs (s : String) : Option (List (String × String)) :=
  if s == "-" then some [] else
  (s.splitOn ";").mapM (fun e => match e.splitOn "@" with
    | [n, o] => some (n, o)
    | _ => none)

def parseClusterObs (s : String) : Option (Option LiveCluster) :=
  if s == "absent" then some none else
  match s.splitOn "|" with
  | [tag, hs] => do
    let t ← tag.toNat?
    let hosts ← if hs == "-" then some [] else (hs.splitOn "+").mapM parseHost
    pure (some ⟨t, hosts⟩)
  | _ => none

def parseListenerObs (s : String) : Option (Option LiveListener) :=
  if s == "absent" then some none else
  let sfs (x : String) : List String := if x == "-" then [] else x.splitOn "+"
  match s.splitOn "|" with
  | [addr, sf, nf, idle, csf, cnf, cidle, keep] => do
    let nf ← nf.toNat?
    let idle ← idle.toNat?
    let cnf ← cnf.toNat?
    let cidle ← cidle.toNat?
    let keep ← keep.toNat?
    -- name, chains and tlsOk of the config are not observed: filled with the values every stored config has
    pure (some ⟨⟨"", addr, 1, sfs csf, cnf, cidle, keep, true⟩, sfs sf, nf, idle⟩)
  | _ => none

def renderObs (names : List String) (obs : List String) : String :=
  if names.isEmpty then "-" else joinWith ";" ((names.zip obs).map (fun p => p.1 ++ "@" ++ p.2))

/-- the cluster a CDS delete names (observed even when the delete is ignored) -/
def xdName (tok : String) : Option String :=
  match tok.splitOn "/" with
  | ["XD", c, _] => some c
  | _ => none

def hist (opToks impl : List String) : String :=
  -- an update operation that panics is a violation outright (the model has no such outcome)
  if (impl.head?.getD "").splitOn "," |>.contains "panic" then "D V operation-panicked" else
  match opToks.mapM parseOp, impl with
  | some pops, [res, lr, br, lc, bc, ll, bl] =>
    let ops := pops.map (·.1)
    match parseResults res, parseObs lr, parseObs br, parseObs lc, parseObs bc, parseObs ll, parseObs bl with
    | some ires, some ilr, some ibr, some ilc, some ibc, some ill, some ibl =>
      let rnames := sortStrings (dedup (ops.flatMap routerNames))
      let cnames := sortStrings (dedup ((ops.flatMap clusterNames) ++ opToks.filterMap xdName))
      let lnames := sortStrings (dedup (ops.flatMap listenerNames))
      let s := run stdOracle ops
      let mres := ((results stdOracle init ops).zip pops).map (fun p => p.1 || p.2.2)
      let mob := observe stdOracle rnames cnames lnames mres s
      -- model output in the harness' format
      let mLR := renderObs rnames mob.liveR
      let mBR := renderObs rnames mob.rebR
      let mLC := renderObs cnames (mob.liveC.map renderCluster)
      let mBC := renderObs cnames (mob.rebC.map renderCluster)
      let mLL := renderObs lnames (mob.liveL.map renderListener)
      let mBL := renderObs lnames (mob.rebL.map renderListener)
      let mRes := if mres.isEmpty then "-" else joinWith "," (mres.map okTok)
      let agree := res == mRes && lr == mLR && br == mBR && lc == mLC && bc == mBC && ll == mLL && bl == mBL
      -- the implementation's observation, for the property predicate
      match (ilc.mapM (fun p => parseClusterObs p.2)), (ibc.mapM (fun p => parseClusterObs p.2)),
            (ill.mapM (fun p => parseListenerObs p.2)), (ibl.mapM (fun p => parseListenerObs p.2)) with
      | some ilcs, some ibcs, some ills, some ibls =>
        let iob : Observation := ⟨ires, ilr.map (·.2), ibr.map (·.2), ilcs, ibcs, ills, ibls⟩
        let namesOk := ilr.map (·.1) == ibr.map (·.1) && ilc.map (·.1) == ibc.map (·.1) && ill.map (·.1) == ibl.map (·.1) &&
          ires.length == ops.length
        let last : Option (Op × Bool) := match ops.getLast?, ires.getLast? with
          | some op, some ok => some (op, ok)
          | _, _ => none
        let spec := namesOk && Spec.holds last (ilc.map (·.1)) (ill.map (·.1)) iob
        s!"{if agree then "A" else "D"} {if spec then "S" else "V"} {mRes} {mLR} {mBR} {mLC} {mBC} {mLL} {mBL}"
      | _, _, _, _ => "E E bad-cluster-or-listener-observation"
    | _, _, _, _, _, _, _ => "E E bad-impl-output"
  | _, _ => "E E bad-case"

def dashList (sep : String) (s : String) : List String := if s == "-" || s.isEmpty then [] else s.splitOn sep
def renderDash (sep : String) (l : List String) : String := if l.isEmpty then "-" else joinWith sep l

/-- `rm <m|a> <hosts> <addrs>`: ONE `RemoveClusterHosts` (m) / `TriggerHostDel` (a) call with the listed addresses on cluster `c`
holding `hosts`; implementation output `<ok|err> <live addrs> <stored addrs> <listed addresses still served>`. -/
def rm (hostsTok addrsTok : String) (impl : List String) : String :=
  match (dashList "," hostsTok).mapM parseHost, impl with
  | some hosts, [res, live, stored, served] =>
    let addrs := dashList "," addrsTok
    let mob := rmObserve stdOracle hosts addrs
    let mout := s!"{okTok mob.ok} {renderDash "+" mob.live} {renderDash "+" mob.stored} {renderDash "+" mob.served}"
    let iob : Spec.RmObs := ⟨res == "ok", dashList "+" live, dashList "+" stored, dashList "+" served⟩
    let agree := s!"{res} {live} {stored} {served}" == mout
    let spec := (res == "ok" || res == "err") && Spec.rmHolds (hosts.map (·.addr)) addrs iob
    s!"{if agree then "A" else "D"} {if spec then "S" else "V"} {mout}"
  | _, _ => "E E bad-rm-case"

/-! `dump <item> …`: a script of updates (`U`) and dump rounds (`R<n|a|b><o|f>`: an update injected nowhere / right before the
snapshot / right after it — if the round gets there; file write ok / failing), run on the real `DumpConfig` with `auto_config` on.
Implementation output: one token `file/live/wanted` per round (versions read from the dumped file and from the effective
config, `wanted` = the dump flag). -/
namespace Dump
open MosnVerif.Model.DumpProto

def parseItem (s : String) : Option Item :=
  match s.toList with
  | ['U'] => some .update
  | ['R', p, w] => do
    let pt ← if p == 'n' then some Point.none else if p == 'a' then some Point.beforeSnap else if p == 'b' then some Point.afterSnap else none
    let ok ← if w == 'o' then some true else if w == 'f' then some false else none
    pure (.round pt ok)
  | _ => none

def parseObs (s : String) : Option RoundObs :=
  match s.splitOn "/" with
  | [f, l, w] => do
    let f ← f.toNat?
    let l ← l.toNat?
    let w ← if w == "1" then some true else if w == "0" then some false else none
    pure ⟨f, l, w⟩
  | _ => none

def renderObs (o : RoundObs) : String := s!"{o.file}/{o.live}/{if o.wanted then "1" else "0"}"

def drive (itemToks impl : List String) : String :=
  match itemToks.mapM parseItem, (if impl == ["-"] then some [] else impl.mapM parseObs) with
  | some items, some iobs =>
    let mobs := runScript (initConf MosnVerif.Gen.DumpProto.dumpConfig MosnVerif.Gen.DumpProto.setDump) items
    let mout := if mobs.isEmpty then "-" else joinWith " " (mobs.map renderObs)
    let agree := mobs == iobs
    let spec := MosnVerif.Model.DumpProto.Spec.dumpHolds items iobs
    s!"{if agree then "A" else "D"} {if spec then "S" else "V"} {mout}"
  | _, _ => "E E bad-dump-case"
end Dump

/-! `mode <op> …`: router histories whose complete updates come from a directory (`RD`), from static JSON (`RS`) or from code (`RU`),
then dump → reload through the real loader. Implementation output: `<results> <name@live;…> <ok|loaderr> <name@rebuilt;…>`. -/
def parseModeOp (tok : String) : Option Op :=
  match tok.splitOn "/" with
  | ["RD", r, vhs] => do
    let vs ← (splitList "," vhs).mapM parseVHost
    pure (.addOrUpdateRouters { name := r, vhosts := vs, path := "D" })
  | ["RS", r, vhs] => do
    let vs ← (splitList "," vhs).mapM parseVHost
    pure (.addOrUpdateRouters { name := r, vhosts := vs, static := vs })
  | "RU" :: rest => parseOp1 ("RU" :: rest)
  | "RA" :: rest => parseOp1 ("RA" :: rest)
  | "RR" :: rest => parseOp1 ("RR" :: rest)
  | _ => none

def mode (opToks impl : List String) : String :=
  if (impl.head?.getD "").splitOn "," |>.contains "panic" then "D V operation-panicked" else
  match opToks.mapM parseModeOp, impl with
  | some ops, [res, lr, load, br] =>
    match parseObs lr, parseObs br with
    | some ilr, some ibr =>
      let rnames := sortStrings (dedup (ops.flatMap routerNames))
      let s := run stdOracle ops
      let mres := results stdOracle init ops
      let mobs := modeObserve stdOracle rnames s
      let mRes := if mres.isEmpty then "-" else joinWith "," (mres.map okTok)
      let mLR := renderObs rnames (mobs.map (·.live))
      let mLoad := if mobs.all (·.loadOk) then "ok" else "loaderr"
      let mBR := renderObs rnames (mobs.map (fun ob => if mLoad == "ok" then ob.reb else "loaderr"))
      let agree := res == mRes && lr == mLR && load == mLoad && br == mBR
      let iobs : List ModeObs := (ilr.zip ibr).map (fun p => ⟨p.1.2, load == "ok", p.2.2⟩)
      let spec := ilr.map (·.1) == ibr.map (·.1) && ilr.map (·.1) == rnames && Spec.modeHolds iobs
      s!"{if agree then "A" else "D"} {if spec then "S" else "V"} {mRes} {mLR} {mLoad} {mBR}"
    | _, _ => "E E bad-impl-output"
  | _, _ => "E E bad-mode-case"

/-! `rlock <P/vhs | N> <opA> <opB> <forced>`: two concurrent mutators of router `r1` (present with the given virtual hosts, or absent)
under one schedule. Implementation output: `<resA>,<resB> <live> <rebuilt> <trace>`. The model's outputs are those of the TWO
sequential orders (`mutators_serializable`: every schedule ends in one of them); the predicate is coherence of the observation. -/
def rlockOutcome (s0 : State) (a b : Op) (swap : Bool) : String × String × String :=
  let ops := if swap then [b, a] else [a, b]
  let rs := results stdOracle s0 ops
  let ra := (if swap then rs[1]? else rs[0]?).getD false
  let rb := (if swap then rs[0]? else rs[1]?).getD false
  let s := runFrom stdOracle s0 ops
  (okTok ra ++ "," ++ okTok rb, renderRouter (liveRouters s "r1"), renderRouter (rebuildRouters stdOracle (dump s) "r1"))

def rlock (initTok aTok bTok : String) (impl : List String) : String :=
  let initOps : Option (List Op) :=
    if initTok == "N" then some []
    else match initTok.splitOn "/" with
      | ["P", vhs] => ((splitList "," vhs).mapM parseVHost).map (fun vs => [Op.addOrUpdateRouters { name := "r1", vhosts := vs }])
      | _ => none
  match initOps, parseModeOp aTok, parseModeOp bTok, impl with
  | some i0, some a, some b, [res, live, reb, _trace] =>
    let s0 := run stdOracle i0
    let o1 := rlockOutcome s0 a b false
    let o2 := rlockOutcome s0 a b true
    let got := (res, live, reb)
    let agree := got == o1 || got == o2
    let spec := live == reb && !(res.splitOn ",").contains "panic" && !(res.splitOn ",").contains "stuck"
    let m := if got == o2 then o2 else o1
    s!"{if agree then "A" else "D"} {if spec then "S" else "V"} {m.1} {m.2.1} {m.2.2}"
  | _, _, _, _ => "E E bad-rlock-case"

/-! `rsrc <op> …`: updates of one cluster's circuit-breaker thresholds mixed with host updates, removal and requests in flight
(harness/c12/rsrc.go). Implementation output: one token `<res>|<live max/cur>|<host max/cur>|<rebuilt max>` per step. -/
namespace Rsrc
open MosnVerif.Model MosnVerif.Gen.ResourceUpd

def parseMaxes (s : String) : Option Maxes :=
  match (s.splitOn ",").mapM String.toNat? with
  | some [a, b, c, d] => some ⟨a, b, c, d⟩
  | _ => none

def parseCurs (s : String) : Option ResourceUpd.Curs :=
  match (s.splitOn ",").mapM String.toInt? with
  | some [a, b, c, d] => some ⟨a, b, c, d⟩
  | _ => none

def parseRes (s : String) : Option ResourceUpd.Rsrc :=
  if s == "c" then some .conn else if s == "p" then some .pend else if s == "q" then some .req else if s == "t" then some .retr else none

def parseVia (s : String) : Option ResourceUpd.Via :=
  match s.toUpper with
  | "P" => some .primary
  | "H0" => some (.andHost false)
  | "H1" => some (.andHost true)
  | _ => none

def parseOp (tok : String) : Option ResourceUpd.Op :=
  match tok.splitOn "/" with
  | ["U", via, typ, cb] => do
    let v ← parseVia via
    let t ← typ.toNat?
    let c ← if cb == "-" || cb == "_" then some [] else (cb.splitOn ";").mapM parseMaxes
    pure (.update v ⟨t, c⟩)
  | ["S", n] => if n == "0" then some (.setHosts false) else if n == "1" then some (.setHosts true) else none
  | ["X"] => some .remove
  | ["I", r] => (parseRes r).map .incr
  | ["D", r] => (parseRes r).map .decr
  | _ => none

def parseRM (s : String) : Option ResourceUpd.RM :=
  match s.splitOn "/" with
  | [m, c] => do
    let m ← parseMaxes m
    let c ← parseCurs c
    pure ⟨m, c⟩
  | _ => none

def parseObs (tok : String) : Option ResourceUpd.Obs :=
  match tok.splitOn "|" with
  | [res, live, host, reb] => do
    let r ← if res == "ok" then some ResourceUpd.Res.ok else if res == "err" then some ResourceUpd.Res.err else if res == "absent" then some ResourceUpd.Res.absent else none
    let l ← if live == "absent" then some none else (parseRM live).map some
    let h ← if host == "-" then some none else (parseRM host).map some
    let b ← if reb == "absent" then some none else (parseMaxes reb).map some
    pure ⟨r, l, h, b⟩
  | _ => none

def renderMaxes (m : Maxes) : String := s!"{m.connections},{m.pendingRequests},{m.requests},{m.retries}"
def renderRM (r : ResourceUpd.RM) : String :=
  s!"{renderMaxes r.max}/{r.cur.connections},{r.cur.pendingRequests},{r.cur.requests},{r.cur.retries}"
def renderObs (o : ResourceUpd.Obs) : String :=
  let r := match o.res with | .ok => "ok" | .err => "err" | .absent => "absent"
  let l := match o.live with | none => "absent" | some x => renderRM x
  let h := match o.host with | none => "-" | some x => renderRM x
  let b := match o.reb with | none => "absent" | some x => renderMaxes x
  s!"{r}|{l}|{h}|{b}"

def drive (opToks impl : List String) : String :=
  if impl.any (fun t => (t.splitOn "|").head? == some "panic") then "D V operation-panicked" else
  match opToks.mapM parseOp, impl.mapM parseObs with
  | some ops, some iobs =>
    let mobs := ResourceUpd.trace ResourceUpd.init ops
    let mout := joinWith " " (mobs.map renderObs)
    let agree := joinWith " " impl == mout
    let spec := ResourceUpd.Spec.holds ops iobs
    s!"{if agree then "A" else "D"} {if spec then "S" else "V"} {mout}"
  | _, _ => "E E bad-rsrc-case"
end Rsrc

/-! `dirh <D|S> <op> …`: cluster / virtual-host histories with removals down to zero, a dump after every step into the same
directories and a reload (harness/c12/dirhist.go). Implementation output: one token
`<res>|<live clusters>|<reloaded clusters>|<live vhosts>|<reloaded vhosts>` per step. The model runs the REGENERATED statement
lists (`Gen.DirDump`) and file-name operations (`Gen.ConfigDir`) on a directory that persists across the steps. -/
namespace DirH
open MosnVerif.Model MosnVerif.Model.DirHist

def parseItem (s : String) : Option (String × Nat) :=
  match s.splitOn ":" with
  | [n, t] => t.toNat?.map (fun t => (n, t))
  | _ => none

def parseOp (tok : String) : Option Spec.HOp :=
  match tok.splitOn "/" with
  | ["C", n, t] => t.toNat?.map (fun t => .putCluster n t)
  | ["X", n] => some (.delCluster n)
  | ["V", vs] => (if vs == "-" then some [] else (vs.splitOn "+").mapM parseItem).map .setVhosts
  | _ => none

def parseList (s : String) : Option (List String) :=
  if s == "-" then some [] else if s == "loaderr" || s == "absent" || s == "nil" then none else some (s.splitOn "+")

def parseObs (tok : String) : Option Spec.HObs :=
  match tok.splitOn "|" with
  | [res, lc, rc, lv, rv] =>
    if res != "ok" && res != "err" then none else
    (parseList lc).map (fun l => ⟨res == "ok", l, parseList rc, parseList lv, parseList rv⟩)
  | _ => none

def renderItems (l : List Item) : String :=
  if l.isEmpty then "-" else joinWith "+" (sortStrings (l.map (fun i => Spec.key i.name i.tag)))

/-- routers built from an empty virtual-host list do not exist (`nil`) -/
def renderVhosts (l : List Item) : String := if l.isEmpty then "nil" else renderItems l

/-- mode P: both directories hold a file of an earlier run (`zz.json`: cluster c4 / virtual host v4, tag 9) -/
def staleDir (n : String) : ConfigDir.Dir := [("zz.json".toUTF8.toList, .doc (Item.enc ⟨n, 9⟩))]

structure St where
  clusters : List Item := []
  router : Option (List Item) := none
  cdir : ConfigDir.Dir := []
  rdir : ConfigDir.Dir := []

def stepModel (dirMode : Bool) (s : St) (op : Spec.HOp) : St × String :=
  let (s1, ok) : St × Bool := match op with
    | .putCluster n t => ({ s with clusters := applyUpd Item.bytes s.clusters (.put ⟨n, t⟩) }, true)
    | .delCluster n =>
      if s.clusters.any (·.name == n) then ({ s with clusters := applyUpd Item.bytes s.clusters (.del n.toUTF8.toList) }, true)
      else (s, false)
    | .setVhosts vs =>
      -- `NewRouters` refuses an empty virtual-host list: a NEW router is stored without tables, an existing one is left as it is
      if vs.isEmpty then (if s.router.isNone then ({ s with router := some [] }, true) else (s, false))
      else if (dedup (vs.map (·.1))).length == vs.length then ({ s with router := some (vs.map (fun v => ⟨v.1, v.2⟩)) }, true) else (s, false)
  -- the dump after the step (every step dumps, refused ones too), then the reload
  let (cd, rc) := dumpReload dirMode Gen.DirDump.clusterDumpSteps Gen.ConfigDir.clusterNameOps s1.cdir s1.clusters
  let (rd, rv) : ConfigDir.Dir × String := match s1.router with
    | none => (s1.rdir, "absent")
    | some vs =>
      let (rd, l) := dumpReload dirMode Gen.DirDump.vhostDumpSteps Gen.ConfigDir.vhostNameOps s1.rdir vs
      (rd, match l with | some l => renderVhosts l | none => "loaderr")
  let lv := match s1.router with | none => "absent" | some vs => renderVhosts vs
  ({ s1 with cdir := cd, rdir := rd },
   s!"{okTok ok}|{renderItems s1.clusters}|{match rc with | some l => renderItems l | none => "loaderr"}|{lv}|{rv}")

def traceModel (dirMode : Bool) : St → List Spec.HOp → List String
  | _, [] => []
  | s, op :: r => let (s', o) := stepModel dirMode s op; o :: traceModel dirMode s' r

def drive (modeTok : String) (opToks impl : List String) : String :=
  if impl.any (fun t => (t.splitOn "|").head? == some "panic") then "D V operation-panicked" else
  match opToks.mapM parseOp, impl.mapM parseObs with
  | some ops, some iobs =>
    if modeTok != "D" && modeTok != "S" && modeTok != "P" then "E E bad-dirh-mode" else
    let s0 : St := if modeTok == "P" then { cdir := staleDir "c4", rdir := staleDir "v4" } else {}
    let mout := joinWith " " (traceModel (modeTok != "S") s0 ops)
    let agree := joinWith " " impl == mout
    let spec := Spec.holds ops iobs
    s!"{if agree then "A" else "D"} {if spec then "S" else "V"} {mout}"
  | _, _ => "E E bad-dirh-case"
end DirH

def run (caseToks impl : List String) : String :=
  match caseToks with
  | "hist" :: ops => hist ops impl
  | "mode" :: ops => mode ops impl
  | "rsrc" :: ops => Rsrc.drive ops impl
  | "dirh" :: m :: ops => DirH.drive m ops impl
  | ["rlock", i, a, b, _] => rlock i a b impl
  | "vht" :: r => C12Vhost.run r impl
  | "dump" :: items => Dump.drive items impl
  | ["rm", _, hs, as] => rm hs as impl
  -- support run: lookups concurrent with updates must have seen only whole configurations
  | ["conc", _, _] => if impl == ["ok"] then "A S ok" else "D V ok"
  | _ => "E E unknown-kind"

end MosnVerif.Drive.C12
