import MosnVerif.Drive.Util
import MosnVerif.Model.LB
import MosnVerif.Model.Snapshot
import MosnVerif.Drive.C05Hops
import MosnVerif.Drive.C05Pool
namespace MosnVerif.Drive.C05
open MosnVerif.Drive MosnVerif.Model.LB MosnVerif.Model.EDF

def parseNatList (s : String) : Option (List Nat) :=
  if s == "-" then some [] else (s.splitOn ",").mapM String.toNat?

def parsePolicy (s : String) : Option (Policy × Nat) :=
  match s.splitOn "/" with
  | [p, c] =>
    let pol := match p with
      | "rr" => some Policy.rr | "dflt" => some Policy.rr | "random" => some .random | "wrr" => some .wrr | "lr" => some .lr
      | "lc" => some .lc | "reqrr" => some .reqrr | "maglev" => some .maglev | "ewma" => some .ewma
      | _ => none
    match pol, c.toNat? with
    | some q, some n => some (q, n)
    | _, _ => none
  | _ => none

def parsePair (s : String) : Option (Nat × Nat) :=
  match s.splitOn "." with
  | [a, b] => match a.toNat?, b.toNat? with
    | some x, some y => some (x, y)
    | _, _ => none
  | _ => none

def parseHostList (s : String) : Option (List (Nat × Nat)) :=
  if s == "-" then some [] else (s.splitOn ",").mapM parsePair

/-- operation token → model operation (+ the raw re-entry token, needed to print the variable after the call):
`S<id.w,…>|<rr0>|<warm-up picks>` replace, `F<id>.<0|1>` health, `R<id>.<n>` / `N<id>.<n>` gauges, `X<v>` cursor,
`C<draws>|<edf picks>|<u|b|n>|<table|->` lookup. -/
def parseOp (op : String) : Option (Op × String) :=
  let rest := (op.drop 1).toString
  if op.startsWith "S" then
    match rest.splitOn "|" with
    | [hl, rr0, pre] =>
      match parseHostList hl, rr0.toNat?, parseNatList pre with
      | some l, some r, some p => some (.replace l r (p.map some), "")
      | _, _, _ => none
    | _ => none
  else if op.startsWith "F" then (parsePair rest).map (fun (id, v) => (.flip id (v != 0), ""))
  else if op.startsWith "R" then (parsePair rest).map (fun (id, v) => (.req id v, ""))
  else if op.startsWith "N" then (parsePair rest).map (fun (id, v) => (.conn id v, ""))
  else if op.startsWith "X" then rest.toNat?.map (fun v => (.cursor v, ""))
  else if op.startsWith "C" then
    match rest.splitOn "|" with
    | [ds, hs, re, tb] =>
      let re' : Option ReEntry := if re == "u" then some .unset else if re == "b" then some .bad else re.toNat?.map .idx
      let tb' : Option (Option Nat) := if tb == "-" then some none else tb.toNat?.map some
      match parseNatList ds, parseNatList hs, re', tb' with
      | some d, some h, some r, some t => some (.lookup { draws := d, hints := h.map some, re := r, table := t }, re)
      | _, _, _, _ => none
    | _ => none
  else none

def showResult (hs : Hosts) (r : Option Nat) : String :=
  match r with
  | none => "-"
  | some i => match hs[i]? with
    | some h => s!"h{h.id}"
    | none => s!"?{i}"

/-- implementation result token `h<id>[@var]` / `-[@var]` → index in the current host set
(`some none` = no host, `none` = not a member of the current set / panic). -/
def implIndex (hs : Hosts) (tok : String) : Option (Option Nat) :=
  let name := (tok.splitOn "@").headD ""
  if name == "-" then some none
  else if name.startsWith "h" then
    match (name.drop 1).toNat? with
    | some id => match hs.findIdx? (fun h => h.id == id) with
      | some i => some (some i)
      | none => none
    | none => none
  else none

structure Acc where
  w : World := {}
  outs : List String := []      -- model results, reversed
  spec : Bool := true
  bad : Bool := false

def seq (pol ops : String) (impl : List String) : String :=
  match parsePolicy pol, impl with
  | some (p, ch), [res] =>
    let opl := ops.splitOn ";"
    let implToks := if (opl.filter (fun o => o.startsWith "C")).isEmpty then [] else res.splitOn ","
    let rec go (a : Acc) (ops : List String) (impls : List String) : Acc :=
      match ops with
      | [] => if impls.isEmpty then a else { a with bad := true }
      | o :: r =>
        match parseOp o with
        | none => { a with bad := true }
        | some (op, re) =>
          match applyOp p ch a.w op with
          | (w', none) => go { a with w := w' } r impls
          | (w', some (hosts, call, out)) =>
            match impls with
            | [] => { a with bad := true }
            | it :: ir =>
              let varAfter := match out.var with
                | some v => toString v
                | none => if re == "u" then "-" else if re == "b" then "x" else re
              let tok := if p == .reqrr || p == .maglev then s!"{showResult hosts out.result}@{varAfter}" else showResult hosts out.result
              -- every injected draw / observed scheduler pick must have been consumed by the model as well
              let tok := if out.draws.isEmpty && out.hints.isEmpty then tok else tok ++ "!unconsumed"
              let ok := match implIndex hosts it with
                | some ri => specLookup p call hosts ri
                | none => false
              go { a with w := w', outs := tok :: a.outs, spec := a.spec && ok } r ir
    let a := go {} opl implToks
    if a.bad then "E E bad-case" else
    let model := joinWith "," a.outs.reverse
    let agree := model == joinWith "," implToks
    s!"{if agree then "A" else "D"} {if a.spec then "S" else "V"} {if model.isEmpty then "-" else model}"
  | _, _ => "E E bad-case"

/-- `conc <pol> <lookups> <updates> => <bad>`: lookups racing with host-set replacements (support only); every lookup must
have returned a healthy element of the snapshot it took — the model of a lookup sees one (hostSet, lb) pair, so `bad = 0`. -/
def conc (impl : List String) : String :=
  match impl with
  | [b] => if b == "0" then "A S 0" else "D V 0"
  | _ => "E E bad-case"

/-- `snap <pol> <interleaving> => <lb set><host set><member><healthy>`: one lookup written out in its steps
(`L` = `Snapshot()`, `G` = `.LoadBalancer()`, `C` = `.ChooseHost`, `H` = `.HostSet()`) with ONE `UpdateHosts` (`U`) placed
between two of them on the real cluster; `c` = the replacement runs INSIDE `ChooseHost` (from the EDF weight callback).
Model: the publication machine `Model/Snapshot.lean` with the regenerated `UpdateHosts` step program under the
corresponding schedule (lookup = thread 0, update = thread 1) predicts which replacement the balancer and the host set
belong to (`o` = old, `n` = new). Predicate (independent of the regenerated program): the returned host comes from the
same replacement as the host set the lookup read, is an element of it and is healthy. -/
def snap (inter : String) (impl : List String) : String :=
  open MosnVerif.Model.Snapshot MosnVerif.Gen.Snapshot in
  match impl with
  | [tok] =>
    let nU := updateHosts.length
    let sched : List Nat := inter.toList.flatMap (fun ch =>
      if ch == 'L' || ch == 'G' || ch == 'H' then [0]
      else if ch == 'U' || ch == 'c' then List.replicate nU 1
      else [])
    let c := MosnVerif.Model.Snapshot.run (initConf updateHosts 1) sched
    let ver (v : Nat) : String := if v == 0 then "o" else if v == 1 then "n" else "?"
    let model := match seen c 0 with
      | some (x, y) => ver x ++ ver y
      | none => "??"
    let t := tok.toList
    let spec := match t with
      | [a, b, m, h] => (a == 'o' || a == 'n') && a == b && m == '1' && h == '1'
      | _ => false
    let agree := String.ofList (t.take 2) == model
    s!"{if agree then "A" else "D"} {if spec then "S" else "V"} {model}"
  | _ => "E E bad-case"

def run (caseToks impl : List String) : String :=
  match caseToks with
  | ["seq", pol, ops] => seq pol ops impl
  | ["snap", _, inter] => snap inter impl
  | ["conc", _, _, _] => conc impl
  | ["hops", polsub, ops] => MosnVerif.Drive.C05Hops.hops polsub ops impl
  | ["plk", psm, ops] => MosnVerif.Drive.C05Pool.plk psm ops impl
  | _ => "E E unknown-kind"

end MosnVerif.Drive.C05
