import MosnVerif.Drive.Util
import MosnVerif.Model.FrameChk
import MosnVerif.Model.FrameSpec
import MosnVerif.Model.FrameH2
import MosnVerif.Model.FrameH2Err
import MosnVerif.Model.FrameHpack
import MosnVerif.Model.HpackEmit
import MosnVerif.Model.H2Lock
import MosnVerif.Model.DispatchCodec
import MosnVerif.Model.PoolRecover
import MosnVerif.Drive.C08H2
import MosnVerif.Drive.C08Dubbo
import MosnVerif.Drive.C08H1
import MosnVerif.Drive.C08Set
import MosnVerif.Drive.C08Trail
import MosnVerif.Model.NeedMoreLive
import MosnVerif.Drive.C08Chk
import MosnVerif.Model.CheckedWire
/-! driver of C08 (malformed input contained): see `run` for the case kinds. Core Lean only. -/
namespace MosnVerif.Drive.C08
open MosnVerif.Drive MosnVerif.Model.Framing MosnVerif.Model.FrameBytes MosnVerif.Model.FrameChk MosnVerif.Model.KVBlock
open MosnVerif.Model.FrameSpec

def showOut : Out → String
  | .needMore => "needmore:0"
  | .frame n => s!"frame:{n}"
  | .error k => s!"error:{k}"
  | .oob => "panic"

def parseOutcome (s : String) : Option Outcome :=
  match s.splitOn ":" with
  | ["needmore", d] => d.toNat?.map Outcome.needMore
  | ["frame", d] => d.toNat?.map Outcome.frame
  | ["error", d] => d.toNat?.map Outcome.error
  | ["panic"] => some .panic
  | ["hang"] => some .hang
  | _ => none

/-- `dec <proto> <bytes> => <class>:<drained>`: one real `Decode` call on exactly these bytes. The payload black boxes
(hessian2 / thrift / TarsGo) may accept or refuse: the model is evaluated with both oracles and the implementation
must produce one of the two outcomes. -/
def dec (proto bytes : String) (impl : List String) : String :=
  match chkOf proto (fun _ => true), chkOf proto (fun _ => false), unhex bytes, impl with
  | some c1, some c0, some b, [o] =>
    let allowed := dedup [showOut (c1 b).out, showOut (c0 b).out]
    let agree := allowed.contains o
    -- [c08l9] a need-more answer must be honest: never on a buffer no continuation can complete (stuck connection)
    let spec := (match parseOutcome o with
      | some oc => specContained b.length oc
      | none => false) && !(o.startsWith "needmore" && MosnVerif.Model.NeedMoreLive.hopeless proto b)
    s!"{if agree then "A" else "D"} {if spec then "S" else "V"} {joinWith "|" allowed} alloc={(c1 b).alloc}"
  | _, _, _, _ => "E E bad-case"

def showKv : KvRes → String
  | .ok p => s!"ok:{p}"
  | .err => "err"
  | .oob => "panic"

/-- `kv <block> => ok:<pairs> | err | panic`: the real `xprotocol.DecodeHeader` on a header block -/
def kv (bytes : String) (impl : List String) : String :=
  match unhex bytes, impl with
  | some b, [o] =>
    let m := showKv (safe b)
    s!"{if m == o then "A" else "D"} {if o != "panic" && o != "hang" then "S" else "V"} {m}"
  | _, _ => "E E bad-case"

def showStep {F : Type} : Step F → String
  | .needMore => "needmore:0"
  | .frame _ n => s!"frame:{n}"
  | .error => "error:0"

/-- `h2dec <bytes> => <class>:<drained>`: one real server-side `ReadFrame` (after the preface) on exactly these bytes.
Payload parsers and HPACK may accept or refuse (oracles): the implementation must produce one of the model's outcomes. -/
def h2dec (bytes : String) (impl : List String) : String :=
  match unhex bytes, impl with
  | some b, [o] =>
    -- [c08p10] the payload parsers are the REGENERATED ones (Gen/C08H2Parse), no longer an oracle; only the verdict on a
    -- complete header block (HPACK + validation) may go either way
    let gp : List UInt8 → Bool := fun frame => MosnVerif.Model.CheckedWire.genParse? frame == some .ok
    let m (g : Bool) := showStep (MosnVerif.Model.FrameH2.h2Step MosnVerif.Gen.FrameConsts.http2_defaultMaxReadFrameSize
      gp (fun _ => g) true b)
    -- a failing ReadFrame consumes nothing, or (stream errors) the complete frame / header-block group
    let errs := (MosnVerif.Model.FrameH2.errDrains MosnVerif.Gen.FrameConsts.http2_defaultMaxReadFrameSize gp b).map
      (fun n => s!"error:{n}")
    let allowed := dedup ([m true, m false] ++
      (if (m true).startsWith "error" || (m false).startsWith "error" then errs else []))
    let agree := allowed.contains o
    let spec := match parseOutcome o with
      | some oc => specContained b.length oc
      | none => false
    s!"{if agree then "A" else "D"} {if spec then "S" else "V"} {joinWith "|" allowed}"
  | _, _ => "E E bad-case"

/-- `hpack <maxStrLen> <block> => ok:<nameLen>.<valueLen>,… | err | panic`: the real `hpack.Decoder.DecodeFull`.
Blocks outside the modelled subset (indexed fields, Huffman strings, size updates) only have to be contained. -/
def hpackK (maxs bytes : String) (impl : List String) : String :=
  match maxs.toNat?, unhex bytes, impl with
  | some mx, some b, [o] =>
    let spec := o != "panic" && o != "hang"
    match MosnVerif.Model.FrameHpack.decodeFull mx b with
    | .unmodelled => s!"A {if spec then "S" else "V"} unmodelled"
    | .err => s!"{if o == "err" then "A" else "D"} {if spec then "S" else "V"} err"
    | .ok fs =>
      let m := "ok:" ++ (if fs.isEmpty then "-" else joinWith "," (fs.map (fun f => s!"{f.1}.{f.2}")))
      s!"{if o == m then "A" else "D"} {if spec then "S" else "V"} {m}"
  | _, _, _ => "E E bad-case"

section hpackx
open MosnVerif.Model.HpackTable MosnVerif.Model.HpackEmit

def fieldTok (f : Field) : String := s!"f{if f.sensitive then "1" else "0"}:{hex f.name}:{hex f.value}"
def fieldsTok (l : List Field) : String := if l.isEmpty then "-" else joinWith "+" (l.map fieldTok)

/-- decode the blocks one after the other on ONE decoder (table lookups through the regenerated, checked `Decoder.at`);
a failed block ends the run (the decoder is not used after an error) -/
def hpackxRun (d : DecE) : List Bytes → List String
  | [] => []
  | b :: r =>
    match d.decodeFullP codePolicy (fun (_ : Unit) _ => ((), false)) () b with
    | .ok (d', _, fs) => s!"ok:{fieldsTok fs}" :: hpackxRun d' r
    | .error .panic => ["panic"]
    | .error (.dec _) => ["err"]

/-- `hpackx <maxStrLen> <block>,<block>… => <ok:fields | err | panic | hang>,…`: the real `hpack.Decoder.DecodeFull` on
a sequence of header blocks on one decoder (indexed fields, literals with name indices, Huffman strings, size
updates): complete model (Model/HpackTable + HpackEmit + checked `at`), outputs must agree; predicate: no panic, no hang -/
def hpackX (maxs blocks : String) (impl : List String) : String :=
  match maxs.toNat?, (blocks.splitOn ",").mapM unhex, impl with
  | some mx, some bs, [o] =>
    let outs := o.splitOn ","
    let spec := !(outs.contains "panic") && !(outs.contains "hang")
    let d0 : DecE := { base := { Dec.new 4096 with maxStrLen := mx }, emit := true }
    let m := joinWith "," (hpackxRun d0 bs)
    s!"{if m == o then "A" else "D"} {if spec then "S" else "V"} {m}"
  | _, _, _ => "E E bad-case"
end hpackx

section h2up
open MosnVerif.Gen.H2Lock MosnVerif.Model.H2Lock

/-- what the frames of the upstream peer mean for the in-flight request (hand-written from MClientConn.HandleFrame /
processData / processHeaders and the framer): `some true` = complete response, `some false` = stream error / reset,
`none` = still waiting. `sawH` = response HEADERS (without END_STREAM) seen. -/
def upstreamVerdict (method : String) : Bool → List String → Option Bool
  | _, [] => none
  | sawH, t :: r =>
    if t == "P" then upstreamVerdict method sawH r
    else if t == "W0" then some false
    else if t.startsWith "W" then upstreamVerdict method sawH r
    else if t.startsWith "R" then some false
    else if t == "Hbad" then some false
    else if t == "H" then (if sawH then some false else upstreamVerdict method true r)
    else if t == "He" then some true
    else if t == "D" || t == "De" then
      if !sawH then some false               -- DATA before the response HEADERS
      else if method == "HEAD" then some false  -- DATA on a HEAD request
      else if t == "De" then some true else upstreamVerdict method sawH r
    else none

/-- run goroutine 0 as far as it gets, then goroutine 1 (operations are counted generously) -/
def runBoth (s : Sys) : Sys :=
  let n := s.remaining + 2
  (s.run (List.replicate n 0)).run (List.replicate n 1)

/-- `h2up <method> <frames> => <r1> <r2> <same|new|none>`: the real HTTP/2 client stream connection against a raw-frame
upstream peer. Model: the frames decide response / stream error; on a stream error the connection's read goroutine walks
the regenerated path of clientStreamConnection.handleError (StreamError, stream registered) while the second request's
goroutine has to get through clientStream.endStream — both against the one connection mutex.  Predicate: both requests
terminate. -/
def h2up (method frames : String) (impl : List String) : String :=
  match impl with
  | [r1, r2, same] =>
    let spec := !(r1.startsWith "hang") && !(r2.startsWith "hang")
    let toks := frames.splitOn "+"
    let m : String :=
      if toks.getLast? == some "C" && (upstreamVerdict method false toks.dropLast).isNone then
        -- the peer closes the connection under the request: the read goroutine delivers the close event to
        -- clientStreamConnection.OnEvent and then to stream.client.OnEvent -> Reset, which resets the stream while it
        -- HOLDS the mutex; request 2 goes to a fresh connection (its own mutex)
        match clientPaths.find? (fun p => p.fn == "OnEvent"),
              clientPaths.find? (fun p => p.fn == "Reset" && p.conds.any (fun c => c.endsWith " x1")) with
        | some po, some pr =>
          let s := runBoth (Sys.start [flatten clientAcquires po.acts ++ flatten clientAcquires pr.acts, []])
          let done0 : Bool := (s.threads[0]?.map Thread.done).getD false
          s!"{if done0 then "reset:ConnectionTermination" else "hang"} resp new"
        | _, _ => "nopath"
      else
      match upstreamVerdict method false toks with
      | none => "waiting"
      | some true => "resp resp same"
      | some false =>
        match findPath clientPaths "handleError" ["case http2.StreamError", "s != nil"],
              clientPaths.find? (fun p => p.fn == "endStream" && p.conds.all (· == "err == nil")) with
        | some pe, some ps =>
          let s := runBoth (Sys.start [flatten clientAcquires pe.acts, flatten clientAcquires ps.acts])
          let done (i : Nat) : Bool := match s.threads[i]? with
            | some t => t.done
            | none => false
          -- a second request that never gets through endStream never reaches the peer (`none`)
          s!"{if done 0 then "reset:StreamRemoteReset" else "hang"} {if done 1 then "resp same" else "hang none"}"
        | _, _ => "nopath"
    -- a POST body is still being written when the stream is reset: the request may learn of it from the read
    -- goroutine (StreamRemoteReset) or from its own failing write (StreamLocalReset); the reason is not compared then
    let kind (r : String) : String := if method == "POST" && r.startsWith "reset:" then "reset" else r
    let agree := match m.splitOn " " with
      | [m1, m2, m3] => kind m1 == kind r1 && m2 == r2 && m3 == same
      | _ => false
    s!"{if agree then "A" else "D"} {if spec then "S" else "V"} {m}"
  | _ => "E E bad-case"
end h2up


section disp
open MosnVerif.Model.DispatchLoop

def stepTok : Out → String
  | .needMore => "n"
  | .frame n => s!"f{n}"
  | .error k => s!"e{k}"
  | .oob => "p"

def parseStep (s : String) : Option DStep :=
  if s == "n" then some .needMore
  else if s.startsWith "f" then (s.drop 1).toNat?.map DStep.frame
  else if s.startsWith "e" then (s.drop 1).toNat?.map DStep.error
  else none

def drainOf : DStep → Nat
  | .frame n => n
  | .error k => k
  | .badType n => n
  | .needMore => 0

/-- walk the buffer along the recorded Decode calls: every step must be what the checked-access decoder of the protocol
answers on the bytes still buffered (for one of the two payload oracles); yields the script (bytes buffered, step) -/
def walk (c1 c0 : Bytes → Res) : Bytes → List String → Option (List (Nat × DStep))
  | _, [] => some []
  | b, t :: r =>
    if [stepTok (c1 b).out, stepTok (c0 b).out].contains t then
      match parseStep t with
      | some st => (walk c1 c0 (b.drop (drainOf st)) r).map ((b.length, st) :: ·)
      | none => none
    else none

/-- `disp <proto> <bytes> => <ret|runaway|hang|panic> <steps> <left>`: ONE real `streamConn.Dispatch` on a buffer holding
exactly these bytes, Decode calls recorded by the codec wrapper.  Model: the regenerated loop (`xPolicy`) run over the
script of recorded decoder answers (each checked against the decoder model) must make exactly as many Decode calls and
leave as many bytes.  Predicate (independent of the regenerated loop): Dispatch returned; at most `|bytes|+1` Decode
calls; every call but the last delivered a frame that drained something (nothing is decoded behind a failure or a
need-more); the buffer did not grow; [c08l9] a final need-more is not on bytes that can never become a frame. -/
def disp (proto bytes : String) (impl : List String) : String :=
  match chkOf proto (fun _ => true), chkOf proto (fun _ => false), unhex bytes, impl with
  | some c1, some c0, some b, [outcome, trace, left] =>
    let steps := if trace == "-" then [] else trace.splitOn ","
    let frameOk (t : String) : Bool := t.startsWith "f" && ((t.drop 1).toNat?.getD 0) > 0
    let spec := outcome == "ret" && decide (steps.length ≤ b.length + 1) && steps.dropLast.all frameOk &&
      (match left.toNat? with | some l => decide (l ≤ b.length) | none => false) &&
      -- [c08l9] Dispatch does not end in "need more data" on bytes no continuation can complete (stuck connection)
      !(steps.getLast? == some "n" &&
        MosnVerif.Model.NeedMoreLive.hopeless proto (b.drop (b.length - (left.toNat?.getD 0))))
    match walk c1 c0 b steps with
    | none => s!"D {if spec then "S" else "V"} step-not-of-the-decoder-model"
    | some script =>
      match run xPolicy (scripted script) (b.length + 1) ⟨b, 0⟩ with
      | none => s!"D {if spec then "S" else "V"} model-loop-out-of-fuel"
      | some c' =>
        let agree := outcome == "ret" && c'.calls == steps.length && some c'.buf.length == left.toNat?
        s!"{if agree then "A" else "D"} {if spec then "S" else "V"} ret calls={c'.calls} left={c'.buf.length}"
  | _, _, _, _ => "E E bad-case"
end disp

section pool
open MosnVerif.Model.PoolRecover

/-- `pool <api> <w><s> => survived | blocked | died`: a panicking task through the real worker pool in the given state
(w: a worker parked on p.work, s: a free worker slot), probed in a child process.  Model: the regenerated select tables.
Predicate: the process survived. -/
def pool (api st : String) (impl : List String) : String :=
  match apiOf api, st.toList, impl with
  | some sels, [w, s], [o] =>
    let v := dedup (verdicts sels ⟨w == '1', s == '1'⟩)
    let spec := o == "survived" || o == "blocked"
    s!"{if v.contains o then "A" else "D"} {if spec then "S" else "V"} {joinWith "|" v}"
  | _, _, _ => "E E bad-case"
end pool

def run (caseToks impl : List String) : String :=
  match caseToks with
  | ["dec", proto, bytes] => dec proto bytes impl
  | ["kv", bytes] => kv bytes impl
  | ["h2dec", bytes] => h2dec bytes impl
  | ["hpack", mx, bytes] => hpackK mx bytes impl
  | ["hpackx", mx, blocks] => hpackX mx blocks impl
  | ["h2up", method, frames] => h2up method frames impl
  | ["h2trail", side, toks] => MosnVerif.Drive.C08Trail.h2trail side toks impl
  | ["h2set", setting, hdr, body] => MosnVerif.Drive.C08Set.h2set setting hdr body impl
  | ["mat", name, bytes] => MosnVerif.Drive.C08Chk.mat name bytes impl
  | ["h2pay", ty, flags, sid, payload] => MosnVerif.Drive.C08Chk.h2pay ty flags sid payload impl
  | ["h2hl", limit, fields] => MosnVerif.Drive.C08Chk.h2hl limit fields impl
  | ["h2body", side, cl, chunks, endS] => MosnVerif.Drive.C08Chk.h2body side cl chunks endS impl
  | ["disp", proto, bytes] => disp proto bytes impl
  | ["pool", api, st] => pool api st impl
  | ["dmeta", listener, kinds, nargs, _] => MosnVerif.Drive.C08Dubbo.dmeta listener kinds nargs impl
  | ["h2disp", side, bytes] => MosnVerif.Drive.C08H2.h2disp side bytes impl
  | ["h1disp", side, l, b, bytes, script, head] => MosnVerif.Drive.C08H1.h1disp side l b bytes script head impl
  | ["contain", _, _] =>
    -- containment run (support): the probe client must have been answered after this malformed connection
    (match impl with
     | [o] => s!"{if o == "ok" then "A" else "D"} {if o == "ok" then "S" else "V"} ok"
     | _ => "E E bad-case")
  | _ => "E E unknown-kind"

end MosnVerif.Drive.C08
