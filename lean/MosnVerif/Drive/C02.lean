import MosnVerif.Drive.DispatchCtx
import MosnVerif.Drive.BufReuse
import MosnVerif.Drive.HpackOrder
import MosnVerif.Drive.StreamGen
import MosnVerif.Drive.H2ClientTable
import MosnVerif.Drive.ProxyGenDrive
import MosnVerif.Drive.Util
import MosnVerif.Model.StreamTableSpec
import MosnVerif.Model.CorrelateSpec
namespace MosnVerif.Drive.C02
open MosnVerif.Drive MosnVerif.Model.StreamTable

def parseProto : String → Option Proto
  | "bolt" => some .bolt | "boltv2" => some .boltv2 | "dubbo" => some .dubbo
  | "thrift" => some .thrift | "tars" => some .tars | _ => none

inductive HOp | n | o | r (w : Nat) | u (id : Int) | x (w : Nat) | c

def numAfter (s : String) (n : Nat) : Option Nat := (s.drop n).toString.toNat?

def parseHOp (t : String) : Option HOp :=
  if t == "N" then some .n else if t == "O" then some .o else if t == "C" then some .c
  else if t.startsWith "R" then (numAfter t 1).map .r
  else if t.startsWith "U" then (numAfter t 1).map (fun n => .u n)
  else if t.startsWith "X" then (numAfter t 1).map .x
  else none

def splitNE (s : String) (sep : String) : List String := (s.splitOn sep).filter (· ≠ "")

def parseGot (t : String) : Option (Int × Nat) :=
  match t.splitOn "/" with
  | [a, b] => match parseInt? a, b.toNat? with
    | some x, some y => some (x, y)
    | _, _ => none
  | _ => none

def parseWaiter (t : String) : Option OWaiter :=
  match t.splitOn ":" with
  | [i, g, r] =>
    match parseInt? i, (splitNE g ",").mapM parseGot, r.toNat? with
    | some i, some g, some r => some { id := i, got := g, resets := r }
    | _, _, _ => none
  | _ => none

/-- `b<base>;t<ids>;w<id:got:resets;…>` (waiters separated by `;`) -/
def parseObs (t : String) : Option ObsC :=
  match t.splitOn ";" with
  | bb :: tt :: ww =>
    if !(bb.startsWith "b" && tt.startsWith "t") then none else
    match ww with
    | [] => none
    | w0 :: wr =>
      if !w0.startsWith "w" then none else
      let wts := ((w0.drop 1).toString :: wr).filter (· ≠ "")
      match parseInt? (bb.drop 1).toString, (splitNE (tt.drop 1).toString ",").mapM parseInt?, wts.mapM parseWaiter with
      | some b, some t, some w => some { base := b, table := t, waiters := w }
      | _, _, _ => none
  | _ => none

/-- turn a harness op into a model op, using the MODEL's own ids for `R<w>` -/
def toOp (s : Conn) (step : Nat) : HOp → Op
  | .n => .newStream false
  | .o => .newStream true
  | .r w => .reply (s.waiter w).id step
  | .u id => .reply id step
  | .x w => .resetStream w
  | .c => .connReset

def modelTrace (s : Conn) (step : Nat) : List HOp → List Conn
  | [] => []
  | h :: r => let s' := Model.StreamTable.step s (toOp s step h); s' :: modelTrace s' (step + 1) r

/-- the property predicate along the implementation's observations -/
def specAlong (step : Nat) (sawC : Bool) (before : ObsC) : List HOp → List String → Bool
  | [], _ => true
  | _ :: _, [] => false
  | h :: hs, t :: ts =>
    match parseObs t with
    | none => false
    | some o =>
      let stepOk := match h with
        | .r w => match before.waiters[w]? with
          | some bw => replySpec bw.id step before o
          | none => false
        | .u id => replySpec id step before o
        -- a stream reset by its user (no connection reset in the history) leaves the table: a late reply is dropped
        | .x w => match before.waiters[w]? with
          | some bw => sawC || !o.table.contains bw.id
          | none => false
        | _ => true
      let sawC' := sawC || (match h with | .c => true | _ => false)
      stepOk && obsSpecC o && obsSpecGlobal o && specAlong (step + 1) sawC' o hs ts

def tbl (pr base ops : String) (impl : List String) : String :=
  match parseProto pr, base.toNat?, (ops.splitOn ",").mapM parseHOp with
  | some p, some b, some hops =>
    let s0 := init p b
    let tr := modelTrace s0 0 hops
    let last := tr.getLast?.getD s0
    let wire := "wire" ++ ",".intercalate ((List.range last.nW).map (fun w => toString (last.waiter w).id))
    let modelToks := tr.map render ++ [wire]
    let agree := impl == modelToks
    -- the wire: the k-th request frame the upstream saw carries the id of the k-th stream object
    let implObs := impl.dropLast
    let wireOk := match implObs.getLast? >>= parseObs, impl.getLast? with
      | some o, some wt => wt == "wire" ++ ",".intercalate (o.waiters.map (fun w => toString w.id))
      | _, _ => false
    let spec := impl.length == hops.length + 1 &&
      specAlong 0 false { base := b, table := [], waiters := [] } hops implObs && wireOk
    s!"{if agree then "A" else "D"} {if spec then "S" else "V"} {joinWith " " modelToks}"
  | _, _, _ => "E E bad-case"

/-- `gen <proto> <base> <n> => id,id,… b<final base>` -/
def genLine (pr base n : String) (impl : List String) : String :=
  match parseProto pr, base.toNat?, n.toNat?, impl with
  | some p, some b, some n, [idsTok, baseTok] =>
    let rec go (k : Nat) (cur : Int) (acc : List Int) : List Int × Int :=
      match k with
      | 0 => (acc.reverse, cur)
      | k + 1 => let (nb, id) := gen p cur; go k nb (id :: acc)
    let (ids, fin) := go n (b : Int) []
    let model := s!"{",".intercalate (ids.map toString)} b{fin}"
    let agree := s!"{idsTok} {baseTok}" == model
    -- declarative reference: the k-th id is refId (b + k) and the counter moved by n (mod 2^64)
    let implIds := (idsTok.splitOn ",").map parseInt?
    let refIds := (List.range n).map (fun (k : Nat) => some (refId p ((b : Int) + (k : Int) + 1)))
    let spec := implIds == refIds && baseTok == s!"b{((b : Int) + n) % 18446744073709551616}"
    s!"{if agree then "A" else "D"} {if spec then "S" else "V"} {model}"
  | _, _, _, _ => "E E bad-case"


/-! ### kind `e2e`: the end-to-end run through the proxy
`e2e <warm> <did:tok:kind,…> <script> => b<base> c<upstream connections> <log> <uid/tok,…> <id/status/htok/btok,…>`.
The log is the schedule the harness observed / enforced: `Q<k>` request k decoded, `F<k>` forwarded (seen by the
upstream), `B<k>` try given up for a retry, `A<i>` upstream answers the i-th frame it received, `J<id>` reply with an
unknown id, `T<k>` local error reply, `X` upstream connection closed. -/
namespace E2E
open MosnVerif.Model.Correlate

def list (t : String) : List String := if t == "-" then [] else splitNE t ","

structure Req where
  did : Int
  tok : Nat

def parseReq (t : String) : Option Req :=
  match t.splitOn ":" with
  | [d, k, _] => match parseInt? d, k.toNat? with
    | some d, some k => some { did := d, tok := k }
    | _, _ => none
  | _ => none

/-- requests written by the client: the members of the `S` steps of the script -/
def sentOf (script : String) : Option (List Nat) :=
  ((list script).filter (·.startsWith "S")).foldlM (fun acc t =>
    ((splitNE (t.drop 1).toString ".").mapM String.toNat?).map (acc ++ ·)) []

/-- position of harness request `k` among the `Q` events so far (the model numbers exchanges in arrival order) -/
def exOf (qs : List Nat) (k : Nat) : Option Nat :=
  let i := qs.findIdx (· == k)
  if i < qs.length then some i else none

def tokStr (t : String) : Option Nat := if t.startsWith "t" then (t.drop 1).toString.toNat? else none

/-- classify an observed downstream frame `id/status/htok/btok`. `hdrCh`: the protocol's responses have a header channel
for the token (dubbo's have none: the body alone is the payload); `errTok`: a local error reply echoes the request's
header (dubbo-thrift's Hijack copies the method name): acceptable iff it is the token of the request with that id -/
def parseDnP (hdrCh errTok : Bool) (sent : List (Int × Nat)) (t : String) : Option (Int × Payload) :=
  match t.splitOn "/" with
  | [i, st, h, b] =>
    match parseInt? i, st.toNat? with
    | some i, some st =>
      if st == 0 then
        match tokStr h, tokStr b with
        | some x, some y => some (i, if x == y then .ok x else .mixed)
        | none, some y => some (i, if !hdrCh && h == "-" then .ok y else .mixed)
        | _, _ => some (i, .mixed)
      else
        let hOk := h == "-" || (errTok && (match tokStr h with
          | some x => sent.any (fun r => r.1 == i && r.2 == x)
          | none => false))
        some (i, if hOk && b == "-" then .err else .mixed)
    | _, _ => none
  | _ => none

def parseDn (t : String) : Option (Int × Payload) := parseDnP true false [] t

def renderFrame (f : Int × Payload) : String :=
  match f.2 with
  | .ok t => s!"{f.1}/t{t}"
  | .err => s!"{f.1}/e"
  | .mixed => s!"{f.1}/mixed"

/-- replay the log on the model; `fw` = the forwards so far as (harness request, index of its frame on the upstream
wire); `none` = malformed log -/
def replay (reqs : List Req) : Sys → List Nat → List (Nat × Nat) → List String → Option Sys
  | s, _, _, [] => some s
  | s, qs, fw, t :: r =>
    let arg := (t.drop 1).toString
    if t == "X" then replay reqs (step s .connReset) qs fw r
    else if t.startsWith "A" then
      -- `A<k>.<try>`: the upstream answers the try-th frame it received for request k, echoing its token
      match arg.splitOn "." with
      | [a, b] => match a.toNat?, b.toNat? with
        | some k, some j => match ((fw.filter (·.1 == k)).map (·.2))[j - 1]? with
          | some i => match s.wire[i]? with
            | some (id, tok) => replay reqs (step s (.reply id tok true)) qs fw r
            | none => none
          | none => none
        | _, _ => none
      | _ => none
    else match arg.toNat? with
      | none => none
      | some n =>
        if t.startsWith "Q" then
          match reqs[n]? with
          | some q => replay reqs (step s (.request q.did q.tok true)) (qs ++ [n]) fw r
          | none => none
        else if t.startsWith "J" then replay reqs (step s (.reply n 999 true)) qs fw r
        else match exOf qs n with
          | none => none
          | some k =>
            if t.startsWith "F" then
              let s' := step s (.forward k)
              replay reqs s' qs (if s'.wire.length == s.wire.length then fw else fw ++ [(n, s.wire.length)]) r
            else if t.startsWith "B" then replay reqs (step s (.abandon k)) qs fw r
            else if t.startsWith "T" then replay reqs (step s (.fail k)) qs fw r
            else none

def runP (pr : Proto) (hdrCh errTok : Bool) (reqsT script : String) (impl0 : List String) : String :=
  -- a 6th token `skew:<why>`: the run did not follow its plan's timing (three attempts); the schedule is not replayed,
  -- the predicate is still evaluated on the frames the client received
  let skew := impl0.length == 6 && (impl0.getLast?.getD "").startsWith "skew:"
  let impl := if skew then impl0.dropLast else impl0
  match (list reqsT).mapM parseReq, sentOf script, impl with
  | some reqs, some sent, [bT, cT, logT, upT, dnT] =>
    let sentReqs := sent.filterMap (fun k => reqs[k]?.map (fun q => (q.did, q.tok)))
    match (bT.drop 1).toString.toNat?, (list dnT).mapM (parseDnP hdrCh errTok sentReqs) with
    | some base, some dn =>
      if skew then s!"A {if specE2E sentReqs dn then "S" else "V"} skew" else
      match replay reqs (init pr base) [] [] (list logT) with
      | none => "E E bad-log"
      | some s =>
        let wireM := s.wire.map (fun x => s!"{x.1}/{x.2}")
        let dnM := sortStrings ((framesOf s).map renderFrame)
        let model := s!"{if wireM.isEmpty then "-" else ",".intercalate wireM} {if dnM.isEmpty then "-" else ",".intercalate dnM}"
        let agree := cT == "c1" && sortStrings (list upT) == sortStrings wireM && sortStrings (dn.map renderFrame) == dnM
        -- the property predicate on what the client saw: requests it wrote vs frames it read
        let spec := specE2E sentReqs dn
        s!"{if agree then "A" else "D"} {if spec then "S" else "V"} {model}"
    | _, _ => "E E bad-impl"
  -- the harness could not complete one plain exchange through the proxy (nothing to evaluate the predicate on)
  | some _, some _, ["warmup-failed"] => "D S no-exchange-completes"
  | _, _, _ => "E E bad-case"

def run (reqsT script : String) (impl0 : List String) : String := runP .bolt true false reqsT script impl0

end E2E

def run (caseToks impl : List String) : String :=
  match caseToks with
  | ["e2e", _, reqs, script] => E2E.run reqs script impl
  | ["e2ex", pr, _, reqs, script] =>
    match parseProto pr with
    | some p => E2E.runP p (pr != "dubbo") (pr == "thrift") reqs script impl
    | none => "E E bad-proto"
  | ["tbl", pr, base, ops] => tbl pr base ops impl
  | ["gen", pr, base, n] => genLine pr base n impl
  | ["ctx", proto, _stream, frames, chunks] => MosnVerif.Drive.DispatchCtx.run proto frames chunks impl
  | ["h1b", _nconn, plan] => MosnVerif.Drive.BufReuse.run plan impl
  | ["h2w", side, _mode, _w, resps] => MosnVerif.Drive.HpackOrder.run side resps impl
  | ["sgen", plan] => MosnVerif.Drive.StreamGen.run plan impl
  | ["h2tbl", first, ops] => MosnVerif.Drive.H2ClientTable.run first ops impl
  | ["pgen", timer, aEnd, rel] => MosnVerif.Drive.ProxyGenDrive.run timer aEnd rel impl
  | _ => "E E unknown-kind"

end MosnVerif.Drive.C02
