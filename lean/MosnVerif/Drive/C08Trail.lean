import MosnVerif.Drive.Util
import MosnVerif.Model.H2Trailers
/-! [c08l9] helper driver of C08, kind `h2trail` (a second HEADERS frame on a request stream). Core Lean only; no `main`. -/
namespace MosnVerif.Drive.C08Trail
open MosnVerif.Drive MosnVerif.Model.H2Trailers

def parseTok : String → Option Ev
  | "H" => some (.headers .head false false)
  | "He" => some (.headers .head false true)
  | "Hd" => some (.headers .head true false)
  | "Hde" => some (.headers .head true true)
  | "T" => some (.headers .trail false false)
  | "Te" => some (.headers .trail false true)
  | "Tp" => some (.headers .trailPseudo false true)
  | "Tf" => some (.headers .trailForbidden false true)
  | "D" => some (.data false)
  | "De" => some (.data true)
  | _ => none

def showSt (s : St) : String :=
  let del := if s.del.isEmpty then "-" else joinWith "," s.del
  s!"{if s.panicked then "panic" else "ret"} {del} {s.resets} {s.rst} {if s.closed then 1 else 0}"

/-- `h2trail srv <tokens> => <ret|panic|hang> <deliveries> <resets> <rst> <closed>`: one real server-side Dispatch.
Model: `run cfgGen` (configuration read off the regenerated structure) on the tokens.  Predicate: the Dispatch returned. -/
def h2trail (side toks : String) (impl : List String) : String :=
  match side, (toks.splitOn "+").mapM parseTok, impl with
  | "srv", some evs, [outcome, del, resets, rst, closed] =>
    let m := showSt (run cfgGen {} evs)
    let o := s!"{outcome} {del} {resets} {rst} {closed}"
    s!"{if m == o then "A" else "D"} {if h2trailSpec outcome then "S" else "V"} {m}"
  | _, _, _ => "E E bad-h2trail-case"

end MosnVerif.Drive.C08Trail
