import MosnVerif.Drive.Util
import MosnVerif.Model.Flow
import MosnVerif.Model.FlowWake
import MosnVerif.Model.HpackInt
import MosnVerif.Model.H2Frame
import MosnVerif.Model.HpackTable
import MosnVerif.Model.H2Seq
import MosnVerif.Model.HpackEmit
import MosnVerif.Drive.C18Limits
import MosnVerif.Drive.C18Huff
import MosnVerif.Drive.C18Fpay
/-! `mosnmodel` side of C18 (core Lean only): evaluates the models on each case line and the executable property
predicates on the implementation's output. -/
namespace MosnVerif.Drive.C18
open MosnVerif.Drive

def verdict (agree spec : Bool) (out : String) : String :=
  s!"{if agree then "A" else "D"} {if spec then "S" else "V"} {out}"

/-! ### flowops -/
section flowops
open MosnVerif.Gen.Flow

/-- independent reference of int32 arithmetic and of the three flow operations (RFC 7540 §6.9 bookkeeping) -/
def refWrap (x : Int) : Int := ((x + 2147483648) % 4294967296) - 2147483648
def refAdd (w v : Int) : Int × Bool :=
  if -2147483648 ≤ w + v ∧ w + v ≤ 2147483647 then (w + v, true) else (w, false)
def refAvail (hasConn : Bool) (w cw : Int) : Int := if hasConn then min w cw else w

def b01 (b : Bool) : String := if b then "1" else "0"

/-- run the op list on (window, connection window) with the given add/avail/take; returns output tokens -/
def flowRun (hasConn : Bool) (fAdd : Int → Int → Int × Bool) (fAvail : Int → Int → Int)
    (fTake : Int → Int → Int → Option (Int × Int)) : List String → Int → Int → Option (List String)
  | [], _, _ => some []
  | op :: r, w, cw =>
    let arg := parseInt? (op.drop 1).toString
    match op.front, arg with
    | 'a', some v => let x := fAdd w v; (flowRun hasConn fAdd fAvail fTake r x.1 cw).map (s!"{b01 x.2}:{x.1}" :: ·)
    | 'c', some v => let x := fAdd cw v; (flowRun hasConn fAdd fAvail fTake r w x.1).map (s!"{b01 x.2}:{x.1}" :: ·)
    | 't', some v =>
      match fTake w cw v with
      | none => (flowRun hasConn fAdd fAvail fTake r w cw).map ("p" :: ·)
      | some (w', cw') => (flowRun hasConn fAdd fAvail fTake r w' cw').map (s!"{w'}:{cw'}" :: ·)
    | 'v', _ => (flowRun hasConn fAdd fAvail fTake r w cw).map (s!"{fAvail w cw}" :: ·)
    | _, _ => none

def flowops (hc ops : String) (impl : List String) : String :=
  let hasConn := hc == "1"
  let opl := ops.splitOn ","
  let model := flowRun hasConn add (fun w cw => available w hasConn cw) (fun w cw v => take w hasConn cw v) opl 0 0
  let ref := flowRun hasConn refAdd (refAvail hasConn)
    (fun w cw v => if v > refAvail hasConn w cw then none else some (refWrap (w - v), if hasConn then refWrap (cw - v) else cw)) opl 0 0
  match model, ref, impl with
  | some m, some r, [i] =>
    let ms := joinWith "," m
    verdict (ms == i) (joinWith "," r == i) ms
  | _, _, _ => "E E bad-flowops"
end flowops

/-! ### peer scripts -/
section peer
open MosnVerif.Model.Flow MosnVerif.Gen.Flow MosnVerif.Model.FlowWake

structure PSt where
  side : Side
  cn : Int
  init : Int
  maxFrame : Int
  closed : Bool
  strms : Array Strm
  ended : Array Bool
  bodies : Array Nat

def PSt.toSt (p : PSt) : St :=
  { side := p.side, cn := p.cn, init := p.init, maxFrame := p.maxFrame, closed := p.closed, panicked := false,
    count := p.strms.size, strm := fun j => p.strms.getD j { n := 0, rem := 0 }, trace := [] }

def PSt.ofSt (p : PSt) (s : St) : PSt :=
  { p with cn := s.cn, init := s.init, maxFrame := s.maxFrame, closed := s.closed || s.panicked,
           strms := (Array.range s.count).map s.strm }

def PSt.initial (side : Side) : PSt :=
  let s := St.initial side
  { side := side, cn := s.cn, init := s.init, maxFrame := s.maxFrame, closed := false, strms := #[], ended := #[], bodies := #[] }

/-- one event token of the script -> model label -/
def parseEv (t : String) : Option Label :=
  let body := (t.drop 1).toString
  match t.front with
  | 'O' => body.toNat?.map Label.openStream
  | 'C' => body.toNat?.map Label.wuConn
  | 'I' => body.toNat?.map Label.setInit
  | 'M' => body.toNat?.map Label.setMaxFrame
  | 'S' => match body.splitOn ":" with
    | [i, v] => match i.toNat?, v.toNat? with
      | some i, some v => some (Label.wuStream i v)
      | _, _ => none
    | _ => none
  | _ => none

/-- observed frames of one interval: (stream index, some size | none = END_STREAM) -/
def parseFrames (s : String) : Option (List (Nat × Option Nat)) :=
  if s == "-" then some [] else
  (s.splitOn "+").mapM (fun f => match f.splitOn ":" with
    | [i, "e"] => i.toNat?.map (fun i => (i, none))
    | [i, z] => match i.toNat?, z.toNat? with
      | some i, some z => some (i, some z)
      | _, _ => none
    | _ => none)

/-- repeat the sender pass of stream `i` until it blocks; returns the new state and the frame sizes written -/
def saturate (p : PSt) (i : Nat) : Nat → PSt × List Nat
  | 0 => (p, [])
  | fuel + 1 =>
    let s := p.toSt
    let s' := sendStep s i
    match s'.trace with
    | [Obs.data _ sizes] =>
      let p' := { p with cn := s'.cn, strms := p.strms.setIfInBounds i (s'.strm i), closed := s'.closed || s'.panicked }
      if sizes.isEmpty then (p', []) else
      let (p'', more) := saturate p' i fuel
      (p'', sizes ++ more)
    | _ => ({ p with closed := s'.closed || s'.panicked }, [])

def want (p : PSt) (i : Nat) : Nat :=
  let st := p.strms.getD i { n := 0, rem := 0 }
  if p.closed || p.maxFrame < 1 then 0 else min st.n.toNat st.rem

structure Acc where
  p : PSt
  peer : Peer
  sent : Array Nat := #[]
  endSeen : Array Bool := #[]
  agree : Bool
  spec : Bool
  log : List String

def obsOfLabel : Label → List Obs
  | .openStream _ => [Obs.opened]
  | .wuStream i v => [Obs.wuS i v]
  | .wuConn v => [Obs.wuC v]
  | .setInit v => [Obs.sInit v]
  | .setMaxFrame v => [Obs.sMax v]
  | .send _ => []

/-- process one (event, observation) pair -/
def peerEvent (a : Acc) (ev : Label) (o : String) : Acc :=
  let connErrObs := o.endsWith "!"
  let o1 := if connErrObs then (o.dropEnd 1).toString else o
  match o1.splitOn "/" with
  | [fr, win] =>
    match parseFrames fr with
    | none => { a with agree := false, spec := false, log := "bad-frames" :: a.log }
    | some frames =>
      -- 1. model: apply the peer's frame
      let s1 := step a.p.toSt ev
      let p1 : PSt := match ev with
        | .openStream len =>
          let q := a.p.ofSt s1
          if s1.count > a.p.strms.size then { q with ended := a.p.ended.push false, bodies := a.p.bodies.push len } else q
        | _ => a.p.ofSt s1
      -- 2. which sender goroutines run.  Between two peer frames every unfinished sender is parked in cond.Wait() (the
      -- harness waits for that): after a Broadcast — the REGENERATED condition of the site, `signals (codePolicy …)` —
      -- all of them re-evaluate their guard; after an opening only the new one runs; otherwise nobody does.  A server
      -- stream that completes its body is closed, which Broadcasts too.
      let n := p1.strms.size
      let obsOn (i : Nat) : List Nat := frames.filterMap (fun f => if f.1 == i then f.2 else none)
      let endOn (i : Nat) : Bool := frames.any (fun f => f.1 == i && f.2.isNone)
      let bc := signals (codePolicy a.p.side) a.p.toSt ev
      let openedNow := match ev with
        | .openStream _ => s1.count > a.p.strms.size
        | _ => false
      let runs1 (i : Nat) : Bool := bc || (openedNow && i + 1 == n)
      let finishes (i : Nat) : Bool :=
        let st := p1.strms.getD i { n := 0, rem := 0 }
        runs1 i && st.rem > 0 && want p1 i == st.rem && (decide ((st.rem : Int) ≤ p1.cn) || (obsOn i).sum == st.rem)
      let runsAll := bc || (a.p.side == Side.server && (List.range n).any finishes)
      let runs (i : Nat) : Bool := runsAll || runs1 i
      -- what the running senders can write now
      let wants := (List.range n).map (fun i => if runs i then want p1 i else 0)
      let wanting := (wants.filter (· > 0)).length
      let contested := wanting ≥ 2 && decide ((wants.sum : Int) > p1.cn)
      let (p2, okFrames) :=
        if contested then
          -- any maximal greedy outcome is allowed: follow the implementation's split of the connection window
          let deltas := (List.range n).map (fun i => (obsOn i).sum)
          let total := deltas.sum
          let within := (List.range n).all (fun i => deltas.getD i 0 ≤ wants.getD i 0) && decide ((total : Int) ≤ p1.cn)
          let maximal := decide ((total : Int) = p1.cn) || (List.range n).all (fun i => deltas.getD i 0 == wants.getD i 0)
          let sizesOk := frames.all (fun f => match f.2 with
            | some z => z > 0 && z ≤ writeDataSplit && decide ((z : Int) ≤ p1.maxFrame)
            | none => true)
          let strms' := (Array.range n).map (fun i =>
            let st := p1.strms.getD i { n := 0, rem := 0 }
            let d := deltas.getD i 0
            ({ n := st.n - d, rem := st.rem - d } : Strm))
          ({ p1 with strms := strms', cn := p1.cn - total }, within && maximal && sizesOk)
        else
          (List.range n).foldl (fun (acc : PSt × Bool) i =>
            if runs i then
              let (q, pred) := saturate acc.1 i ((acc.1.strms.getD i { n := 0, rem := 0 }).rem + 1)
              (q, acc.2 && pred == obsOn i)
            else (acc.1, acc.2 && (obsOn i).isEmpty)) (p1, true)
      -- 3. END_STREAM exactly when the body is complete
      let endsOk := (List.range n).all (fun i =>
        let done := (p2.strms.getD i { n := 0, rem := 0 }).rem == 0 && !p2.closed
        let was := p2.ended.getD i false
        endOn i == (done && !was))
      let ended' := (Array.range n).map (fun i => p2.ended.getD i false || endOn i)
      let p3 := { p2 with ended := ended' }
      -- 4. windows as MOSN reports them
      let winModel := if n == 0 then "x" else joinWith ";" (s!"{p3.cn}" :: (List.range n).map (fun i => s!"{(p3.strms.getD i { n := 0, rem := 0 }).n}"))
      -- after a connection error the windows are dead state (a server SETTINGS that overflows one stream has already
      -- updated the streams that came earlier in Go's map order)
      let winOk := winModel == win || (p3.closed && connErrObs)
      let errOk := connErrObs == p3.closed
      -- 5. the peer's books on what was observed (independent of the model)
      let peer1 := (obsOfLabel ev).foldl peerStep a.peer
      let peer2 := frames.foldl (fun pr f => match f.2 with
        | some z => peerStep pr (Obs.data f.1 [z])
        | none => pr) peer1
      -- progress at quiescence (owed to a conformant peer on a live connection): nothing granted is left unsent,
      -- and a completely sent body has been closed with END_STREAM.  Uses only observed bytes and the peer's books.
      let sent' := (Array.range n).map (fun i => a.sent.getD i 0 + (obsOn i).sum)
      let endSeen' := (Array.range n).map (fun i => a.endSeen.getD i false || endOn i)
      let live := peer2.conformant && !connErrObs
      let stalled := live && (List.range n).any (fun i =>
        let remaining : Int := (p3.bodies.getD i 0 : Int) - (sent'.getD i 0 : Int)
        (decide (remaining > 0) && decide (peer2.w i > 0) && decide (peer2.connW > 0)) ||
        (decide (remaining = 0) && !(endSeen'.getD i false)) || decide (remaining < 0))
      { p := p3, peer := peer2, sent := sent', endSeen := endSeen', agree := a.agree && okFrames && endsOk && winOk && errOk,
        spec := a.spec && peer2.ok && !stalled,
        log := s!"{winModel}{if p3.closed then "!" else ""}" :: a.log }
  | _ => { a with agree := false, spec := false, log := "bad-obs" :: a.log }

def peer (sideTok evs : String) (impl : List String) : String :=
  match impl with
  | [obsTok, xparse] =>
    let side := if sideTok == "server" then Side.server else Side.client
    match (evs.splitOn ",").mapM parseEv with
    | none => "E E bad-events"
    | some labels =>
      let obs := obsTok.splitOn ","
      let (late, obs) := match obs.reverse with
        | l :: r => if l.startsWith "late:" then (some ((l.drop 5).toString), r.reverse) else (none, obs)
        | [] => (none, obs)
      if obs.length != labels.length then "E E events-observations-mismatch" else
      let a0 : Acc := { p := PSt.initial side, peer := Peer.initial, agree := true, spec := true, log := [] }
      let a := (labels.zip obs).foldl (fun a eo => peerEvent a eo.1 eo.2) a0
      -- frames written after the script had quiesced: charged to the peer's books, never predicted by the model
      let (lateAgree, lateSpec) := match late with
        | none => (true, true)
        | some l => match parseFrames l with
          | none => (false, false)
          | some fs => (false, (fs.foldl (fun pr f => match f.2 with
              | some z => peerStep pr (Obs.data f.1 [z])
              | none => pr) a.peer).ok)
      verdict (a.agree && lateAgree && xparse == "xparse-ok") (a.spec && lateSpec && xparse == "xparse-ok") (joinWith "," a.log.reverse)
  | _ => "E E bad-peer-output"
end peer

/-! ### HPACK integers and plain strings -/
section hpackint
open MosnVerif.Model.HpackInt

def bytesOfHex (s : String) : Option Bytes := unhex s

def decTok : Except Err (Nat × Bytes) → String
  | .ok (v, r) => s!"ok:{v}:{r.length}"
  | .error .needMore => "needmore"
  | .error .overflow => "overflow"
  | .error .strLen => "strlen"

/-- declarative reference decoder (RFC 7541 §5.1), written without the model's loop: prefix value, then the
little-endian base-128 digits up to and including the first byte < 128; `m ≥ 63` guard as a digit-count limit of 9 -/
def refReadInt (n : Nat) (p : Bytes) : String :=
  match p with
  | [] => "needmore"
  | b :: r =>
    let pre := b.toNat % 2 ^ n
    if pre < 2 ^ n - 1 then s!"ok:{pre}:{r.length}" else
    let digits := r.takeWhile (fun x => x.toNat ≥ 128)
    let after := r.drop digits.length
    if digits.length ≥ 9 then "overflow" else
    match after with
    | [] => "needmore"
    | last :: rest =>
      let ds := digits ++ [last]
      let v := (ds.zipIdx.map (fun (d, k) => (d.toNat % 128) * 128 ^ k)).sum
      s!"ok:{pre + v}:{rest.length}"

def intCase (nTok iTok : String) (impl : List String) : String :=
  match nTok.toNat?, iTok.toNat?, impl with
  | some n, some i, encTok :: dec :: rest =>
    let enc := appendVarInt n i
    let mdec := decTok (readVarInt n (enc ++ [0x55]))
    let x5ok := match rest with
      | [] => true
      | [x] => x == "x5=" ++ hex (orFirst 0x20 (appendVarInt 5 i))
      | _ => false
    let agree := hex enc == encTok && mdec == dec && x5ok
    -- spec: the admissible values come back, the others are refused; the reference encoder produced the same bytes
    let expect := if i < 2 ^ 63 + (2 ^ n - 1) then s!"ok:{i}:1" else "overflow"
    let refDec := match bytesOfHex encTok with
      | some b => refReadInt n (b ++ [0x55])
      | none => "bad"
    let x5spec := match rest with
      | [x] => x == "x5=" ++ (match bytesOfHex encTok with
          | some (b :: r) => hex (UInt8.ofNat (b.toNat + 0x20) :: r)
          | _ => "bad")
      | _ => true
    verdict agree (dec == expect && refDec == dec && x5spec) s!"{hex enc} {mdec}"
  | _, _, _ => "E E bad-int"

def intDec (nTok hexTok : String) (impl : List String) : String :=
  match nTok.toNat?, bytesOfHex hexTok, impl with
  | some n, some p, [dec] =>
    let m := decTok (readVarInt n p)
    verdict (m == dec) (refReadInt n p == dec) m
  | _, _, _ => "E E bad-intdec"
end hpackint

/-! ### frame headers -/
section fh
open MosnVerif.Model.H2Frame

def fhTok (h : FrameHeader) : String := s!"{h.length}:{h.type}:{h.flags}:{h.streamID}"

def fhCase (l t f s : String) (impl : List String) : String :=
  match l.toNat?, t.toNat?, f.toNat?, s.toNat? with
  | some l, some t, some f, some s =>
    let h : FrameHeader := ⟨l, t, f, s⟩
    let expectParsed := fhTok { h with streamID := s % 2147483648 }
    match encodeHeader h with
    | none =>
      -- writer refuses; the reference refuses too
      match impl with
      | "toolarge" :: "-" :: r => verdict true (decide (l ≥ 16777216) && r == ["r=xtoolarge"]) "toolarge"
      | _ => verdict false (decide (l < 16777216)) "toolarge"
    | some b =>
      let mparsed := match parseHeader b with
        | some ph => fhTok ph
        | none => "none"
      match impl with
      | [hx, x, r, xw] =>
        let agree := hx == hex b && r == "r=" ++ mparsed
        let spec := x == "x=" ++ expectParsed && r == "r=" ++ expectParsed && xw == "xw=" ++ hx && decide (l < 16777216)
        verdict agree spec s!"{hex b} {mparsed}"
      | _ => verdict false false s!"{hex b} {mparsed}"
  | _, _, _, _ => "E E bad-fh"

def fhDec (hexTok : String) (impl : List String) : String :=
  match unhex hexTok, impl with
  | some p, [m, x] =>
    let model := match parseHeader p with
      | some h => fhTok h
      | none => "again"
    let spec := if p.length < 9 then m == "again" && x == "x=short" else x == "x=" ++ m
    verdict (model == m) spec model
  | _, _ => "E E bad-fhdec"
end fh


/-! ### string literals, header lists -/
section hpack
open MosnVerif.Model.HpackInt MosnVerif.Model.HpackTable
open MosnVerif.Model (Huffman.decode Huffman.decodeSpec)

def strTok : Except DErr (Bytes × Bytes) → String
  | .ok (s, r) => s!"ok:{hex s}:{r.length}"
  | .error .needMore => "needmore"
  | .error .invalid => "overflow"
  | .error .strLen => "strlen"
  | .error .huffman => "huffman"

/-- the literal 8-bit-stride decoder and the declarative bit-level decoder agree on this Huffman payload -/
def huffConsistent (raw : Bytes) : Bool :=
  match Huffman.decode 0 raw, Huffman.decodeSpec raw with
  | .ok a, some b => a == b
  | .error _, none => true
  | _, _ => false

def strCase (hexTok : String) (impl : List String) : String :=
  match unhex hexTok, impl with
  | some s, [encTok, dec, x, rx] =>
    let enc := appendString s
    let mdec := strTok (readString 0 (enc ++ [0x55]))
    let cons := match readStringRaw 0 enc with
      | .ok (true, raw, _) => huffConsistent raw
      | _ => true
    let agree := hex enc == encTok && mdec == dec && cons
    let want := hex s
    let spec := dec == s!"ok:{want}:1" && x == "x=" ++ want && rx == "rx=" ++ want
    verdict agree spec s!"{hex enc} {mdec}"
  | _, _ => "E E bad-str"

def strDec (maxTok hexTok : String) (impl : List String) : String :=
  match maxTok.toNat?, unhex hexTok, impl with
  | some maxLen, some p, [dec, x] =>
    let m := strTok (readString maxLen p)
    let cons := match readStringRaw maxLen p with
      | .ok (true, raw, _) => maxLen != 0 || huffConsistent raw
      | _ => true
    -- spec: the reference decoder, given exactly the bytes MOSN consumed, yields the same string; and it refuses
    -- what MOSN refuses
    let spec := if dec.startsWith "ok:" then (match dec.splitOn ":" with
        | [_, h, _] => x == "x=" ++ h
        | _ => false) else x == "x=err"
    verdict (m == dec && cons) spec m
  | _, _, _ => "E E bad-strdec"

def fieldTok (f : Field) : String := s!"f{if f.sensitive then "1" else "0"}:{hex f.name}:{hex f.value}"
def fieldsTok (l : List Field) : String := if l.isEmpty then "-" else joinWith "+" (l.map fieldTok)

inductive HItem
  | boundary | tsize (v : Nat) | limit (v : Nat) | field (f : Field)

def parseItem (t : String) : Option HItem :=
  if t == "B" then some .boundary else
  match t.front with
  | 't' => (t.drop 1).toString.toNat?.map HItem.tsize
  | 'l' => (t.drop 1).toString.toNat?.map HItem.limit
  | 'f' => match t.splitOn ":" with
    | [fl, n, v] => match unhex n, unhex v with
      | some n, some v => some (.field { name := n, value := v, sensitive := fl == "f1" })
      | _, _ => none
    | _ => none
  | _ => none

structure HAcc where
  enc : Enc
  dec : Dec
  cur : Bytes          -- bytes of the block being written (model encoder)
  fields : List Field  -- fields of the block being written (input), reversed
  blocks : List String -- remaining implementation blocks
  decoded : List String
  agree : Bool
  spec : Bool
  dead : Bool          -- a decode error ended the run
  log : List String

def hdrStep (a : HAcc) : HItem → HAcc
  | .tsize v => if a.dead then a else { a with enc := a.enc.setMaxDynamicTableSize v }
  | .limit v => if a.dead then a else
      { a with enc := a.enc.setMaxDynamicTableSizeLimit v, dec := { a.dec with allowedMax := v } }
  | .field f => if a.dead then a else
      let (e, b) := a.enc.writeField f
      { a with enc := e, cur := a.cur ++ b, fields := f :: a.fields }
  | .boundary => if a.dead then a else
    match a.blocks, a.decoded with
    | blk :: br, dk :: dr =>
      let bytesOk := hex a.cur == blk
      -- decode the implementation's bytes with the model decoder
      let (dec', mtok) := match unhex blk with
        | some b => match a.dec.decodeFull b with
          | .ok (d, fs) => (d, fieldsTok fs)
          | .error _ => (a.dec, "err")
        | none => (a.dec, "bad")
      let want := fieldsTok a.fields.reverse
      { a with dec := dec', cur := [], fields := [], blocks := br, decoded := dr,
               agree := a.agree && bytesOk && mtok == dk, spec := a.spec && dk == want,
               dead := dk == "err", log := (if bytesOk then "b" else "B") :: a.log }
    | _, _ => { a with agree := false, spec := false, dead := true, log := "missing-block" :: a.log }

def hdrCase (items : String) (impl : List String) : String :=
  match (items.splitOn ",").mapM parseItem, impl with
  | some its, blocks :: decoded :: _ =>
    let a0 : HAcc := { enc := Enc.new, dec := Dec.new 4096, cur := [], fields := [], blocks := blocks.splitOn ",",
                       decoded := decoded.splitOn ",", agree := true, spec := true, dead := false, log := [] }
    let a := its.foldl hdrStep a0
    verdict a.agree a.spec (joinWith "" a.log.reverse)
  | _, _ => "E E bad-hdr"

/-! ### hdrcut: header blocks decoded while the emit callback switches emitting off mid-block -/
section hdrcut
open MosnVerif.Model.HpackEmit

inductive CItem
  | boundary (limit : Nat) | tsize (v : Nat) | field (f : Field)

def parseCItem (t : String) : Option CItem :=
  match t.front with
  | 'B' => (t.drop 1).toString.toNat?.map CItem.boundary
  | 't' => (t.drop 1).toString.toNat?.map CItem.tsize
  | 'f' => match t.splitOn ":" with
    | [fl, n, v] => match unhex n, unhex v with
      | some n, some v => some (.field { name := n, value := v, sensitive := fl == "f1" })
      | _, _ => none
    | _ => none
  | _ => none

/-- the harness / framer callback's notion of an invalid field in this kind: an upper-case letter in the name -/
def cutInvalid (f : Field) : Bool := f.name.any (fun b => 65 ≤ b.toNat && b.toNat ≤ 90)

def tabTok (t : DynTab) : String :=
  let ents := if t.ents.isEmpty then "-" else joinWith "+" (t.ents.map (fun e => s!"{hex e.1}:{hex e.2}"))
  s!"{t.size}/{t.maxSize}/{ents}"

/-- declarative reference of what a block hands over under header-list limit `l`: the fields before the first invalid
or oversized one, and the flag -/
def wantKept (l : Int) : List Field → List Field → String
  | [], acc => fieldsTok acc.reverse ++ "/-"
  | f :: r, acc =>
    if cutInvalid f then fieldsTok acc.reverse ++ "/I"
    else
      let size : Int := f.name.length + f.value.length + 32
      if size > l then fieldsTok acc.reverse ++ "/T" else wantKept (l - size) r (f :: acc)

structure CAcc where
  enc : Enc
  dec : DecE
  cur : Bytes
  fields : List Field  -- reversed
  cols : List (List String)  -- remaining implementation tokens: blocks, dec, tab, xdec, mfr, mtab
  agree : Bool
  spec : Bool
  dead : Bool
  log : List String

def heads (cols : List (List String)) : Option (List String × List (List String)) :=
  if cols.all (fun c => !c.isEmpty) then some (cols.map (fun c => c.headD ""), cols.map List.tail) else none

def cutStep (a : CAcc) : CItem → CAcc
  | .tsize v => if a.dead then a else { a with enc := a.enc.setMaxDynamicTableSize v }
  | .field f => if a.dead then a else
      let (e, b) := a.enc.writeField f
      { a with enc := e, cur := a.cur ++ b, fields := f :: a.fields }
  | .boundary limit => if a.dead then a else
    match heads a.cols with
    | some ([blk, dk, tk, xk, fk, ftk], rest) =>
      let bytesOk := hex a.cur == blk
      let d0 : DecE := { a.dec.startBlock with base := { a.dec.startBlock.base with maxStrLen := limit } }
      let st0 : FrSt := { remain := limit, kept := [], invalid := false, truncated := false }
      let (dec', mdec, mtab) := match unhex blk with
        | some b => match d0.decodeFullP codePolicy (framerCallback cutInvalid) st0 b with
          | .ok (d, st, _) =>
            (d, fieldsTok st.kept.reverse ++ "/" ++ (if st.invalid then "I" else if st.truncated then "T" else "-"), tabTok d.base.tab)
          | .error .panic => (a.dec, "panic", tabTok a.dec.base.tab)
          | .error (.dec _) => (a.dec, "err", "")
        | none => (a.dec, "bad", "")
      let fs := a.fields.reverse
      let want := wantKept limit fs []
      let wantTab := tabTok a.enc.tab
      let mfrWant := if mdec.endsWith "/I" then "?/I" else mdec
      let isErr := dk == "err"
      -- an error needs a reason: some string of the block longer than the limit (= maxStrLen)
      let longStr := fs.any (fun f => decide (f.name.length > limit) || decide (f.value.length > limit))
      let agree := bytesOk && mdec == dk && (isErr || (mtab == tk && mtab == ftk)) && fk == mfrWant
      let spec := if isErr then longStr && xk == "err"
                  else dk == want && tk == wantTab && xk == want && ftk == wantTab &&
                       (fk == want || (want.endsWith "/I" && fk == "?/I"))
      { a with dec := dec', cur := [], fields := [], cols := rest, agree := a.agree && agree, spec := a.spec && spec,
               dead := isErr || mdec == "panic" || mdec == "bad",
               log := (s!"{if bytesOk then "b" else "B"}{mdec}|{mtab}") :: a.log }
    | _ => { a with agree := false, spec := false, dead := true, log := "missing-block" :: a.log }

def hdrCutCase (items : String) (impl : List String) : String :=
  match (items.splitOn ",").mapM parseCItem, impl with
  | some its, [blocks, dec, tab, xdec, mfr, mtab] =>
    let a0 : CAcc := { enc := Enc.new, dec := DecE.new 4096, cur := [], fields := [],
                       cols := [blocks, dec, tab, xdec, mfr, mtab].map (·.splitOn ","),
                       agree := true, spec := true, dead := false, log := [] }
    let a := its.foldl cutStep a0
    verdict a.agree a.spec (joinWith "," a.log.reverse)
  | _, _ => "E E bad-hdrcut"
end hdrcut
end hpack


/-! ### frame sequences -/
section frames
open MosnVerif.Model.H2Seq MosnVerif.Model.H2Frame MosnVerif.Model.HpackTable

def orDash (s : String) : String := if s.isEmpty then "-" else s

def prioTok : Option Priority → String
  | none => "-"
  | some p => s!"{p.streamDep}.{if p.exclusive then "1" else "0"}.{p.weight}"

def frameTok : Frame → String
  | .data sid fl len d => s!"D:{sid}:{fl}:{len}:{hex d}"
  | .headers sid fl prio fields => s!"H:{sid}:{fl}:{prioTok prio}:{fieldsTok fields}"
  | .settings fl ss => s!"S:{fl}:{orDash (joinWith ";" (ss.map (fun x => s!"{x.1}={x.2}")))}"
  | .windowUpdate sid inc => s!"W:{sid}:{inc}"
  | .ping fl d => s!"P:{fl}:{hex d}"
  | .rst sid code => s!"R:{sid}:{code}"
  | .goAway last code dbg => s!"G:{last}:{code}:{hex dbg}"
  | .priority sid p => s!"Y:{sid}:{prioTok (some p)}"
  | .unknown t fl sid pl => s!"U:{t}:{fl}:{sid}:{hex pl}"

def errTok : RErr → String
  | .conn c => s!"E:conn:{c}"
  | .stream sid c => s!"E:stream:{sid}:{c}"
  | .tooLarge => "E:toolarge"
  | .other => "E:other"

def seqTok (r : List Frame × End) : String :=
  let toks := r.1.map frameTok ++ (match r.2 with
    | .clean => []
    | .short => ["E:short"]
    | .failed e => [errTok e])
  orDash (joinWith "," toks)

/-- what a frame specification of the case must read back as (writer `dir`: x2m = reference framer, m2x = MFramer) -/
def expectOfSpec (dir : String) (spec : String) : Option (List String) :=
  match spec.splitOn ":" with
  | ["D", sid, es, pad, dh] =>
    match unhex dh with
    | none => none
    | some d =>
      let esv := if es == "1" then 1 else 0
      if dir == "x2m" then
        match pad.toNat? with
        | some k => some [s!"D:{sid}:{esv + 8}:{d.length + 1 + k}:{dh}"]
        | none => some [s!"D:{sid}:{esv}:{d.length}:{dh}"]
      else
        -- MFramer.writeData: 16384-byte fragments, END_STREAM on the last; a nil slice is one empty frame
        if d.isEmpty then some [s!"D:{sid}:{esv}:0:-"] else
        let n := (d.length + 16383) / 16384
        some ((List.range n).map (fun k =>
          let chunk := (d.drop (16384 * k)).take 16384
          s!"D:{sid}:{if k + 1 == n then esv else 0}:{chunk.length}:{hex chunk}"))
  | "H" :: sid :: es :: pad :: prio :: nf :: rest =>
    let fieldsS := joinWith ":" rest
    let emptyFirst := nf.endsWith "e"
    let nfrag := ((if emptyFirst then (nf.dropEnd 1).toString else nf).toNat?).getD 1
    let single := !emptyFirst && nfrag ≤ 1
    let padded : Bool := match pad.toNat? with | some k => decide (k > 0) | none => false
    let fl := (if es == "1" then 1 else 0) + (if single then 4 else 0) + (if padded then 8 else 0) + (if prio != "-" then 32 else 0)
    some [s!"H:{sid}:{fl}:{prio}:{orDash fieldsS}"]
  | ["S", ack, ss] => some [s!"S:{ack}:{orDash ss}"]
  | ["P", ack, d] => some [s!"P:{ack}:{d}"]
  | "W" :: _ => some [spec]
  | "R" :: _ => some [spec]
  | "G" :: _ => some [spec]
  | "Y" :: _ => some [spec]
  | "U" :: _ => some [spec]
  | _ => none

def framesCase (dir mal specs : String) (impl : List String) : String :=
  match impl with
  | [wireHex, m, s, x] =>
    match unhex wireHex with
    | none => "E E bad-wire"
    | some wire =>
      let model := seqTok (readAll (wire.length + 1) RSt.initial wire [])
      let mm := (m.drop 2).toString
      let same := s == "s=" ++ mm && x == "x=" ++ mm
      let expected := if mal != "-" then true else
        match (specs.splitOn ",").mapM (expectOfSpec dir) with
        | some l => joinWith "," l.flatten == mm
        | none => false
      verdict (m == "m=" ++ model) (same && expected) (if model.length > 200 then (model.take 200).toString else model)
  | _ => "E E bad-frames-output"
end frames

def run (caseToks impl : List String) : String :=
  match caseToks with
  | ["flowops", hc, ops] => flowops hc ops impl
  | ["peer", side, evs] => peer side evs impl
  | ["int", n, i] => intCase n i impl
  | ["intdec", n, h] => intDec n h impl
  | ["fh", l, t, f, s] => fhCase l t f s impl
  | ["fhdec", h] => fhDec h impl
  | ["str", h] => strCase h impl
  | ["strdec", m, h] => strDec m h impl
  | ["hdr", _, items] => hdrCase items impl
  | ["hdrcut", items] => hdrCutCase items impl
  | ["frames", dir, mal, _, specs] => framesCase dir mal specs impl
  | "lim" :: rest => MosnVerif.Drive.C18Limits.run rest impl
  | "fpay" :: rest => MosnVerif.Drive.C18Fpay.run rest impl
  | ["hufftree", _] => MosnVerif.Drive.C18Huff.huffTreeCase impl
  | ["huff", m, h] => MosnVerif.Drive.C18Huff.huffCase m h impl
  | ["huffenc", h] => MosnVerif.Drive.C18Huff.huffEncCase h impl
  | _ => "E E unknown-kind"

end MosnVerif.Drive.C18
