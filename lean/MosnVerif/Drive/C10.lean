import MosnVerif.Drive.Downstream
import MosnVerif.Drive.DownstreamMC
import MosnVerif.Model.DownstreamSpec
import MosnVerif.Drive.C10Tcp
import MosnVerif.Drive.C09
import MosnVerif.Drive.C10Flags
import MosnVerif.Drive.C10Share  -- (c10p10: kind rsh)
/-!
C10 driver.  Kind `tcp` (stream proxy sessions on real sockets): see `Drive/C10Tcp.lean`.  Kinds `hist` / `mc`:
`A` = the model's trace, ledger and done flag equal the implementation's.
`Spec` (about the IMPLEMENTATION's final ledger, against the case only: ambient load `ar`,`aq`, thresholds `mr`,`mq`):
  1. no counter is below what the other requests hold: retries ≥ ar, requests ≥ aq, upstream gauge ≥ 0, and this request
     holds at most one slot of each: retries ≤ ar+1, requests ≤ aq+1                         — theorems `cur_nonneg`, `ledger_exact`
  2. the downstream gauge counts this request exactly while it is not done                   — `ledger_exact`
  3. a finished exchange has given everything back: retries = ar, requests = aq, upstream gauge 0 — `quiescent_zero`
  4. with the retry limit already reached by the others (mr > 0, ar ≥ mr) no second attempt is made — `limit_trips`, `retry_admission`
  5. unlimited resources (threshold 0) are not counted at all                                 — `ledger_exact`
  6. a retry is refused for overflow only when the retries breaker is at its limit through OTHER requests: when the ambient
     load does not reach the limit (mr = 0 or ar < mr) and no pool overflow / overflow reset occurred in the history, the
     access log carries no UpstreamOverflow flag (0x80, written down from the api documentation) — the request's own previous
     retry slot never blocks its next retry                                                      — `retry_admission`
-/
namespace MosnVerif.Drive.C10
open MosnVerif.Drive MosnVerif.Drive.Downstream MosnVerif.Model.Downstream

def logFlags (t : List Ev) : Nat := (t.findSome? (fun e => match e with | .log _ f => some f | _ => none)).getD 0

/-- something in the history other than the retries breaker can raise the overflow flag: a pool refusal for overflow
(scripted `PFo`, or the requests breaker: thresholds `mq`), an upstream reset with the overflow reason -/
def overflowSource (cs : Case) (t : List Ev) : Bool :=
  t.any (fun e => match e with | .uf _ .overflow => true | _ => false)
  || cs.sched.any (fun l => match l with
      | .upReset _ r => r.name == "StreamOverflow"
      | .poolFail .overflow => true
      | _ => false)

def spec (cs : Case) (i : Impl) : Bool :=
  match implTrace i with
  | none => false
  | some t =>
    let ar : Int := cs.ar
    let aq : Int := cs.aq
    ar ≤ i.ret && i.ret ≤ ar + 1 && aq ≤ i.req && i.req ≤ aq + 1 && 0 ≤ i.up
    && i.down == (if i.done then 0 else 1)
    && (!i.done || (i.ret == ar && i.req == aq && i.up == 0))
    && (!(cs.cfg.maxRetries > 0 && cs.ar ≥ cs.cfg.maxRetries) || (t.filter isAttempt).length ≤ 1)
    && (cs.cfg.maxRetries != 0 || i.ret == ar)
    && (cs.cfg.maxRequests != 0 || i.req == aq)
    && (!(cs.cfg.maxRetries == 0 || cs.ar < cs.cfg.maxRetries) || overflowSource cs t || logFlags t &&& 0x80 == 0)

def run (caseToks impl : List String) : String :=
  if caseToks.head? == some "mc" then DownstreamMC.run caseToks else
  if caseToks.head? == some "tcp" then C10Tcp.run caseToks impl else
  if caseToks.head? == some "flg" then C10Flags.run caseToks impl else  -- c10r7: request-info flags × end causes
  if caseToks.head? == some "rsh" then C10Share.run caseToks impl else  -- c10p10: the ledger across cluster updates (manager identity)
  -- the real pools' ledger (kinds of harness/c09: multiplex pool with one-way requests, HTTP/2 pool): the predicate is the
  -- observation predicate of the pool models — counters equal the truth after every operation
  if caseToks.head? == some "mux" || caseToks.head? == some "h2p" || caseToks.head? == some "win" || caseToks.head? == some "mxw" || caseToks.head? == some "h2w" || caseToks.head? == some "bnd" then MosnVerif.Drive.C09.run caseToks impl else
  match parseCase caseToks, parseImpl impl with
  | some cs, some i =>
    let out := renderOut cs
    let agree := out == joinWith " " impl
    s!"{if agree then "A" else "D"} {if spec cs i then "S" else "V"} {out}"
  | _, _ => "E E bad-case"

end MosnVerif.Drive.C10
