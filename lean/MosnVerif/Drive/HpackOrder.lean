import MosnVerif.Model.HpackOrder
import MosnVerif.Drive.Util
/-! kind `h2w`: `h2w <srv|cli|clt> <none|hold1|hold2|holdh|holdt> <w> <id=fields;…> => <order> <flag> <id=fields|err|missing;…>`
(harness/c02/h2w.go); fields = sorted `hex(name):hex(value)` tokens joined by `,`. -/
namespace MosnVerif.Drive.HpackOrder
open MosnVerif.Drive MosnVerif.Model.HpackOrder MosnVerif.Gen.H2WriteLock

def parseField (t : String) : Field :=
  match t.splitOn ":" with
  | n :: v => (n, ":".intercalate v)
  | [] => (t, "")

def parseResp (t : String) : Option (Nat × List Field) :=
  match t.splitOn "=" with
  | [i, fs] => i.toNat?.map (fun n => (n, (fs.splitOn ",").map parseField))
  | _ => none

def renderFields (fs : List Field) : String := ",".intercalate (fs.map (fun f => s!"{f.1}:{f.2}"))

def idxOfStream (reqs : List (Nat × List Field)) (st : Nat) : Option Nat :=
  let i := reqs.findIdx (·.1 == st)
  if i < reqs.length then some i else none

/-- the function a block of the case is sent by: `srv` responses, `cli` request headers; `clt` mixes request headers
(odd key = nominal stream id) and trailers (even key = nominal stream id + 1) -/
def fnOf (side : String) (key : Nat) : Fn :=
  if side == "srv" then serverWriteHeaders
  else if side == "clt" && key % 2 == 0 then clientTrailers
  else clientWriteHeaders

/-- the schedule the gate produced: with a mutex common to the side's functions every writer encodes and writes in the
wire order; without one the later writers may encode before the earlier ones write (the held write) -/
def schedule (common : Bool) (wireOrder : List Nat) : List Nat :=
  if common then wireOrder.flatMap (fun i => [i, i])
  else wireOrder.reverse ++ wireOrder ++ wireOrder ++ wireOrder ++ wireOrder

def run (side resps : String) (impl : List String) : String :=
  let sideFns := if side == "srv" then serverFns else clientFns
  match (resps.splitOn ";").mapM parseResp, impl with
  | some reqs, [orderT, flag, gotT] =>
    let order := (orderT.splitOn ",").filterMap (fun t => t.toNat? >>= idxOfStream reqs)
    -- writers that did not show up on the wire run last (the model writes every block)
    let order := order ++ (List.range reqs.length).filter (fun i => !order.contains i)
    let gs := reqs.map (fun r => heldAcross (fnOf side r.1).acts)
    let common := !(commonGuard sideFns).isEmpty && reqs.all (fun r => sideFns.contains (fnOf side r.1))
    let s := (Sys.start 64 reqs gs).run (schedule common order)
    let decoded : List (Nat × List Field) := match decAll 64 [] s.wire with
      | some (_, out) => out
      | none => []
    let model := ";".intercalate (reqs.map (fun r =>
      match decoded.find? (·.1 == r.1) with
      | some (_, fs) => s!"{r.1}={renderFields fs}"
      | none => s!"{r.1}=err"))
    let agree := gotT == model
    -- the property: the peer, decoding in wire order, reconstructs for every stream exactly the header list sent on it
    let spec := flag == "ok" && gotT == resps
    s!"{if agree then "A" else "D"} {if spec then "S" else "V"} {model}"
  | _, _ => "E E bad-case"

end MosnVerif.Drive.HpackOrder
