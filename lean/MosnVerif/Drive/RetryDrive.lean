import MosnVerif.Drive.Util
import MosnVerif.Model.Retry
/-! driver for the C17 kinds `rt` (retry histories on the real proxy core), `rw` (path rewrite), `rd` (redirect / direct response).
Core Lean only.  The `spec*` functions are the declarative references: they do not use regenerated code. -/
namespace MosnVerif.Drive.RetryDrive
open MosnVerif.Drive MosnVerif.Model.Retry MosnVerif.Gen.RetryState MosnVerif.Gen.RouteAction

def unhexS (s : String) : Option String := (unhex s).map (fun b => String.ofList (b.map (fun x => Char.ofNat x.toNat)))
def hexS (s : String) : String := hex (s.toList.map (fun c => UInt8.ofNat c.toNat))
def optS (s : String) : Option (Option String) := if s == "~" then some none else (unhexS s).map some
def showOpt : Option String → String
  | none => "~"
  | some s => hexS s

def parseOutcome (s : String) : Option Outcome :=
  match s with
  | "cf" => some .connFail
  | "ct" => some .termination
  | "rr" => some .remoteReset
  | "lr" => some .localReset
  | "pc" => some .poolConnFail
  | "po" => some .poolOverflow
  | "pt" => some .perTry
  | "gt" => some .global
  | _ => if s.startsWith "s" then (s.drop 1).toNat?.map .resp else none

def parseCodes (s : String) : Option (List Nat) :=
  if s == "-" then some [] else (s.splitOn ",").mapM (·.toNat?)

structure ImplAttempt where
  idx : Nat
  host : Nat
  kind : String
  path : String
  hdr : String

def parseAttempt (s : String) : Option ImplAttempt :=
  match s.splitOn ":" with
  | [k, hk, p, h] => do
    let k ← k.toNat?
    let cs := hk.toList
    let kind := String.ofList (cs.drop (cs.length - 1))
    let host ← (String.ofList (cs.take (cs.length - 1))).toNat?
    some ⟨k, host, kind, p, h⟩
  | _ => none

def parseAttempts (s : String) : Option (List ImplAttempt) :=
  if s == "-" then some [] else (s.splitOn ";").mapM parseAttempt

/-- declarative prefix rewrite: (new path, recorded original path) -/
def specPrefix (prw matched path : String) : String × Option String :=
  let pl := path.toList
  let ml := matched.toList
  if prw = "" then (path, none)
  else if ml.isPrefixOf pl then (String.ofList (prw.toList ++ pl.drop ml.length), some path)
  else (path, none)

def hdrString (path : String) (orig : Option String) (origName : String) : String :=
  let base := [":authority=svc", ":path=" ++ path, "x-req=1"]
  let all := match orig with
    | some o => (origName ++ "=" ++ o) :: base
    | none => base
  joinWith "," (sortStrings all)

def kindOf (script : List Outcome) (k : Nat) : String :=
  match script[k]? with
  | some .poolConnFail => "c"
  | some .poolOverflow => "o"
  | _ => "a"

/-- render attempts the way the harness does: `k:<host><kind>:<pathhex>:<hdrhex | = | !>` -/
def renderAttempts (as : List (Nat × Nat)) (script : List Outcome) (pathHex hdrHex : String) : String :=
  let rec go (l : List (Nat × Nat)) (seenRef : Bool) (acc : List String) : List String :=
    match l with
    | [] => acc.reverse
    | (k, h) :: r =>
      let kind := kindOf script k
      if kind == "a" then
        go r true (s!"{k}:{h}{kind}:{pathHex}:{if seenRef then "=" else hdrHex}" :: acc)
      else go r seenRef (s!"{k}:{h}{kind}:!:!" :: acc)
  let items := go as false []
  if items.isEmpty then "-" else joinWith ";" items

def traceAttempts (t : List Ev) : List (Nat × Nat) :=
  t.filterMap (fun e => match e with | .attempt k h => some (k, h) | _ => none)

def traceFinal (t : List Ev) : String :=
  match (t.filterMap (fun e => match e with | .reply c => some c | _ => none)).getLast? with
  | some c => toString c
  | none => "-"

/-- the implementation's trace as far as it is observable: a host selection is observable as the round-robin successor host -/
def implTrace (n : Nat) (as : List ImplAttempt) (script : List Outcome) (final : String) : List Ev :=
  let rec go (l : List ImplAttempt) (prev : Option Nat) (i : Nat) : List Ev :=
    match l with
    | [] => []
    | a :: r =>
      let fresh := match prev with
        | none => true
        | some ph => a.host == (ph + 1) % n
      (if fresh then [Ev.choose a.idx] else []) ++ [Ev.attempt a.idx a.host] ++
        (match script[i]? with | some o => [Ev.outcome o] | none => []) ++ go r (some a.host) (i + 1)
  go as none 0 ++ (match final.toInt? with | some c => [Ev.reply c] | none => [])

def rt (a : List String) (impl : List String) : String :=
  match a, impl with
  | [_pol, ron, nr, codes, tryEff, dis, hosts, script, pathH, prwH, _shape, _g], [atts, final] =>
    match nr.toNat?, parseCodes codes, hosts.toNat?, (script.splitOn ",").mapM parseOutcome, unhexS pathH, unhexS prwH, parseAttempts atts with
    | some nr, some codes, some n, some script, some path, some prw, some ias =>
      let p : Policy := { retryOn := ron == "1", numRetries := nr, codes := codes, tryTimeout := tryEff == "1", disable := dis == "1" }
      let h0 := match ias with | a :: _ => a.host | [] => 0
      -- the model: labels = scripted outcomes, breaker always admits, round-robin successor host
      let labels : List Label := (List.range script.length).filterMap (fun k => script[k]?.map (fun o => ⟨o, true, some ((h0 + k + 1) % n)⟩))
      let st := run p (some h0) labels
      let (np, orig) := finalizePath ⟨prw, ""⟩ "/svc" path id
      let m := renderAttempts (traceAttempts st.trace) script (hexS np) (hexS (hdrString path orig headerOriginalPath)) ++ " " ++ traceFinal st.trace
      let out := atts ++ " " ++ final
      -- the property predicate on the implementation's own output
      let t := implTrace n ias script final
      let budgetOk := ias.length ≤ 1 + max 3 nr
      let (sp, so) := specPrefix prw "/svc" path
      let refHdr := hexS (hdrString path so "x-mosn-original-path")
      let admitted := ias.filter (·.kind == "a")
      let pathsOk := admitted.all (fun x => x.path == hexS sp)
      let hdrsOk := match admitted with
        | [] => true
        | x :: r => x.hdr == refHdr && r.all (·.hdr == "=")
      let kindsOk := (List.range ias.length).all (fun i => match ias[i]? with | some x => x.kind == kindOf script i && x.idx == i | none => true)
      -- a reply after a last outcome that is a response carries exactly that upstream status (a missing reply is C03's concern)
      let lastOk := match script[ias.length - 1]? with
        | some (.resp c) => ias.length = 0 || final == "-" || final == toString c
        -- the configured global timeout is applied: when it fires on the outstanding attempt the reply is the timeout status
        | some .global => ias.length = 0 || final == "504"
        | _ => true
      -- the converse: a retryable outcome with budget left is retried (breaker admits, hosts healthy); not demanded when the
      -- exchange got no reply at all (a lost worker is C03's concern)
      let retriedOk := final == "-" || (List.range ias.length).all (fun i =>
        match script[i]? with
        | some o => !(retryable p o && decide (i < max 3 nr)) || decide (i + 1 < ias.length)
        | none => true)
      let spec := traceOk p t && retriedOk && budgetOk && pathsOk && hdrsOk && kindsOk && lastOk && final != "multi"
      s!"{if m == out then "A" else "D"} {if spec then "S" else "V"} {m}"
    | _, _, _, _, _, _, _ => "E E bad-case"
  | _, _ => "E E bad-case"

def rw (a : List String) (impl : List String) : String :=
  match a, impl with
  | [kind, matchH, prwH, reH, pathH, oracleH], [npH, origH] =>
    match unhexS matchH, unhexS prwH, optS reH, unhexS pathH, optS oracleH with
    | some matched, some prw, some re, some path, some oracle =>
      let _ := kind
      let reStr := re.getD ""
      let stored := if regexStored re.isSome reStr prw then reStr else ""
      let (np, orig) := finalizePath ⟨prw, stored⟩ matched path (fun x => oracle.getD x)
      let m := hexS np ++ " " ++ showOpt orig
      let (sp, so) :=
        if prw ≠ "" then specPrefix prw matched path
        else if re.isSome ∧ reStr.length > 1 then
          let o := oracle.getD path
          if o ≠ path then (o, some path) else (path, none)
        else (path, none)
      let s := hexS sp ++ " " ++ showOpt so
      let out := npH ++ " " ++ origH
      s!"{if m == out then "A" else "D"} {if s == out then "S" else "V"} {m}"
    | _, _, _, _, _ => "E E bad-case"
  | _, _ => "E E bad-case"

/-- declarative redirect location -/
def specLocation (scheme host path : String) (qs qh qp qq : String) : String :=
  let s := if scheme = "" then qs else scheme
  let h := if host = "" then qh else host
  let p := if path = "" then qp else path
  let h := if s ≠ qs then
      match h.splitOn ":" with
      | [a, port] => if (s = "http" ∧ port = "443") ∨ (s = "https" ∧ port = "80") then a else h
      | _ => h
    else h
  let p := if h ≠ "" ∧ p ≠ "" ∧ p.toList.head? ≠ some '/' then "/" ++ p else p
  s ++ "://" ++ h ++ p ++ (if qq = "" then "" else "?" ++ qq)

def rd (a : List String) (impl : List String) : String :=
  match a, impl with
  | [kind, dst, dbodyH, rcode, rsH, rhH, rpH, qs, qhH, qpH, qqH], [nat, status, locH, bodyH] =>
    match parseInt? dst, unhexS dbodyH, parseInt? rcode, unhexS rsH, unhexS rhH, unhexS rpH, unhexS qhH, unhexS qpH, unhexS qqH with
    | some dst, some dbody, some rcode, some rs, some rh, some rp, some qh, some qp, some qq =>
      let rs := rs.toLower
      let code := if rcode = 0 then redirectCodeDefault else rcode
      let dr : Option DirectResponse := if kind == "d" || kind == "b" then some ⟨dst, dbody⟩ else none
      let rdr : Option Redirect := if kind == "r" || kind == "b" then some ⟨code, rs, rh, rp⟩ else none
      let facts : RouteFacts := ⟨true, dr, rdr, true, true⟩
      let q : Req := ⟨qs, qh, qp, qq⟩
      let t := exchange facts q ⟨true, 2, [], false, false⟩ (some 0) []
      let m := match localReply facts q with
        | some lr => s!"{attemptCount t} {lr.status} {showOpt lr.location} {hexS lr.body}"
        | none => "upstream"
      let scode : Int := if rcode = 0 then 301 else rcode
      let sloc := hexS (specLocation rs rh rp qs qh qp qq)
      let s :=
        if kind == "d" || kind == "b" then s!"0 {dst} ~ {hexS dbody}"
        else s!"0 {scode} {sloc} -"
      let out := s!"{nat} {status} {locH} {bodyH}"
      s!"{if m == out then "A" else "D"} {if s == out then "S" else "V"} {m}"
    | _, _, _, _, _, _, _, _, _ => "E E bad-case"
  | _, _ => "E E bad-case"

end MosnVerif.Drive.RetryDrive
