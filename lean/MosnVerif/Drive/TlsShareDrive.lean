import MosnVerif.Drive.Util
import MosnVerif.Model.TlsShare
/-!
Helper driver of C13 (no `main`): kind
  shr <cls> <ops> => <observations joined by `,`>
listeners whose sds tls contexts share / do not share certificate and validation secret names, under a history of
operations joined by `|`:
  B<l>:<ctx>;<ctx>…   NewTLSServerContextManager for listener l (L = the probed one, O = another listener using the same
                      secret names); ctx = `-` (a static context) | <cert x|y><val p|q|0 = NO validation secret: host root store><verify 0|1><require 0|1><server_name 0|a|b|c><alpn 0|h|t>
  W<cert><val>        a cluster's client manager using these secret names is built (its own index)
  V<val>              the sds server delivers the validation secret of that name
  K<cert><k>          the sds server delivers certificate number k under that certificate secret name
  D<sni><alpn>        GetConfigForClient of listener L directly   => <certificate id>.<ClientAuthType>.<NextProtos 0|h|t> | err
  H<sni><alpn>.<peer> a real handshake with listener L            => <certificate id>.<ok|fail>
certificate id = d (static) | <cert name><k>.  sni: a|b|c|x|y|s|n|0; client alpn: 0|h|t|b (h2 + http/1.1).
peer: none | self | other | right (the CA of the validation secrets) | sys (the CA that IS the process's root store) |
expired | stolen; a peer is judged against the trust anchor of the context that answers: the validation secret's CA, or
the root store for a context without validation secret (there `sys` is the right CA and `right` another CA).
Which pem provider receives a delivery (a validation secret reaches every pem provider under that validation name that
exists; a certificate reaches the pem provider that registered LAST for that certificate name; a secret is complete
when both are there) is bookkeeping of this driver; the cache itself is `Model.TlsShare` (regenerated index / key /
updateConfig / push). Spec = every context with its OWN configuration and the latest complete secret of its names,
through the statement's selection rule and tables (nothing regenerated).
-/
namespace MosnVerif.Drive.TlsShareDrive
open MosnVerif.Drive MosnVerif.Model.TlsSelect MosnVerif.Model.TlsShare MosnVerif.Gen.TlsPolicy

def dom : Name := ".shr.test".toList
def certNames : Name → Nat → Name × List Name := fun c _ => (c ++ dom, [c ++ dom])
def staticCtx : Ctx := ⟨true, "static".toList ++ dom, ["static".toList ++ dom], [], []⟩
def statics : Nat → Ctx := fun _ => staticCtx
def probed : Name := ['L']
/-- the validation name of a context without validation secret (`systemValidation`) -/
def system : Name := "system".toList

structure St where
  ca : Cache LCfg
  pemList : List PemKey                      -- pem providers in creation order
  valRoot : List Name                        -- validation names whose secret has arrived
  pemCert : List (PemKey × Nat)              -- the certificate a pem provider holds
  owner : List (Name × PemKey)               -- certificate secret name -> the pem provider that registered last
  done : List (PemKey × Nat)                 -- the latest complete secret of a pem provider (for the Spec)
  latest : List (Name × List (Option (SCtx LCfg)))

def St.init : St := ⟨Cache.empty, [], [], [], [], [], []⟩

def setAssoc {α β : Type} [BEq α] (l : List (α × β)) (k : α) (v : β) : List (α × β) :=
  (k, v) :: l.filter (fun e => !(e.1 == k))

def notePem (st : St) (pk : PemKey) : St :=
  if st.pemList.contains pk then st
  else { st with pemList := st.pemList ++ [pk], owner := setAssoc st.owner pk.2 pk }

def completeAt (st : St) (pk : PemKey) (k : Nat) : St :=
  { st with ca := complete st.ca pk k, done := setAssoc st.done pk k }

def bit? (c : Char) : Option Bool := if c == '1' then some true else if c == '0' then some false else none

def sname? (c : Char) : Option Name :=
  if c == '0' then some [] else if c == 'a' || c == 'b' || c == 'c' then some (c :: dom) else none

def alpnCfg? (c : Char) : Option Name :=
  if c == '0' then some [] else if c == 'h' then some "h2".toList else if c == 't' then some "http/1.1".toList else none

def ctx? (s : String) : Option (Option (SCtx LCfg)) :=
  match s.toList with
  | ['-'] => some none
  | [c, v, ver, req, sn, al] =>
    match bit? ver, bit? req, sname? sn, alpnCfg? al with
    | some ver, some req, some sn, some al => some (some ⟨⟨ver, req, sn, al⟩, ⟨if v == '0' then system else [v], [c]⟩⟩)
    | _, _, _, _ => none
  | _ => none

def sni? (c : Char) : Option Name :=
  if c == '0' then some [] else if c == 'n' then some ("none".toList ++ dom) else if c == 's' then some ("static".toList ++ dom)
  else if c == 'a' || c == 'b' || c == 'c' || c == 'x' || c == 'y' then some (c :: dom) else none

def protos? (c : Char) : Option (List Name) :=
  if c == '0' then some [] else if c == 'h' then some ["h2".toList] else if c == 't' then some ["http/1.1".toList]
  else if c == 'b' then some ["h2".toList, "http/1.1".toList] else none

/-- the class of a peer certificate relative to the trust anchor of the answering context (`sysAnchor` = the root
store: contexts without validation secret and the static context, which has no ca_cert) -/
def peer? (sysAnchor : Bool) : String → Option Peer
  | "none" => some .none | "self" => some .selfSigned | "other" => some .otherCA
  | "right" => some (if sysAnchor then .otherCA else .rightCA)
  | "sys" => some (if sysAnchor then .rightCA else .otherCA)
  | "expired" => some .expired | "stolen" => some .stolenKey | _ => none

def alpnTok (cfg : Name) : String :=
  match parseALPN cfg with
  | [] => "0"
  | p :: _ => if p == "h2".toList then "h" else "t"

def okfail (b : Bool) : String := if b then "ok" else "fail"

/-- what the context at position i of the probed listener answers with: (certificate id, ClientAuthType, alpn token) -/
def answer (cs : List (Option (SCtx LCfg))) (ctxOf : Nat → SCtx LCfg → Option (LCfg × Nat)) (auth : LCfg → Int) (i : Nat) :
    Option (String × Int × String × Bool) :=
  match cs[i]? with
  | some none => some ("d", 0, "0", true)
  | some (some c) =>
    match ctxOf i c with
    | some (cfg, k) => some (s!"{String.ofList c.ref.cert}{k}", auth cfg, alpnTok cfg.alpnCfg, c.ref.val == system)
    | none => none
  | none => none

def modelAnswer (st : St) (sni : Name) (protos : List Name) : Option (String × Int × String × Bool) :=
  match st.latest.lookup probed with
  | none => none
  | some cs =>
    match select (managerView certNames statics st.ca probed cs) sni protos with
    | .config (some i) => answer cs (fun n c => ctxAt st.ca probed n c.ref) (fun cfg => getClientAuth cfg.require cfg.verify) i
    | _ => none

def ownCtx (st : St) (c : SCtx LCfg) : Option (LCfg × Nat) :=
  (st.done.lookup (c.ref.val, c.ref.cert)).map (fun k => (c.cfg, k))

def specAnswer (st : St) (sni : Name) (protos : List Name) : Option (String × Int × String × Bool) :=
  match st.latest.lookup probed with
  | none => none
  | some cs =>
    match specSelect (viewFrom statics (fun _ c => viewCtx certNames c.ref.cert (ownCtx st c)) cs 0) sni protos with
    | some i => answer cs (fun _ c => ownCtx st c) (fun cfg => specClientAuth cfg.require cfg.verify) i
    | none => none

def showD : Option (String × Int × String × Bool) → String
  | some (id, auth, al, _) => s!"{id}.{auth}.{al}"
  | none => "err"

def showH (accepts : Int → Peer → Bool) (pk : String) : Option (String × Int × String × Bool) → Option String
  | some (id, auth, _, sysAnchor) => (peer? sysAnchor pk).map (fun p => s!"{id}.{okfail (accepts auth p)}")
  | none => (peer? false pk).map (fun _ => "err.fail")

/-- the statement's trust table from the numeric ClientAuthType of `specClientAuth` -/
def specAccepts (auth : Int) (p : Peer) : Bool :=
  specServerAccepts (auth == 4 || auth == 1) (auth == 4 || auth == 3) p

def buildOp (st : St) (l : Char) (cs : List (Option (SCtx LCfg))) : St :=
  let st := cs.foldl (fun st o => match o with | some c => notePem st (c.ref.val, c.ref.cert) | none => st) st
  { st with ca := build [l] cs true st.ca, latest := setAssoc st.latest [l] cs }

def stepOp (st : St) (t : String) : Option (St × Option (String × String)) :=
  match t.toList with
  | 'B' :: l :: ':' :: rest =>
    match ((String.ofList rest).splitOn ";").mapM ctx? with
    | some cs => some (buildOp st l cs, none)
    | none => none
  | ['W', c, v] =>
    let vn := if v == '0' then system else [v]
    let st := notePem st (vn, [c])
    some ({ st with ca := apply st.ca (.cluster ['W', c, v] ⟨⟨false, false, [], []⟩, ⟨vn, [c]⟩⟩ true) }, none)
  | ['V', v] =>
    if st.pemList.any (fun pk => pk.1 == [v]) then
      let st := { st with valRoot := [v] :: st.valRoot }
      some (st.pemList.foldl (fun st pk =>
        if pk.1 == [v] then (match st.pemCert.lookup pk with | some k => completeAt st pk k | none => st) else st) st, none)
    else some (st, none)
  | 'K' :: c :: ks =>
    match (String.ofList ks).toNat?, st.owner.lookup [c] with
    | some k, some pk =>
      let st := { st with pemCert := setAssoc st.pemCert pk k }
      -- a pem provider without validation secret (`expectedEmpty`) is complete with its certificate
      some (if pk.1 == system || st.valRoot.contains pk.1 then completeAt st pk k else st, none)
    | some _, none => some (st, none)
    | none, _ => none
  | ['D', s, a] =>
    match sni? s, protos? a with
    | some sni, some protos => some (st, some (showD (modelAnswer st sni protos), showD (specAnswer st sni protos)))
    | _, _ => none
  | 'H' :: s :: a :: '.' :: pk =>
    match sni? s, protos? a with
    | some sni, some protos =>
      match showH serverAccepts (String.ofList pk) (modelAnswer st sni protos), showH specAccepts (String.ofList pk) (specAnswer st sni protos) with
      | some x, some y => some (st, some (x, y))
      | _, _ => none
    | _, _ => none
  | _ => none

def walk : List String → St → List String → List String → Option (List String × List String)
  | [], _, m, s => some (m.reverse, s.reverse)
  | t :: r, st, m, s =>
    match stepOp st t with
    | some (st', none) => walk r st' m s
    | some (st', some (x, y)) => walk r st' (x :: m) (y :: s)
    | none => none

def run (caseToks impl : List String) : String :=
  match caseToks, impl with
  | ["shr", _, ops], [obs] =>
    match walk (ops.splitOn "|") St.init [] [] with
    | some (m, s) =>
      let ms := ",".intercalate m
      s!"{if ms == obs then "A" else "D"} {if ",".intercalate s == obs then "S" else "V"} {ms}"
    | none => "E E bad-case"
  | _, _ => "E E unknown-kind"

end MosnVerif.Drive.TlsShareDrive
