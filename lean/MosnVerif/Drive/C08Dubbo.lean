import MosnVerif.Drive.Util
import MosnVerif.Model.DubboMeta
/-! helper driver of C08, kind `dmeta` (dubbo service-aware metadata walk). Core Lean only; no `main`. -/
namespace MosnVerif.Drive.C08Dubbo
open MosnVerif.Drive MosnVerif.Model.DubboMeta

def fld (kinds : List String) (i : Nat) : Fld :=
  match kinds[i]? with
  | some "s" => .str
  | some "n" => .null
  | some _ => .other
  | none => .derr

def showOut : WOut → String
  | .ok => "ok" | .err => "err" | .panic => "panic"

/-- `dmeta <listener> <kinds> <nargs> <frame> => ok | err | panic | hang`: one real dubbo Decode of a complete hessian2
request.  Predicate: neither panic nor hang. -/
def dmeta (listener kinds nargs : String) (impl : List String) : String :=
  match nargs.toNat?, impl with
  | some n, [o] =>
    let ks := if kinds == "-" then [] else kinds.splitOn ","
    let aware := listener == "ingress_dubbo" || listener == "egress_dubbo"
    let m := showOut (walk aware (fld ks) n)
    let spec := o == "ok" || o == "err"
    s!"{if m == o then "A" else "D"} {if spec then "S" else "V"} {m}"
  | _, _ => "E E bad-case"

end MosnVerif.Drive.C08Dubbo
