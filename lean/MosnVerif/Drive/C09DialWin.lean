import MosnVerif.Drive.Util
import MosnVerif.Model.PoolDialWin
/-! driver of kind `dw` (pool10): events inside the dial / init / NewStream accounting windows -/
namespace MosnVerif.Drive.C09DialWin
open MosnVerif.Drive MosnVerif.Model.PoolDialWin

def natOf (s : String) : Option Nat := s.toNat?

def parsePPOp (t : String) : Option Op :=
  match t.toList with
  | ['N'] => some (.new none false)
  | ['D', st, ev] =>
    if (st == '0' || st == '1' || st == '3' || st == '4') && (ev == 'r' || ev == 'l' || ev == 'n') then
      some (.new (some (st.toNat - '0'.toNat)) (ev != 'n'))
    else none
  | 'R' :: r => (String.ofList r).toNat?.map .response
  | 'C' :: r => (String.ofList r).toNat?.map .connClose
  | _ => none

def parseMXOp (t : String) : Option MOp :=
  match t.toList with
  | ['N'] => some .new
  | ['I', 'n'] => some (.init .none)
  | ['I', 'r'] => some (.init .close)
  | ['I', 'l'] => some (.init .close)
  | ['I', 'g'] => some (.init .goAway)
  | 'R' :: r => (String.ofList r).toNat?.map .response
  | 'C' :: r => (String.ofList r).toNat?.map .connClose
  | _ => none

def renderTail (b : Books) (opn : List Bool) : String :=
  s!";q{b.q};a{b.rqH}:{b.rqC};c{b.cnH}:{b.cnC};n{String.ofList (opn.map (fun o => if o then 'o' else 'c'))}"

def renderPP (r : Res) (s : PP) : String :=
  let res := match r with | .ok c => s!"ok{c}" | .cf => "cf" | .ovf => "ovf" | .none => "-"
  s!"{res};t{s.b.total};i{joinWith "," (s.idle.map toString)}{renderTail s.b s.opn}"

def renderMX (r : MRes) (s : MX) : String :=
  let res := match r with | .t => "t" | .f => "f" | .ok c => s!"ok{c}" | .cf => "cf" | .ovf => "ovf" | .none => "-"
  let slot := match s.slot with
    | none => "-"
    | some c => if s.opn.getD c false then "Co" else "Cx"
  s!"{res};b{slot}{renderTail s.b s.opn}"

/-- a parsed observation: result, total (pp), idle (pp), slot token (mx), q, request gauges, connection gauges, conns -/
structure Obs where
  res : String
  total : Int := 0
  idle : List Nat := []
  slot : String := ""
  q : Int
  aH : Int
  aC : Int
  cH : Int
  cC : Int
  conns : List Bool

def parseTail (res : String) (rest : List String) : Option Obs :=
  match rest with
  | [qq, aa, cc, nn] =>
    if !(qq.startsWith "q" && aa.startsWith "a" && cc.startsWith "c" && nn.startsWith "n") then none else
    let conns := (nn.drop 1).toString.toList
    if conns.any (fun ch => ch != 'o' && ch != 'c') then none else
    match parseInt? (qq.drop 1).toString, ((aa.drop 1).toString.splitOn ":").mapM parseInt?, ((cc.drop 1).toString.splitOn ":").mapM parseInt? with
    | some q, some [ah, ac], some [ch, ccl] =>
      some { res := res, q := q, aH := ah, aC := ac, cH := ch, cC := ccl, conns := conns.map (· == 'o') }
    | _, _, _ => none
  | _ => none

def parseObs (mx : Bool) (t : String) : Option Obs :=
  match t.splitOn ";" with
  | res :: rest =>
    if mx then
      match rest with
      | bb :: tl => if bb.startsWith "b" then (parseTail res tl).map (fun o => { o with slot := (bb.drop 1).toString }) else none
      | _ => none
    else
      match rest with
      | tt :: ii :: tl =>
        if !(tt.startsWith "t" && ii.startsWith "i") then none else
        match parseInt? (tt.drop 1).toString, (((ii.drop 1).toString.splitOn ",").filter (· ≠ "")).mapM String.toNat?, parseTail res tl with
        | some total, some idle, some o => some { o with total := total, idle := idle }
        | _, _, _ => none
      | _ => none
  | _ => none

def countOpen (l : List Bool) : Int := (l.filter id).length

/-- the property predicate of one settled observation (declarative; nothing regenerated is consulted):
counters never negative, the connection gauges and (ping-pong) `totalClientCount` equal the number of open connections,
idle connections are open, a Connected slot holds an open connection, a refusal gives back exactly what was taken. -/
def obsOk (mx : Bool) (prev : Option Obs) (o : Obs) : Bool :=
  decide (o.q ≥ 0) && decide (o.aH ≥ 0) && o.aH == o.aC && o.cH == o.cC && o.cH == countOpen o.conns &&
  (if mx then o.slot == "-" || o.slot == "Co"
   else o.total == countOpen o.conns && o.idle.all (fun c => o.conns.getD c false)) &&
  (if o.res == "cf" || o.res == "ovf" || o.res == "t" || o.res == "f" then
     match prev with
     | some p => o.q == p.q && o.aH == p.aH
     | none => o.q == 0 && o.aH == 0
   else true)

def specAlong (mx : Bool) : Option Obs → List String → Bool
  | _, [] => true
  | prev, t :: ts =>
    match parseObs mx t with
    | none => false
    | some o => obsOk mx prev o && specAlong mx (some o) ts

def run (kind mc mr ops : String) (impl : List String) : String :=
  match mc.toNat?, mr.toNat? with
  | some mcN, some mrN =>
    if kind == "pp" then
      match (ops.splitOn ",").mapM parsePPOp with
      | some opl =>
        let tr := PP.trace { mc := mcN, mr := mrN } opl
        let modelToks := tr.map (fun (r, s) => renderPP r s)
        let spec := impl.length == opl.length && specAlong false none impl
        s!"{if impl == modelToks then "A" else "D"} {if spec then "S" else "V"} {joinWith " " modelToks}"
      | none => "E E bad-case"
    else if kind == "mx" then
      match (ops.splitOn ",").mapM parseMXOp with
      | some opl =>
        let tr := MX.trace { mr := mrN } opl
        let modelToks := tr.map (fun (r, s) => renderMX r s)
        let spec := impl.length == opl.length && specAlong true none impl
        s!"{if impl == modelToks then "A" else "D"} {if spec then "S" else "V"} {joinWith " " modelToks}"
      | none => "E E bad-case"
    else "E E bad-kind"
  | _, _ => "E E bad-case"

end MosnVerif.Drive.C09DialWin
