import MosnVerif.Drive.Util
import MosnVerif.Drive.C05Hops
import MosnVerif.Model.PoolLookup
/-!
`plk <pol>/<p|s0|s1>/<g|m|c> <op;op;…> => <out;out;…>` (harness/c05/plk.go): operation lists on two clusters inside the
real cluster manager with lookups through `ConnPoolForCluster`. Model: `Model/PoolLookup.lookup` interprets the regenerated
flow of `getActiveConnectionPool` (`Gen/PoolLookup.flow`) over the pool maps; the balancer's answers (one per `ChooseHost`
call, recorded by the harness) and `HostNum` are the oracle, the published host lists are `Model/HostOps`. The model must
reproduce the whole pool trace (factory calls with their host object, shutdowns, readiness tests) and the returned pair.

Predicate (independent of the regenerated parts, over the abstract map address → most recently supplied object): `HostNum`
is the size of the set the lookup ranges over; every chosen host is a healthy object of the CURRENT map (no host only if
none is healthy); the returned host is one of the hosts chosen in THIS lookup — the same object (pointer) — a healthy
object of the current map, and the returned pool was created for the returned host's address; nothing is returned only
if there is no host, the balancer returned none, or no readiness test succeeded.
-/
namespace MosnVerif.Drive.C05Pool
open MosnVerif.Drive MosnVerif.Model.HostOps MosnVerif.Model.PoolLookup
open MosnVerif.Drive.C05Hops (parseH parseNats showH showSet absList)

/-- `a.t.w.n` → (object, host name number) -/
def parseH4 (s : String) : Option (H × Nat) :=
  match (s.splitOn ".").map String.toNat? with
  | [some a, some t, some w, some n] => some (⟨a, t, w⟩, n)
  | _ => none

def parseHs4 (s : String) : Option (List (H × Nat)) := if s == "-" then some [] else (s.splitOn ",").mapM parseH4

def parseOptH (s : String) : Option (Option H) := if s == "-" then some none else (parseH s).map some

def showOptH : Option H → String
  | some h => showH h
  | none => "-"

def showEv : Ev → String
  | .created id h => s!"N{id}@{showH h}"
  | .shutdown id => s!"X{id}"
  | .check id ok => s!"?{id}{if ok then "+" else "-"}"

def showList (l : List String) : String := if l.isEmpty then "-" else joinWith "," l

structure DSt where
  cur : Nat → List H := fun _ => []
  abs : Nat → (Nat → Option H) := fun _ _ => none
  names : List (Nat × Nat) := []
  sick : List Nat := []
  st : St := {}
  outs : List String := []
  agree : Bool := true
  spec : Bool := true
  bad : Bool := false

def envOf (mode : String) (names : List (Nat × Nat)) : Env :=
  { nameOf := fun h => ((names.find? (·.1 == h.t)).map (·.2)).getD 0,
    hashOf := fun _ => 0,
    mgrFlag := mode == "m",
    clFlag := fun c => mode == "c" && c == 0 }

def updater (d : DSt) (c : Nat) (op : MosnVerif.Model.HostOps.Op) (impl : String) : DSt :=
  let new := applyOp (d.cur c) op
  let abs' := absOp (d.abs c) op
  let m := showSet new
  { d with cur := fun x => if x == c then new else d.cur x,
           abs := fun x => if x == c then abs' else d.abs x,
           outs := m :: d.outs, agree := d.agree && m == impl, spec := d.spec && impl == showSet (absList abs') }

structure Obs where
  n : Nat
  chosen : List (Option H)
  events : List String
  pool : Option (Nat × H)
  host : Option H
  flags : String

def parseObs (impl : String) : Option Obs :=
  match impl.splitOn "|" with
  | [n, ch, ev, ret] =>
    match n.toNat?, (if ch == "-" then some [] else (ch.splitOn ",").mapM parseOptH), ret.splitOn "/" with
    | some n, some chosen, [p, h, fl] =>
      let pool : Option (Option (Nat × H)) :=
        if p == "-" then some none else
        match p.splitOn "@" with
        | [id, ph] => match id.toNat?, parseH ph with
          | some i, some x => some (some (i, x))
          | _, _ => none
        | _ => none
      match pool, parseOptH h with
      | some pool, some host => some ⟨n, chosen, if ev == "-" then [] else ev.splitOn ",", pool, host, fl⟩
      | _, _ => none
    | _, _, _ => none
  | _ => none

/-- the declarative predicate on one observed lookup. `A` = the abstract current set of the cluster. -/
def specLookup (A : List H) (sick : List Nat) (sub : String) (marker : Option Nat) (o : Obs) : Bool :=
  let expectN := match marker with
    | none => A.length
    | some t => if A.any (·.t == t) then 1 else if sub == "s0" then 0 else A.length
  let chosenOk := o.chosen.all (fun c => match c with
    | some h => A.contains h && !sick.contains h.a
    | none => marker.isSome || A.all (fun h => sick.contains h.a))
  let retOk := match o.pool, o.host with
    | none, none => o.n == 0 || o.chosen.getLast? == some none || !o.events.any (·.endsWith "+")
    | some (_, ph), some x =>
      A.contains x && !sick.contains x.a && o.chosen.contains (some x) && ph.a == x.a && o.flags == "11"
    | _, _ => false
  o.n == expectN && chosenOk && retOk

def lookupOp (d : DSt) (sub mode : String) (c : Nat) (marker : Option Nat) (impl : String) : DSt :=
  match parseObs impl with
  | none => { d with outs := "?" :: d.outs, agree := false, spec := false }
  | some o =>
    let env := envOf mode d.names
    let r := lookup MosnVerif.Gen.PoolLookup.flow env d.st ⟨c, o.n, o.chosen⟩
    let ps := match r.ret.1 with | some p => s!"{p.id}@{showH p.created}" | none => "-"
    let fl := match r.ret.2 with
      | some x => s!"{if o.chosen.contains (some x) then 1 else 0}{if (d.cur c).contains x then 1 else 0}"
      | none => "00"
    let m := s!"{o.n}|{showList (o.chosen.map showOptH)}|{showList (r.trace.map showEv)}|{ps}/{showOptH r.ret.2}/{fl}"
    let marker' := if sub == "p" then none else marker
    { d with st := r.st, outs := m :: d.outs, agree := d.agree && m == impl,
             spec := d.spec && specLookup (absList (d.abs c)) d.sick sub marker' o }

def stOp (d : DSt) (mode : String) (op : MosnVerif.Model.PoolLookup.Op) : St :=
  (MosnVerif.Model.PoolLookup.applyOp MosnVerif.Gen.PoolLookup.flow (envOf mode d.names) ⟨fun _ => [], d.st⟩ op).1.st

def dot (d : DSt) (impl : String) : DSt := { d with outs := "." :: d.outs, agree := d.agree && impl == "." }

def runOp (sub mode : String) (d : DSt) (op impl : String) : DSt :=
  let k := op.front
  let arg := (op.drop 1).toString
  -- `<c>:<rest>` / `<c>.<rest>` / `<c>`
  let (cs, rest) : String × String :=
    match arg.splitOn ":" with
    | [a, b] => (a, b)
    | _ => match arg.splitOn "." with
      | [a, b] => (a, b)
      | _ => (arg, "")
  match cs.toNat? with
  | none => { d with bad := true }
  | some c =>
    if k == 'U' || k == 'A' then
      match parseHs4 rest with
      | some l =>
        let d' := { d with names := l.map (fun p => (p.1.t, p.2)) ++ d.names }
        updater d' c (if k == 'U' then .update (l.map (·.1)) else .append (l.map (·.1))) impl
      | none => { d with bad := true }
    else if k == 'R' then
      match parseNats rest with
      | some l => updater d c (.remove l) impl
      | none => { d with bad := true }
    else if k == 'P' then updater d c .inherit impl
    else if k == 'F' then
      match rest.toNat? with
      | some v => let s := d.sick.filter (· != c); dot { d with sick := if v == 0 then c :: s else s } impl
      | none => { d with bad := true }
    else if k == 'N' then
      match rest.toNat? with
      | some n => dot { d with st := stOp d mode (.notReady c n) } impl
      | none => { d with bad := true }
    else if k == 'T' then dot { d with st := stOp d mode (.staleHash c) } impl
    else if k == 'S' then
      let gone := (d.st.pools.filter (fun e => e.key == c)).map (fun e => s!"X{e.pool.id}")
      let m := showList (sortStrings gone)
      { d with st := stOp d mode (.shutdown c), outs := m :: d.outs, agree := d.agree && m == impl }
    else if k == 'L' then lookupOp d sub mode c none impl
    else if k == 'M' then
      match rest.toNat? with
      | some t => lookupOp d sub mode c (some t) impl
      | none => { d with bad := true }
    else { d with bad := true }

def plk (psm ops : String) (impl : List String) : String :=
  match psm.splitOn "/", impl with
  | [_, sub, mode], [outs] =>
    let opl := ops.splitOn ";"
    let ol := outs.splitOn ";"
    if opl.length != ol.length then "E E bad-case" else
    let d := (opl.zip ol).foldl (fun d (o, i) => runOp sub mode d o i) {}
    if d.bad then "E E bad-case" else
    s!"{if d.agree then "A" else "D"} {if d.spec then "S" else "V"} {joinWith ";" d.outs.reverse}"
  | _, _ => "E E bad-case"

end MosnVerif.Drive.C05Pool
