import MosnVerif.Model.StreamGen
import MosnVerif.Drive.Util
/-! kind `sgen`: `sgen <T0:0,S0,R0[F0.T1:0],…> => <o/c/g/d/x per exchange,…> <idle=…;total=n>` (harness/c02/sgen.go) -/
namespace MosnVerif.Drive.StreamGen
open MosnVerif.Drive MosnVerif.Model.StreamGen MosnVerif.Gen.RecvOrder

inductive Op | t (k o : Nat) | s (k : Nat) | f (k : Nat) | r (k : Nat) (nested : List Op)

def parseSimple (t : String) : Option Op :=
  let body := (t.drop 1).toString
  if t.startsWith "T" then
    match body.splitOn ":" with
    | [k, o] => match k.toNat?, o.toNat? with
      | some k, some o => some (.t k o)
      | some k, none => if o == "-1" then some (.t k 1000000) else none
      | _, _ => none
    | _ => none
  else if t.startsWith "S" then body.toNat?.map .s
  else if t.startsWith "F" then body.toNat?.map .f
  else none

def parseOp (t : String) : Option Op :=
  if t.startsWith "R" then
    match ((t.drop 1).toString).splitOn "[" with
    | [k] => k.toNat?.map (fun k => .r k [])
    | [k, ns] =>
      match k.toNat?, (((ns.dropEnd 1).toString.splitOn ".").filter (· ≠ "")).mapM parseSimple with
      | some k, some ns => some (.r k ns)
      | _, _ => none
    | _ => none
  else parseSimple t

def ioUntilDelivered (prog : List Act) : Nat → St → Nat → St
  | 0, s, _ => s
  | fuel + 1, s, k =>
    match (s.ex k).pc with
    | some (a :: _) =>
      let s' := step prog s (.io k)
      if a == .deliver then s' else ioUntilDelivered prog fuel s' k
    | _ => s

def ioRest (prog : List Act) : Nat → St → Nat → St
  | 0, s, _ => s
  | fuel + 1, s, k =>
    match (s.ex k).pc with
    | some (_ :: _) => ioRest prog fuel (step prog s (.io k)) k
    | _ => s

def simple (prog : List Act) (s : St) : Op → St
  | .t k o => step prog s (.take k o)
  | .s k => step prog s (.send k)
  | .f k => step prog s (.finish k)
  | .r _ _ => s

/-- `R k [ops]`: the answer to q<k> is written on k's connection (the model knows which); the wrapper of the stream that
`conn.stream` points to runs up to and including its `deliver`, the nested worker steps happen inside that notification,
then the wrapper runs to its end. -/
def apply (prog : List Act) (s : St) : Op → St
  | .r k nested =>
    let c := (s.ex k).conn
    if !(s.ex k).sent || (s.wire c).head? != some k then nested.foldl (simple prog) s else
    match s.slot c with
    | none => nested.foldl (simple prog) (step prog s (.read c))
    | some t =>
      let s := step prog s (.read c)
      let s := ioUntilDelivered prog (prog.length + 1) s t
      let s := nested.foldl (simple prog) s
      ioRest prog (prog.length + 1) s t
  | op => simple prog s op

def maxK : List Op → Nat
  | [] => 0
  | .t k _ :: r => max (k + 1) (maxK r)
  | .s k :: r => max (k + 1) (maxK r)
  | .f k :: r => max (k + 1) (maxK r)
  | .r k ns :: r => max (max (k + 1) (maxK ns)) (maxK r)

def renderEx (e : Ex) : String :=
  if !e.taken then "-" else
  let g := if e.got.isEmpty then "-" else "+".intercalate (e.got.map (fun j => s!"r{j}"))
  s!"o{e.obj}/c{e.conn}/g{g}/d{e.dcount}{if e.early then "e" else ""}/x0"

def render (s : St) (n : Nat) : String :=
  let exs := ",".intercalate ((List.range n).map (fun k => renderEx (s.ex k)))
  let idle := "+".intercalate (s.avail.reverse.map toString)
  s!"{exs} idle={idle};total={s.nconn}"

/-- which exchanges the schedule has asked the upstream to answer after sending them (top level and in order) -/
def answeredOnes : List Op → List Nat → List Nat
  | [], _ => []
  | .s k :: r, sent => answeredOnes r (k :: sent)
  | .r k ns :: r, sent =>
    let sent' := ns.foldl (fun acc o => match o with | .s j => j :: acc | _ => acc) sent
    if sent.contains k then k :: answeredOnes r sent' else answeredOnes r sent'
  | _ :: r, sent => answeredOnes r sent

/-- the property on the implementation's output, written without the model: exchange k was handed nothing or exactly
the one answer r<k>; its stream was not destroyed before its answer was due, and at most once; an exchange whose
answer the upstream wrote got it. -/
def specEx (k : Nat) (must : Bool) (t : String) : Bool :=
  if t == "-" then !must else
  match t.splitOn "/" with
  | [_, _, g, d, x] =>
    (g == s!"gr{k}" || (g == "g-" && !must)) && (d == "d0" || d == "d1") && x == "x0"
  | _ => false

def specAll (must : List Nat) : Nat → List String → Bool
  | _, [] => true
  | k, t :: r => specEx k (must.contains k) t && specAll must (k + 1) r

def run (plan : String) (impl : List String) : String :=
  match (plan.splitOn ",").mapM parseOp, impl with
  | some ops, [exs, books] =>
    let s := ops.foldl (apply realProg) {}
    let n := maxK ops
    let model := render s n
    let agree := model == s!"{exs} {books}"
    let obs := exs.splitOn ","
    let spec := obs.length == n && specAll (answeredOnes ops []) 0 obs && !(books.splitOn ";").any (·.startsWith "panic")
    s!"{if agree then "A" else "D"} {if spec then "S" else "V"} {model}"
  | _, _ => "E E bad-case"

end MosnVerif.Drive.StreamGen
