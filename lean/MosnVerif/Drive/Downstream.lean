import MosnVerif.Drive.Util
import MosnVerif.Model.Downstream
/-!
Shared line-protocol code of C03 and C10 (core only): parse a `hist` case (configuration, ambient load, schedule),
run the downstream machine, render trace and ledger exactly like `harness/dsx`.

  hist <cfg> <ambient> <schedule> => trace=<tok,..|-> ledger=<req>,<ret>,<up>,<down> done=<0|1>

cfg      ow=<b>,d=<b>,t=<b>,rt=<c|nr|nh|d<code>[b]>,ron=<b>,n=<num>,codes=<c1:c2|->,tt=<b>,dis=<b>,mr=<n>,mq=<n>
ambient  ar=<n>,aq=<n>
schedule labels separated by `,` (`-` = none). `S` starts the request (the worker runs until it blocks); the worker
         settles after every label except the arming labels PFo/PFc/HG:
         S  R<k>:<code>:<d><t>  X<k>:<reason>  PFo|PFc  HG  PT  GT  DR  CC  TM<code>
         B<k>:<code>:<d><t> (head of a streamed response: the worker forwards it and waits for the body)  E<k> (body ended)
         TS<code> (TerminateStream on a kept handler of an EARLIER request whose pooled object this request reuses)
         TR<code>:<k>:<d><t> (TerminateStream with an in-flight response of attempt k landing inside its upstream reset)
         W (idle time: the model has no clock, the token is dropped)
         PL<k>:<d><t> (the per-try timer of attempt k fires with a response of attempt k in flight: the worker handles the
         reset up to doRetry's back-off sleep, the frame lands there = labels PT, `late response during the back-off`)
         XL<k>:<reason>:<d><t> (the same after an upstream reset of attempt k)
         XP<k>:<reason> (upstream reset of attempt k, then the per-try timer fires BEFORE the worker handles the reset:
         labels X, PT with no worker step in between; the harness keeps the worker inside the upstream sender meanwhile)
         [proxy10] ZB:<trigger>:<event> — an event delivered while the worker is asleep in doRetry's back-off (the harness
         holds the worker at a yield site of pkg/proxy: top of the Retry phase, or inside setupRetry) — the model runs the
         trigger, the worker up to the back-off, the event's label, then the worker until it blocks:
           trigger  X<k>=<reason> (upstream reset of attempt k) | P<k> (its per-try timer) | R<k>=<status>=<d><t> (its answer)
           event    TM<code> (TerminateStream) | TMm<code> / TMs<code> (… landing INSIDE setupRetry, after the mark / after the
                    swing of the response slot: the call behaves as in the back-off, fix 4e7d4a7f0) | DR | CC | GT (the global
                    timer fires during the sleep) | GSm / GSs (… fires INSIDE setupRetry: label gtInSetup) | HG | PFo | PFc |
                    L<d><t> (late frame of attempt k) | DS (the client leaves while the wake-up is inside the upstream send of
                    attempt k+1: labels work — the Retry pass —, then DR)
         XT<k>:<reason>:<code>  PTT<k>:<code>  RT<k>:<status>:<d><t>:<code>   proxy9 spelling of ZB:…:TM<code>
         ZS<k>:<code>:<d><t>:<w|f|h>:<reason> — the head of a streamed response of attempt k, then the reset of its open client
         stream BEFORE the head is forwarded: with the wake-up of the head not yet consumed (w: no worker step between the
         two labels), in the UpFilter phase (f), right before UpRecvHeader (h: the harness holds the worker at the top of that phase)
trace    the downstream sender calls carry the token of the answer the written part belongs to:
         dh:<status>:<eos>:<tok>  dd:<eos>:<tok>  dt:<tok>   tok = a<k> (response of attempt k) | l (local reply) | - (none)
tm       the return values of the TerminateStream calls of the schedule (TM / TS / TR), in order: tm=<0|1>,…|-
-/
namespace MosnVerif.Drive.Downstream
open MosnVerif.Drive MosnVerif.Model.Downstream MosnVerif.Gen.ProxyPhase MosnVerif.Gen.ProxyReason

def dropS (s : String) (n : Nat) : String := (s.drop n).toString

def b01 (s : String) : Option Bool := if s == "1" then some true else if s == "0" then some false else none

def kv (parts : List String) (k : String) : Option String :=
  parts.findSome? (fun p => match p.splitOn "=" with
    | [a, b] => if a == k then some b else none
    | _ => none)

def parseRoute (s : String) : Option Route :=
  if s == "c" then some .cluster else if s == "nr" then some .noRoute else if s == "nh" then some .noHost
  else if s.startsWith "d" then
    let r := dropS s 1
    let body := r.endsWith "b"
    let num := if body then (r.dropEnd 1).toString else r
    num.toNat?.map (fun n => Route.direct n body)
  else none

def parseCfg (s : String) : Option Cfg := do
  let p := s.splitOn ","
  let ow ← (kv p "ow").bind b01
  let d ← (kv p "d").bind b01
  let t ← (kv p "t").bind b01
  let rt ← (kv p "rt").bind parseRoute
  let ron ← (kv p "ron").bind b01
  let n ← (kv p "n").bind String.toNat?
  let codesS ← kv p "codes"
  let codes ← if codesS == "-" then some [] else (codesS.splitOn ":").mapM String.toNat?
  let tt ← (kv p "tt").bind b01
  let dis ← (kv p "dis").bind b01
  let mr ← (kv p "mr").bind String.toNat?
  let mq ← (kv p "mq").bind String.toNat?
  pure { oneway := ow, hasData := d, hasTrailers := t, route := rt, retryOn := ron, numRetries := n, codes := codes,
         tryTimeout := tt, disableRetry := dis, maxRetries := mr, maxRequests := mq }

def parseAmb (s : String) : Option (Nat × Nat) := do
  let p := s.splitOn ","
  let ar ← (kv p "ar").bind String.toNat?
  let aq ← (kv p "aq").bind String.toNat?
  pure (ar, aq)

def reasonOfName (n : String) : Option Reason := Reason.all.find? (fun r => r.name == n)

def parseLabel (s : String) : Option Label :=
  if s == "S" then some .work
  else if s == "PT" then some .perTryFire else if s == "GT" then some .globalFire
  else if s == "DR" then some (.downReset .StreamConnectionTermination) else if s == "CC" then some .connClose
  else if s == "HG" then some .hostsGone
  else if s == "PFo" then some (.poolFail .overflow) else if s == "PFc" then some (.poolFail .connfail)
  else if s.startsWith "TM" then (dropS s 2).toNat?.map Label.terminate
  else if s.startsWith "TS" then (dropS s 2).toNat?.map (Label.terminateStale 0)
  else if s.startsWith "TR" then
    match (dropS s 2).splitOn ":" with
    | [code, k, dt] => do
      let code ← code.toNat?
      let k ← k.toNat?
      match dt.toList with
      | [d, t] => do
        let d ← b01 d.toString
        let t ← b01 t.toString
        pure (.terminateRaced code k d t)
      | _ => none
    | _ => none
  else if s.startsWith "R" then
    match (dropS s 1).splitOn ":" with
    | [k, code, dt] => do
      let k ← k.toNat?
      let code ← code.toNat?
      match dt.toList with
      | [d, t] => do
        let d ← b01 d.toString
        let t ← b01 t.toString
        pure (.upResp k code d t)
      | _ => none
    | _ => none
  else if s.startsWith "X" then
    match (dropS s 1).splitOn ":" with
    | [k, r] => do
      let k ← k.toNat?
      let r ← reasonOfName r
      pure (.upReset k r)
    | _ => none
  else if s.startsWith "B" then
    match (dropS s 1).splitOn ":" with
    | [k, code, dt] => do
      let k ← k.toNat?
      let code ← code.toNat?
      match dt.toList with
      | [d, t] => do
        let d ← b01 d.toString
        let t ← b01 t.toString
        pure (.upRespS k code d t)
      | _ => none
    | _ => none
  else if s.startsWith "E" then (dropS s 1).toNat?.map Label.upEnd
  else none

def parseDT (dt : String) : Option (Bool × Bool) :=
  match dt.toList with
  | [d, t] => do pure (← b01 d.toString, ← b01 t.toString)
  | _ => none

def arming : Label → Bool
  | .poolFail _ => true
  | .hostsGone => true
  | _ => false

/-- [proxy10] trigger of a `ZB:` token: the label that makes the proxy give attempt k up for a retry, and k -/
def parseBoTrigger (s : String) : Option (Label × Nat) :=
  if s.startsWith "X" then
    match (dropS s 1).splitOn "=" with
    | [k, r] => do pure (.upReset (← k.toNat?) (← reasonOfName r), ← k.toNat?)
    | _ => none
  else if s.startsWith "P" then (dropS s 1).toNat?.map (fun k => (Label.perTryFire, k))
  else if s.startsWith "R" then
    match (dropS s 1).splitOn "=" with
    | [k, st, dt] => do
      let (d, t) ← parseDT dt
      pure (.upResp (← k.toNat?) (← st.toNat?) d t, ← k.toNat?)
    | _ => none
  else none

/-- [proxy10] event of a `ZB:` token -/
def parseBoEvent (s : String) (k : Nat) : Option Label :=
  if s.startsWith "TMm" || s.startsWith "TMs" then (dropS s 3).toNat?.map Label.terminate
  else if s.startsWith "TM" then (dropS s 2).toNat?.map Label.terminate
  else if s == "DR" then some (.downReset .StreamConnectionTermination)
  else if s == "CC" then some .connClose
  else if s == "GT" then some .globalFire
  else if s == "GSm" then some (.gtInSetup false)
  else if s == "GSs" then some (.gtInSetup true)
  else if s == "HG" then some .hostsGone
  else if s == "PFo" then some (.poolFail .overflow)
  else if s == "PFc" then some (.poolFail .connfail)
  else if s.startsWith "L" then (parseDT (dropS s 1)).map (fun (d, t) => Label.lateResp k d t)
  else none

/-- a schedule token is one label or a compound of two; each label comes with the settle mode that follows it:
0 = the worker runs until it blocks, 1 = … until it blocks or enters doRetry's back-off, 2 = the worker does not run -/
def parseLabels (s : String) : Option (List (Label × Nat)) :=
  if s.startsWith "PL" then
    match (dropS s 2).splitOn ":" with
    | [k, dt] => do
      let k ← k.toNat?
      let (d, t) ← parseDT dt
      pure [(.perTryFire, 1), (.lateResp k d t, 0)]
    | _ => none
  else if s.startsWith "XL" then
    match (dropS s 2).splitOn ":" with
    | [k, r, dt] => do
      let k ← k.toNat?
      let r ← reasonOfName r
      let (d, t) ← parseDT dt
      pure [(.upReset k r, 1), (.lateResp k d t, 0)]
    | _ => none
  else if s.startsWith "ZB:" then
    match (dropS s 3).splitOn ":" with
    | [trigT, evT] => do
      let (trig, k) ← parseBoTrigger trigT
      if evT == "DS" then
        -- the client leaves while the wake-up is inside the upstream send of attempt k+1: the Retry pass runs (one worker step:
        -- `doRetry`, `processError` finds nothing yet), then the reset; `processError` of the real Retry phase finds it — the same
        -- clean-up, of a stream whose new attempt is live
        pure [(trig, 1), (.work, 2), (.downReset .StreamConnectionTermination, 0)]
      else
      let ev ← parseBoEvent evT k
      pure [(trig, 1), (ev, 0)]
    | _ => none
  else if s.startsWith "XT" then
    match (dropS s 2).splitOn ":" with
    | [k, r, code] => do pure [(.upReset (← k.toNat?) (← reasonOfName r), 1), (.terminate (← code.toNat?), 0)]
    | _ => none
  else if s.startsWith "PTT" then
    match (dropS s 3).splitOn ":" with
    | [_, code] => do pure [(.perTryFire, 1), (.terminate (← code.toNat?), 0)]
    | _ => none
  else if s.startsWith "RT" then
    match (dropS s 2).splitOn ":" with
    | [k, st, dt, code] => do
      let (d, t) ← parseDT dt
      pure [(.upResp (← k.toNat?) (← st.toNat?) d t, 1), (.terminate (← code.toNat?), 0)]
    | _ => none
  else if s.startsWith "ZS" then
    match (dropS s 2).splitOn ":" with
    | [k, code, dt, w, r] => do
      let k ← k.toNat?
      let code ← code.toNat?
      let (d, t) ← parseDT dt
      let r ← reasonOfName r
      let m ← if w == "w" then some 2 else if w == "f" then some 3 else if w == "h" then some 4 else none
      pure [(.upRespS k code d t, m), (.upReset k r, 0)]
    | _ => none
  else if s.startsWith "XP" then
    match (dropS s 2).splitOn ":" with
    | [k, r] => do
      let k ← k.toNat?
      let r ← reasonOfName r
      pure [(.upReset k r, 2), (.perTryFire, 0)]
    | _ => none
  else (parseLabel s).map (fun l => [(l, if l matches .poolFail _ | .hostsGone then 2 else 0)])

def parseSchedM (s : String) : Option (List (Label × Nat)) :=
  if s == "-" then some [] else (((s.splitOn ",").filter (· != "W")).mapM parseLabels).map List.flatten

def parseSched (s : String) : Option (List Label) := (parseSchedM s).map (fun l => l.map (·.1))

def fuel : Nat := 400

/-- the worker runs until it blocks, returns, or sleeps in doRetry's back-off -/
def settleBackoff (c : Cfg) : Nat → S → S
  | 0, s => s
  | n + 1, s =>
    if !s.running then s
    else if s.phase == .WaitNotify && !s.notify then s
    else if bodyWait s then s
    else if s.phase == .Retry then s
    else settleBackoff c n (work c s)

/-- the worker runs until it is about to run phase `p` (the harness holds it at the top of that phase), blocks, or returns -/
def settlePhase (c : Cfg) (p : Phase) : Nat → S → S
  | 0, s => s
  | n + 1, s =>
    if !s.running then s
    else if s.phase == .WaitNotify && !s.notify then s
    else if bodyWait s then s
    else if s.phase == p then s
    else settlePhase c p n (work c s)

/-- settle modes: 0 the worker runs until it blocks · 1 … or sleeps in the back-off · 2 the worker does not run ·
3 … until it is inside the UpFilter phase · 4 … until it is about to run UpRecvHeader -/
def settleMode (c : Cfg) (m : Nat) (s : S) : S :=
  if m == 0 then settle c fuel s else if m == 1 then settleBackoff c fuel s
  else if m == 3 then settlePhase c .UpFilter fuel s else if m == 4 then settlePhase c .UpRecvHeader fuel s else s

/-- the harness' discipline: every label except the arming ones is followed by settle -/
def runSettled (c : Cfg) (s : S) (l : List Label) : S :=
  l.foldl (fun s lb => if arming lb then step c s lb else settle c fuel (step c s lb)) s

def bs (b : Bool) : String := if b then "1" else "0"

def hexNat (n : Nat) : String := String.ofList (Nat.toDigits 16 n)

def tokStr : Tok → String
  | .none => "-"
  | .att k => s!"a{k}"
  | .loc => "l"

/-- the downstream sender calls are rendered with the token of the stored part they write: nothing is stored any more
once response headers went downstream (theorem `reply_body_own`), so these are the tokens of the final state -/
def evTok (s : S) : Ev → String
  | .dh st e => s!"dh:{st}:{bs e}:{tokStr s.hTok}"
  | .dd e => s!"dd:{bs e}:{tokStr s.dTok}"
  | .dt => s!"dt:{tokStr s.tTok}"
  | .dr => "dr"
  | .un k => s!"un:{k}"
  | .uf k f => s!"uf:{k}:{match f with | .overflow => "o" | .connfail => "c"}"
  | .uh k e => s!"uh:{k}:{bs e}"
  | .ud k e => s!"ud:{k}:{bs e}"
  | .ut k => s!"ut:{k}"
  | .ur k => s!"ur:{k}"
  | .log code fl => s!"log:{code}:{hexNat fl}"

def renderTrace (s : S) : String := if s.trace.isEmpty then "-" else joinWith "," (s.trace.map (evTok s))

def render (s : S) : String :=
  s!"trace={renderTrace s} ledger={s.requests},{s.retries},{s.upActive},{s.downActive} done={bs s.cleaned}"

structure Case where
  cfg : Cfg
  ar : Nat
  aq : Nat
  sched : List Label
  modes : List Nat := []   -- settle mode after each label (parallel to `sched`; missing = by `arming`)

def parseCase : List String → Option Case
  | ["hist", c, a, l] => do
    let cfg ← parseCfg c
    let (ar, aq) ← parseAmb a
    let sm ← parseSchedM l
    pure ⟨cfg, ar, aq, sm.map (·.1), sm.map (·.2)⟩
  | _ => none

/-- parse the implementation's output tokens back: (trace tokens, ledger, done) -/
structure Impl where
  trace : List String
  req : Int
  ret : Int
  up : Int
  down : Int
  done : Bool
  tm : List Bool      -- return values of the TerminateStream calls, in schedule order

def parseImpl : List String → Option Impl
  | [t, l, d, m] => do
    let t ← if t.startsWith "trace=" then some (dropS t 6) else none
    let l ← if l.startsWith "ledger=" then some (dropS l 7) else none
    let d ← if d.startsWith "done=" then b01 (dropS d 5) else none
    let m ← if m.startsWith "tm=" then some (dropS m 3) else none
    let tm ← if m == "-" then some [] else (m.splitOn ",").mapM b01
    match (l.splitOn ",").mapM parseInt? with
    | some [a, b, c, e] => pure ⟨if t == "-" then [] else t.splitOn ",", a, b, c, e, d, tm⟩
    | _ => none
  | _ => none

def isTerminate : Label → Bool
  | .terminate _ => true
  | .terminateStale _ _ => true
  | .terminateRaced _ _ _ _ => true
  | _ => false

/-- the harness' discipline with the return values of the TerminateStream calls: a call was accepted iff it left its
local reply pending (`directResponse` set by the call) -/
def runSettledTm (c : Cfg) (s : S) (l : List (Label × Nat)) : S × List Bool :=
  l.foldl (fun (p : S × List Bool) lm =>
    let s1 := step c p.1 lm.1
    let tm := if isTerminate lm.1 then p.2 ++ [s1.direct && !p.1.direct] else p.2
    (settleMode c lm.2 s1, tm)) (s, [])

/-- the labels of a case with their settle modes -/
def Case.moded (cs : Case) : List (Label × Nat) :=
  if cs.modes.length == cs.sched.length then cs.sched.zip cs.modes
  else cs.sched.map (fun l => (l, if arming l then 2 else 0))

def modelOut (cs : Case) : S := (runSettledTm cs.cfg (init cs.ar cs.aq) cs.moded).1

def renderTm (l : List Bool) : String := if l.isEmpty then "-" else joinWith "," (l.map bs)

/-- the model's output line: trace with tokens, ledger, done, TerminateStream results -/
def renderOut (cs : Case) : String :=
  let r := runSettledTm cs.cfg (init cs.ar cs.aq) cs.moded
  s!"{render r.1} tm={renderTm r.2}"

/-- read an implementation trace token back into an event (`none` = not a token of the protocol) -/
def parseEv (t : String) : Option Ev :=
  match t.splitOn ":" with
  | ["dh", st, e, _] => do pure (.dh (← st.toNat?) (← b01 e))
  | ["dd", e, _] => do pure (.dd (← b01 e))
  | ["dt", _] => some .dt
  | ["dr"] => some .dr
  | ["un", k] => do pure (.un (← k.toNat?))
  | ["uf", k, f] => do
    let f ← if f == "o" then some PoolFail.overflow else if f == "c" then some PoolFail.connfail else none
    pure (.uf (← k.toNat?) f)
  | ["uh", k, e] => do pure (.uh (← k.toNat?) (← b01 e))
  | ["ud", k, e] => do pure (.ud (← k.toNat?) (← b01 e))
  | ["ut", k] => do pure (.ut (← k.toNat?))
  | ["ur", k] => do pure (.ur (← k.toNat?))
  | ["log", code, fl] => do
    let fl ← fl.toList.foldlM (fun acc ch => (hexVal ch).map (fun v => acc * 16 + v)) 0
    pure (.log (← code.toNat?) fl)
  | _ => none

def implTrace (i : Impl) : Option (List Ev) := i.trace.mapM parseEv

/-- the answer tokens of the downstream sender calls of an implementation trace, in order (headers, data, trailers) -/
def implDownToks (i : Impl) : List (String × String) :=
  i.trace.filterMap (fun t => match t.splitOn ":" with
    | ["dh", _, _, k] => some ("dh", k)
    | ["dd", _, k] => some ("dd", k)
    | ["dt", k] => some ("dt", k)
    | _ => none)

/-- declarative: every data / trailers call carries the token of the headers call before it; headers carry a token -/
def ownOk (l : List (String × String)) : Bool :=
  match l with
  | [] => true
  | (k, h) :: r => k == "dh" && h != "-" && r.all (fun p => p.1 != "dh" && p.2 == h)

def isClientGone : Label → Bool
  | .downReset _ => true
  | .connClose => true
  | _ => false

/-- schedule positions: is there a `GT` after the request was started -/
def timeoutAfterStart : List Label → Bool
  | [] => false
  | .work :: r => r.any (fun l => match l with | .globalFire => true | .gtInSetup _ => true | _ => false)
  | _ :: r => timeoutAfterStart r

def isStreamHead : Label → Bool
  | .upRespS _ _ _ _ => true
  | _ => false

def isAttempt : Ev → Bool
  | .un _ => true
  | .uf _ _ => true
  | _ => false

end MosnVerif.Drive.Downstream
