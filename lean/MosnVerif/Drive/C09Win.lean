import MosnVerif.Drive.Util
import MosnVerif.Model.PoolWin
import MosnVerif.Model.PoolPlace
/-!
Driver of kind `win` (C09 window / C10 pool ledger): histories on the REAL HTTP/1 and ping-pong pools whose every
observation carries the whole ledger, and whose `W<s>` operation runs a second `NewStream` INSIDE the window between
"the connection of a reset request is closed" and "the pool's close handler has run".

case : `win <h1|pp> <maxConn> <maxReq> <ops>`      impl: one token per op
token: `<res>;t<total>;i<idle>;q<Requests.Cur>;k<Connections.Cur>;p<PendingRequests.Cur>;a<host>:<cluster> request_active;`
       `b<host>:<cluster> connection_active;n<o|c per connection>;l<connections with a request in flight>`

pool9: `Y` = NewStream with the connection closed by MOSN between the creation of the stream and the registration of
the pool's listener (yield hook); model: the REGENERATED NewStream program (`Gen/PoolPlace`) interpreted statement by
statement with the close right after `place` (`Model/PoolPlace.yieldNew`); on every `N` the same interpreter without the
close must give what the atomic `newStream` of `Model/PoolWin` gives (otherwise the token carries `!prog` ⇒ `D`).

`A`: the small-step model (`Model/PoolWin`, regenerated OnDestroyStream programs) predicts every token.
`Spec` (about the IMPLEMENTATION's tokens and the case only — no regenerated code):
  1. after every operation the counters equal the truth: Requests.Cur = (max_requests = 0 ? 0 : slots held elsewhere +
     requests in flight), both request_active gauges = requests in flight, both connection_active gauges = open
     connections = totalClientCount, Connections.Cur = PendingRequests.Cur = 0 (no pool moves them)   — request_ledger_exact
  2. the idle list has no duplicates and holds only open connections without a request in flight; every open connection
     is idle or in flight; no two requests share a connection                                            — idle_clean_always
  3. a lease never lands on a connection that is closed, in flight, or SPOILED (a request on it was reset, answered with
     garbage or `Connection: close`, or it was closed) — in particular not the lease made inside the window — lease_never_dirty
  4. NewStream is refused for overflow when the requests breaker is full, and otherwise only by the connection limit.
-/
namespace MosnVerif.Drive.C09Win
open MosnVerif.Drive
open MosnVerif.Model.Pool (Kind Dial Res)
open MosnVerif.Model.PoolWin

inductive WOp
  | n (fails : Bool) | r (s : Nat) | rc (s : Nat) | l (s : Nat) | x (s : Nat) | w (s : Nat)
  | cr (c : Nat) | g (c : Nat) | eInc | eDec
  | y
  deriving Repr

def numAfter (s : String) (n : Nat) : Option Nat := (s.drop n).toString.toNat?

def parseOp (t : String) : Option WOp :=
  if t == "N" then some (.n false) else if t == "NF" then some (.n true)
  else if t == "Y" then some .y
  else if t == "E+" then some .eInc else if t == "E-" then some .eDec
  else if t.startsWith "RC" then (numAfter t 2).map .rc
  else if t.startsWith "R" then (numAfter t 1).map .r
  else if t.startsWith "L" then (numAfter t 1).map .l
  else if t.startsWith "X" then (numAfter t 1).map .x
  else if t.startsWith "W" then (numAfter t 1).map .w
  else if t.startsWith "CR" then (numAfter t 2).map .cr
  else if t.startsWith "G" then (numAfter t 1).map .g
  else none

def fuel : Nat := 64

/-! ### the model along the operations -/

def renderIdle (s : State) : String :=
  ",".intercalate (s.idle.map (fun c =>
    let cl := s.client c
    s!"{c}{if cl.closed then "x" else ""}{if cl.closeConn then "g" else ""}"))

def renderConns (s : State) : String :=
  String.join ((List.range s.nClients).map (fun c => if (s.client c).netOpen then "o" else "c"))

def renderLive (s : State) : String :=
  ",".intercalate (((List.range s.nClients).filter (fun c => (s.client c).live)).map toString)

def render (res : String) (s : State) : String :=
  s!"{res};t{s.total};i{renderIdle s};q{s.reqCur};k0;p0;a{s.rqHost}:{s.rqCluster};b{s.cnHost}:{s.cnCluster};n{renderConns s};l{renderLive s}"

def endAndDrain (s : State) (c : Nat) (cause : Cause) : State :=
  drain fuel (step s (.endStream c cause)).1

/-- one operation on the model; `streams` maps the harness' stream numbers to clients -/
def applyOp (s : State) (streams : List Nat) : WOp → State × List Nat × String
  | .n fails =>
    let d : Dial := if fails then .refused else .ok
    let (s1, res) := step s (.newStream d)
    let (s1', res') := MosnVerif.Model.PoolPlace.yieldNew s d false
    let same := res == res' && render "" s1 == render "" s1'
    (s1, (match res with | .ok c => streams ++ [c] | _ => streams), if same then res.render else res.render ++ "!prog")
  | .y =>
    let (s1, res) := MosnVerif.Model.PoolPlace.yieldNew s .ok true
    (s1, (match res with | .ok c => streams ++ [c] | _ => streams), "y:" ++ res.render)
  | .r i => (endAndDrain s (streams.getD i 0) .complete, streams, "-")
  | .rc i => (endAndDrain s (streams.getD i 0) .completeClose, streams, "-")
  | .l i => (endAndDrain s (streams.getD i 0) .localReset, streams, "-")
  | .x i =>
    match s.kind with
    | .h1 => (endAndDrain s (streams.getD i 0) .remoteReset, streams, "-")
    | .pp => (drain fuel (step s (.netClose (streams.getD i 0))).1, streams, "-")
  | .w i =>
    let s1 := (step s (.endStream (streams.getD i 0) .localReset)).1
    let k := s1.tasks.length - 1
    let s2 := toWindow fuel s1 k
    if s2.windowOpen k then
      let (s3, res) := step s2 (.newStream .ok)
      (drain fuel s3, (match res with | .ok c => streams ++ [c] | _ => streams), "w:" ++ res.render)
    else (drain fuel s2, streams, "w:none")
  | .cr c => (drain fuel (step s (.netClose c)).1, streams, "-")
  | .g c => ((step s (.goAway c)).1, streams, "-")
  | .eInc => ((step s .extInc).1, streams, "-")
  | .eDec => ((step s .extDec).1, streams, "-")

def modelToks (s : State) (streams : List Nat) : List WOp → List String
  | [] => []
  | op :: ops =>
    let (s1, st1, res) := applyOp s streams op
    render res s1 :: modelToks s1 st1 ops

/-! ### the observation and the predicate -/

structure Obs where
  total : Int
  idle : List Nat
  idleClosed : Bool
  q : Int
  k : Int
  p : Int
  aH : Int
  aC : Int
  bH : Int
  bC : Int
  conns : List Bool
  live : List Nat

def leadingNat (s : String) : Option Nat :=
  let ds := s.toList.takeWhile Char.isDigit
  if ds.isEmpty then none else (String.ofList ds).toNat?

def parsePair (s : String) : Option (Int × Int) :=
  match s.splitOn ":" with
  | [a, b] => match parseInt? a, parseInt? b with | some a, some b => some (a, b) | _, _ => none
  | _ => none

def parseObs (t : String) : Option (String × Obs) :=
  match t.splitOn ";" with
  | [res, tt, ii, qq, kk, pp, aa, bb, nn, ll] =>
    if !(tt.startsWith "t" && ii.startsWith "i" && qq.startsWith "q" && kk.startsWith "k" && pp.startsWith "p"
         && aa.startsWith "a" && bb.startsWith "b" && nn.startsWith "n" && ll.startsWith "l") then none else
    let idleToks := ((ii.drop 1).toString.splitOn ",").filter (· ≠ "")
    let liveToks := ((ll.drop 1).toString.splitOn ",").filter (· ≠ "")
    let conns := (nn.drop 1).toString.toList
    if conns.any (fun ch => ch != 'o' && ch != 'c') then none else
    match parseInt? (tt.drop 1).toString, parseInt? (qq.drop 1).toString, parseInt? (kk.drop 1).toString,
          parseInt? (pp.drop 1).toString, parsePair (aa.drop 1).toString, parsePair (bb.drop 1).toString,
          idleToks.mapM leadingNat, liveToks.mapM (·.toNat?) with
    | some total, some q, some k, some p, some (aH, aC), some (bH, bC), some idle, some live =>
      some (res, { total := total, idle := idle, idleClosed := idleToks.any (fun t => t.contains 'x'), q := q, k := k, p := p,
                   aH := aH, aC := aC, bH := bH, bC := bC, conns := conns.map (· == 'o'), live := live })
    | _, _, _, _, _, _, _, _ => none
  | _ => none

def Obs.isOpen (o : Obs) (c : Nat) : Bool := o.conns.getD c false
def Obs.openCount (o : Obs) : Nat := (o.conns.filter id).length

def nodup : List Nat → Bool
  | [] => true
  | a :: r => !r.contains a && nodup r

/-- clauses 1 and 2 -/
def obsSpec (maxReq ext : Nat) (o : Obs) : Bool :=
  let live : Int := o.live.length
  let opn : Int := o.openCount
  o.q == (if maxReq == 0 then 0 else (ext : Int) + live)
  && o.k == 0 && o.p == 0
  && o.aH == live && o.aC == live
  && o.bH == opn && o.bC == opn && o.total == opn
  && nodup o.idle && nodup o.live && !o.idleClosed
  && o.idle.all (fun c => o.isOpen c && !o.live.contains c)
  && o.live.all (fun c => o.isOpen c)
  && (List.range o.conns.length).all (fun c => !o.isOpen c || o.idle.contains c || o.live.contains c)

def okConn (res : String) : Option Nat :=
  if res.startsWith "ok" then (res.drop 2).toString.toNat? else none

/-- clauses 3 and 4 for one lease attempt: `before` is the last quiescent observation, `closing` the connection being
closed by the pool right now (window), `breakerHeld` the slots in use at the moment of the call -/
def leaseSpec (maxConn maxReq : Nat) (held : Nat) (spoiled : List Nat) (before : Obs) (closing : Option Nat)
    (fails : Bool) (res : String) : Bool :=
  let full := maxReq != 0 && held ≥ maxReq
  let openNow := before.openCount   -- the closing connection still counts: its close handler has not run
  match okConn res with
  | some c =>
    -- (a dial that would fail is not made when an idle connection is reused)
    !full && (!fails || c < before.conns.length) && !spoiled.contains c && !before.live.contains c && closing != some c
    && (c ≥ before.conns.length || (before.isOpen c && before.idle.contains c))
  | none =>
    if res == "ovf" then full || (maxConn != 0 && openNow ≥ maxConn)
    else if res == "cf" then !full && fails && before.idle.isEmpty
    else false

structure Track where
  ext : Nat := 0
  streams : List Nat := []     -- connection of every stream, from the implementation's results
  spoiled : List Nat := []

def emptyObs : Obs :=
  { total := 0, idle := [], idleClosed := false, q := 0, k := 0, p := 0, aH := 0, aC := 0, bH := 0, bC := 0, conns := [], live := [] }

def specAlong (kind : Kind) (maxConn maxReq : Nat) : Track → Obs → List WOp → List String → Bool
  | _, _, [], _ => true
  | _, _, _ :: _, [] => true
  | tr, before, op :: ops, t :: ts =>
    match parseObs t with
    | none => false
    | some (res, o) =>
      let connOf (i : Nat) : Nat := tr.streams.getD i 0
      let (ok, tr') : Bool × Track := match op with
        | .n fails =>
          (leaseSpec maxConn maxReq (tr.ext + before.live.length) tr.spoiled before none fails res,
           match okConn res with | some c => { tr with streams := tr.streams ++ [c] } | none => tr)
        | .r _ => (res == "-", tr)
        | .rc i => (res == "-", { tr with spoiled := connOf i :: tr.spoiled })
        | .l i => (res == "-", { tr with spoiled := connOf i :: tr.spoiled })
        | .x i => (res == "-", { tr with spoiled := connOf i :: tr.spoiled })
        | .cr c => (res == "-", { tr with spoiled := c :: tr.spoiled })
        | .g _ => (res == "-", tr)
        | .eInc => (res == "-", { tr with ext := tr.ext + 1 })
        | .eDec => (res == "-", { tr with ext := tr.ext - 1 })
        | .y =>
          -- the connection is closed inside NewStream: the request is refused, or the stream handed out has ended by
          -- the time the operation has settled (`obsSpec`: nothing in flight on a closed connection, counters = truth)
          let inner := (res.drop 2).toString
          let full := maxReq != 0 && tr.ext + before.live.length ≥ maxReq
          (res.startsWith "y:" && (match okConn inner with
             | some c => !full && !tr.spoiled.contains c && !before.live.contains c
             | none => (inner == "ovf" && (full || (maxConn != 0 && before.openCount ≥ maxConn))) || (inner == "cf" && !full)),
           match okConn inner with
           | some c => { tr with spoiled := c :: tr.spoiled, streams := tr.streams ++ [c] }
           | none => tr)
        | .w i =>
          let c := connOf i
          let sp := c :: tr.spoiled
          let inner := (res.drop 2).toString
          -- inside the window: the reset request no longer holds its breaker slot on the ping-pong pool (given back
          -- before the close), it still does on the HTTP/1 pool (given back after the close)
          let held := tr.ext + before.live.length - (match kind with | .pp => 1 | .h1 => 0)
          let beforeW := { before with live := before.live.filter (· != c) }
          (res.startsWith "w:" && res != "w:none" && leaseSpec maxConn maxReq held sp beforeW (some c) false inner,
           match okConn inner with
           | some c2 => { tr with spoiled := sp, streams := tr.streams ++ [c2] }
           | none => { tr with spoiled := sp })
      ok && obsSpec maxReq tr'.ext o && specAlong kind maxConn maxReq tr' o ops ts

def parseKind : String → Option Kind
  | "h1" => some .h1 | "pp" => some .pp | _ => none

def win (kind mc mr ops : String) (impl : List String) : String :=
  match parseKind kind, mc.toNat?, mr.toNat?, (ops.splitOn ",").mapM parseOp with
  | some k, some maxConn, some maxReq, some opl =>
    let toks := modelToks (init k maxConn maxReq) [] opl
    let agree := impl == toks
    let spec := impl.length == opl.length && specAlong k maxConn maxReq {} emptyObs opl impl
    s!"{if agree then "A" else "D"} {if spec then "S" else "V"} {joinWith " " toks}"
  | _, _, _, _ => "E E bad-case"

end MosnVerif.Drive.C09Win
