import MosnVerif.Lemmas.PoolWin
/-! Machine-checked instances and negation witnesses for `Lemmas/PoolWin.lean`: the regenerated programs are in the
proved classes; a put-back-before-close program and a return-after-close program are outside them, and concrete
schedules show what goes wrong for each. -/
namespace MosnVerif.Lemmas.PoolWinWitness
open MosnVerif.Model.PoolWin MosnVerif.Lemmas.PoolWin
open MosnVerif.Model.Pool (Kind Dial Res)

/-! ### 1. the regenerated programs are in the classes -/
theorem progOk_pp : progOk (destroyProg .pp) = true := by decide
theorem progOk_h1 : progOk (destroyProg .h1) = true := by decide
theorem ledgerOk_pp : ledgerOk .pp (destroyProg .pp) = true := by decide
theorem ledgerOk_h1 : ledgerOk .h1 (destroyProg .h1) = true := by decide

/-! ### 2. put back, then close: a dirty, already closed connection is leased -/
def bad : List DStep := [.decHost, .decCluster, .decRes, .put, .closeIf false]
def badSched : List Label :=
  [.newStream .ok, .endStream 0 .localReset, .taskStep 0, .taskStep 0, .taskStep 0, .taskStep 0, .taskStep 0]

theorem bad_not_progOk : progOk bad = false := by decide
theorem bad_idle : (run (initWith .pp 0 0 bad) badSched).idle = [0] := by decide
theorem bad_dirty : ((run (initWith .pp 0 0 bad) badSched).client 0).dirty = true := by decide
theorem bad_netClosed : ((run (initWith .pp 0 0 bad) badSched).client 0).netOpen = false := by decide
theorem bad_not_idleClean : ¬ idleClean (run (initWith .pp 0 0 bad) badSched) := by
  intro h
  have h0 := h 0 (by rw [bad_idle]; exact List.mem_singleton.mpr rfl)
  rw [bad_dirty] at h0
  exact absurd h0.2.2.2.1 (by decide)
theorem bad_leased : (step (run (initWith .pp 0 0 bad) badSched) (.newStream .ok)).2 = .ok 0 := by decide
/-- the same as one schedule of eight labels: the last `NewStream` is answered with connection 0 -/
theorem bad_leased' : (step (run (initWith .pp 0 0 bad) (badSched.take 7)) (.newStream .ok)).2 = .ok 0 := by decide

/-! ### 3. return after close (HTTP/1): the breaker slot and the gauges leak -/
def leak : List DStep := [.closeIf true, .decHost, .decCluster, .decRes, .put]
def leakSched : List Label := [.newStream .ok, .endStream 0 .localReset, .taskStep 0, .taskStep 0]

theorem leak_not_ledgerOk : ledgerOk .h1 leak = false := by decide
theorem leak_tasks : (run (initWith .h1 0 1 leak) leakSched).tasks = [] := by decide
theorem leak_liveN : (run (initWith .h1 0 1 leak) leakSched).liveN = 0 := by decide
theorem leak_reqCur : (run (initWith .h1 0 1 leak) leakSched).reqCur = 1 := by decide
theorem leak_rqHost : (run (initWith .h1 0 1 leak) leakSched).rqHost = 1 := by decide
theorem leak_overflow : (step (run (initWith .h1 0 1 leak) leakSched) (.newStream .ok)).2 = .overflow := by decide

end MosnVerif.Lemmas.PoolWinWitness
