import MosnVerif.Model.H2Alloc
/-! C08 (allocation): the header list never outgrows its budget — invariant of the regenerated emit step program. -/
namespace MosnVerif.Lemmas.H2Alloc
open MosnVerif.Model.H2Alloc MosnVerif.Gen.C08H2Alloc

theorem sum_append (a : List Int) (x : Int) : sum (a ++ [x]) = sum a + x := by
  induction a with
  | nil => simp [sum]
  | cons y r ih => simp only [List.cons_append, sum, ih]; omega

/-- budget invariant: what was kept plus what remains is the limit; nothing negative; every kept field counts ≥ 32 -/
def Inv (limit : Int) (s : ESt) : Prop :=
  0 ≤ s.remain ∧ sum s.kept + s.remain = limit ∧ 32 * (s.kept.length : Int) ≤ sum s.kept

/-- the regenerated step program on one field: refuse (and switch emitting off) when over budget, else pay and append -/
theorem runOps_eq (sz : Int) (s : ESt) : runOps sz h2a_emitOps s =
    if sz > s.remain then { s with enabled := false, truncated := true }
    else { s with remain := s.remain - sz, kept := s.kept ++ [sz] } := by
  by_cases h : sz > s.remain
  · simp [h2a_emitOps, runOps, emitOp, h2a_listOver, h2a_listTake, h]
  · simp [h2a_emitOps, runOps, emitOp, h2a_listOver, h2a_listTake, h]

theorem inv_field (limit : Int) (s : ESt) (nv : Nat × Nat) (h : Inv limit s) : Inv limit (emitField h2a_emitOps s nv) := by
  unfold emitField
  split
  · have hsz : 32 ≤ h2a_fieldSize nv.1 nv.2 := by simp only [h2a_fieldSize]; omega
    generalize h2a_fieldSize nv.1 nv.2 = sz at hsz
    rw [runOps_eq]
    obtain ⟨h0, h1, h2⟩ := h
    split
    · exact ⟨h0, h1, h2⟩
    · rename_i hle
      refine ⟨?_, ?_, ?_⟩
      · show 0 ≤ s.remain - sz; omega
      · show sum (s.kept ++ [sz]) + (s.remain - sz) = limit; rw [sum_append]; omega
      · show 32 * ((s.kept ++ [sz]).length : Int) ≤ sum (s.kept ++ [sz])
        rw [sum_append, List.length_append]; simp only [List.length_cons, List.length_nil]; omega
  · exact h

theorem inv_foldl (limit : Int) (fields : List (Nat × Nat)) :
    ∀ s, Inv limit s → Inv limit (fields.foldl (emitField h2a_emitOps) s) := by
  induction fields with
  | nil => intro s h; exact h
  | cons f r ih => intro s h; exact ih _ (inv_field limit s f h)

theorem emitAll_inv (limit : Int) (h : 0 ≤ limit) (fields : List (Nat × Nat)) : Inv limit (emitAll h2a_emitOps limit fields) := by
  apply inv_foldl
  exact ⟨h, by simp [sum], by simp [sum]⟩

end MosnVerif.Lemmas.H2Alloc
