import MosnVerif.Lemmas.PoolH2Spec
/-! Single steps of the HTTP/2 pool model in closed form (for the scenario theorems of `Props/C09.lean`). -/
namespace MosnVerif.Model.PoolH2
open MosnVerif.Gen.PoolH2 MosnVerif.Gen.Pool
open MosnVerif.Model.Pool (Stream Dial countLive)

/-- the pool's client has been told to go away: the critical section gives it up and (dial ok) dials ONE replacement -/
theorem pick_goaway (s : State) (h : Inv s) (c : Nat) (ha : s.active = some c) (hg : (s.conn c).goaway ≠ 0) (dial : Dial) :
    pick s dial = if dial.fails then dropped s else dialled (dropped s) := by
  unfold pick
  rw [giveUp_eq s h, if_pos ⟨by simp [ha], by simpa [State.curGoaway, ha] using hg⟩, dialIfNone_eq]
  have : (dropped s).active = none := rfl
  cases dial.fails <;> simp [this]

/-- the pool's client has not been told to go away: the critical section changes nothing, whatever the dial would do -/
theorem pick_keep (s : State) (h : Inv s) (a : Nat) (ha : s.active = some a) (hg : (s.conn a).goaway = 0) (dial : Dial) :
    pick s dial = s := by
  unfold pick
  rw [giveUp_eq s h, if_neg (by simp [State.curGoaway, ha, hg]), dialIfNone_eq, if_neg (by simp [ha])]

/-- the pool holds no client: a dial, and nothing else -/
theorem pick_none (s : State) (h : Inv s) (ha : s.active = none) (dial : Dial) :
    pick s dial = if dial.fails then s else dialled s := by
  unfold pick
  rw [giveUp_eq s h, if_neg (by simp [ha]), dialIfNone_eq]
  cases dial.fails <;> simp [ha]

/-- `NewStream` after the critical section touches the request books only -/
theorem newStream_conn_fields (s : State) (dial : Dial) :
    (newStream s dial).1.nConns = (pick s dial).nConns ∧ (newStream s dial).1.active = (pick s dial).active ∧
    (newStream s dial).1.connHost = (pick s dial).connHost ∧ (newStream s dial).1.connCluster = (pick s dial).connCluster ∧
    (newStream s dial).1.conn = (pick s dial).conn ∧ (newStream s dial).1.maxReq = (pick s dial).maxReq := by
  unfold newStream
  simp only
  split
  · exact ⟨rfl, rfl, rfl, rfl, rfl, rfl⟩
  · split
    · exact ⟨rfl, rfl, rfl, rfl, rfl, rfl⟩
    · rw [lease, movesN_lease]; exact ⟨rfl, rfl, rfl, rfl, rfl, rfl⟩

/-- the result of `NewStream` in terms of the client the critical section settled on -/
theorem newStream_result (s : State) (dial : Dial) :
    (newStream s dial).2 =
      match (pick s dial).active with
      | none => .connFail
      | some c => if canCreate (pick s dial).maxReq (pick s dial).reqCur then .ok c else .overflow := by
  unfold newStream
  simp only
  split
  · rename_i h; simp [h]
  · rename_i c h
    simp only [h]
    cases canCreate (pick s dial).maxReq (pick s dial).reqCur <;> simp

/-- a refusal takes nothing from the request books -/
theorem newStream_refused (s : State) (dial : Dial) (h : (newStream s dial).2.isOk = false) :
    (newStream s dial).1 = pick s dial := by
  unfold newStream at h ⊢
  simp only at h ⊢
  split
  · rfl
  · split
    · rfl
    · rename_i hc hcan
      simp [hc, hcan, Res.isOk] at h

theorem pick_req_fields (s : State) (h : Inv s) (dial : Dial) :
    (pick s dial).reqCur = s.reqCur ∧ (pick s dial).actHost = s.actHost ∧ (pick s dial).actCluster = s.actCluster ∧
    (pick s dial).nStreams = s.nStreams ∧ (pick s dial).stream = s.stream ∧ (pick s dial).maxReq = s.maxReq ∧
    (pick s dial).ext = s.ext := by
  unfold pick
  rw [giveUp_eq s h, dialIfNone_eq]
  split <;> split <;> exact ⟨rfl, rfl, rfl, rfl, rfl, rfl, rfl⟩

theorem countLive_zero (f : Nat → Stream) (n : Nat) (h : ∀ i, i < n → (f i).live = false) : countLive f n = 0 := by
  induction n with
  | zero => rfl
  | succ n ih =>
    simp only [countLive, ih (fun i hi => h i (by omega)), h n (by omega)]
    simp

end MosnVerif.Model.PoolH2
