import MosnVerif.Lemmas.PoolH2Spec
/-! Single steps of the HTTP/2 pool model in closed form (for the scenario theorems of `Props/C09.lean`). -/
namespace MosnVerif.Model.PoolH2
open MosnVerif.Gen.PoolH2 MosnVerif.Gen.Pool
open MosnVerif.Model.Pool (Stream Dial countLive)

/-- the pool's client has been told to go away: the critical section gives it up and (dial ok) dials ONE replacement -/
theorem pick_goaway (s : State) (h : Inv s) (c : Nat) (ha : s.active = some c) (hg : (s.conn c).goaway ≠ 0) (dial : Dial) :
    pick s dial = if dial.fails then dropped s else dialled (dropped s) := by
  unfold pick
  rw [giveUp_eq s h, if_pos ⟨by simp [ha], by simpa [State.curGoaway, ha] using hg⟩, dialIfNone_eq]
  have : (dropped s).active = none := rfl
  cases dial.fails <;> simp [this]

/-- the pool's client has not been told to go away: the critical section changes nothing, whatever the dial would do -/
theorem pick_keep (s : State) (h : Inv s) (a : Nat) (ha : s.active = some a) (hg : (s.conn a).goaway = 0) (dial : Dial) :
    pick s dial = s := by
  unfold pick
  rw [giveUp_eq s h, if_neg (by simp [State.curGoaway, ha, hg]), dialIfNone_eq, if_neg (by simp [ha])]

/-- the pool holds no client: a dial, and nothing else -/
theorem pick_none (s : State) (h : Inv s) (ha : s.active = none) (dial : Dial) :
    pick s dial = if dial.fails then s else dialled s := by
  unfold pick
  rw [giveUp_eq s h, if_neg (by simp [ha]), dialIfNone_eq]
  cases dial.fails <;> simp [ha]

/-- `NewStream` after the critical section touches the request books only -/
theorem newStream_conn_fields (s : State) (dial : Dial) :
    (newStream s dial).1.nConns = (pick s dial).nConns ∧ (newStream s dial).1.active = (pick s dial).active ∧
    (newStream s dial).1.connHost = (pick s dial).connHost ∧ (newStream s dial).1.connCluster = (pick s dial).connCluster ∧
    (newStream s dial).1.conn = (pick s dial).conn ∧ (newStream s dial).1.maxReq = (pick s dial).maxReq := by
  unfold newStream
  simp only
  split
  · exact ⟨rfl, rfl, rfl, rfl, rfl, rfl⟩
  · split
    · exact ⟨rfl, rfl, rfl, rfl, rfl, rfl⟩
    · rw [lease, movesN_lease]; exact ⟨rfl, rfl, rfl, rfl, rfl, rfl⟩

/-- the result of `NewStream` in terms of the client the critical section settled on -/
theorem newStream_result (s : State) (dial : Dial) :
    (newStream s dial).2 =
      match (pick s dial).active with
      | none => .connFail
      | some c => if canCreate (pick s dial).maxReq (pick s dial).reqCur then .ok c else .overflow := by
  unfold newStream
  simp only
  split
  · rename_i h; simp [h]
  · rename_i c h
    simp only [h]
    cases canCreate (pick s dial).maxReq (pick s dial).reqCur <;> simp

/-- a refusal takes nothing from the request books -/
theorem newStream_refused (s : State) (dial : Dial) (h : (newStream s dial).2.isOk = false) :
    (newStream s dial).1 = pick s dial := by
  unfold newStream at h ⊢
  simp only at h ⊢
  split
  · rfl
  · split
    · rfl
    · rename_i hc hcan
      simp [hc, hcan, Res.isOk] at h

theorem pick_req_fields (s : State) (h : Inv s) (dial : Dial) :
    (pick s dial).reqCur = s.reqCur ∧ (pick s dial).actHost = s.actHost ∧ (pick s dial).actCluster = s.actCluster ∧
    (pick s dial).nStreams = s.nStreams ∧ (pick s dial).stream = s.stream ∧ (pick s dial).maxReq = s.maxReq ∧
    (pick s dial).ext = s.ext := by
  unfold pick
  rw [giveUp_eq s h, dialIfNone_eq]
  split <;> split <;> exact ⟨rfl, rfl, rfl, rfl, rfl, rfl, rfl⟩

theorem countLive_zero (f : Nat → Stream) (n : Nat) (h : ∀ i, i < n → (f i).live = false) : countLive f n = 0 := by
  induction n with
  | zero => rfl
  | succ n ih =>
    simp only [countLive, ih (fun i hi => h i (by omega)), h n (by omega)]
    simp

end MosnVerif.Model.PoolH2

/-! ### the `NewStream` predicate holds of every model step -/
namespace MosnVerif.Model.PoolH2
open MosnVerif.Gen.PoolH2 MosnVerif.Gen.Pool
open MosnVerif.Model.Pool (Stream Dial countLive length_filter_range)

theorem poolCanCreate_iff (m : Nat) (n : Int) (hn : 0 ≤ n) : canCreate (m : Int) n = true ↔ (m = 0 ∨ n < m) := by
  unfold canCreate
  by_cases hm : m = 0
  · simp [hm]
  · have : ¬ ((m : Int) = 0) := by omega
    have h2 : ¬ (n < 0) := by omega
    simp [hm, this, h2]

theorem find?_range_none (p : Nat → Bool) (n : Nat) (h : ∀ c, c < n → p c = false) : (List.range n).find? p = none := by
  rw [List.find?_eq_none]
  intro c hc
  simp [h c (List.mem_range.mp hc)]

theorem find?_range_unique (p : Nat → Bool) (a n : Nat) (ha : a < n) (hp : ∀ c, c < n → (p c = true ↔ c = a)) :
    (List.range n).find? p = some a := by
  induction n with
  | zero => omega
  | succ n ih =>
    rw [List.range_succ, List.find?_append]
    by_cases han : a = n
    · subst han
      rw [find?_range_none p a (fun c hc => by
        cases hpc : p c
        · rfl
        · have := (hp c (by omega)).mp hpc; omega)]
      have : p a = true := (hp a (by omega)).mpr rfl
      simp [this]
    · rw [ih (by omega) (fun c hc => hp c (by omega))]; rfl

/-- the connection a request would be served by, read off the observation: the pool's client if it has not been told to
go away -/
theorem usable_obsOf (s : State) (h : Inv s) :
    (List.range (obsOf s).conns.length).find? (fun c => (obsOf s).isOpen c && !s.told c) =
      (match s.active with
       | some a => if (s.conn a).goaway = 0 then some a else none
       | none => none) := by
  rw [conns_length]
  have hp : ∀ c, c < s.nConns → (((obsOf s).isOpen c && !s.told c) = true ↔ ((s.conn c).netOpen = true ∧ (s.conn c).goaway = 0)) := by
    intro c hc
    rw [isOpen_obsOf]
    simp [hc, State.told]
  cases ha : s.active with
  | none =>
    simp only
    apply find?_range_none
    intro c hc
    cases hv : ((obsOf s).isOpen c && !s.told c)
    · rfl
    · have ⟨h1, h2⟩ := (hp c hc).mp hv
      have := h.openOk c hc h1 h2
      rw [ha] at this; cases this
  | some a =>
    have ⟨ha1, ha2⟩ := h.activeOk a ha
    simp only
    by_cases hg : (s.conn a).goaway = 0
    · rw [if_pos hg]
      apply find?_range_unique _ a _ ha1
      intro c hc
      rw [hp c hc]
      constructor
      · intro ⟨h1, h2⟩
        have := h.openOk c hc h1 h2
        rw [ha] at this; cases this; rfl
      · intro e; subst e; exact ⟨ha2, hg⟩
    · rw [if_neg hg]
      apply find?_range_none
      intro c hc
      cases hv : ((obsOf s).isOpen c && !s.told c)
      · rfl
      · have ⟨h1, h2⟩ := (hp c hc).mp hv
        have := h.openOk c hc h1 h2
        rw [ha] at this; cases this
        exact absurd h2 hg

theorem room_obsOf (s : State) (h : Inv s) :
    decide (s.maxReq = 0 ∨ (s.ext : Int) + ((obsOf s).liveConns.length : Int) < s.maxReq) = canCreate s.maxReq s.reqCur := by
  have hlen : (obsOf s).liveConns.length = s.liveCount := by
    rw [liveConns_obsOf s h, List.length_map]; exact length_filter_range _ _
  have hnn : 0 ≤ s.reqCur := by rw [h.req]; split <;> omega
  have hc := poolCanCreate_iff s.maxReq s.reqCur hnn
  rw [hlen]
  have hreq := h.req
  by_cases hm : s.maxReq = 0
  · have : canCreate (s.maxReq : Int) s.reqCur = true := hc.mpr (Or.inl hm)
    rw [this]; simp [hm]
  · rw [if_neg hm] at hreq
    cases hcc : canCreate (s.maxReq : Int) s.reqCur
    · have : ¬ (s.maxReq = 0 ∨ s.reqCur < s.maxReq) := fun hh => by rw [hc.mpr hh] at hcc; cases hcc
      simp only [decide_eq_false_iff_not]
      intro hh; apply this
      rcases hh with h0 | h0
      · exact Or.inl h0
      · right; omega
    · have := hc.mp hcc
      simp only [decide_eq_true_eq]
      rcases this with h0 | h0
      · exact Or.inl h0
      · right; omega

def resGranted : Res → Option Nat
  | .ok c => some c
  | _ => none

/-- **the `NewStream` predicate on the model**: for every state satisfying the invariant and every dial outcome, the
observation pair (before, after) of the model's `NewStream` satisfies `newStreamSpec`. -/
theorem newStreamSpec_holds (s : State) (h : Inv s) (dial : Dial) :
    newStreamSpec s.maxReq s.ext s.told dial.fails (obsOf s) (resGranted (newStream s dial).2) (newStream s dial).2.render
      (obsOf (newStream s dial).1) = true := by
  obtain ⟨f1, f2, f3, f4, f5, f6⟩ := newStream_conn_fields s dial
  have hres := newStream_result s dial
  obtain ⟨g1, g2, g3, g4, g5, g6, g7⟩ := pick_req_fields s h dial
  have hafterlen : (obsOf (newStream s dial).1).conns.length = (pick s dial).nConns := by rw [conns_length, f1]
  -- a refusal leaves the request side of the observation as it was
  have hrefused : (newStream s dial).2.isOk = false →
      ((obsOf (newStream s dial).1).streams == (obsOf s).streams && (obsOf (newStream s dial).1).reqCur == (obsOf s).reqCur &&
       (obsOf (newStream s dial).1).actHost == (obsOf s).actHost && (obsOf (newStream s dial).1).actCluster == (obsOf s).actCluster) = true := by
    intro hno
    rw [newStream_refused s dial hno]
    simp [obsOf, g1, g2, g3, g4, g5]
  unfold newStreamSpec
  rw [usable_obsOf s h, room_obsOf s h, hafterlen, conns_length]
  rw [g6, g1] at hres
  cases ha : s.active with
  | none =>
    have hp := pick_none s h ha dial
    cases hf : dial.fails
    · -- one connection is dialled and serves
      rw [hf] at hp; simp only [Bool.false_eq_true, if_false] at hp
      rw [hp] at hres ⊢
      simp only [dialled] at hres ⊢
      cases hcc : canCreate (s.maxReq : Int) s.reqCur
      · rw [hcc] at hres
        have hno : (newStream s dial).2.isOk = false := by rw [hres]; rfl
        simp [hres, resGranted, Res.render, hrefused hno]
      · rw [hcc] at hres
        simp [hres, resGranted]
    · rw [hf] at hp; simp only [if_true] at hp
      rw [hp, ha] at hres
      have hno : (newStream s dial).2.isOk = false := by rw [hres]; rfl
      rw [hp]
      simp [hres, resGranted, Res.render, hrefused hno]
  | some a =>
    by_cases hg : (s.conn a).goaway = 0
    · have hp := pick_keep s h a ha hg dial
      rw [hp, ha] at hres
      rw [hp]
      simp only [hg, if_true]
      cases hcc : canCreate (s.maxReq : Int) s.reqCur
      · rw [hcc] at hres
        have hno : (newStream s dial).2.isOk = false := by rw [hres]; rfl
        simp [hres, resGranted, Res.render, hrefused hno]
      · rw [hcc] at hres
        simp [hres, resGranted]
    · have hp := pick_goaway s h a ha hg dial
      simp only [hg, if_false]
      cases hf : dial.fails
      · rw [hf] at hp; simp only [Bool.false_eq_true, if_false] at hp
        rw [hp] at hres ⊢
        simp only [dialled, dropped] at hres ⊢
        cases hcc : canCreate (s.maxReq : Int) s.reqCur
        · rw [hcc] at hres
          have hno : (newStream s dial).2.isOk = false := by rw [hres]; rfl
          simp [hres, resGranted, Res.render, hrefused hno]
        · rw [hcc] at hres
          simp [hres, resGranted]
      · rw [hf] at hp; simp only [if_true] at hp
        rw [hp] at hres ⊢
        simp only [dropped] at hres ⊢
        have hno : (newStream s dial).2.isOk = false := by rw [hres]; rfl
        simp [hres, resGranted, Res.render, hrefused hno]

end MosnVerif.Model.PoolH2
