import MosnVerif.Lemmas.ConfigCodec
import MosnVerif.Lemmas.GoDuration
/-! Fixpoint laws of the custom (Un)MarshalJSON pairs (C19). -/
namespace MosnVerif.Model.ConfigCodec
open MosnVerif.Model MosnVerif.Model.GoDuration

theorem fc_keysOK (tls filter : Shape) (h1 : keysOK tls = true) (h2 : keysOK filter = true) (h3 : ptrElemOK tls = true) :
    keysOK (fcShape tls filter) = true := by
  have e1 : (fold "tls_context" == fold "match") = false := by decide
  have e2 : (fold "tls_context_set" == fold "match") = false := by decide
  have e3 : (fold "filters" == fold "match") = false := by decide
  have e4 : (fold "tls_context_set" == fold "tls_context") = false := by decide
  have e5 : (fold "filters" == fold "tls_context") = false := by decide
  have e6 : (fold "filters" == fold "tls_context_set") = false := by decide
  simp [fcShape, keysOK, keysOKF, Fields.keys, h1, h2, h3, e1, e2, e3, e4, e5, e6]

/-- **FilterChain**: what `MarshalJSON` writes after one `UnmarshalJSON` is a fixpoint of the pair. -/
theorem fc_fixpoint (tls filter : Shape) (h1 : keysOK tls = true) (h2 : keysOK filter = true) (h3 : ptrElemOK tls = true)
    (w : Json) (x : FilterChainV) (hU : fcU tls filter w = some x) :
    ∃ y, fcU tls filter (fcM tls filter x) = some y ∧ fcM tls filter y = fcM tls filter x := by
  have hk := fc_keysOK tls filter h1 h2 h3
  unfold fcU at hU
  split at hU
  · rename_i m tc n ts fl hdec
    have hw := dw _ hk w _ hdec
    simp only [fcShape, wt, wtF, Bool.and_eq_true, Bool.and_true] at hw
    obtain ⟨hwm, ⟨⟨_, _⟩, hwtc⟩, ⟨hnts, hwts⟩, hwfl⟩ := hw
    split at hU
    · simp at hU
    · -- the contexts are a non-empty list of TLS values
      have hx := (Option.some.inj hU).symm
      have hctx : ∃ c cs, x.ctxs = c :: cs ∧ wtL (wt tls) (c :: cs) = true ∧ x.cfg = .struct [m, .ptr tc, .slice n ts, fl] := by
        rw [hx]
        cases ts with
        | cons t r => exact ⟨t, r, by simp, hwts, rfl⟩
        | nil =>
          cases tc with
          | nil => exact ⟨zero tls, [], by simp, by simp [wtL, wt_zero tls h1], rfl⟩
          | cons t r =>
            refine ⟨t, [], by simp, ?_, rfl⟩
            simp only [wtL, Bool.and_eq_true] at hwtc ⊢
            exact ⟨hwtc.1, trivial⟩
      obtain ⟨c, cs, hx1, hwc, hx2⟩ := hctx
      -- what MarshalJSON encodes
      have hM : fcM tls filter x = encode (fcShape tls filter) (.struct [m, .ptr [], .slice false (c :: cs), fl]) := by
        simp [fcM, hx1, hx2]
      have hwc1 : wt (fcShape tls filter) (.struct [m, .ptr [], .slice false (c :: cs), fl]) = true := by
        simp only [wtL, Bool.and_eq_true] at hwc
        simp [fcShape, wt, wtF, wtL, hwm, h3, hwc.1, hwc.2, hwfl]
      have hrt := rt _ hk _ hwc1
      have hen := en _ _ hwc1
      -- shape of the normalised value
      have hnorm : norm (fcShape tls filter) (.struct [m, .ptr [], .slice false (c :: cs), fl]) =
          .struct [(if isEmpty m then zero .str else norm .str m), .ptr [], .slice false (normL (norm tls) (c :: cs)),
                   (if isEmpty fl then zero (.slice filter) else norm (.slice filter) fl)] := by
        have e1 : isEmpty (.ptr []) = true := rfl
        have e2 : isEmpty (.slice false (c :: cs)) = false := rfl
        have e3 : zero (.ptr tls) = .ptr [] := by simp [zero]
        simp only [fcShape, norm, normF, e1, e2, e3, Bool.true_and, Bool.and_true, Bool.and_false, if_true, if_false,
          Bool.false_eq_true]
      refine ⟨⟨norm (fcShape tls filter) (.struct [m, .ptr [], .slice false (c :: cs), fl]), normL (norm tls) (c :: cs)⟩, ?_, ?_⟩
      · rw [hM]
        unfold fcU
        rw [hrt, hnorm]
        simp [normL]
      · rw [hM, ← hen, hnorm]
        simp [fcM, normL]
  · simp at hU

/-! ### Host -/

theorem host_keysOK : keysOK hostShape = true := by decide

/-- **Host**: the metadata is rebuilt from `MetaData` on every `MarshalJSON`, non-string `mosn.lb` values are dropped by
the first `UnmarshalJSON`; after that the pair is at a fixpoint. -/
theorem host_fixpoint (w : Json) (x : HostV) (hU : hostU w = some x) :
    ∃ y, hostU (hostM x) = some y ∧ hostM y = hostM x := by
  have hk := host_keysOK
  unfold hostU at hU
  split at hU
  · rename_i a h wgt md t hdec
    have hw := dw _ hk w _ hdec
    simp only [hostShape, wt, wtF, Bool.and_eq_true, Bool.and_true] at hw
    obtain ⟨hwa, hwh, hww, _, hwt⟩ := hw
    have hx := (Option.some.inj hU).symm
    have hmd : (x.md.map (·.1)).Nodup := by
      rw [hx]; simp only []
      split
      · exact toMeta_nodup _
      · simp
    have hcfg : x.cfg = .struct [a, h, wgt, .ptr md, t] := by rw [hx]
    have hM : hostM x = encode hostShape (.struct [a, h, wgt, fromMeta x.md, t]) := by simp [hostM, hcfg]
    have hwm : wt (.ptr (.struct (.cons "filter_metadata" false (.struct (.cons "mosn.lb" false .hmap .nil)) .nil))) (fromMeta x.md) = true := by
      unfold fromMeta; split <;> simp [wt, wtF, wtL, ptrElemOK, isObjOrNull]
    have hwc1 : wt hostShape (.struct [a, h, wgt, fromMeta x.md, t]) = true := by
      simp only [hostShape, wt, wtF, Bool.and_eq_true, Bool.and_true]
      exact ⟨hwa, hwh, hww, by simpa [wt] using hwm, hwt⟩
    have hrt := rt _ hk _ hwc1
    have hen := en _ _ hwc1
    have hnm : (if isEmpty (fromMeta x.md) then zero (.ptr (.struct (.cons "filter_metadata" false (.struct (.cons "mosn.lb" false .hmap .nil)) .nil)))
        else norm (.ptr (.struct (.cons "filter_metadata" false (.struct (.cons "mosn.lb" false .hmap .nil)) .nil))) (fromMeta x.md)) = fromMeta x.md := by
      unfold fromMeta
      split
      · simp [isEmpty, zero]
      · simp [isEmpty, norm, normL, normF]
    have hnorm : norm hostShape (.struct [a, h, wgt, fromMeta x.md, t]) =
        .struct [(if isEmpty a then zero .str else norm .str a), (if isEmpty h then zero .str else norm .str h),
                 (if isEmpty wgt then zero .num else norm .num wgt), fromMeta x.md,
                 (if isEmpty t then zero .bool else norm .bool t)] := by
      simp only [hostShape, norm, normF, Bool.true_and, hnm]
    refine ⟨⟨norm hostShape (.struct [a, h, wgt, fromMeta x.md, t]), x.md⟩, ?_, ?_⟩
    · rw [hM]
      unfold hostU
      rw [hrt, hnorm]
      by_cases he : x.md = []
      · simp [fromMeta, he]
      · have he' : x.md.isEmpty = false := by cases hq : x.md <;> simp_all
        simp [fromMeta, he', toMeta_fromMeta x.md hmd]
    · rw [hM, ← hen, hnorm]
      simp [hostM]
  · simp at hU

/-! ### RetryPolicy -/

/-- every duration `time.ParseDuration` can return is read back from its `Duration.String` rendering -/
def DurLaw : Prop := ∀ (j : Json) (d : Int), durU j = some d → durU (.str (fmtDur d)) = some d

theorem decodeL_nums : (cs : List String) → decodeL (decode .num) (cs.map Json.num) = some (cs.map CVal.num)
  | [] => by simp [decodeL]
  | c :: r => by simp [decodeL, decode, decodeL_nums r]

theorem filterMap_nums (cs : List String) :
    (cs.map CVal.num).filterMap (fun c => match c with | .num l => some l | _ => none) = cs := by
  induction cs with
  | nil => simp
  | cons c r ih => simp [ih]

theorem filterMap_nums' (cs : List String) :
    List.filterMap ((fun c => match c with | CVal.num l => some l | _ => none) ∘ CVal.num) cs = cs := by
  induction cs with
  | nil => simp
  | cons c r ih => simp [ih]

/-- the value `retryU` reads back from `retryM x` -/
theorem retry_readback (x : RetryV) (hd : durU (.str (fmtDur x.timeout)) = some x.timeout) :
    retryU (retryM x) = some ⟨x.on, x.timeout, x.num, x.codes.isEmpty, x.codes⟩ := by
  have f1 : fold "retry_on" ≠ fold "retry_timeout" := by decide
  have f2 : fold "retry_on" ≠ fold "num_retries" := by decide
  have f3 : fold "retry_on" ≠ fold "status_codes" := by decide
  have f4 : fold "retry_timeout" ≠ fold "retry_on" := by decide
  have f5 : fold "retry_timeout" ≠ fold "num_retries" := by decide
  have f6 : fold "retry_timeout" ≠ fold "status_codes" := by decide
  have f7 : fold "num_retries" ≠ fold "retry_on" := by decide
  have f8 : fold "num_retries" ≠ fold "retry_timeout" := by decide
  have f9 : fold "num_retries" ≠ fold "status_codes" := by decide
  have g1 : fold "status_codes" ≠ fold "retry_on" := by decide
  have g2 : fold "status_codes" ≠ fold "retry_timeout" := by decide
  have g3 : fold "status_codes" ≠ fold "num_retries" := by decide
  obtain ⟨on, d, n, nl, cs⟩ := x
  simp only at hd
  cases on <;> by_cases hn : n = "0" <;> cases cs <;>
    simp [retryU, retryM, lookupLast, hn, hd, f1, f2, f3, f4, f5, f6, f7, f8, f9, g1, g2, g3, decode, codesShape,
      decodeL_nums, decodeL] <;> exact filterMap_nums' _

/-- `DurLaw` holds: what `ParseDuration` returns is an int64, and every int64 is read back from its `String()` -/
theorem durLaw : DurLaw := by
  intro j d h
  have hr : -(two63 : Int) ≤ d ∧ d < (two63 : Int) := by
    cases j <;> simp [durU, parseDur] at h <;> exact parseChars_range _ d h
  simp only [durU]
  exact parseDur_fmtDur d hr.1 hr.2

/-- **RetryPolicy**: the fixpoint law, under `DurLaw` (discharged by `durLaw`) -/
theorem retry_fixpoint_partial (hlaw : DurLaw) (w : Json) (x : RetryV) (hU : retryU w = some x) :
    ∃ y, retryU (retryM x) = some y ∧ retryM y = retryM x := by
  -- the timeout of x was produced by durU (or is 0)
  have hd : durU (.str (fmtDur x.timeout)) = some x.timeout := by
    unfold retryU at hU
    split at hU
    · rename_i ms
      split at hU
      · rename_i on d n nl cs h1 h2 h3 h4
        have hx := (Option.some.inj hU).symm
        have : x.timeout = d := by rw [hx]
        rw [this]
        cases hl : lookupLast ms "retry_timeout" with
        | none => simp [hl] at h2; subst h2; exact hlaw (.str "0s") 0 (by decide)
        | some j => simp [hl] at h2; exact hlaw j d h2
      · simp at hU
    · have hx := (Option.some.inj hU).symm
      have : x.timeout = 0 := by rw [hx]
      rw [this]; exact hlaw (.str "0s") 0 (by decide)
    · simp at hU
  refine ⟨_, retry_readback x hd, ?_⟩
  simp [retryM]

/-! ### mirror wrappers (KeepAlive, HealthCheck, …): an embedded generic config whose members are copied into
`json:"-"` fields by `UnmarshalJSON` and copied back by `MarshalJSON` -/

/-- `U w = (decode w, proj)`, `M (c, d) = encode (put d c)` with `put (proj c) c = c`: the pair is at a fixpoint after the
first pass, for every generic shape -/
theorem mirror_fixpoint {δ : Type} (sh : Shape) (hk : keysOK sh = true) (proj : CVal → δ) (put : δ → CVal → CVal)
    (hput : ∀ c, put (proj c) c = c) (w : Json) (c : CVal) (h : decode sh w = some c) :
    ∃ c', decode sh (encode sh (put (proj c) c)) = some c' ∧ encode sh (put (proj c') c') = encode sh (put (proj c) c) := by
  have hw := dw sh hk w c h
  rw [hput]
  exact ⟨norm sh c, rt sh hk c hw, by rw [hput]; exact en sh c hw⟩

/-- **RetryPolicy**: the fixpoint law, unconditionally -/
theorem retry_fixpoint (w : Json) (x : RetryV) (hU : retryU w = some x) :
    ∃ y, retryU (retryM x) = some y ∧ retryM y = retryM x := retry_fixpoint_partial durLaw w x hU

end MosnVerif.Model.ConfigCodec
