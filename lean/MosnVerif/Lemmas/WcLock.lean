import MosnVerif.Model.WcLock
/-!
Serialization of the draws from one shared generator under the lock discipline (property C06, concurrent `ClusterName`).
-/
namespace MosnVerif.Lemmas.WcLock
open MosnVerif.Gen.WcLock MosnVerif.Model.WcLock

theorem setThread_same (th : Nat → Thread) (t : Nat) (v : Thread) : setThread th t v t = v := by
  simp [setThread]

theorem setThread_other (th : Nat → Thread) (t u : Nat) (v : Thread) (h : u ≠ t) : setThread th t v u = th u := by
  simp [setThread, h]

theorem safe_mono : ∀ (l : List Step) (h : Bool), safe h false l = true → safe h true l = true := by
  intro l
  induction l with
  | nil => intro h _; rfl
  | cons a r ih =>
    intro h hs
    cases a <;> simp [safe] at hs ⊢
    · exact ⟨hs.1, ih _ hs.2⟩
    · exact ⟨hs.1, ih _ hs.2⟩
    · exact hs
    · exact ih _ hs

theorem safe_mono' (l : List Step) (h i : Bool) (hs : safe h i l = true) : safe h true l = true := by
  cases i
  · exact safe_mono l h hs
  · exact hs

theorem prefixOf_succ (stream : Nat → Nat) (n : Nat) : prefixOf stream (n + 1) = prefixOf stream n ++ [stream n] := by
  simp [prefixOf, List.range_succ]

/-- the invariant of every reachable configuration of disciplined programs. -/
structure Inv (stream : Nat → Nat) (c : Conf) : Prop where
  pos_eq : c.pos = c.log.length
  uncreated : c.created = false → c.log = []
  safeT : ∀ t, safe (decide (c.holder = some t)) c.created (c.threads t).todo = true
  rdT : ∀ t p, (c.threads t).rd = some p →
    c.holder = some t ∧ c.pos = p ∧ ∃ a r, (c.threads t).todo = a :: r ∧ isDraw a = true
  stream_eq : handed c = prefixOf stream c.log.length

theorem inv_init (stream : Nat → Nat) (progs : Nat → List Step) (b : Bool) (hd : ∀ t, safe false b (progs t) = true) :
    Inv stream (initConf progs b) := by
  refine ⟨rfl, fun _ => rfl, ?_, ?_, rfl⟩
  · intro t
    simpa [initConf] using hd t
  · intro t p h
    simp [initConf] at h

theorem disciplined_safe (p : List Step) (b : Bool) (h : disciplined p = true) : safe false b p = true := by
  cases b
  · exact h
  · exact safe_mono _ _ h

/-- a step of thread `t` that only consumes the head of its own program (holder, generator and log untouched). -/
theorem inv_local {stream : Nat → Nat} {c : Conf} (hi : Inv stream c) (t : Nat) (a : Step) (r : List Step) (ali : Bool)
    (htodo : (c.threads t).todo = a :: r) (hnd : isDraw a = false)
    (hs : safe (decide (c.holder = some t)) c.created r = true) :
    Inv stream { c with threads := setThread c.threads t { (c.threads t) with todo := r, ali := ali } } := by
  refine ⟨hi.pos_eq, hi.uncreated, ?_, ?_, hi.stream_eq⟩
  · intro u
    by_cases hu : u = t
    · subst hu; simpa [setThread_same] using hs
    · simpa [setThread_other _ _ _ _ hu] using hi.safeT u
  · intro u p h
    by_cases hu : u = t
    · subst hu
      simp only [setThread_same] at h
      obtain ⟨_, _, a', r', h1, h2⟩ := hi.rdT u p h
      rw [htodo] at h1
      cases h1
      rw [hnd] at h2; cases h2
    · simp only [setThread_other _ _ _ _ hu] at h ⊢
      exact hi.rdT u p h

/-- one half of a draw by the holder of the mutex. -/
theorem inv_draw {stream : Nat → Nat} {c : Conf} (hi : Inv stream c) (t : Nat) (a : Step) (r : List Step) (valid : Bool)
    (htodo : (c.threads t).todo = a :: r) (hda : isDraw a = true) (hheld : c.holder = some t) (hcr : c.created = true)
    (hs : safe true true r = true) : Inv stream (drawStep stream c t r valid) := by
  have others_rd : ∀ u p, u ≠ t → (c.threads u).rd = some p → False := by
    intro u p hu h
    obtain ⟨h0, _⟩ := hi.rdT u p h
    rw [hheld] at h0; cases h0; exact hu rfl
  unfold drawStep
  cases valid
  · simp only [Bool.false_eq_true, if_false]
    refine ⟨hi.pos_eq, hi.uncreated, ?_, ?_, hi.stream_eq⟩
    · intro u
      by_cases hu : u = t
      · subst hu; simp [setThread_same, safe]
      · simpa [setThread_other _ _ _ _ hu] using hi.safeT u
    · intro u p h
      by_cases hu : u = t
      · subst hu; simp [setThread_same] at h
      · simp only [setThread_other _ _ _ _ hu] at h
        exact (others_rd u p hu h).elim
  · simp only [if_true]
    split
    · refine ⟨hi.pos_eq, hi.uncreated, ?_, ?_, hi.stream_eq⟩
      · intro u
        by_cases hu : u = t
        · subst hu; simpa [setThread_same] using hi.safeT u
        · simpa [setThread_other _ _ _ _ hu] using hi.safeT u
      · intro u p h
        by_cases hu : u = t
        · subst hu
          simp only [setThread_same] at h
          cases h
          exact ⟨hheld, rfl, a, r, by simpa [setThread_same] using htodo, hda⟩
        · simp only [setThread_other _ _ _ _ hu] at h
          exact (others_rd u p hu h).elim
    · rename_i p hp
      have hpp : c.pos = p := (hi.rdT t p hp).2.1
      have hlen : p = c.log.length := by rw [← hpp]; exact hi.pos_eq
      refine ⟨by simp [hlen], by simp [hcr], ?_, ?_, ?_⟩
      · intro u
        by_cases hu : u = t
        · subst hu; simpa [setThread_same, hheld, hcr] using hs
        · simpa [setThread_other _ _ _ _ hu] using hi.safeT u
      · intro u q h
        by_cases hu : u = t
        · subst hu; simp [setThread_same] at h
        · simp only [setThread_other _ _ _ _ hu] at h
          exact (others_rd u q hu h).elim
      · have := hi.stream_eq
        simp only [handed] at this ⊢
        simp only [List.map_append, List.length_append, List.length_singleton, List.map_cons, List.map_nil, this,
          prefixOf_succ, hlen]

theorem inv_step (stream : Nat → Nat) (c : Conf) (t : Nat) (hi : Inv stream c) : Inv stream (stepThread stream c t) := by
  have hst := hi.safeT t
  unfold stepThread
  match htodo : (c.threads t).todo with
  | [] => exact hi
  | a :: r =>
    rw [htodo] at hst
    simp only []
    unfold stepHead
    have ali_eta : ∀ (x : List Step), ({ (c.threads t) with todo := x } : Thread) = { (c.threads t) with todo := x, ali := (c.threads t).ali } := fun _ => rfl
    cases a with
    | other =>
      simp only [safe] at hst
      simp only []
      rw [ali_eta]
      exact inv_local hi t .other r _ htodo rfl hst
    | escape => simp [safe] at hst
    | atomicOp => simp [safe] at hst
    | alias =>
      simp only [safe, Bool.and_eq_true] at hst
      exact inv_local hi t .alias r _ htodo rfl hst.2
    | lock =>
      simp only [safe, Bool.and_eq_true, Bool.not_eq_true', decide_eq_false_iff_not] at hst
      simp only []
      split
      · rename_i hn
        refine ⟨hi.pos_eq, hi.uncreated, ?_, ?_, hi.stream_eq⟩
        · intro u
          by_cases hu : u = t
          · subst hu; simpa [setThread_same] using hst.2
          · have := hi.safeT u
            have hne : ¬ (some t = some u) := by intro h; cases h; exact hu rfl
            simpa [setThread_other _ _ _ _ hu, hn, hne] using this
        · intro u p h
          by_cases hu : u = t
          · subst hu
            simp only [setThread_same] at h
            obtain ⟨h0, _⟩ := hi.rdT u p h
            rw [hn] at h0; cases h0
          · simp only [setThread_other _ _ _ _ hu] at h ⊢
            obtain ⟨h0, _⟩ := hi.rdT u p h
            rw [hn] at h0; cases h0
      · exact hi
    | unlock =>
      simp only [safe, Bool.and_eq_true, decide_eq_true_eq] at hst
      simp only [hst.1, if_true]
      refine ⟨hi.pos_eq, hi.uncreated, ?_, ?_, hi.stream_eq⟩
      · intro u
        by_cases hu : u = t
        · subst hu; simpa [setThread_same] using hst.2
        · have := hi.safeT u
          have hne : ¬ (some t = some u) := by intro h; cases h; exact hu rfl
          simpa [setThread_other _ _ _ _ hu, hst.1, hne] using this
      · intro u p h
        by_cases hu : u = t
        · subst hu
          simp only [setThread_same] at h
          obtain ⟨_, _, a', r', h1, h2⟩ := hi.rdT u p h
          rw [htodo] at h1; cases h1; cases h2
        · simp only [setThread_other _ _ _ _ hu] at h
          obtain ⟨h0, _⟩ := hi.rdT u p h
          rw [hst.1] at h0; cases h0; exact absurd rfl hu
    | initRng =>
      simp only [safe, Bool.and_eq_true, decide_eq_true_eq] at hst
      simp only []
      split
      · rename_i hc
        rw [ali_eta]
        refine inv_local hi t .initRng r _ htodo rfl ?_
        simpa [hst.1, hc] using hst.2
      · rename_i hc
        have hc' : c.created = false := by simpa using hc
        have hlog := hi.uncreated hc'
        refine ⟨by simp [hlog], by simp, ?_, ?_, by simpa [handed, hlog] using hi.stream_eq⟩
        · intro u
          by_cases hu : u = t
          · subst hu; simpa [setThread_same, hst.1] using hst.2
          · have := hi.safeT u
            simp only [setThread_other _ _ _ _ hu]
            exact safe_mono' _ _ _ this
        · intro u p h
          by_cases hu : u = t
          · subst hu
            simp only [setThread_same] at h
            obtain ⟨_, _, a', r', h1, h2⟩ := hi.rdT u p h
            rw [htodo] at h1; cases h1; cases h2
          · simp only [setThread_other _ _ _ _ hu] at h ⊢
            obtain ⟨h0, _⟩ := hi.rdT u p h
            rw [hst.1] at h0; cases h0; exact absurd rfl hu
    | draw =>
      simp only [safe, Bool.and_eq_true, decide_eq_true_eq] at hst
      exact inv_draw hi t .draw r _ htodo rfl hst.1.1 hst.1.2 (by simpa [hst.1.1, hst.1.2] using hst.2)
    | drawAlias =>
      simp only [safe, Bool.and_eq_true, decide_eq_true_eq] at hst
      exact inv_draw hi t .drawAlias r _ htodo rfl hst.1.1 hst.1.2 (by simpa [hst.1.1, hst.1.2] using hst.2)

theorem inv_run (stream : Nat → Nat) (sched : List Nat) : ∀ (c : Conf), Inv stream c → Inv stream (runSched stream c sched) := by
  induction sched with
  | nil => intro c h; exact h
  | cons t r ih => intro c h; exact ih _ (inv_step stream c t h)
