import MosnVerif.Model.PoolH2
import MosnVerif.Lemmas.PoolSpec
/-!
Invariant of the HTTP/2 pool model (`Model/PoolH2.lean`), inductive over every operation.
-/
namespace MosnVerif.Model.PoolH2
open MosnVerif.Gen.PoolH2 MosnVerif.Gen.Pool
open MosnVerif.Model.Pool (Stream Dial countLive)

/-! ### counting streams -/

theorem countLive_congr (f g : Nat → Stream) (n : Nat) (h : ∀ k, k < n → g k = f k) : countLive g n = countLive f n := by
  induction n with
  | zero => rfl
  | succ n ih =>
    simp only [countLive]
    rw [ih (fun k hk => h k (by omega)), h n (by omega)]

/-- stream `i` stops being live, everything else is unchanged -/
theorem countLive_kill_one (f g : Nat → Stream) (i n : Nat) (hi : i < n) (hl : (f i).live = true) (hg : (g i).live = false)
    (hoth : ∀ k, k ≠ i → g k = f k) : countLive g n + 1 = countLive f n := by
  induction n with
  | zero => omega
  | succ n ih =>
    simp only [countLive]
    by_cases hin : i = n
    · subst hin
      rw [countLive_congr f g i (fun k hk => hoth k (by omega)), hl, hg]; simp
    · rw [hoth n (fun h => hin h.symm)]
      have := ih (by omega); omega

/-- `killOn`: every live stream on `c` dies -/
def killed (f : Nat → Stream) (c : Nat) (reason : String) : Nat → Stream := fun i =>
  let st := f i
  if st.live && st.conn == c then { st with state := destroyedState, resets := st.resets ++ [reason], destroys := st.destroys + 1 } else st

theorem killed_live (f : Nat → Stream) (c : Nat) (r : String) (i : Nat) :
    (killed f c r i).live = ((f i).live && !((f i).conn == c)) := by
  show (if ((f i).live && (f i).conn == c) = true then _ else f i).live = _
  by_cases h : ((f i).live && (f i).conn == c) = true
  · rw [if_pos h]
    simp only [Bool.and_eq_true] at h
    rw [h.1, h.2]
    simp [Stream.live, destroyedState, streamStateReset]
  · rw [if_neg h]
    cases h1 : (f i).live <;> cases h2 : ((f i).conn == c) <;> simp_all

theorem killed_conn (f : Nat → Stream) (c : Nat) (r : String) (i : Nat) : (killed f c r i).conn = (f i).conn := by
  show (if ((f i).live && (f i).conn == c) = true then _ else f i).conn = _
  split <;> rfl

theorem countLive_killed (f : Nat → Stream) (c : Nat) (r : String) (n : Nat) :
    countLive (killed f c r) n + countOn f c n = countLive f n := by
  induction n with
  | zero => rfl
  | succ n ih =>
    simp only [countLive, countOn, killed_live]
    cases h1 : (f n).live <;> cases h2 : ((f n).conn == c) <;> simp <;> omega

theorem iter_decrease (m : Nat) (k : Nat) (x : Int) :
    iter (resDecrease m) k x = if m = 0 then x else x - k := by
  induction k generalizing x with
  | zero => simp [iter]
  | succ k ih =>
    simp only [iter, ih, resDecrease]
    by_cases hm : m = 0
    · simp [hm]
    · have : ¬ ((m : Int) = 0) := by omega
      simp [hm, this]; omega

theorem fresh_live : ({ conn := c } : Stream).live = true := by
  simp [Stream.live]

theorem countLive_lease (f : Nat → Stream) (n c : Nat) :
    countLive (fun k => if k = n then ({ conn := c } : Stream) else f k) (n + 1) = countLive f n + 1 := by
  simp only [countLive, if_pos rfl, fresh_live, if_true]
  rw [countLive_congr f _ n (fun k hk => by simp [Nat.ne_of_lt hk])]

/-! ### the regenerated movements, as they are in the code that exists -/

theorem destroyMoves_eq : destroyMoves = { reqInc := 0, reqDec := 1, host := -1, cluster := -1, listens := false } := rfl

theorem movesN_destroy (n : Nat) (s : State) :
    movesN destroyMoves n s =
      { s with reqCur := iter (resDecrease s.maxReq) n s.reqCur, actHost := s.actHost - n, actCluster := s.actCluster - n } := by
  rw [destroyMoves_eq]
  simp only [movesN, iter]
  have e : ((n : Int) * -1) = -(n : Int) := by omega
  rw [e]; rfl

theorem movesN_lease (s : State) :
    movesN (h2LeaseMoves false) 1 s =
      { s with reqCur := resIncrease s.maxReq s.reqCur, actHost := s.actHost + 1, actCluster := s.actCluster + 1 } := by
  simp [movesN, iter, h2LeaseMoves]

/-- giving the pool's client up (in `NewStream` and on a close event): both gauges −1, no client -/
theorem applyConn_replace (s : State) :
    applyConn h2ReplaceMoves s = { s with connHost := s.connHost - 1, connCluster := s.connCluster - 1, active := none } := by
  simp only [applyConn, h2ReplaceMoves]
  rfl

theorem applyConn_drop (s : State) :
    applyConn h2DropMoves s = { s with connHost := s.connHost - 1, connCluster := s.connCluster - 1, active := none } := by
  simp only [applyConn, h2DropMoves]
  rfl

theorem applyConn_dial (s : State) :
    applyConn h2DialMoves s = { s with connHost := s.connHost + 1, connCluster := s.connCluster + 1 } := by
  simp only [applyConn, h2DialMoves]
  rfl

theorem applyConn_close (s : State) : applyConn h2CloseMoves s = s := by
  simp only [applyConn, h2CloseMoves]
  simp

/-- the replace test of `NewStream`: the pool holds a client and that client has been told to go away -/
theorem replaceCond_iff (present : Bool) (g : Nat) (hg : g = 0 ∨ g = h2GoAwayMark) :
    h2ReplaceCond present g = true ↔ (present = true ∧ g ≠ 0) := by
  rcases hg with h | h <;> subst h <;> cases present <;> simp [h2ReplaceCond, h2GoAwayMark]

/-- a close event drops the pool's client exactly when the pool's client is the one that closed -/
theorem closeDrops_iff (cg : Nat) (isCur curPresent : Bool) (curG : Nat) :
    h2CloseDrops cg isCur curPresent curG = isCur := by
  simp [h2CloseDrops]

/-! ### the invariant -/

def gaugeOf (s : State) : Int := if s.active.isSome then 1 else 0

structure Inv (s : State) : Prop where
  req : s.reqCur = if s.maxReq = 0 then 0 else (s.ext : Int) + (s.liveCount : Int)
  act : s.actHost = (s.liveCount : Int) ∧ s.actCluster = (s.liveCount : Int)
  /-- both connection_active gauges count the pool's client -/
  gauge : s.connHost = gaugeOf s ∧ s.connCluster = gaugeOf s
  /-- the pool's client is an open connection -/
  activeOk : ∀ c, s.active = some c → c < s.nConns ∧ (s.conn c).netOpen = true
  /-- an open connection that has not been told to go away is the pool's client -/
  openOk : ∀ c, c < s.nConns → (s.conn c).netOpen = true → (s.conn c).goaway = 0 → s.active = some c
  gw : ∀ c, (s.conn c).goaway = 0 ∨ (s.conn c).goaway = h2GoAwayMark
  liveOk : ∀ i, i < s.nStreams → (s.stream i).live = true → (s.stream i).conn < s.nConns ∧ (s.conn (s.stream i).conn).netOpen = true
  once : ∀ i, i < s.nStreams →
    ((s.stream i).live = true → (s.stream i).destroys = 0 ∧ (s.stream i).recv = 0 ∧ (s.stream i).resets = []) ∧
    ((s.stream i).live = false → (s.stream i).destroys = 1 ∧ (s.stream i).recv ≤ 1 ∧ (s.stream i).resets.length ≤ 1 ∧
      ((s.stream i).recv = 1 → (s.stream i).resets = []))

theorem inv_init (maxReq : Nat) : Inv (init maxReq) := by
  refine ⟨?_, ?_, ?_, ?_, ?_, ?_, ?_, ?_⟩
  · simp [init, State.liveCount, countLive]
  · simp [init, State.liveCount, countLive]
  · simp [init, gaugeOf]
  · intro c h; simp [init] at h
  · intro c hc; simp [init] at hc
  · intro c; left; rfl
  · intro i hi; simp [init] at hi
  · intro i hi; simp [init] at hi

theorem curGoaway_gw (s : State) (h : Inv s) : s.curGoaway = 0 ∨ s.curGoaway = h2GoAwayMark := by
  unfold State.curGoaway
  split
  · exact h.gw _
  · left; rfl

/-! ### NewStream -/

/-- the state after the pool gave its client up -/
def dropped (s : State) : State := { s with connHost := s.connHost - 1, connCluster := s.connCluster - 1, active := none }

theorem inv_dropped (s : State) (h : Inv s) (c : Nat) (ha : s.active = some c)
    (hg : (s.conn c).goaway ≠ 0 ∨ (s.conn c).netOpen = false) : Inv (dropped s) := by
  refine ⟨h.req, h.act, ?_, ?_, ?_, h.gw, h.liveOk, h.once⟩
  · have := h.gauge
    simp only [gaugeOf, ha, Option.isSome_some, if_true] at this
    simp only [dropped, gaugeOf, Option.isSome_none]
    constructor <;> simp <;> omega
  · intro c' hc'; simp [dropped] at hc'
  · intro c' hc' ho hgo
    have hc2 : c' < s.nConns := hc'
    have ho2 : (s.conn c').netOpen = true := ho
    have hgo2 : (s.conn c').goaway = 0 := hgo
    have := h.openOk c' hc2 ho2 hgo2
    rw [ha] at this
    cases this
    rcases hg with hg | hg
    · exact absurd hgo2 hg
    · rw [hg] at ho2; cases ho2

/-- the state after a successful dial by a pool that holds no client -/
def dialled (s : State) : State :=
  { s with active := some s.nConns, nConns := s.nConns + 1, conn := fun k => if k = s.nConns then {} else s.conn k,
           connHost := s.connHost + 1, connCluster := s.connCluster + 1 }

theorem inv_dialled (s : State) (h : Inv s) (ha : s.active = none) : Inv (dialled s) := by
  refine ⟨h.req, h.act, ?_, ?_, ?_, ?_, ?_, h.once⟩
  · have := h.gauge
    simp only [gaugeOf, ha, Option.isSome_none, Bool.false_eq_true, if_false] at this
    simp only [dialled, gaugeOf, Option.isSome_some, if_true]
    constructor <;> omega
  · intro c hc
    simp only [dialled] at hc ⊢
    cases hc
    exact ⟨Nat.lt_succ_self _, by simp⟩
  · intro c hc ho hg
    simp only [dialled] at hc ho hg ⊢
    by_cases e : c = s.nConns
    · rw [e]
    · simp only [if_neg e] at ho hg
      have := h.openOk c (by omega) ho hg
      rw [ha] at this; cases this
  · intro c
    simp only [dialled]
    split
    · left; rfl
    · exact h.gw c
  · intro i hi hl
    have ⟨h1, h2⟩ := h.liveOk i hi hl
    simp only [dialled]
    exact ⟨Nat.lt_succ_of_lt h1, by rw [if_neg (Nat.ne_of_lt h1)]; exact h2⟩

theorem giveUp_eq (s : State) (h : Inv s) :
    giveUp s = if s.active.isSome = true ∧ s.curGoaway ≠ 0 then dropped s else s := by
  unfold giveUp
  have hrc := replaceCond_iff s.active.isSome s.curGoaway (curGoaway_gw s h)
  by_cases hc : h2ReplaceCond s.active.isSome s.curGoaway = true
  · rw [if_pos hc, if_pos (hrc.mp hc), applyConn_replace]; rfl
  · rw [if_neg hc, if_neg (fun hh => hc (hrc.mpr hh))]

theorem inv_giveUp (s : State) (h : Inv s) : Inv (giveUp s) := by
  rw [giveUp_eq s h]
  split
  · rename_i hc
    obtain ⟨c, ha⟩ := Option.isSome_iff_exists.mp hc.1
    have hg : (s.conn c).goaway ≠ 0 := by
      have := hc.2; simp only [State.curGoaway, ha] at this; exact this
    exact inv_dropped s h c ha (Or.inl hg)
  · exact h

theorem dialIfNone_eq (s : State) (dial : Dial) :
    dialIfNone s dial = if s.active = none ∧ dial.fails = false then dialled s else s := by
  unfold dialIfNone
  cases ha : s.active with
  | some c => simp
  | none =>
    cases hf : dial.fails
    · simp only [applyConn_dial, Bool.false_eq_true, if_false, and_self, if_true]; rfl
    · simp

theorem inv_dialIfNone (s : State) (h : Inv s) (dial : Dial) : Inv (dialIfNone s dial) := by
  rw [dialIfNone_eq]
  split
  · rename_i hc; exact inv_dialled s h hc.1
  · exact h

theorem inv_pick (s : State) (h : Inv s) (dial : Dial) : Inv (pick s dial) :=
  inv_dialIfNone _ (inv_giveUp s h) dial

theorem inv_lease (s : State) (h : Inv s) (c : Nat) (hc : c < s.nConns) (ho : (s.conn c).netOpen = true) :
    Inv (lease s c) := by
  rw [lease, movesN_lease]
  refine ⟨?_, ?_, h.gauge, h.activeOk, h.openOk, h.gw, ?_, ?_⟩
  · have := h.req
    simp only [State.liveCount, countLive_lease, resIncrease] at this ⊢
    rw [this]
    by_cases hm : s.maxReq = 0
    · simp [hm]
    · have : ¬ ((s.maxReq : Int) = 0) := by omega
      simp [hm, this]; omega
  · have := h.act
    simp only [State.liveCount, countLive_lease] at this ⊢
    omega
  · intro i hi hl
    simp only at hi hl ⊢
    by_cases hin : i = s.nStreams
    · subst hin; simp only [if_pos rfl]; exact ⟨hc, ho⟩
    · simp only [if_neg hin] at hl ⊢
      exact h.liveOk i (by omega) hl
  · intro i hi
    simp only at hi ⊢
    by_cases hin : i = s.nStreams
    · subst hin; simp only [if_pos rfl, fresh_live]
      exact ⟨fun _ => ⟨rfl, rfl, rfl⟩, fun h => by cases h⟩
    · simp only [if_neg hin]; exact h.once i (by omega)

theorem inv_newStream (s : State) (h : Inv s) (dial : Dial) : Inv (newStream s dial).1 := by
  unfold newStream
  have hp := inv_pick s h dial
  simp only
  split
  · exact hp
  · rename_i c hc
    split
    · exact hp
    · have ⟨h1, h2⟩ := hp.activeOk c hc
      exact inv_lease _ hp c h1 h2

/-! ### a stream ends -/

theorem inv_endStream (s : State) (h : Inv s) (i : Nat) (hi : i < s.nStreams) (hl : (s.stream i).live = true)
    (reset : Option String) : Inv (endStream s i reset) := by
  have hstate : destroyProceeds (s.stream i).state = true := by
    simp only [Stream.live, beq_iff_eq] at hl
    simp [destroyProceeds, hl]
  unfold endStream
  simp only [hstate, if_true]
  let dead := ended (s.stream i) reset
  have hdl : dead.live = false := by simp [dead, ended, Stream.live, destroyedState, streamStateReset]
  let g : Nat → Stream := fun k => if k = i then dead else s.stream k
  have hgi : (g i).live = false := by simp [g, hdl]
  have hoth : ∀ k, k ≠ i → g k = s.stream k := by intro k hk; simp [g, hk]
  have hlive := countLive_kill_one s.stream g i s.nStreams hi hl hgi hoth
  have hfresh := (h.once i hi).1 hl
  show Inv (movesN destroyMoves 1 { s with stream := g })
  rw [movesN_destroy]
  refine ⟨?_, ?_, h.gauge, h.activeOk, h.openOk, h.gw, ?_, ?_⟩
  · have := h.req
    simp only [State.liveCount, iter, resDecrease] at this ⊢
    rw [this]
    by_cases hm : s.maxReq = 0
    · simp [hm]
    · have : ¬ ((s.maxReq : Int) = 0) := by omega
      simp [hm, this]; omega
  · have := h.act
    simp only [State.liveCount] at this ⊢
    omega
  · intro k hk hlk
    simp only at hk hlk ⊢
    by_cases hki : k = i
    · subst hki; rw [hgi] at hlk; cases hlk
    · rw [hoth k hki] at hlk ⊢; exact h.liveOk k hk hlk
  · intro k hk
    simp only at hk ⊢
    by_cases hki : k = i
    · subst hki
      refine ⟨fun hh => (by rw [hgi] at hh; cases hh), fun _ => ?_⟩
      have : g k = dead := by simp [g]
      rw [this]
      obtain ⟨f1, f2, f3⟩ := hfresh
      cases reset <;> simp [dead, ended, f1, f2, f3]
    · rw [hoth k hki]; exact h.once k hk

/-! ### a connection closes -/

theorem poolOnClose_eq (t : State) (c : Nat) :
    poolOnClose t c = if t.active = some c then dropped t else t := by
  unfold poolOnClose
  simp only [applyConn_close, closeDrops_iff, decide_eq_true_eq, applyConn_drop]
  rfl

/-- the state after connection `c` (open, known) has closed; `drop`: the pool's client was the one that closed -/
def closedSt (s : State) (c : Nat) (r : String) (drop : Bool) : State :=
  { s with
    conn := fun k => if k = c then { s.conn c with netOpen := false } else s.conn k,
    active := if drop then none else s.active,
    connHost := if drop then s.connHost - 1 else s.connHost,
    connCluster := if drop then s.connCluster - 1 else s.connCluster,
    stream := killed s.stream c r,
    reqCur := iter (resDecrease s.maxReq) (s.activeOn c) s.reqCur,
    actHost := s.actHost - (s.activeOn c : Nat), actCluster := s.actCluster - (s.activeOn c : Nat) }

theorem netClose_eq (s : State) (c : Nat) (r : String) (h1 : c < s.nConns) (h2 : (s.conn c).netOpen = true) :
    netClose s c r = closedSt s c r (decide (s.active = some c)) := by
  simp only [netClose, h1, h2, and_self, if_true, poolOnClose_eq, killOn, movesN_destroy]
  by_cases ha : s.active = some c
  · simp only [State.updC, ha, if_true, dropped, State.activeOn, closedSt, decide_true]; rfl
  · simp only [State.updC, ha, if_false, State.activeOn, closedSt, decide_false]; rfl

theorem inv_closedSt (s : State) (h : Inv s) (c : Nat) (r : String) (hcn : c < s.nConns) (hopen : (s.conn c).netOpen = true)
    (drop : Bool) (hd : drop = true ↔ s.active = some c) : Inv (closedSt s c r drop) := by
  refine ⟨?_, ?_, ?_, ?_, ?_, ?_, ?_, ?_⟩
  · -- req
    have hk := countLive_killed s.stream c r s.nStreams
    have hreq := h.req
    simp only [closedSt, State.liveCount, State.activeOn, iter_decrease] at hreq ⊢
    rw [hreq]; split <;> omega
  · -- act
    have hk := countLive_killed s.stream c r s.nStreams
    have ha := h.act
    simp only [closedSt, State.liveCount, State.activeOn] at ha ⊢
    omega
  · -- gauge
    have hg := h.gauge
    cases drop with
    | true =>
      have ha := hd.mp rfl
      simp only [gaugeOf, ha, Option.isSome_some, if_true] at hg
      simp only [closedSt, gaugeOf, if_true, Option.isSome_none]
      constructor <;> simp <;> omega
    | false => simpa [closedSt, gaugeOf] using hg
  · -- activeOk
    intro a ha
    cases drop with
    | true => simp [closedSt] at ha
    | false =>
      simp only [closedSt, Bool.false_eq_true, if_false] at ha ⊢
      have hne : a ≠ c := by
        intro e; subst e
        have := hd.mpr ha; cases this
      have ⟨h1, h2⟩ := h.activeOk a ha
      exact ⟨h1, by simp only [if_neg hne]; exact h2⟩
  · -- openOk
    intro c' hc' ho hg
    simp only [closedSt] at hc' ho hg ⊢
    have hne : c' ≠ c := by
      intro e; subst e; simp at ho
    simp only [if_neg hne] at ho hg
    have hold := h.openOk c' hc' ho hg
    cases drop with
    | true =>
      have ha := hd.mp rfl
      rw [ha] at hold; cases hold; exact absurd rfl hne
    | false => simpa using hold
  · -- gw
    intro c'
    have := h.gw c'
    simp only [closedSt]
    by_cases hcc : c' = c
    · subst hcc; simpa using this
    · simpa [hcc] using this
  · -- liveOk
    intro i hi hl
    simp only [closedSt] at hi hl ⊢
    rw [killed_live] at hl
    simp only [Bool.and_eq_true, Bool.not_eq_true', beq_eq_false_iff_ne, ne_eq] at hl
    have ⟨h1, h2⟩ := h.liveOk i hi hl.1
    rw [killed_conn]
    exact ⟨h1, by simp [hl.2, h2]⟩
  · -- once
    intro i hi
    simp only [closedSt] at hi ⊢
    have ho := h.once i hi
    by_cases hk : ((s.stream i).live && (s.stream i).conn == c) = true
    · have hl : (s.stream i).live = true := by simp only [Bool.and_eq_true] at hk; exact hk.1
      have ⟨d1, d2, d3⟩ := ho.1 hl
      have hkl : (killed s.stream c r i).live = false := by rw [killed_live]; simp only [Bool.and_eq_true] at hk; simp [hk.2]
      refine ⟨fun h => (by rw [hkl] at h; cases h), fun _ => ?_⟩
      simp only [killed, hk, if_true]
      simp [d1, d2, d3]
    · have : killed s.stream c r i = s.stream i := by simp [killed, hk]
      rw [this]; exact ho

theorem inv_netClose (s : State) (h : Inv s) (c : Nat) (r : String) : Inv (netClose s c r) := by
  by_cases hh : c < s.nConns ∧ (s.conn c).netOpen = true
  · rw [netClose_eq s c r hh.1 hh.2]
    exact inv_closedSt s h c r hh.1 hh.2 _ (by simp)
  · have : netClose s c r = s := by simp [netClose, hh]
    rw [this]; exact h

/-! ### go-away -/

theorem inv_goAway (s : State) (h : Inv s) (c : Nat) :
    Inv (s.updC c (fun cl => { cl with goaway := h2GoAwayMark })) := by
  have hcl : ∀ k, (s.updC c (fun cl => { cl with goaway := h2GoAwayMark })).conn k =
      if k = c then { s.conn c with goaway := h2GoAwayMark } else s.conn k := fun k => rfl
  refine ⟨h.req, h.act, h.gauge, ?_, ?_, ?_, ?_, h.once⟩
  · intro a ha
    have ⟨h1, h2⟩ := h.activeOk a ha
    refine ⟨h1, ?_⟩
    rw [hcl]; split
    · rename_i e; subst e; exact h2
    · exact h2
  · intro c' hc' ho hg
    rw [hcl] at ho hg
    by_cases e : c' = c
    · subst e; simp [h2GoAwayMark] at hg
    · simp only [if_neg e] at ho hg; exact h.openOk c' hc' ho hg
  · intro c'
    rw [hcl]; split
    · right; rfl
    · exact h.gw c'
  · intro i hi hl
    have ⟨h1, h2⟩ := h.liveOk i hi hl
    refine ⟨h1, ?_⟩
    show ((s.updC c _).conn (s.stream i).conn).netOpen = true
    rw [hcl]; split
    · rename_i e; rw [e] at h2; exact h2
    · exact h2

/-! ### every operation -/

theorem inv_step (s : State) (h : Inv s) (op : Op) : Inv (step s op).1 := by
  cases op with
  | newStream dial => exact inv_newStream s h dial
  | response i =>
    simp only [step]; split
    · rename_i hh; exact inv_endStream s h i hh.1 hh.2 none
    · exact h
  | localReset i =>
    simp only [step]; split
    · rename_i hh; exact inv_endStream s h i hh.1 hh.2 _
    · exact h
  | remoteReset i =>
    simp only [step]; split
    · rename_i hh; exact inv_endStream s h i hh.1 hh.2 _
    · exact h
  | goAway c =>
    simp only [step]; split
    · exact inv_goAway s h c
    · exact h
  | connClose c remote => exact inv_netClose s h c _
  | shutdown => exact h
  | closeAll =>
    simp only [step]; split
    · exact inv_netClose s h _ _
    · exact h
  | extInc =>
    refine ⟨?_, h.act, h.gauge, h.activeOk, h.openOk, h.gw, h.liveOk, h.once⟩
    have := h.req
    simp only [step, resIncrease, State.liveCount] at this ⊢
    rw [this]
    by_cases hm : s.maxReq = 0
    · simp [hm]
    · have : ¬ ((s.maxReq : Int) = 0) := by omega
      simp [hm, this]; omega
  | extDec =>
    simp only [step]; split
    · refine ⟨?_, h.act, h.gauge, h.activeOk, h.openOk, h.gw, h.liveOk, h.once⟩
      have := h.req
      simp only [resDecrease, State.liveCount] at this ⊢
      rw [this]
      by_cases hm : s.maxReq = 0
      · simp [hm]
      · have : ¬ ((s.maxReq : Int) = 0) := by omega
        simp [hm, this]; omega
    · exact h

theorem inv_run (s : State) (h : Inv s) (ops : List Op) : Inv (run s ops) := by
  induction ops generalizing s with
  | nil => exact h
  | cons op r ih => exact ih _ (inv_step s h op)

end MosnVerif.Model.PoolH2
