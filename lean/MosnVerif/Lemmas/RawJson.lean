import MosnVerif.Model.RawJson
import MosnVerif.Lemmas.Redact
/-!
Lemmas for the raw level of the hole redaction: cleanliness of a document in terms of the strings a consumer
reads as private keys, the case analysis of `redactedRaw` for a program without raw-byte guards, and the decoding of
every legal spelling of a key.
-/
namespace MosnVerif.Model.RawJson
open MosnVerif.Model MosnVerif.Model.Redact

/-! ### `cleanJ` = every private-key string is empty or the placeholder -/

mutual
theorem cleanJ_pk (key : Bool) : (j : Json) → cleanJ key j = (pkStrings key j).all keyOk
  | .null => by simp [cleanJ, pkStrings]
  | .bool _ => by simp [cleanJ, pkStrings]
  | .num _ => by simp [cleanJ, pkStrings]
  | .str s => by cases key <;> simp [cleanJ, pkStrings]
  | .arr xs => by simp [cleanJ, pkStrings, cleanJL_pk xs]
  | .obj kvs => by simp [cleanJ, pkStrings, cleanJO_pk kvs]
theorem cleanJL_pk : (xs : List Json) → cleanJL xs = (pkStringsL xs).all keyOk
  | [] => by simp [cleanJL, pkStringsL]
  | x :: r => by simp [cleanJL, pkStringsL, cleanJ_pk false x, cleanJL_pk r, List.all_append]
theorem cleanJO_pk : (kvs : List (String × Json)) → cleanJO kvs = (pkStringsO kvs).all keyOk
  | [] => by simp [cleanJO, pkStringsO]
  | (k, v) :: r => by simp [cleanJO, pkStringsO, cleanJ_pk (isPK k) v, cleanJO_pk r, List.all_append]
end

/-- a document whose private-key strings all occur in a clean document is clean -/
theorem clean_of_sub (j j' : Json) (hc : cleanJ false j = true)
    (hs : ∀ s ∈ pkStrings false j', s ∈ pkStrings false j) : cleanJ false j' = true := by
  rw [cleanJ_pk] at hc ⊢
  rw [List.all_eq_true] at hc ⊢
  intro s hm
  exact hc s (hs s hm)

/-! ### whole documents and first values -/

theorem parseFirst_of_parseDoc (t : Text) (j : Json) (h : parseDoc t = some j) : parseFirst t = some j := by
  unfold parseDoc at h
  unfold parseFirst
  cases hp : parsePrefix t with
  | none => simp [hp] at h
  | some jr =>
    obtain ⟨j0, r⟩ := jr
    simp only [hp] at h
    by_cases he : (skipWs r).isEmpty = true
    · simp only [he, if_true, Option.some.injEq] at h
      simp [h]
    · simp [he] at h

theorem parseDoc_nil : parseDoc [] = none := by decide

/-! ### `redactedRaw` behind the single guard `len(raw) == 0` -/

/-- the shape of a program accepted by `rawChecks` -/
def Prog.bare (p : Prog) : Bool := p.piped && p.guards == [.len0]

theorem redactedRaw_bare (p : Prog) (hp : p.bare = true) (unk : String → Text → Bool) (enc : Json → Option Text)
    (raw : Text) : redactedRaw p unk enc raw = walkOut enc raw (parseFirst raw) := by
  simp only [Prog.bare, Bool.and_eq_true, beq_iff_eq] at hp
  unfold redactedRaw
  rw [hp.2]
  cases raw with
  | nil =>
    have : parseFirst ([] : Text) = none := by decide
    simp [Guard.fires, this, walkOut]
  | cons c r => simp [Guard.fires]

/-! ### every legal spelling of a key decodes to the key -/

theorem hexVal_hexDig : ∀ (n : Fin 16) (u : Bool), hexVal (hexDig n.val u) = some n.val := by decide

theorem hexVal_hexDig' (n : Nat) (h : n < 16) (u : Bool) : hexVal (hexDig n u) = some n :=
  hexVal_hexDig ⟨n, h⟩ u

theorem hex4_digits (n : Nat) (h : n < 0x10000) (u0 u1 u2 u3 : Bool) :
    hex4 (hexDig (n / 4096 % 16) u0) (hexDig (n / 256 % 16) u1) (hexDig (n / 16 % 16) u2) (hexDig (n % 16) u3) = some n := by
  unfold hex4
  rw [hexVal_hexDig' _ (Nat.mod_lt _ (by decide)), hexVal_hexDig' _ (Nat.mod_lt _ (by decide)),
    hexVal_hexDig' _ (Nat.mod_lt _ (by decide)), hexVal_hexDig' _ (Nat.mod_lt _ (by decide))]
  simp only [Option.some.injEq]
  omega

theorem shortEsc_ne_u : shortEsc 'u' = none := by decide

/-- one spelled character is consumed and its character appended -/
theorem decStrP_sp (sp : Sp) (h : sp.ok = true) (rest : Text) (acc : List Char) :
    decStrP (sp.text ++ rest) none acc = decStrP rest none (sp.char :: acc) := by
  cases sp with
  | plain c =>
    simp only [Sp.ok, Bool.and_eq_true, bne_iff_ne, ne_eq, Bool.not_eq_true', decide_eq_false_iff_not] at h
    obtain ⟨⟨h1, h2⟩, h3⟩ := h
    simp only [Sp.text, Sp.char, List.cons_append, List.nil_append]
    rw [decStrP.eq_def]
    simp [h1, h2, h3, flush]
  | uni c u0 u1 u2 u3 =>
    simp only [Sp.ok, Bool.and_eq_true, decide_eq_true_eq, Bool.not_eq_true'] at h
    obtain ⟨⟨h1, h2⟩, h3⟩ := h
    simp only [Sp.text, Sp.char, List.cons_append, List.nil_append]
    rw [decStrP.eq_def]
    have e1 : ('\\' == '"') = false := by decide
    have e2 : ('\\' == '\\') = true := by decide
    have e3 : ('u' == 'u') = true := by decide
    simp only [e1, e2, e3, if_true, Bool.false_eq_true, if_false]
    rw [hex4_digits c.toNat h1]
    simp only [h2, Bool.false_eq_true, if_false, uChar, h3, Bool.or_self]
    simp [Char.ofNat_toNat]
  | short e =>
    simp only [Sp.ok] at h
    simp only [Sp.text, Sp.char, List.cons_append, List.nil_append]
    rw [decStrP.eq_def]
    have e1 : ('\\' == '"') = false := by decide
    have e2 : ('\\' == '\\') = true := by decide
    have hne : (e == 'u') = false := by
      cases hu : (e == 'u') with
      | false => rfl
      | true =>
        have : e = 'u' := by simpa using hu
        rw [this, shortEsc_ne_u] at h
        simp at h
    simp only [e1, e2, hne, if_true, Bool.false_eq_true, if_false]
    cases hs : shortEsc e with
    | none => simp [hs] at h
    | some x => simp [flush]

theorem decStrP_spell (sps : List Sp) (h : sps.all Sp.ok = true) (rest : Text) (acc : List Char) :
    decStrP (spell sps ++ '"' :: rest) none acc = some (acc.reverse ++ sps.map Sp.char, rest) := by
  induction sps generalizing acc with
  | nil =>
    simp only [spell, List.flatMap_nil, List.nil_append, List.map_nil, List.append_nil]
    rw [decStrP.eq_def]
    simp [flush]
  | cons sp r ih =>
    simp only [List.all_cons, Bool.and_eq_true] at h
    have : spell (sp :: r) ++ '"' :: rest = sp.text ++ (spell r ++ '"' :: rest) := by
      simp [spell, List.flatMap_cons, List.append_assoc]
    rw [this, decStrP_sp sp h.1, ih h.2]
    simp

end MosnVerif.Model.RawJson

namespace MosnVerif.Model.RawJson
open MosnVerif.Model MosnVerif.Model.Redact

theorem decStr_spell (sps : List Sp) (h : sps.all Sp.ok = true) (rest : Text) :
    decStr (spell sps ++ '"' :: rest) [] = some (sps.map Sp.char, rest) := by
  unfold decStr
  rw [decStrP_spell sps h rest []]
  simp

/-! ### the encoder (`json.Marshal` of a decoded tree) as an oracle with a contract -/

/-- what the theorems assume of `json.Marshal` on trees produced by `Decoder.Decode` (UseNumber): it does not
fail, and reading its output back shows no private-key string that the encoded tree does not hold (members may be
reordered, duplicates are gone, characters may be spelled differently). -/
def EncOK (enc : Json → Option Text) : Prop :=
  (∀ j, (enc j).isSome = true) ∧
  (∀ j t j', enc j = some t → parseDoc t = some j' → ∀ s ∈ pkStrings false j', s ∈ pkStrings false j)

/-- the output of `walkOut`, whenever it is a JSON document at all, is clean -/
theorem walkOut_clean (enc : Json → Option Text) (henc : EncOK enc) (raw : Text) (j' : Json)
    (h : parseDoc (walkOut enc raw (parseFirst raw)) = some j') : cleanJ false j' = true := by
  cases hf : parseFirst raw with
  | none =>
    simp only [hf, walkOut] at h
    rw [parseFirst_of_parseDoc raw j' h] at hf
    simp at hf
  | some j =>
    simp only [hf, walkOut] at h
    by_cases hc : cleanJ false j = true
    · simp only [hc, if_true] at h
      have := parseFirst_of_parseDoc raw j' h
      rw [hf] at this
      simp only [Option.some.injEq] at this
      rw [← this]; exact hc
    · simp only [hc, Bool.false_eq_true, if_false] at h
      cases he : enc (redJ false j) with
      | none =>
        have := henc.1 (redJ false j)
        simp [he] at this
      | some t =>
        simp only [he, Option.getD_some] at h
        exact clean_of_sub (redJ false j) j' (redJ_clean false j) (henc.2 _ t j' he h)

/-! ### the one-member document `{"<key>":"<value>"}` in every spelling -/

def keyDoc (ks vs : List Sp) : Text := '{' :: '"' :: (spell ks ++ '"' :: ':' :: '"' :: (spell vs ++ ['"', '}']))

theorem pVal_string (f : Nat) (t : Text) :
    pVal (f + 1) ('"' :: t) = (decStr t []).map (fun (s, r') => (Json.str (String.ofList s), r')) := by
  rw [pVal]
  have w : isWs '"' = false := by decide
  simp [skipWs, w]

theorem pVal_object (f : Nat) (t : Text) :
    pVal (f + 1) ('{' :: '"' :: t) = (pMembers f ('"' :: t) []).map (fun (kvs, r'') => (Json.obj (dedupLast kvs), r'')) := by
  rw [pVal]
  have w1 : isWs '{' = false := by decide
  have w2 : isWs '"' = false := by decide
  have c1 : ('{' == '"') = false := by decide
  have c2 : ('{' == '[') = false := by decide
  simp [skipWs, w1, w2, c1, c2]

theorem pMembers_last (f : Nat) (t : Text) (acc : List (String × Json)) (k : List Char) (r2 : Text) (v : Json) (r4 : Text)
    (hk : decStr t [] = some (k, ':' :: r2)) (hv : pVal f r2 = some (v, '}' :: r4)) :
    pMembers (f + 1) ('"' :: t) acc = some (((String.ofList k, v) :: acc).reverse, r4) := by
  rw [pMembers]
  have w2 : isWs '"' = false := by decide
  have w3 : isWs ':' = false := by decide
  have w4 : isWs '}' = false := by decide
  simp [skipWs, w2, w3, w4, hk, hv]

theorem parsePrefix_keyDoc (ks vs : List Sp) (hk : ks.all Sp.ok = true) (hv : vs.all Sp.ok = true) :
    parsePrefix (keyDoc ks vs) =
      some (.obj [(String.ofList (ks.map Sp.char), .str (String.ofList (vs.map Sp.char)))], []) := by
  unfold parsePrefix
  obtain ⟨n, hn⟩ : ∃ n, (keyDoc ks vs).length + 1 = n + 3 := ⟨(keyDoc ks vs).length - 2, by
    simp only [keyDoc, List.length_cons, List.length_append]; omega⟩
  rw [hn]
  unfold keyDoc
  rw [pVal_object]
  have e : spell vs ++ ['"', '}'] = spell vs ++ '"' :: ['}'] := rfl
  rw [pMembers_last (n + 1) _ [] (ks.map Sp.char) _ (.str (String.ofList (vs.map Sp.char))) []
    (decStr_spell ks hk _) (by rw [pVal_string, e, decStr_spell vs hv]; rfl)]
  simp [dedupLast]

theorem parseFirst_keyDoc (ks vs : List Sp) (hk : ks.all Sp.ok = true) (hv : vs.all Sp.ok = true) :
    parseFirst (keyDoc ks vs) =
      some (.obj [(String.ofList (ks.map Sp.char), .str (String.ofList (vs.map Sp.char)))]) := by
  simp [parseFirst, parsePrefix_keyDoc ks vs hk hv]

/-! ### a walker that stores only into containers it allocated writes no cell of its input -/

mutual
theorem wWrites_cow : (j : Json) → wWrites ⟨false, false, false⟩ j = 0
  | .null => by simp [wWrites]
  | .bool _ => by simp [wWrites]
  | .num _ => by simp [wWrites]
  | .str _ => by simp [wWrites]
  | .arr xs => by simp [wWrites, wWritesL_cow xs]
  | .obj kvs => by simp [wWrites, wWritesO_cow kvs]
theorem wWritesL_cow : (xs : List Json) → wWritesL ⟨false, false, false⟩ xs = 0
  | [] => by simp [wWritesL]
  | x :: r => by simp [wWritesL, wWrites_cow x, wWritesL_cow r]
theorem wWritesO_cow : (kvs : List (String × Json)) → wWritesO ⟨false, false, false⟩ kvs = 0
  | [] => by simp [wWritesO]
  | (k, v) :: r => by simp [wWritesO, wWrites_cow v, wWritesO_cow r]
end

end MosnVerif.Model.RawJson
