import MosnVerif.Model.Transfer
/-! helper lemmas for the transfer codec (core Lean only) -/
namespace MosnVerif.Model.Transfer
open MosnVerif.Gen.Transfer

theorem getU32_putU32 (n : Nat) (h : n < 4294967296) (r : Bytes) : getU32 (putU32 n ++ r) = n := by
  simp only [putU32, getU32, List.cons_append, List.nil_append, UInt8.toNat_ofNat']
  omega

theorem putU32_length (n : Nat) : (putU32 n).length = 4 := rfl

/-- with the regenerated layout the head is the two big-endian words in order -/
theorem buildHead_eq (s1 s2 : Nat) : buildHead s1 s2 = putU32 s1 ++ putU32 s2 := by
  simp [buildHead, writeAt, headLen, encOff1, encOff2, putU32, List.replicate]

theorem recvHead_buildHead (s1 s2 : Nat) (h1 : s1 < 4294967296) (h2 : s2 < 4294967296) (r : Bytes) :
    recvHead (buildHead s1 s2 ++ r) = some (s1, s2, r) := by
  rw [buildHead_eq]
  have hl : (putU32 s1 ++ putU32 s2 ++ r).length = 8 + r.length := by
    simp [putU32_length]; omega
  have ht : (putU32 s1 ++ putU32 s2 ++ r).take 8 = putU32 s1 ++ putU32 s2 := by
    rw [List.take_append_of_le_length (by simp [putU32_length])]
    exact List.take_of_length_le (by simp [putU32_length])
  have hd : (putU32 s1 ++ putU32 s2 ++ r).drop 8 = r := by
    rw [List.drop_append_of_le_length (by simp [putU32_length])]
    simp [List.drop_of_length_le, putU32_length]
  simp only [recvHead, recvMsg, recvHeadLen, decOff1, decOff2, hl, ht, hd]
  have : ¬ (8 + r.length < 8) := by omega
  simp only [this, if_false, List.drop_zero]
  have e1 : getU32 (putU32 s1 ++ putU32 s2) = s1 := getU32_putU32 s1 h1 _
  have e2 : getU32 ((putU32 s1 ++ putU32 s2).drop 4) = s2 := by
    have : (putU32 s1 ++ putU32 s2).drop 4 = putU32 s2 ++ [] := by simp [putU32]
    rw [this]; exact getU32_putU32 s2 h2 _
  rw [e1, e2]

theorem recvMsg_append (p r : Bytes) : recvMsg (p ++ r) p.length = some (p, r) := by
  simp [recvMsg]

theorem buildHead_length (a b : Nat) : (buildHead a b).length = 8 := by
  rw [buildHead_eq]; simp [putU32_length]

/-- with the regenerated field order the read message is head(data length, TLS length) ++ data ++ TLS -/
theorem encodeRead_eq (data tls : Bytes) : encodeRead data tls = buildHead data.length tls.length ++ data ++ tls := by
  simp [encodeRead, readHeadIsDataThenTls]

theorem encodeWrite_eq (id : Nat) (data : Bytes) : encodeWrite id data = buildHead data.length id ++ data := by
  simp [encodeWrite, writeSendLenFirst]

theorem encodeRead_length (data tls : Bytes) : (encodeRead data tls).length = 8 + data.length + tls.length := by
  simp only [encodeRead_eq, List.length_append, buildHead_length]

theorem recvMsg_short (s : Bytes) (n : Nat) (h : s.length < n) : recvMsg s n = none := by
  unfold recvMsg; rw [if_pos h]

theorem decodeRead_short_head (s : Bytes) (h : s.length < 8) : decodeRead s = none := by
  unfold decodeRead recvHead
  rw [recvMsg_short s recvHeadLen (by simpa [recvHeadLen] using h)]

theorem readPayloadLen_nat (a b : Nat) : (readPayloadLen (a : Int) (b : Int)).toNat = a + b := by
  unfold readPayloadLen; omega

theorem decodeRead_none_of (s : Bytes) (a b : Nat) (p : Bytes) (hh : recvHead s = some (a, b, p))
    (hm : recvMsg p (readPayloadLen (a : Int) (b : Int)).toNat = none) : decodeRead s = none := by
  unfold decodeRead
  rw [hh]
  simp only [hm]

theorem decodeRead_short_payload (a b : Nat) (ha : a < 4294967296) (hb : b < 4294967296) (p : Bytes)
    (h : p.length < a + b) : decodeRead (buildHead a b ++ p) = none :=
  decodeRead_none_of _ a b p (recvHead_buildHead a b ha hb p)
    (recvMsg_short p _ (by rw [readPayloadLen_nat]; exact h))

/-- a proper prefix of a message is never delivered as a message: the receiver fails (the stream ended early) -/
theorem decodeRead_prefix_none (data tls : Bytes) (h1 : data.length < 4294967296) (h2 : tls.length < 4294967296)
    (n : Nat) (hn : n < (encodeRead data tls).length) : decodeRead ((encodeRead data tls).take n) = none := by
  rw [encodeRead_length] at hn
  by_cases h8 : n < 8
  · apply decodeRead_short_head
    rw [List.length_take]; omega
  · have hsplit : (encodeRead data tls).take n = buildHead data.length tls.length ++ (data ++ tls).take (n - 8) := by
      simp only [encodeRead_eq, List.append_assoc]
      rw [List.take_append, buildHead_length]
      rw [List.take_of_length_le (by rw [buildHead_length]; omega)]
    rw [hsplit]
    apply decodeRead_short_payload _ _ h1 h2
    rw [List.length_take, List.length_append]; omega


theorem decodeRead_some_of (s : Bytes) (a b : Nat) (r p rest : Bytes) (hh : recvHead s = some (a, b, r))
    (hm : recvMsg r (readPayloadLen (a : Int) (b : Int)).toNat = some (p, rest)) :
    decodeRead s = some (slice p (readDataLo a b) (readDataHi a b), slice p (readTlsLo a b) (readTlsHi a b), rest) := by
  unfold decodeRead
  rw [hh]
  simp only [hm]

theorem slice_data (data tls : Bytes) :
    slice (data ++ tls) (readDataLo data.length tls.length) (readDataHi data.length tls.length) = data := by
  simp [slice, readDataLo, readDataHi]

theorem slice_tls (data tls : Bytes) :
    slice (data ++ tls) (readTlsLo data.length tls.length) (readTlsHi data.length tls.length) = tls := by
  simp only [slice, readTlsLo, readTlsHi, Int.toNat_natCast, List.length_append]
  rw [List.take_of_length_le (by simp)]
  simp

theorem decodeWrite_some_of (s : Bytes) (size id : Nat) (r p rest : Bytes) (hh : recvHead s = some (size, id, r))
    (hm : recvMsg r size = some (p, rest)) : decodeWrite s = some (id, p, rest) := by
  unfold decodeWrite
  rw [hh]
  simp only [writeRecvSizeFirst, ↓reduceIte, hm]

end MosnVerif.Model.Transfer
