import MosnVerif.Model.Transfer
/-! helper lemmas for the transfer codec (core Lean only) -/
namespace MosnVerif.Model.Transfer
open MosnVerif.Gen.Transfer

theorem getU32_putU32 (n : Nat) (h : n < 4294967296) (r : Bytes) : getU32 (putU32 n ++ r) = n := by
  simp only [putU32, getU32, List.cons_append, List.nil_append, UInt8.toNat_ofNat']
  omega

theorem putU32_length (n : Nat) : (putU32 n).length = 4 := rfl

/-- with the regenerated layout the head is the two big-endian words in order -/
theorem buildHead_eq (s1 s2 : Nat) : buildHead s1 s2 = putU32 s1 ++ putU32 s2 := by
  simp [buildHead, writeAt, headLen, encOff1, encOff2, putU32, List.replicate]

theorem recvHead_buildHead (s1 s2 : Nat) (h1 : s1 < 4294967296) (h2 : s2 < 4294967296) (r : Bytes) :
    recvHead (buildHead s1 s2 ++ r) = some (s1, s2, r) := by
  rw [buildHead_eq]
  have hl : (putU32 s1 ++ putU32 s2 ++ r).length = 8 + r.length := by
    simp [putU32_length]; omega
  have ht : (putU32 s1 ++ putU32 s2 ++ r).take 8 = putU32 s1 ++ putU32 s2 := by
    rw [List.take_append_of_le_length (by simp [putU32_length])]
    exact List.take_of_length_le (by simp [putU32_length])
  have hd : (putU32 s1 ++ putU32 s2 ++ r).drop 8 = r := by
    rw [List.drop_append_of_le_length (by simp [putU32_length])]
    simp [List.drop_of_length_le, putU32_length]
  simp only [recvHead, recvMsg, recvHeadLen, decOff1, decOff2, hl, ht, hd]
  have : ¬ (8 + r.length < 8) := by omega
  simp only [this, if_false, List.drop_zero]
  have e1 : getU32 (putU32 s1 ++ putU32 s2) = s1 := getU32_putU32 s1 h1 _
  have e2 : getU32 ((putU32 s1 ++ putU32 s2).drop 4) = s2 := by
    have : (putU32 s1 ++ putU32 s2).drop 4 = putU32 s2 ++ [] := by simp [putU32]
    rw [this]; exact getU32_putU32 s2 h2 _
  rw [e1, e2]

theorem recvMsg_append (p r : Bytes) : recvMsg (p ++ r) p.length = some (p, r) := by
  simp [recvMsg]

end MosnVerif.Model.Transfer
