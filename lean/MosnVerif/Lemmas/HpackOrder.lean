import MosnVerif.Model.HpackOrder
namespace MosnVerif.Model.HpackOrder
open MosnVerif.Gen.H2WriteLock

theorem find_get {f : Field} : ∀ {t : Table} {i : Nat}, find f t = some i → t[i]? = some f := by
  intro t
  induction t with
  | nil => intro i h; simp [find] at h
  | cons g r ih =>
    intro i h
    unfold find at h
    split at h
    · next hg => cases h; simp [hg]
    · cases hr : find f r with
      | none => simp [hr] at h
      | some j =>
        simp only [hr, Option.map_some, Option.some.injEq] at h
        subst h
        simpa using ih hr

theorem dec_enc_field (cap : Nat) (t : Table) (f : Field) :
    decField cap t (encField cap t f).2 = some ((encField cap t f).1, f) := by
  unfold encField
  cases h : find f t with
  | none => simp [decField]
  | some i => simp [decField, find_get h]

theorem dec_enc_block (cap : Nat) : ∀ (fs : List Field) (t : Table),
    decBlock cap t (encBlock cap t fs).2 = some ((encBlock cap t fs).1, fs) := by
  intro fs
  induction fs with
  | nil => intro t; rfl
  | cons f fs ih =>
    intro t
    simp only [encBlock, decBlock, dec_enc_field, ih]

theorem dec_enc_all (cap : Nat) : ∀ (xs : List (Nat × List Field)) (t : Table),
    decAll cap t (encAll cap t xs).2 = some ((encAll cap t xs).1, xs) := by
  intro xs
  induction xs with
  | nil => intro t; rfl
  | cons x xs ih =>
    intro t
    obtain ⟨s, fs⟩ := x
    simp only [encAll, decAll, dec_enc_block, ih]

theorem encAll_append (cap : Nat) (x : Nat × List Field) : ∀ (xs : List (Nat × List Field)) (t : Table),
    encAll cap t (xs ++ [x]) =
      ((encBlock cap (encAll cap t xs).1 x.2).1, (encAll cap t xs).2 ++ [⟨x.1, (encBlock cap (encAll cap t xs).1 x.2).2⟩]) := by
  intro xs
  induction xs with
  | nil => intro t; obtain ⟨s, fs⟩ := x; simp [encAll]
  | cons y ys ih =>
    intro t
    obtain ⟨s, fs⟩ := y
    simp only [List.cons_append, encAll, ih]

/-- invariant of a connection all of whose writers are atomic -/
structure Inv (s : Sys) : Prop where
  sync : encAll s.cap [] s.sent = (s.encT, s.wire)
  nopending : s.pending = []
  progs : ∀ p ∈ s.progs, p = [U.both] ∨ p = []
  own : ∀ x ∈ s.sent, x ∈ s.reqs

theorem inv_start (cap : Nat) (reqs : List (Nat × List Field)) : Inv (Sys.start cap reqs [.both]) := by
  refine ⟨rfl, rfl, ?_, ?_⟩
  · intro p hp
    simp only [Sys.start, List.mem_map] at hp
    obtain ⟨_, _, rfl⟩ := hp
    exact Or.inl rfl
  · intro x hx; simp [Sys.start] at hx

theorem inv_step {s : Sys} (h : Inv s) (i : Nat) : Inv (s.step i) := by
  unfold Sys.step
  cases hp : s.progs[i]? with
  | none => simpa using h
  | some p =>
    cases p with
    | nil => simpa using h
    | cons u rest =>
      cases hr : s.reqs[i]? with
      | none => simpa using h
      | some r =>
        obtain ⟨st, fs⟩ := r
        have hmem : (u :: rest) ∈ s.progs := List.mem_of_getElem? hp
        have hu : u = U.both ∧ rest = [] := by
          rcases h.progs _ hmem with h1 | h1
          · cases h1; exact ⟨rfl, rfl⟩
          · cases h1
        obtain ⟨rfl, rfl⟩ := hu
        simp only
        refine ⟨?_, h.nopending, ?_, ?_⟩
        · simp only [encAll_append, h.sync]
        · intro p hp'
          rcases List.mem_or_eq_of_mem_set hp' with h1 | h1
          · exact h.progs p h1
          · exact Or.inr h1
        · intro x hx
          simp only [List.mem_append, List.mem_singleton] at hx
          rcases hx with hx | hx
          · exact h.own x hx
          · rw [hx]; exact List.mem_of_getElem? hr

theorem inv_run {s : Sys} (h : Inv s) (sched : List Nat) : Inv (s.run sched) := by
  unfold Sys.run
  induction sched generalizing s with
  | nil => exact h
  | cons i r ih => exact ih (inv_step h i)

theorem step_cap (s : Sys) (i : Nat) : (s.step i).cap = s.cap ∧ (s.step i).reqs = s.reqs := by
  unfold Sys.step
  repeat' split
  all_goals (try simp)
  all_goals (cases List.find? (fun x => x.fst == i) s.pending <;> simp)

theorem run_cap (s : Sys) (sched : List Nat) : (s.run sched).cap = s.cap ∧ (s.run sched).reqs = s.reqs := by
  unfold Sys.run
  induction sched generalizing s with
  | nil => exact ⟨rfl, rfl⟩
  | cons i r ih =>
    have := ih (s.step i)
    simp only [List.foldl_cons]
    exact ⟨this.1.trans (step_cap s i).1, this.2.trans (step_cap s i).2⟩

end MosnVerif.Model.HpackOrder
