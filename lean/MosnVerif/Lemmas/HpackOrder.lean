import MosnVerif.Model.HpackOrder
namespace MosnVerif.Model.HpackOrder
open MosnVerif.Gen.H2WriteLock

theorem find_get {f : Field} : ∀ {t : Table} {i : Nat}, find f t = some i → t[i]? = some f := by
  intro t
  induction t with
  | nil => intro i h; simp [find] at h
  | cons g r ih =>
    intro i h
    unfold find at h
    split at h
    · next hg => cases h; simp [hg]
    · cases hr : find f r with
      | none => simp [hr] at h
      | some j =>
        simp only [hr, Option.map_some, Option.some.injEq] at h
        subst h
        simpa using ih hr

theorem dec_enc_field (cap : Nat) (t : Table) (f : Field) :
    decField cap t (encField cap t f).2 = some ((encField cap t f).1, f) := by
  unfold encField
  cases h : find f t with
  | none => simp [decField]
  | some i => simp [decField, find_get h]

theorem dec_enc_block (cap : Nat) : ∀ (fs : List Field) (t : Table),
    decBlock cap t (encBlock cap t fs).2 = some ((encBlock cap t fs).1, fs) := by
  intro fs
  induction fs with
  | nil => intro t; rfl
  | cons f fs ih =>
    intro t
    simp only [encBlock, decBlock, dec_enc_field, ih]

theorem dec_enc_all (cap : Nat) : ∀ (xs : List (Nat × List Field)) (t : Table),
    decAll cap t (encAll cap t xs).2 = some ((encAll cap t xs).1, xs) := by
  intro xs
  induction xs with
  | nil => intro t; rfl
  | cons x xs ih =>
    intro t
    obtain ⟨s, fs⟩ := x
    simp only [encAll, decAll, dec_enc_block, ih]

theorem encAll_append (cap : Nat) (x : Nat × List Field) : ∀ (xs : List (Nat × List Field)) (t : Table),
    encAll cap t (xs ++ [x]) =
      ((encBlock cap (encAll cap t xs).1 x.2).1, (encAll cap t xs).2 ++ [⟨x.1, (encBlock cap (encAll cap t xs).1 x.2).2⟩]) := by
  intro xs
  induction xs with
  | nil => intro t; obtain ⟨s, fs⟩ := x; simp [encAll]
  | cons y ys ih =>
    intro t
    obtain ⟨s, fs⟩ := y
    simp only [List.cons_append, encAll, ih]

theorem decAll_append (cap : Nat) : ∀ (a b : List Blk) (t t2 : Table) (out : List (Nat × List Field)),
    decAll cap t (a ++ b) = some (t2, out) →
      ∃ t1 o1 o2, decAll cap t a = some (t1, o1) ∧ decAll cap t1 b = some (t2, o2) ∧ out = o1 ++ o2 := by
  intro a
  induction a with
  | nil => intro b t t2 out h; exact ⟨t, [], out, rfl, h, rfl⟩
  | cons x xs ih =>
    intro b t t2 out h
    simp only [List.cons_append, decAll] at h ⊢
    cases hd : decBlock cap t x.reps with
    | none => simp [hd] at h
    | some r =>
      obtain ⟨t', fs⟩ := r
      simp only [hd] at h ⊢
      cases hr : decAll cap t' (xs ++ b) with
      | none => simp [hr] at h
      | some q =>
        obtain ⟨t'', o⟩ := q
        simp only [hr, Option.some.injEq, Prod.mk.injEq] at h
        obtain ⟨rfl, rfl⟩ := h
        obtain ⟨t1, o1, o2, h1, h2, h3⟩ := ih b t' t'' o hr
        exact ⟨t1, (x.stream, fs) :: o1, o2, by simp [h1], h2, by simp [h3]⟩

/-! ### the common mutex -/

theorem mem_foldl_filter (m : String) : ∀ (r : List Fn) (g : List String),
    m ∈ r.foldl (fun g f' => g.filter (heldAcross f'.acts).contains) g → m ∈ g ∧ ∀ f ∈ r, m ∈ heldAcross f.acts := by
  intro r
  induction r with
  | nil => intro g h; exact ⟨h, by simp⟩
  | cons f r ih =>
    intro g h
    have := ih _ h
    simp only [List.mem_filter, List.contains_eq_mem, decide_eq_true_eq] at this
    refine ⟨this.1.1, ?_⟩
    intro f' hf'
    rcases List.mem_cons.mp hf' with rfl | h'
    · exact this.1.2
    · exact this.2 f' h'

/-- a mutex of `commonGuard` is in the guard of every function of the side -/
theorem commonGuard_mem {m : String} {fs : List Fn} (h : m ∈ commonGuard fs) : ∀ f ∈ fs, m ∈ heldAcross f.acts := by
  cases fs with
  | nil => simp [commonGuard] at h
  | cons f r =>
    have := mem_foldl_filter m r _ h
    intro f' hf'
    rcases List.mem_cons.mp hf' with rfl | h'
    · exact this.1
    · exact this.2 f' h'

theorem shares_of_mem {m : String} {a b : List String} (ha : m ∈ a) (hb : m ∈ b) : shares a b = true := by
  simp only [shares, List.any_eq_true, List.contains_eq_mem, decide_eq_true_eq]
  exact ⟨m, ha, hb⟩

/-- invariant of a connection all of whose writers hold the mutex `m` from their encode to their write: at most one
block is between encode and write, and the wire followed by it is the encode order -/
structure Inv (m : String) (s : Sys) : Prop where
  common : ∀ g ∈ s.guards, m ∈ g
  sync : encAll s.cap [] s.sent = (s.encT, s.wire ++ s.inFlight)
  pend : s.pending = [] ∨ ∃ i b g, s.pending = [(i, b)] ∧ s.guards[i]? = some g
  progs : ∀ j p, s.progs[j]? = some p → p = [U.enc, U.wr] ∨ p = [] ∨ (p = [U.wr] ∧ ∃ b, s.pending = [(j, b)])
  own : ∀ x ∈ s.sent, x ∈ s.reqs

theorem inv_start (m : String) (cap : Nat) (reqs : List (Nat × List Field)) (gs : List (List String))
    (hg : ∀ g ∈ gs, m ∈ g) : Inv m (Sys.start cap reqs gs) := by
  refine ⟨hg, rfl, Or.inl rfl, ?_, ?_⟩
  · intro j p hp
    have : p ∈ (Sys.start cap reqs gs).progs := List.mem_of_getElem? hp
    simp only [Sys.start, List.mem_map] at this
    obtain ⟨_, _, rfl⟩ := this
    exact Or.inl rfl
  · intro x hx; simp [Sys.start] at hx

theorem inv_step {m : String} {s : Sys} (h : Inv m s) (i : Nat) : Inv m (s.step i) := by
  unfold Sys.step
  cases hp : s.progs[i]? with
  | none => simpa using h
  | some p =>
    cases p with
    | nil => simpa using h
    | cons u rest =>
      cases hr : s.reqs[i]? with
      | none => simpa using h
      | some r =>
        obtain ⟨st, fs⟩ := r
        cases hgi : s.guards[i]? with
        | none => simpa using h
        | some g =>
          have hmg : m ∈ g := h.common g (List.mem_of_getElem? hgi)
          have hilt : i < s.progs.length := by
            rcases Nat.lt_or_ge i s.progs.length with h1 | h1
            · exact h1
            · rw [List.getElem?_eq_none h1] at hp; cases hp
          cases u with
          | enc =>
            have hrest : rest = [U.wr] := by
              rcases h.progs i _ hp with h1 | h1 | ⟨h1, _⟩
              · cases h1; rfl
              · cases h1
              · cases h1
            subst hrest
            simp only
            cases hb : s.blocked g with
            | true => simpa using h
            | false =>
              have hpe : s.pending = [] := by
                rcases h.pend with h1 | ⟨j, b, gj, h1, h2⟩
                · exact h1
                · exfalso
                  have hmj : m ∈ gj := h.common gj (List.mem_of_getElem? h2)
                  have : s.blocked g = true := by
                    simp only [Sys.blocked, h1, List.any_cons, List.any_nil, Bool.or_false, h2, Option.getD_some]
                    exact shares_of_mem hmj hmg
                  rw [hb] at this; cases this
              simp only [Bool.false_eq_true, if_false]
              refine ⟨h.common, ?_, ?_, ?_, ?_⟩
              · have hs := h.sync
                simp only [Sys.inFlight, hpe, List.reverse_nil, List.map_nil, List.append_nil] at hs
                simp only [encAll_append, hs, Sys.inFlight, hpe, List.reverse_cons, List.reverse_nil, List.nil_append,
                  List.map_cons, List.map_nil]
              · exact Or.inr ⟨i, _, g, by rw [hpe], hgi⟩
              · intro j p hj
                simp only [List.getElem?_set] at hj
                by_cases hij : i = j
                · subst hij
                  simp only [if_true, hilt] at hj
                  cases hj
                  exact Or.inr (Or.inr ⟨rfl, _, by rw [hpe]⟩)
                · simp only [hij, if_false] at hj
                  rcases h.progs j p hj with h1 | h1 | ⟨_, b, h1⟩
                  · exact Or.inl h1
                  · exact Or.inr (Or.inl h1)
                  · rw [hpe] at h1; cases h1
              · intro x hx
                simp only [List.mem_append, List.mem_singleton] at hx
                rcases hx with hx | hx
                · exact h.own x hx
                · rw [hx]; exact List.mem_of_getElem? hr
          | wr =>
            have hw : rest = [] ∧ ∃ b, s.pending = [(i, b)] := by
              rcases h.progs i _ hp with h1 | h1 | ⟨h1, h2⟩
              · cases h1
              · cases h1
              · cases h1; exact ⟨rfl, h2⟩
            obtain ⟨rfl, b, hpe⟩ := hw
            simp only [hpe, List.find?_cons, beq_self_eq_true]
            refine ⟨h.common, ?_, ?_, ?_, h.own⟩
            · have hs := h.sync
              simp only [Sys.inFlight, hpe, List.reverse_cons, List.reverse_nil, List.nil_append, List.map_cons,
                List.map_nil] at hs
              simp only [Sys.inFlight, List.filter_cons, bne_self_eq_false, Bool.false_eq_true, if_false,
                List.filter_nil, List.reverse_nil, List.map_nil, List.append_nil]
              exact hs
            · exact Or.inl (by simp)
            · intro j p hj
              simp only [List.getElem?_set] at hj
              by_cases hij : i = j
              · subst hij
                simp only [if_true, hilt] at hj
                cases hj
                exact Or.inr (Or.inl rfl)
              · simp only [hij, if_false] at hj
                rcases h.progs j p hj with h1 | h1 | ⟨_, b', h1⟩
                · exact Or.inl h1
                · exact Or.inr (Or.inl h1)
                · rw [hpe] at h1
                  simp only [List.cons.injEq, Prod.mk.injEq, and_true] at h1
                  exact absurd h1.1 hij

theorem inv_run {m : String} {s : Sys} (h : Inv m s) (sched : List Nat) : Inv m (s.run sched) := by
  unfold Sys.run
  induction sched generalizing s with
  | nil => exact h
  | cons i r ih => exact ih (inv_step h i)

theorem step_cap (s : Sys) (i : Nat) : (s.step i).cap = s.cap ∧ (s.step i).reqs = s.reqs := by
  unfold Sys.step
  repeat' split
  all_goals (try simp)

theorem run_cap (s : Sys) (sched : List Nat) : (s.run sched).cap = s.cap ∧ (s.run sched).reqs = s.reqs := by
  unfold Sys.run
  induction sched generalizing s with
  | nil => exact ⟨rfl, rfl⟩
  | cons i r ih =>
    have := ih (s.step i)
    simp only [List.foldl_cons]
    exact ⟨this.1.trans (step_cap s i).1, this.2.trans (step_cap s i).2⟩

end MosnVerif.Model.HpackOrder
