import MosnVerif.Model.Headers
namespace MosnVerif.Model.Headers
open MosnVerif.Gen.HeaderMutation

theorem get_del_same (h : Hdrs) (k : String) : get (del h k) k = none := by
  unfold get del
  induction h with
  | nil => simp
  | cons e r ih =>
    simp only [List.filter_cons]
    by_cases hk : e.1 = k
    · simpa [hk] using ih
    · simp [hk]

theorem get_del_other (h : Hdrs) (k k' : String) (hne : k ≠ k') : get (del h k) k' = get h k' := by
  unfold get del
  rw [List.find?_filter]
  congr 2
  funext e
  by_cases hk' : e.1 = k'
  · have : ¬ e.1 = k := by rw [hk']; exact fun h => hne h.symm
    simp [hk', this]
    intro h; exact absurd h.symm hne
  · simp [hk']

theorem get_set_same (h : Hdrs) (k v : String) : get (set h k v) k = some v := by
  simp [get, set]

theorem get_set_other (h : Hdrs) (k k' v : String) (hne : k ≠ k') : get (set h k v) k' = get h k' := by
  have : get (set h k v) k' = get (del h k) k' := by
    simp [get, set, hne]
  rw [this, get_del_other h k k' hne]

def applyOp (h : Hdrs) : Op → Hdrs
  | .add a => applyAdd h a
  | .remove k => del h k

theorem evaluate_eq_ops (p : Parser) (h : Hdrs) : evaluate p h = (opsOf p).foldl applyOp h := by
  unfold evaluate opsOf
  rw [List.foldl_append, List.foldl_map, List.foldl_map]
  rfl

theorem get_applyOp (h : Hdrs) (o : Op) (k : String) :
    get (applyOp h o) k = if o.key = k then stepVal (get h k) o else get h k := by
  cases o with
  | remove r =>
    simp only [applyOp, Op.key]
    by_cases hk : r = k
    · subst hk; simp [get_del_same, stepVal]
    · simp [hk, get_del_other h r k hk]
  | add a =>
    simp only [applyOp, Op.key, applyAdd]
    by_cases hk : a.name = k
    · subst hk
      simp only [if_true, get_set_same]
      cases hg : get h a.name with
      | none => simp [stepVal, joinCond]
      | some v =>
        simp only [stepVal, joinCond, Bool.true_and]
        by_cases hl : v.length > 0 <;> by_cases ha : a.append = true <;> simp [hl, ha]
    · simp [hk, get_set_other h a.name k _ hk]

theorem get_foldl_ops (ops : List Op) (h : Hdrs) (k : String) :
    get (ops.foldl applyOp h) k = specValue ops k (get h k) := by
  induction ops generalizing h with
  | nil => simp [specValue]
  | cons o r ih =>
    simp only [List.foldl_cons]
    rw [ih, get_applyOp]
    unfold specValue
    by_cases hk : o.key = k
    · simp [hk]
    · simp [hk]

theorem finalize_eq_ops (l : Levels) (h : Hdrs) :
    finalize [.route, .vhost, .router] l h = (specOps l).foldl applyOp h := by
  simp [finalize, Levels.at, evaluate_eq_ops, specOps, List.foldl_append]

open MosnVerif.Gen.ProxyTimeout

/-- "if present and numeric then overwrite" -/
def upd (pI : String → Option Int) (o : Option String) (cur : Int) : Int :=
  match o with
  | some s => (match pI s with | some v => v * 1000000 | none => cur)
  | none => cur

/-- hand-written normal form of the regenerated `parseProxyTimeout` (proved equal to it below, by `rfl` per case) -/
def ppt' (pI : String → Option Int) (g0 t0 : Int) (hasRoute : Bool) (rg rt : Int) (hT hG vT vG : Option String) : Int × Int :=
  let g1 := if hasRoute then rg else g0
  let t1 := if hasRoute then rt else t0
  let t3 := upd pI vT (upd pI hT t1)
  let g3 := upd pI vG (upd pI hG g1)
  let g4 := if decide (g3 ≤ 0) then 60000000000 else g3   -- [c08l9] `<= 0` since fix 'negative global timeout'
  let t4 := if decide (t3 ≥ g4) then 0 else t3
  (g4, t4)

theorem ppt_eq (pI : String → Option Int) (g0 t0 : Int) (hasRoute : Bool) (rg rt : Int) (hT hG vT vG : Option String) :
    parseProxyTimeout pI g0 t0 hasRoute rg rt hT hG vT vG = ppt' pI g0 t0 hasRoute rg rt hT hG vT vG := by
  cases hasRoute <;> cases hT <;> cases hG <;> cases vT <;> cases vG <;> rfl

theorem upd_eq (pI : String → Option Int) (o : Option String) (cur : Int) :
    upd pI o cur = (match o.bind pI with | some v => v * 1000000 | none => cur) := by
  cases o with
  | none => rfl
  | some s => simp only [upd, Option.bind]

end MosnVerif.Model.Headers
