import MosnVerif.Model.PoolMux
import MosnVerif.Lemmas.PoolSpec
/-!
Invariant of the multiplex pool model (`Model/PoolMux.lean`), inductive over every operation.
-/
namespace MosnVerif.Model.PoolMux
open MosnVerif.Gen.PoolMux MosnVerif.Gen.PoolMuxMoves MosnVerif.Gen.Pool
open MosnVerif.Model.Pool (Stream Dial countLive)

/-! ### counting streams -/

theorem countLive_congr (f g : Nat → Stream) (n : Nat) (h : ∀ k, k < n → g k = f k) : countLive g n = countLive f n := by
  induction n with
  | zero => rfl
  | succ n ih =>
    simp only [countLive]
    rw [ih (fun k hk => h k (by omega)), h n (by omega)]

theorem countOn_congr (f g : Nat → Stream) (c n : Nat) (h : ∀ k, k < n → g k = f k) : countOn g c n = countOn f c n := by
  induction n with
  | zero => rfl
  | succ n ih =>
    simp only [countOn]
    rw [ih (fun k hk => h k (by omega)), h n (by omega)]

theorem countOn_le_countLive (f : Nat → Stream) (c n : Nat) : countOn f c n ≤ countLive f n := by
  induction n with
  | zero => exact Nat.le_refl _
  | succ n ih =>
    simp only [countOn, countLive]
    cases h : (f n).live <;> simp <;> (try split) <;> omega

/-- stream `i` stops being live, everything else is unchanged -/
theorem countLive_kill_one (f g : Nat → Stream) (i n : Nat) (hi : i < n) (hl : (f i).live = true) (hg : (g i).live = false)
    (hoth : ∀ k, k ≠ i → g k = f k) : countLive g n + 1 = countLive f n := by
  induction n with
  | zero => omega
  | succ n ih =>
    simp only [countLive]
    by_cases hin : i = n
    · subst hin
      rw [countLive_congr f g i (fun k hk => hoth k (by omega)), hl, hg]; simp
    · rw [hoth n (fun h => hin h.symm)]
      have := ih (by omega); omega

theorem countOn_kill_one (f g : Nat → Stream) (i n c : Nat) (hi : i < n) (hl : (f i).live = true) (hg : (g i).live = false)
    (hc : (f i).conn = c) (hoth : ∀ k, k ≠ i → g k = f k) : countOn g c n + 1 = countOn f c n := by
  induction n with
  | zero => omega
  | succ n ih =>
    simp only [countOn]
    by_cases hin : i = n
    · subst hin
      rw [countOn_congr f g c i (fun k hk => hoth k (by omega)), hl, hg, hc]; simp
    · rw [hoth n (fun h => hin h.symm)]
      have := ih (by omega); omega

theorem countOn_kill_other (f g : Nat → Stream) (i n c : Nat) (hg : (g i).live = false)
    (hc : (f i).conn ≠ c) (hoth : ∀ k, k ≠ i → g k = f k) : countOn g c n = countOn f c n := by
  induction n with
  | zero => rfl
  | succ n ih =>
    simp only [countOn]
    by_cases hin : i = n
    · subst hin
      rw [ih, hg]
      have : ((f i).conn == c) = false := by simpa using hc
      simp [this]
    · rw [hoth n (fun h => hin h.symm), ih]

/-- `killOn`: every live stream on `c` dies -/
def killed (f : Nat → Stream) (c : Nat) (reason : String) : Nat → Stream := fun i =>
  let st := f i
  if st.live && st.conn == c then { st with state := destroyedState, resets := st.resets ++ [reason], destroys := st.destroys + 1 } else st

theorem destroyed_not_live : ∀ st : Stream, ({ st with state := destroyedState } : Stream).live = false := by
  intro st; simp [Stream.live, destroyedState, streamStateReset]

theorem killed_live (f : Nat → Stream) (c : Nat) (r : String) (i : Nat) :
    (killed f c r i).live = ((f i).live && !((f i).conn == c)) := by
  show (if ((f i).live && (f i).conn == c) = true then _ else f i).live = _
  by_cases h : ((f i).live && (f i).conn == c) = true
  · rw [if_pos h]
    simp only [Bool.and_eq_true] at h
    rw [h.1, h.2]
    simp [Stream.live, destroyedState, streamStateReset]
  · rw [if_neg h]
    cases h1 : (f i).live <;> cases h2 : ((f i).conn == c) <;> simp_all

theorem killed_conn (f : Nat → Stream) (c : Nat) (r : String) (i : Nat) : (killed f c r i).conn = (f i).conn := by
  show (if ((f i).live && (f i).conn == c) = true then _ else f i).conn = _
  split <;> rfl

theorem countLive_killed (f : Nat → Stream) (c : Nat) (r : String) (n : Nat) :
    countLive (killed f c r) n + countOn f c n = countLive f n := by
  induction n with
  | zero => rfl
  | succ n ih =>
    simp only [countLive, countOn, killed_live]
    cases h1 : (f n).live <;> cases h2 : ((f n).conn == c) <;> simp <;> omega

theorem countOn_killed_same (f : Nat → Stream) (c : Nat) (r : String) (n : Nat) : countOn (killed f c r) c n = 0 := by
  induction n with
  | zero => rfl
  | succ n ih =>
    simp only [countOn, killed_live, killed_conn, ih]
    cases h1 : (f n).live <;> cases h2 : ((f n).conn == c) <;> simp

theorem countOn_killed_other (f : Nat → Stream) (c c' : Nat) (r : String) (n : Nat) (h : c' ≠ c) :
    countOn (killed f c r) c' n = countOn f c' n := by
  induction n with
  | zero => rfl
  | succ n ih =>
    simp only [countOn, killed_live, killed_conn, ih]
    cases h1 : (f n).live <;> cases h2 : ((f n).conn == c) <;> simp
    have : (f n).conn = c := by simpa using h2
    rw [this]; exact fun e => h e.symm

theorem iter_decrease (m : Nat) (k : Nat) (x : Int) :
    iter (resDecrease m) k x = if m = 0 then x else x - k := by
  induction k generalizing x with
  | zero => simp [iter]
  | succ k ih =>
    simp only [iter, ih, resDecrease]
    by_cases hm : m = 0
    · simp [hm]
    · have : ¬ ((m : Int) = 0) := by omega
      simp [hm, this]; omega

/-! ### the regenerated movements, as they are in the code that exists -/

theorem destroyMoves_eq : destroyMoves = { reqInc := 0, reqDec := 1, host := -1, cluster := -1, listens := false } := rfl

theorem movesN_destroy (n : Nat) (s : State) :
    movesN destroyMoves n s =
      { s with reqCur := iter (resDecrease s.maxReq) n s.reqCur, actHost := s.actHost - n, actCluster := s.actCluster - n } := by
  rw [destroyMoves_eq]
  simp only [movesN, iter]
  have e : ((n : Int) * -1) = -(n : Int) := by omega
  rw [e]; rfl

theorem movesN_lease (s : State) :
    movesN (muxLeaseMoves false) 1 s =
      { s with reqCur := resIncrease s.maxReq s.reqCur, actHost := s.actHost + 1, actCluster := s.actCluster + 1 } := by
  simp [movesN, iter, muxLeaseMoves]

/-- the one-way path of `NewStream` moves nothing -/
theorem movesN_oneway (s : State) : movesN (muxLeaseMoves true) 1 s = s := by
  simp [movesN, iter, muxLeaseMoves]

/-! ### the invariant -/

structure Core (s : State) : Prop where
  req : s.reqCur = if s.maxReq = 0 then 0 else (s.ext : Int) + (s.liveCount : Int)
  /-- both upstream request_active gauges count the requests in flight -/
  act : s.actHost = (s.liveCount : Int) ∧ s.actCluster = (s.liveCount : Int)
  liveOk : ∀ i, i < s.nStreams → (s.stream i).live = true → (s.stream i).conn < s.nClients ∧ (s.client (s.stream i).conn).netOpen = true
  slotOk : ∀ i c, s.slot i = .real c → c < s.nClients ∧ (s.client c).slot = i ∧
    ((s.client c).state = muxConnected → (s.client c).netOpen = true)
  /-- an open connection that has not been told to go away is the Connected client of its slot -/
  openOk : ∀ c, c < s.nClients → (s.client c).netOpen = true → (s.client c).goaway = 0 → s.slot (s.client c).slot = .real c
  slotRange : ∀ i c, s.slot i = .real c → i < s.nSlots
  gw : ∀ c, (s.client c).goaway = 0 ∨ (s.client c).goaway = muxGoAway
  /-- a client is Connected exactly as long as it has not been told to go away -/
  st : ∀ c, c < s.nClients → ((s.client c).state = muxConnected ↔ (s.client c).goaway = 0)
  once : ∀ i, i < s.nStreams →
    ((s.stream i).live = true → (s.stream i).destroys = 0 ∧ (s.stream i).recv = 0 ∧ (s.stream i).resets = []) ∧
    ((s.stream i).live = false → (s.stream i).destroys = 1 ∧ (s.stream i).recv ≤ 1 ∧ (s.stream i).resets.length ≤ 1 ∧
      ((s.stream i).recv = 1 → (s.stream i).resets = []))

/-- an open connection that has been told to go away still has a request in flight -/
def Drain (s : State) (c : Nat) : Prop :=
  c < s.nClients → (s.client c).netOpen = true → (s.client c).goaway ≠ 0 → 0 < s.activeOn c

structure Inv (s : State) : Prop where
  core : Core s
  drain : ∀ c, Drain s c

theorem inv_init (maxConn maxReq : Nat) : Inv (init maxConn maxReq) := by
  refine ⟨⟨?_, ?_, ?_, ?_, ?_, ?_, ?_, ?_, ?_⟩, ?_⟩
  · simp [init, State.liveCount, countLive]
  · simp [init, State.liveCount, countLive]
  · intro i hi; simp [init] at hi
  · intro i c h; simp [init] at h
  · intro c hc; simp [init] at hc
  · intro i c h; simp [init] at h
  · intro c; left; rfl
  · intro c hc; simp [init] at hc
  · intro i hi; simp [init] at hi
  · intro c hc; simp [init] at hc

/-! ### a connection goes away -/

theorem go_ne_connected : muxGoAway ≠ muxConnected := by decide

/-- the state after connection `c` (open, known) has gone away -/
def closedSt (s : State) (c : Nat) (r : String) : State :=
  killOn (poolOnClose (s.updC c (fun cl => { cl with netOpen := false })) c) c r

/-- does the close event of `c` empty its slot -/
def emptied (s : State) (c : Nat) : Bool :=
  muxDeleteOnClose (s.client c).state (decide (s.slot (s.client c).slot = .real c))

theorem emptied_spec (s : State) (c : Nat) (h : emptied s c = true) : s.slot (s.client c).slot = .real c := by
  simp only [emptied, muxDeleteOnClose, Bool.and_eq_true] at h
  exact of_decide_eq_true h.2

theorem poolOnClose_eq (t : State) (c : Nat) :
    poolOnClose t c = { t with slot := fun k => if emptied t c = true ∧ k = (t.client c).slot then .empty else t.slot k } := by
  unfold poolOnClose emptied
  by_cases h : muxDeleteOnClose (t.client c).state (decide (t.slot (t.client c).slot = SlotV.real c)) = true
  · simp only [State.setSlot, h, true_and, if_true]
  · have : (fun k => if (muxDeleteOnClose (t.client c).state (decide (t.slot (t.client c).slot = SlotV.real c)) = true ∧ k = (t.client c).slot) then SlotV.empty else t.slot k) = t.slot := by
      funext k; simp [h]
    simp only [h, if_false, Bool.false_eq_true, false_and]

theorem closedSt_eq (s : State) (c : Nat) (r : String) :
    closedSt s c r =
      { s with
        slot := fun k => if emptied s c = true ∧ k = (s.client c).slot then .empty else s.slot k,
        client := fun k => if k = c then { s.client c with netOpen := false } else s.client k,
        stream := killed s.stream c r,
        reqCur := iter (resDecrease s.maxReq) (s.activeOn c) s.reqCur,
        actHost := s.actHost - (s.activeOn c : Nat), actCluster := s.actCluster - (s.activeOn c : Nat) } := by
  unfold closedSt
  rw [poolOnClose_eq]
  simp only [killOn, movesN_destroy, State.updC, State.activeOn, emptied, if_pos rfl, if_true]
  rfl

theorem netClose_eq (s : State) (c : Nat) (r : String) (h1 : c < s.nClients) (h2 : (s.client c).netOpen = true) :
    netClose s c r = closedSt s c r := by
  simp [netClose, h1, h2, netDown, closedSt]

/-- `netClose` establishes the whole invariant from the core and the draining facts of the OTHER connections. -/
theorem inv_netClose (s : State) (hc : Core s) (c : Nat) (r : String) (hd : ∀ c', c' ≠ c → Drain s c') :
    Inv (netClose s c r) := by
  by_cases hh : c < s.nClients ∧ (s.client c).netOpen = true
  · obtain ⟨hcn, hopen⟩ := hh
    rw [netClose_eq s c r hcn hopen, closedSt_eq]
    refine ⟨⟨?_, ?_, ?_, ?_, ?_, ?_, ?_, ?_, ?_⟩, ?_⟩
    · -- req
      have hk := countLive_killed s.stream c r s.nStreams
      have hreq := hc.req
      simp only [State.liveCount, State.activeOn, iter_decrease] at hreq ⊢
      rw [hreq]; split <;> omega
    · -- act
      have hk := countLive_killed s.stream c r s.nStreams
      have ha := hc.act
      simp only [State.liveCount, State.activeOn] at ha ⊢
      omega
    · -- liveOk
      intro i hi hl
      simp only at hi hl ⊢
      rw [killed_live] at hl
      simp only [Bool.and_eq_true, Bool.not_eq_true', beq_eq_false_iff_ne, ne_eq] at hl
      have ⟨h1, h2⟩ := hc.liveOk i hi hl.1
      rw [killed_conn]
      exact ⟨h1, by simp [hl.2, h2]⟩
    · -- slotOk
      intro j c' hj
      simp only at hj ⊢
      have hold : s.slot j = .real c' := by
        split at hj
        · cases hj
        · exact hj
      have ⟨h1, h2, h3⟩ := hc.slotOk j c' hold
      by_cases hcc : c' = c
      · subst hcc
        have hstate : (s.client c').state = muxGoAway := by
          by_cases hg : (s.client c').state = muxGoAway
          · exact hg
          · exfalso
            have : emptied s c' = true := by simp [emptied, muxDeleteOnClose, hg, h2, hold]
            simp [this, h2] at hj
        refine ⟨h1, by simpa using h2, ?_⟩
        intro hcon
        simp only [if_pos rfl] at hcon
        rw [hstate] at hcon; exact absurd hcon go_ne_connected
      · simp only [if_neg hcc]
        exact ⟨h1, h2, h3⟩
    · -- openOk
      intro c' hc' ho hg
      simp only at hc' ho hg ⊢
      have hne : c' ≠ c := by
        intro e; subst e; simp at ho
      simp only [if_neg hne] at ho hg ⊢
      have hold := hc.openOk c' hc' ho hg
      split
      · rename_i he
        exfalso
        have h2 := he.2
        have h1 := emptied_spec s c he.1
        rw [h2] at hold
        rw [hold] at h1
        cases h1
        exact hne rfl
      · exact hold
    · intro j c' hj
      simp only at hj ⊢
      split at hj
      · cases hj
      · exact hc.slotRange j c' hj
    · intro c'
      have := hc.gw c'
      simp only
      by_cases hcc : c' = c
      · subst hcc; simpa using this
      · simpa [hcc] using this
    · intro c' hc'
      have := hc.st c' hc'
      simp only
      by_cases hcc : c' = c
      · subst hcc; simpa using this
      · simpa [hcc] using this
    · -- once
      intro i hi
      simp only at hi ⊢
      have ho := hc.once i hi
      by_cases hk : ((s.stream i).live && (s.stream i).conn == c) = true
      · have hl : (s.stream i).live = true := by simp only [Bool.and_eq_true] at hk; exact hk.1
        have ⟨d1, d2, d3⟩ := ho.1 hl
        have hkl : (killed s.stream c r i).live = false := by rw [killed_live]; simp only [Bool.and_eq_true] at hk; simp [hk.2]
        refine ⟨fun h => (by rw [hkl] at h; cases h), fun _ => ?_⟩
        simp only [killed, hk, if_true]
        simp [d1, d2, d3]
      · have : killed s.stream c r i = s.stream i := by simp [killed, hk]
        rw [this]; exact ho
    · -- drain
      intro c' hc' ho hg
      simp only at hc' ho hg
      have hne : c' ≠ c := by
        intro e; subst e; simp at ho
      simp only [if_neg hne] at ho hg
      have := hd c' hne hc' ho hg
      simp only [State.activeOn] at this ⊢
      rw [countOn_killed_other s.stream c c' r s.nStreams hne]; exact this
  · -- nothing to close: the connection is unknown or already gone
    have : netClose s c r = s := by simp [netClose, hh]
    rw [this]
    refine ⟨hc, fun c' => ?_⟩
    by_cases hcc : c' = c
    · subst hcc
      intro h1 h2 _
      exact absurd ⟨h1, h2⟩ hh
    · exact hd c' hcc

theorem inv_netClose' (s : State) (h : Inv s) (c : Nat) (r : String) : Inv (netClose s c r) :=
  inv_netClose s h.core c r (fun c' _ => h.drain c')

/-! ### NewStream -/

theorem fresh_live : ({ conn := c } : Stream).live = true := by
  simp [Stream.live]

theorem countLive_lease (f : Nat → Stream) (n c : Nat) :
    countLive (fun k => if k = n then ({ conn := c } : Stream) else f k) (n + 1) = countLive f n + 1 := by
  simp only [countLive, if_pos rfl, fresh_live, if_true]
  rw [countLive_congr f _ n (fun k hk => by simp [Nat.ne_of_lt hk])]

theorem countOn_lease (f : Nat → Stream) (n c c' : Nat) :
    countOn f c' n ≤ countOn (fun k => if k = n then ({ conn := c } : Stream) else f k) c' (n + 1) := by
  simp only [countOn]
  have e := countOn_congr f (fun k => if k = n then ({ conn := c } : Stream) else f k) c' n
    (fun k hk => by simp [Nat.ne_of_lt hk])
  rw [e]
  omega

theorem inv_lease (s : State) (h : Inv s) (c : Nat) (hc : c < s.nClients) (ho : (s.client c).netOpen = true) :
    Inv (lease s c) := by
  have hcore := h.core
  rw [lease, movesN_lease]
  refine ⟨⟨?_, ?_, ?_, ?_, ?_, ?_, ?_, ?_, ?_⟩, ?_⟩
  · have := hcore.req
    simp only [State.liveCount, countLive_lease, resIncrease] at this ⊢
    rw [this]
    by_cases hm : s.maxReq = 0
    · simp [hm]
    · have : ¬ ((s.maxReq : Int) = 0) := by omega
      simp [hm, this]; omega
  · have := hcore.act
    simp only [State.liveCount, countLive_lease] at this ⊢
    omega
  · intro i hi hl
    simp only at hi hl ⊢
    by_cases hin : i = s.nStreams
    · subst hin; simp only [if_pos rfl]; exact ⟨hc, ho⟩
    · simp only [if_neg hin] at hl ⊢
      exact hcore.liveOk i (by omega) hl
  · exact hcore.slotOk
  · exact hcore.openOk
  · exact hcore.slotRange
  · exact hcore.gw
  · exact hcore.st
  · intro i hi
    simp only at hi ⊢
    by_cases hin : i = s.nStreams
    · subst hin; simp only [if_pos rfl, fresh_live]
      exact ⟨fun _ => ⟨rfl, rfl, rfl⟩, fun h => by cases h⟩
    · simp only [if_neg hin]; exact hcore.once i (by omega)
  · intro c' hc' ho' hg
    have := h.drain c' hc' ho' hg
    have hle := countOn_lease s.stream s.nStreams c c'
    simp only [State.activeOn] at this ⊢
    omega

theorem inv_newStream (s : State) (h : Inv s) (k : Nat) : Inv (newStream s k).1 := by
  unfold newStream
  simp only
  split
  · exact h
  split
  · exact h
  · exact h
  · rename_i c hs
    split
    · exact h
    · rename_i hu
      split
      · exact h
      · have ⟨h1, _, h3⟩ := h.core.slotOk _ c hs
        have hst : (s.client c).state = muxConnected := by
          simp only [muxUnusable, decide_eq_true_eq, ne_eq, Decidable.not_not] at hu; exact hu
        exact inv_lease s h c h1 (h3 hst)

/-- **a one-way request holds nothing**: whatever its outcome, `NewStream(ctx, nil)` leaves the whole state as it was
(with the regenerated movements of the `receiver == nil` path) -/
theorem newStreamOneway_state (s : State) (k : Nat) : (newStreamOneway s k).1 = s := by
  unfold newStreamOneway
  simp only
  split
  · rfl
  split
  · rfl
  · rfl
  · split
    · rfl
    · split
      · rfl
      · exact movesN_oneway s

/-! ### a stream ends -/

theorem inv_endStream (s : State) (h : Inv s) (i : Nat) (hi : i < s.nStreams) (hl : (s.stream i).live = true)
    (reset : Option String) : Inv (endStream s i reset) := by
  have hcore := h.core
  have hstate : destroyProceeds (s.stream i).state = true := by
    simp only [Stream.live, beq_iff_eq] at hl
    simp [destroyProceeds, hl]
  unfold endStream
  simp only [hstate, if_true]
  -- the state after the stream has left: stream i dead, one request slot back
  let dead := ended (s.stream i) reset
  have hdl : dead.live = false := by simp [dead, ended, Stream.live, destroyedState, streamStateReset]
  have hdc : dead.conn = (s.stream i).conn := rfl
  let g : Nat → Stream := fun k => if k = i then dead else s.stream k
  have hgi : (g i).live = false := by simp [g, hdl]
  have hoth : ∀ k, k ≠ i → g k = s.stream k := by intro k hk; simp [g, hk]
  have hlive := countLive_kill_one s.stream g i s.nStreams hi hl hgi hoth
  let c := (s.stream i).conn
  have hon := countOn_kill_one s.stream g i s.nStreams c hi hl hgi rfl hoth
  let s2 : State := { s with stream := g, reqCur := resDecrease s.maxReq s.reqCur, actHost := s.actHost - 1, actCluster := s.actCluster - 1 }
  have hs2 : movesN destroyMoves 1 { s with stream := g } = s2 := by
    rw [movesN_destroy]; simp [s2, iter]
  have hfresh := (hcore.once i hi).1 hl
  have hcore2 : Core s2 := by
    refine ⟨?_, ?_, ?_, hcore.slotOk, hcore.openOk, hcore.slotRange, hcore.gw, hcore.st, ?_⟩
    · have := hcore.req
      simp only [State.liveCount, resDecrease, s2] at this ⊢
      rw [this]
      by_cases hm : s.maxReq = 0
      · simp [hm]
      · have : ¬ ((s.maxReq : Int) = 0) := by omega
        simp [hm, this]; omega
    · have := hcore.act
      simp only [State.liveCount, s2] at this ⊢
      omega
    · intro k hk hlk
      simp only [s2] at hk hlk ⊢
      by_cases hki : k = i
      · subst hki; rw [hgi] at hlk; cases hlk
      · rw [hoth k hki] at hlk ⊢; exact hcore.liveOk k hk hlk
    · intro k hk
      simp only [s2] at hk ⊢
      by_cases hki : k = i
      · subst hki
        refine ⟨fun hh => (by rw [hgi] at hh; cases hh), fun _ => ?_⟩
        have : g k = dead := by simp [g]
        rw [this]
        obtain ⟨f1, f2, f3⟩ := hfresh
        cases reset <;> simp [dead, ended, f1, f2, f3]
      · rw [hoth k hki]; exact hcore.once k hk
  have hdrain2 : ∀ c', c' ≠ c → Drain s2 c' := by
    intro c' hne hc' ho hg
    have := h.drain c' hc' ho hg
    have hk := countOn_kill_other s.stream g i s.nStreams c' hgi (fun e => hne e.symm) hoth
    simp only [State.activeOn, s2] at this ⊢
    omega
  show Inv (onStreamDestroy { s with stream := g } (s.stream i).conn)
  unfold onStreamDestroy
  simp only [hs2]
  split
  · exact inv_netClose s2 hcore2 c connLost hdrain2
  · rename_i hcl
    refine ⟨hcore2, fun c' => ?_⟩
    by_cases hcc : c' = c
    · rw [hcc]
      intro hc' ho hg
      rcases hcore.gw c with h0 | h0
      · exact absurd h0 hg
      · have : muxCloseOnDestroy (s.client c).state (s.client c).goaway ((s2.activeOn c : Nat) : Int) = false := by
          simpa using hcl
        simp only [muxCloseOnDestroy, h0, decide_true, Bool.true_and, decide_eq_false_iff_not] at this
        show 0 < s2.activeOn c
        omega
    · exact hdrain2 c' hcc

/-! ### go-away -/

theorem inv_goAway (s : State) (h : Inv s) (c : Nat) (hc : c < s.nClients) (ho : (s.client c).netOpen = true) :
    Inv (step s (.goAway c)).1 := by
  simp only [step, hc, ho, and_self, if_true]
  have hcore := h.core
  let s1 : State := s.updC c (fun cl => { cl with goaway := if muxGoAwaySetsFlag then muxGoAway else cl.goaway, state := muxGoAwayState })
  have hcl : ∀ k, s1.client k = if k = c then { s.client c with goaway := muxGoAway, state := muxGoAway } else s.client k := by
    intro k; simp [s1, State.updC, muxGoAwaySetsFlag, muxGoAwayState]
  have hcore1 : Core s1 := by
    refine ⟨hcore.req, hcore.act, ?_, ?_, ?_, hcore.slotRange, ?_, ?_, hcore.once⟩
    · intro i hi hl
      have ⟨h1, h2⟩ := hcore.liveOk i hi hl
      refine ⟨h1, ?_⟩
      show (s1.client (s.stream i).conn).netOpen = true
      rw [hcl]; split
      · rename_i e; rw [e] at h2; simpa using ho
      · exact h2
    · intro j c' hj
      have ⟨h1, h2, h3⟩ := hcore.slotOk j c' hj
      refine ⟨h1, ?_, ?_⟩
      · show (s1.client c').slot = j
        rw [hcl]; split
        · rename_i e; subst e; simpa using h2
        · exact h2
      · show (s1.client c').state = muxConnected → (s1.client c').netOpen = true
        rw [hcl]; split
        · intro hcon; exact absurd hcon go_ne_connected
        · exact h3
    · intro c' hc' ho' hg
      show s.slot (s1.client c').slot = .real c'
      rw [hcl] at ho' hg ⊢
      split
      · rename_i e; subst e; simp [muxGoAway] at hg
      · rename_i e; simp only [if_neg e] at ho' hg; exact hcore.openOk c' hc' ho' hg
    · intro c'
      rw [hcl]; split
      · right; rfl
      · exact hcore.gw c'
    · intro c' hc'
      rw [hcl]; split
      · simp [muxGoAway, muxConnected]
      · exact hcore.st c' hc'
  have hdr : ∀ c', c' ≠ c → Drain s1 c' := by
    intro c' hne hc' ho' hg
    rw [hcl, if_neg hne] at ho' hg
    exact h.drain c' hc' ho' hg
  show Inv (if muxCloseOnGoAway (s1.activeOn c) then netClose s1 c connLost else s1)
  split
  · exact inv_netClose s1 hcore1 c connLost hdr
  · rename_i hcg
    refine ⟨hcore1, fun c' => ?_⟩
    by_cases hcc : c' = c
    · subst hcc
      intro _ _ _
      simp only [muxCloseOnGoAway, decide_eq_true_eq] at hcg
      show 0 < s1.activeOn c'
      omega
    · exact hdr c' hcc

/-! ### CheckAndInit -/

/-- the slot does not hold a client that is open and has not been told to go away -/
def SlotFree (s : State) (i : Nat) : Prop := ∀ c', s.slot i = .real c' → (s.client c').goaway ≠ 0

theorem inv_setSlot_nonreal (s : State) (h : Inv s) (i : Nat) (v : SlotV) (hv : ∀ c, v ≠ .real c)
    (hfree : SlotFree s i) : Inv (s.setSlot i v) := by
  have hc := h.core
  refine ⟨⟨hc.req, hc.act, hc.liveOk, ?_, ?_, ?_, hc.gw, hc.st, hc.once⟩, h.drain⟩
  · intro j c hj
    simp only [State.setSlot] at hj
    split at hj
    · exact absurd hj (hv c)
    · exact hc.slotOk j c hj
  rotate_left
  · intro j c hj
    simp only [State.setSlot] at hj
    split at hj
    · exact absurd hj (hv c)
    · exact hc.slotRange j c hj
  · intro c' hc' ho hg
    have hold := hc.openOk c' hc' ho hg
    simp only [State.setSlot]
    split
    · rename_i e
      rw [e] at hold
      exact absurd hg (hfree c' hold)
    · exact hold

theorem inv_updState (s : State) (h : Inv s) (c : Nat) (x : Nat) (hx : x ≠ muxConnected)
    (hg : (s.client c).goaway ≠ 0) : Inv (s.updC c (fun cl => { cl with state := x })) := by
  have hc := h.core
  have hcl : ∀ k, (s.updC c (fun cl => { cl with state := x })).client k =
      if k = c then { s.client c with state := x } else s.client k := fun k => rfl
  refine ⟨⟨hc.req, hc.act, ?_, ?_, ?_, hc.slotRange, ?_, ?_, hc.once⟩, ?_⟩
  · intro i hi hl
    have ⟨h1, h2⟩ := hc.liveOk i hi hl
    refine ⟨h1, ?_⟩
    show ((s.updC c _).client (s.stream i).conn).netOpen = true
    rw [hcl]; split
    · rename_i e; rw [e] at h2; exact h2
    · exact h2
  · intro j c' hj
    have ⟨h1, h2, h3⟩ := hc.slotOk j c' hj
    refine ⟨h1, ?_, ?_⟩
    · show ((s.updC c _).client c').slot = j
      rw [hcl]; split
      · rename_i e; subst e; exact h2
      · exact h2
    · show ((s.updC c _).client c').state = muxConnected → ((s.updC c _).client c').netOpen = true
      rw [hcl]; split
      · intro hcon; exact absurd hcon hx
      · exact h3
  · intro c' hc' ho hg'
    show s.slot ((s.updC c _).client c').slot = .real c'
    rw [hcl] at ho hg' ⊢
    split
    · rename_i e; subst e; simp only [if_pos rfl] at hg'; exact absurd hg' hg
    · rename_i e; simp only [if_neg e] at ho hg'; exact hc.openOk c' hc' ho hg'
  · intro c'
    rw [hcl]; split
    · rename_i e; subst e; exact hc.gw c'
    · exact hc.gw c'
  · intro c' hc'
    rw [hcl]; split
    · rename_i e; subst e
      exact ⟨fun hcon => absurd hcon hx, fun h0 => absurd h0 hg⟩
    · exact hc.st c' hc'
  · intro c' hc' ho hg'
    rw [hcl] at ho hg'
    have : (s.client c').netOpen = true ∧ (s.client c').goaway ≠ 0 := by
      split at ho
      · rename_i e; subst e; exact ⟨ho, hg⟩
      · rename_i e; simp only [if_neg e] at hg'; exact ⟨ho, hg'⟩
    exact h.drain c' hc' this.1 this.2

/-- the connecting goroutine succeeded: a fresh client takes the slot -/
def withNewClient (s : State) (i : Nat) : State :=
  { s.setSlot i (.real s.nClients) with
    nClients := s.nClients + 1,
    client := fun k => if k = s.nClients then { state := muxFreshState, slot := i } else s.client k }

theorem inv_withNewClient (s : State) (h : Inv s) (i : Nat) (hi : i < s.nSlots) (hfree : SlotFree s i) : Inv (withNewClient s i) := by
  have hc := h.core
  have hcl : ∀ k, (withNewClient s i).client k = if k = s.nClients then { state := muxFreshState, slot := i } else s.client k :=
    fun k => rfl
  have hsl : ∀ j, (withNewClient s i).slot j = if j = i then .real s.nClients else s.slot j := fun j => rfl
  refine ⟨⟨hc.req, hc.act, ?_, ?_, ?_, ?_, ?_, ?_, hc.once⟩, ?_⟩
  · intro k hk hl
    have ⟨h1, h2⟩ := hc.liveOk k hk hl
    refine ⟨Nat.lt_succ_of_lt h1, ?_⟩
    show ((withNewClient s i).client (s.stream k).conn).netOpen = true
    rw [hcl, if_neg (Nat.ne_of_lt h1)]; exact h2
  · intro j c hj
    rw [hsl] at hj
    split at hj
    · rename_i e
      cases hj
      refine ⟨Nat.lt_succ_self _, ?_, ?_⟩
      · show ((withNewClient s i).client s.nClients).slot = j
        rw [hcl, if_pos rfl]; exact e.symm
      · intro _
        show ((withNewClient s i).client s.nClients).netOpen = true
        rw [hcl, if_pos rfl]
    · have ⟨h1, h2, h3⟩ := hc.slotOk j c hj
      refine ⟨Nat.lt_succ_of_lt h1, ?_, ?_⟩
      · show ((withNewClient s i).client c).slot = j
        rw [hcl, if_neg (Nat.ne_of_lt h1)]; exact h2
      · show ((withNewClient s i).client c).state = muxConnected → ((withNewClient s i).client c).netOpen = true
        rw [hcl, if_neg (Nat.ne_of_lt h1)]; exact h3
  · intro c' hc' ho hg
    show (withNewClient s i).slot ((withNewClient s i).client c').slot = .real c'
    rw [hcl] at ho hg ⊢
    by_cases e : c' = s.nClients
    · rw [e]; simp [hsl]
    · simp only [if_neg e] at ho hg ⊢
      have hlt : c' < s.nClients := by
        have : c' < s.nClients + 1 := hc'
        omega
      have hold := hc.openOk c' hlt ho hg
      rw [hsl]; split
      · rename_i e2; rw [e2] at hold; exact absurd hg (hfree c' hold)
      · exact hold
  · intro j c hj
    rw [hsl] at hj
    split at hj
    · rename_i e; rw [e]; exact hi
    · exact hc.slotRange j c hj
  · intro c'
    rw [hcl]; split
    · left; rfl
    · exact hc.gw c'
  · intro c' hc'
    rw [hcl]; split
    · simp [muxFreshState]
    · rename_i e
      have hlt : c' < s.nClients := by
        have : c' < s.nClients + 1 := hc'
        omega
      exact hc.st c' hlt
  · intro c' hc' ho hg
    rw [hcl] at ho hg
    by_cases e : c' = s.nClients
    · subst e; simp at hg
    · simp only [if_neg e] at ho hg
      have hlt : c' < s.nClients := by
        have : c' < s.nClients + 1 := hc'
        omega
      exact h.drain c' hlt ho hg

theorem inv_rr (s : State) (h : Inv s) (x : Nat) : Inv { s with rr := x } :=
  ⟨⟨h.core.req, h.core.act, h.core.liveOk, h.core.slotOk, h.core.openOk, h.core.slotRange, h.core.gw, h.core.st, h.core.once⟩, h.drain⟩

theorem inv_shutdown (s : State) (h : Inv s) : Inv { s with shutdown := true } :=
  ⟨⟨h.core.req, h.core.act, h.core.liveOk, h.core.slotOk, h.core.openOk, h.core.slotRange, h.core.gw, h.core.st, h.core.once⟩, h.drain⟩

theorem inv_connect (s : State) (h : Inv s) (i : Nat) (dial : Dial) (hi : i < s.nSlots) (hfree : SlotFree s i) : Inv (connect s i dial) := by
  unfold connect
  split
  · exact h
  · split
    · exact inv_setSlot_nonreal s h i .empty (by intro c hc; cases hc) hfree
    · exact inv_withNewClient s h i hi hfree

/-- what `CheckAndInit` does once the slot is chosen -/
theorem inv_withPlaceholder (s0 : State) (h0 : Inv s0) (i : Nat) : Inv (withPlaceholder s0 i) := by
  unfold withPlaceholder
  split
  · rename_i he
    exact inv_setSlot_nonreal s0 h0 i _ (by intro c hc; cases hc) (by intro c' hc'; rw [he] at hc'; cases hc')
  · exact h0

theorem inv_checkClient (s1 : State) (h1 : Inv s1) (i : Nat) (hi : i < s1.nSlots) (dial : Dial) : Inv (checkClient s1 i dial).1 := by
  unfold checkClient
  cases hst : s1.slotState i with
  | none => exact h1
  | some st =>
    simp only
    split
    · exact h1
    · split
      · rename_i hnr hre
        -- the state word of what sits in the slot moves on to Connecting
        have hto : muxReinitTo ≠ muxConnected := by decide
        have hstne : st ≠ muxConnected := by
          intro e; rw [e] at hnr; exact hnr (by decide)
        cases hsl : s1.slot i with
        | empty => simp [State.slotState, hsl] at hst
        | fake stf =>
          have hs2 : s1.setSlotState i muxReinitTo = s1.setSlot i (.fake muxReinitTo) := by
            simp [State.setSlotState, hsl]
          rw [hs2]
          have h2 := inv_setSlot_nonreal s1 h1 i (.fake muxReinitTo) (by intro c hc; cases hc)
            (by intro c' hc'; rw [hsl] at hc'; cases hc')
          exact inv_connect _ h2 i dial hi (by intro c' hc'; simp [State.setSlot] at hc')
        | real c =>
          have hs2 : s1.setSlotState i muxReinitTo = s1.updC c (fun cl => { cl with state := muxReinitTo }) := by
            simp [State.setSlotState, hsl]
          rw [hs2]
          have hstc : (s1.client c).state = st := by
            simp [State.slotState, hsl] at hst; exact hst
          have ⟨hcn, _, _⟩ := h1.core.slotOk i c hsl
          have hg : (s1.client c).goaway ≠ 0 := by
            intro hz
            have := (h1.core.st c hcn).mpr hz
            rw [hstc] at this; exact hstne this
          have h2 := inv_updState s1 h1 c muxReinitTo hto hg
          refine inv_connect _ h2 i dial hi ?_
          intro c' hc'
          have : s1.slot i = .real c' := hc'
          rw [hsl] at this
          cases this
          show ((s1.updC c _).client c).goaway ≠ 0
          simpa [State.updC] using hg
      · exact h1

theorem withPlaceholder_nSlots (s : State) (i : Nat) : (withPlaceholder s i).nSlots = s.nSlots := by
  unfold withPlaceholder; split <;> rfl

theorem inv_checkSlot (s0 : State) (h0 : Inv s0) (i : Nat) (dial : Dial) : Inv (checkSlot s0 i dial).1 := by
  unfold checkSlot
  split
  · rename_i hi
    exact inv_checkClient _ (inv_withPlaceholder s0 h0 i) i (by rw [withPlaceholder_nSlots]; exact hi) dial
  · exact h0

theorem inv_checkAndInit (s : State) (h : Inv s) (slot : Option Nat) (dial : Dial) :
    Inv (checkAndInit s slot dial).1 := by
  unfold checkAndInit
  cases slot with
  | some k => exact inv_checkSlot s h (slotIdx s k) dial
  | none =>
    simp only
    split
    · exact inv_checkSlot _ (inv_rr s h _) _ dial
    · exact inv_checkSlot s h 0 dial

theorem inv_foldClose (l : List Nat) (s : State) (h : Inv s) :
    Inv (l.foldl (fun s c => netClose s c connLost) s) := by
  induction l generalizing s with
  | nil => exact h
  | cons c r ih => exact ih _ (inv_netClose' s h c connLost)

theorem inv_step (s : State) (h : Inv s) (op : Op) : Inv (step s op).1 := by
  cases op with
  | checkAndInit slot dial => exact inv_checkAndInit s h slot dial
  | newStream k => exact inv_newStream s h k
  | newStreamOneway k => rw [show (step s (.newStreamOneway k)).1 = s from newStreamOneway_state s k]; exact h
  | response i =>
    simp only [step]; split
    · rename_i hh; exact inv_endStream s h i hh.1 hh.2 none
    · exact h
  | localReset i =>
    simp only [step]; split
    · rename_i hh; exact inv_endStream s h i hh.1 hh.2 _
    · exact h
  | garbage i =>
    simp only [step]; split
    · exact inv_netClose' s h _ _
    · exact h
  | goAway c =>
    by_cases hh : c < s.nClients ∧ (s.client c).netOpen = true
    · exact inv_goAway s h c hh.1 hh.2
    · simp only [step, hh, if_false]; exact h
  | connClose c remote => exact inv_netClose' s h c _
  | shutdown => exact inv_shutdown s h
  | closeAll => exact inv_foldClose _ s h
  | extInc =>
    have hc := h.core
    refine ⟨⟨?_, hc.act, hc.liveOk, hc.slotOk, hc.openOk, hc.slotRange, hc.gw, hc.st, hc.once⟩, h.drain⟩
    have := hc.req
    simp only [step, resIncrease, State.liveCount] at this ⊢
    rw [this]
    by_cases hm : s.maxReq = 0
    · simp [hm]
    · have : ¬ ((s.maxReq : Int) = 0) := by omega
      simp [hm, this]; omega
  | extDec =>
    simp only [step]; split
    · rename_i hpos
      have hc := h.core
      refine ⟨⟨?_, hc.act, hc.liveOk, hc.slotOk, hc.openOk, hc.slotRange, hc.gw, hc.st, hc.once⟩, h.drain⟩
      have := hc.req
      simp only [resDecrease, State.liveCount] at this ⊢
      rw [this]
      by_cases hm : s.maxReq = 0
      · simp [hm]
      · have : ¬ ((s.maxReq : Int) = 0) := by omega
        simp [hm, this]; omega
    · exact h

theorem inv_run (s : State) (h : Inv s) (ops : List Op) : Inv (run s ops) := by
  induction ops generalizing s with
  | nil => exact h
  | cons op r ih => exact ih _ (inv_step s h op)

end MosnVerif.Model.PoolMux
