import MosnVerif.Model.FrameChk
import MosnVerif.Lemmas.KVBlock
import MosnVerif.Lemmas.FrameSteps
/-! the checked-access decoders never read outside the received bytes, never over-drain, never over-allocate -/
namespace MosnVerif.Model.FrameChk
open MosnVerif.Model.Framing MosnVerif.Model.FrameBytes MosnVerif.Model.KVBlock MosnVerif.Model.FrameSteps
open MosnVerif.Gen.FrameLen MosnVerif.Gen.FrameConsts

/-- everything C08 asks of one `Decode` call on a buffer of `len` received bytes, with allocation budget `a` -/
structure Good (len a : Nat) (r : Res) : Prop where
  noOob   : r.out ≠ .oob
  frame   : ∀ n, r.out = .frame n → 0 < n ∧ n ≤ len
  error   : ∀ k, r.out = .error k → k ≤ len
  alloc   : r.alloc ≤ a

theorem good_needMore (len a : Nat) : Good len a Res.needMore := by
  constructor <;> simp [Res.needMore]

theorem good_frame (len a n : Nat) (h0 : 0 < n) (h : n ≤ len) : Good len a (Res.frame n) := by
  constructor <;> simp [Res.frame] <;> omega

theorem good_error (len a k : Nat) (h : k ≤ len) : Good len a (Res.error k) := by
  constructor <;> simp [Res.error] <;> omega

theorem good_alloc (len a n : Nat) (r : Res) (h : Good len a r) : Good len (a + n) (alloc n r) := by
  constructor
  · exact h.noOob
  · exact h.frame
  · exact h.error
  · have := h.alloc; simp [FrameBytes.alloc]; omega

theorem good_mono (len a a' : Nat) (r : Res) (h : Good len a r) (ha : a ≤ a') : Good len a' r :=
  ⟨h.noOob, h.frame, h.error, Nat.le_trans h.alloc ha⟩

theorem good_recovered (len a : Nat) (r : Res) (h : r.out = .oob ∨ Good len a r) (ha : r.alloc ≤ a) :
    Good len a (recovered r) := by
  unfold recovered
  rcases h with h | h
  · rw [h]; constructor <;> simp <;> omega
  · split
    · rename_i ho; exact absurd ho h.noOob
    · exact h

theorem need_ok (b : Bytes) (hi : Nat) (k : Res) (h : hi ≤ b.length) : need b hi k = k := by
  simp [need, h]

theorem rdBE_ok (b : Bytes) (r : Nat × Nat) (k : Nat → Res) (h1 : r.1 ≤ r.2) (h2 : r.2 ≤ b.length) :
    rdBE b r k = k (fld b r) := by
  simp [rdBE, h1, h2, fld]

theorem slice_ok (b : Bytes) (lo hi : Nat) (k : Bytes → Res) (h1 : lo ≤ hi) (h2 : hi ≤ b.length) :
    slice b lo hi k = k ((b.take hi).drop lo) := by
  simp [slice, h1, h2]

theorem slice_len (b : Bytes) (lo hi : Nat) (h2 : hi ≤ b.length) : ((b.take hi).drop lo).length = hi - lo := by
  simp [List.length_take, Nat.min_eq_left h2]

/-- arithmetic facts about the regenerated pieces of a bolt `decodeRequest/Response` -/
structure LayoutOk2 (L : Layout) : Prop where
  f1 : L.cl.1 ≤ L.cl.2 ∧ L.hl.1 ≤ L.hl.2 ∧ L.ctl.1 ≤ L.ctl.2
  f2 : ∀ l, L.short1 l = false → L.cl.2 ≤ l ∧ L.hl.2 ≤ l ∧ L.ctl.2 ≤ l ∧ L.hdrLen ≤ l
  f3 : ∀ l n, L.short2 l n = false → n ≤ l
  f4 : ∀ a b c, L.flen a b c = L.hdrLen + a + b + c
  f5 : ∀ a, L.hidx a = L.hdrLen + a
  f6 : ∀ h b, L.cidx h b = h + b
  f7 : ∀ n, L.drain n = n
  f8 : 0 < L.hdrLen
  f9 : L.cl.2 ≤ L.hdrLen ∧ L.hl.2 ≤ L.hdrLen ∧ L.ctl.2 ≤ L.hdrLen

theorem layoutOk2 (id : LayId) : LayoutOk2 (layoutOf id) := by
  cases id <;> constructor <;> simp only [layoutOf] <;> intros <;> (try frame_len_defs) <;> (try frame_consts_defs) <;>
    (try simp at *) <;> omega

theorem chkLayout_good (L : Layout) (hL : LayoutOk2 L) (b : Bytes) :
    Good b.length (b.length + b.length / 8) (chkLayout L b) := by
  unfold chkLayout
  by_cases h1 : L.short1 b.length
  · simp only [h1, ↓reduceIte]; exact good_needMore _ _
  · have h1' : L.short1 b.length = false := by simpa using h1
    have ⟨a1, a2, a3, a4⟩ := hL.f2 _ h1'
    simp only [h1, Bool.false_eq_true, ↓reduceIte]
    rw [rdBE_ok b L.cl _ hL.f1.1 a1, rdBE_ok b L.hl _ hL.f1.2.1 a2, rdBE_ok b L.ctl _ hL.f1.2.2 a3]
    generalize hcl : fld b L.cl = classLen
    generalize hhl : fld b L.hl = headerLen
    generalize hct : fld b L.ctl = contentLen
    by_cases h2 : L.short2 b.length (L.flen classLen headerLen contentLen)
    · simp only [h2, ↓reduceIte]; exact good_needMore _ _
    · have h2' : L.short2 b.length (L.flen classLen headerLen contentLen) = false := by simpa using h2
      have hn := hL.f3 _ _ h2'
      simp only [h2, Bool.false_eq_true, ↓reduceIte]
      rw [hL.f4] at hn ⊢
      rw [hL.f7, hL.f5, hL.f6, need_ok b _ _ a4]
      generalize hN : L.hdrLen + classLen + headerLen + contentLen = N at hn ⊢
      have hbudget : N + headerLen / 8 ≤ b.length + b.length / 8 := by
        have : headerLen / 8 ≤ b.length / 8 := Nat.div_le_div_right (by omega)
        omega
      rw [slice_ok b 0 N _ (by omega) hn]
      have hraw : ((b.take N).drop 0).length = N := by rw [slice_len b 0 N hn]; omega
      generalize hr : (b.take N).drop 0 = raw at hraw ⊢
      rw [slice_ok raw 0 L.hdrLen _ (by omega) (by omega)]
      have hpos := hL.f8
      -- the allocation of the frame copy, then the three optional wrappers
      have core : Good b.length (headerLen / 8)
          (if headerLen > 0 then
            slice raw (L.hdrLen + classLen) (L.hdrLen + classLen + headerLen) fun blk =>
              match safe blk with
              | .ok pairs => alloc pairs (Res.frame N)
              | .err => Res.error N
              | .oob => Res.oob
          else Res.frame N) := by
        by_cases hh : headerLen > 0
        · simp only [hh, ↓reduceIte]
          rw [slice_ok raw _ _ _ (by omega) (by omega)]
          have hblk : ((raw.take (L.hdrLen + classLen + headerLen)).drop (L.hdrLen + classLen)).length = headerLen := by
            rw [slice_len raw _ _ (by omega)]; omega
          generalize ((raw.take (L.hdrLen + classLen + headerLen)).drop (L.hdrLen + classLen)) = blk at hblk ⊢
          cases hs : safe blk with
          | ok pairs =>
            have hp := safe_pairs blk pairs hs
            have : pairs ≤ headerLen / 8 := by
              rw [hblk] at hp; exact (Nat.le_div_iff_mul_le (by omega)).mpr (by omega)
            simp only
            exact good_mono _ _ _ _ (by simpa using good_alloc b.length 0 pairs _ (good_frame b.length 0 N (by omega) hn)) this
          | err => exact good_error _ _ _ hn
          | oob => exact absurd hs (safe_no_oob blk)
        · simp only [hh, ↓reduceIte]; exact good_frame _ _ _ (by omega) hn
      have wrap : ∀ r, Good b.length (headerLen / 8) r →
          Good b.length (headerLen / 8)
            ((fun k => if classLen > 0 then slice raw L.hdrLen (L.hdrLen + classLen) (fun _ => k) else k)
              ((fun k => if contentLen > 0 then slice raw (L.hdrLen + classLen + headerLen) raw.length (fun _ => k) else k) r)) := by
        intro r hr'
        simp only
        by_cases hc : classLen > 0 <;> by_cases hd : contentLen > 0 <;> simp only [hc, hd, ↓reduceIte]
        · rw [slice_ok raw _ _ _ (by omega) (by omega), slice_ok raw _ _ _ (by omega) (by omega)]; exact hr'
        · rw [slice_ok raw _ _ _ (by omega) (by omega)]; exact hr'
        · rw [slice_ok raw _ _ _ (by omega) (by omega)]; exact hr'
        · exact hr'
      exact good_mono _ _ _ _ (by
        have := good_alloc b.length (headerLen / 8) N _ (wrap _ core)
        exact this) (by omega)

theorem chkV1_eq (b : Bytes) (k : Sel → Res) : chkV1 b k = k (v1rules b) := by
  unfold chkV1 v1rules
  by_cases h : bolt_enough b.length
  · have : bolt_cmdTypeIdx + 1 ≤ b.length := by frame_len_defs; simp at h; omega
    simp only [h, Bool.not_true, Bool.false_eq_true, ↓reduceIte, need_ok b _ _ this]
    split <;> simp_all
  · simp [h]

theorem chkV2_eq (b : Bytes) (k : Sel → Res) : chkV2 b k = k (v2rules b) := by
  unfold chkV2 v2rules
  by_cases h : boltv2_enough b.length
  · have : boltv2_cmdTypeIdx + 1 ≤ b.length := by frame_len_defs; simp at h; omega
    simp only [h, Bool.not_true, Bool.false_eq_true, ↓reduceIte, need_ok b _ _ this]
    split <;> simp_all
  · simp [h]

/-- the checked dispatch makes the same choice as the abstract one and never reads out of range -/
theorem chkSel_eq : ∀ (n : Nat) (v2 : Bool) (b : Bytes) (k : Sel → Res), chkSel n v2 b k = k (boltSel n v2 b) := by
  intro n
  induction n with
  | zero => intro v2 b k; simp [chkSel, boltSel]
  | succ n ih =>
    intro v2 b k
    cases v2
    · unfold chkSel boltSel
      by_cases hne : bolt_nonEmpty b.length
      · have : bolt_codeIdx + 1 ≤ b.length := by frame_len_defs; simp at hne; omega
        simp only [hne, ↓reduceIte, need_ok b _ _ this, Bool.true_and]
        split
        · exact ih true b k
        · exact chkV1_eq b k
      · simp only [hne, Bool.false_eq_true, ↓reduceIte, Bool.false_and]; exact chkV1_eq b k
    · unfold chkSel boltSel
      by_cases hne : boltv2_nonEmpty b.length
      · have : boltv2_codeIdx + 1 ≤ b.length := by frame_len_defs; simp at hne; omega
        simp only [hne, ↓reduceIte, need_ok b _ _ this, Bool.true_and]
        split
        · exact ih false b k
        · exact chkV2_eq b k
      · simp only [hne, Bool.false_eq_true, ↓reduceIte, Bool.false_and]; exact chkV2_eq b k

theorem chkBolt_good (v2 : Bool) (b : Bytes) : Good b.length (b.length + b.length / 8) (chkBolt v2 b) := by
  unfold chkBolt
  rw [chkSel_eq]
  split
  · exact good_needMore _ _
  · exact good_error _ _ _ (by omega)
  · rename_i id _; exact chkLayout_good _ (layoutOk2 id) b

theorem chkDubbo_good (oracle : Bytes → Bool) (b : Bytes) : Good b.length b.length (chkDubbo oracle b) := by
  unfold chkDubbo
  by_cases h1 : dubbo_enough1 b.length
  · have hl : 16 ≤ b.length := by frame_len_defs; simpa using h1
    simp only [h1, Bool.not_true, Bool.false_eq_true, ↓reduceIte]
    rw [rdBE_ok b dubbo_payLoadLen _ (by frame_len_defs; omega) (by frame_len_defs; omega)]
    by_cases h2 : dubbo_enough2 b.length (fld b dubbo_payLoadLen)
    · simp only [h2, Bool.not_true, Bool.false_eq_true, ↓reduceIte]
      rw [need_ok b _ _ (by frame_consts_defs; omega),
        rdBE_ok b dubbo_dataLen _ (by frame_len_defs; omega) (by frame_len_defs; omega)]
      have hsame : fld b dubbo_dataLen = fld b dubbo_payLoadLen := by frame_len_defs
      have hn : dubbo_frameLen (fld b dubbo_dataLen) ≤ b.length := by
        rw [hsame]; frame_len_defs; simp at h2; omega
      have hN : 16 ≤ dubbo_frameLen (fld b dubbo_dataLen) := by frame_len_defs; omega
      generalize dubbo_frameLen (fld b dubbo_dataLen) = N at hn hN ⊢
      rw [slice_ok b 0 N _ (by omega) hn]
      have hraw : ((b.take N).drop 0).length = N := by rw [slice_len b 0 N hn]; omega
      generalize (b.take N).drop 0 = body at hraw ⊢
      rw [slice_ok body _ _ _ (by frame_consts_defs; omega) (by omega)]
      have hd : dubbo_drain N = N := by frame_len_defs
      rw [hd]
      have := good_alloc b.length 0 N
      refine good_mono _ _ _ _ (this _ ?_) (by omega)
      split
      · split
        · exact good_frame _ _ _ (by omega) hn
        · exact good_error _ _ _ (by omega)
      · exact good_frame _ _ _ (by omega) hn
    · simp only [h2, Bool.not_false, ↓reduceIte]; exact good_needMore _ _
  · simp only [h1, Bool.not_false, ↓reduceIte]; exact good_needMore _ _

theorem chkTars_good (oracle : Bytes → Bool) (b : Bytes) : Good b.length b.length (chkTars oracle b) := by
  unfold chkTars
  by_cases h1 : b.length < tars_lenFieldSize
  · simp only [h1, ↓reduceIte]; exact good_needMore _ _
  · simp only [h1, ↓reduceIte]
    rw [rdBE_ok b _ _ (by simp) (by simp; omega)]
    generalize fld b (0, tars_lenFieldSize) = n
    by_cases h2 : n < tars_minPackageLength ∨ n > tars_maxPackageLength
    · simp only [h2, ↓reduceIte]
      split
      · exact good_error _ _ _ (by omega)
      · exact good_needMore _ _
    · simp only [h2, ↓reduceIte]
      by_cases h3 : b.length < n
      · simp only [h3, ↓reduceIte]; exact good_needMore _ _
      · simp only [h3, ↓reduceIte]
        have hmin : 4 ≤ n := by frame_consts_defs; omega
        rw [slice_ok b _ _ _ (by frame_consts_defs; omega) (by omega), slice_ok b 0 n _ (by omega) (by omega)]
        refine good_mono _ _ _ _ (good_alloc b.length 0 n _ ?_) (by omega)
        split
        · exact good_frame _ _ _ (by omega) (by omega)
        · exact good_error _ _ _ (by omega)

theorem chkThrift_good (oracle : Bytes → Bool) (b : Bytes) : Good b.length 0 (chkThrift oracle b) := by
  unfold chkThrift
  by_cases h1 : thrift_enough1 b.length
  · have hl : 6 ≤ b.length := by frame_len_defs; simpa using h1
    simp only [h1, Bool.not_true, Bool.false_eq_true, ↓reduceIte]
    rw [rdBE_ok b thrift_sizeField _ (by frame_len_defs; omega) (by frame_len_defs; omega)]
    by_cases h2 : thrift_enough2 b.length (fld b thrift_sizeField)
    · simp only [h2, Bool.not_true, Bool.false_eq_true, ↓reduceIte]
      rw [rdBE_ok b thrift_messageLen _ (by frame_len_defs; omega) (by frame_len_defs; omega)]
      have hsame : fld b thrift_messageLen = fld b thrift_sizeField := by frame_len_defs
      have hn : fld b thrift_messageLen + 4 ≤ b.length := by
        rw [hsame]; frame_len_defs; simp at h2; omega
      generalize fld b thrift_messageLen = m at hn ⊢
      -- every continuation below ends in needMore-free outcomes with zero allocation; an `oob` is recovered
      apply good_recovered
      · by_cases hoob : (slice b thrift_bodyLo (thrift_bodyHi m) fun body =>
            slice body 0 thrift_MagicLen fun _ =>
            rdBE body (thrift_MessageLenIdx, thrift_MessageLenIdx + thrift_MessageLenSize) fun _ =>
            rdBE body thrift_headerLength fun headerLength =>
            slice b 0 (thrift_frameLength m) fun raw =>
            slice body headerLength body.length fun _ =>
            slice body thrift_HeaderIdx body.length fun _ =>
            if oracle raw then Res.frame (thrift_drain (thrift_frameLength m)) else Res.error 0).out = .oob
        · left; exact hoob
        · right
          have hfl : thrift_drain (thrift_frameLength m) = m + 4 := by frame_len_defs
          constructor
          · exact hoob
          · intro n hf
            -- a frame outcome can only be the final `Res.frame (m+4)`
            revert hf
            simp only [slice, rdBE, Res.frame, Res.error, Res.oob, hfl]
            repeat' split
            all_goals simp
            all_goals omega
          · intro k hf
            revert hf
            simp only [slice, rdBE, Res.frame, Res.error, Res.oob, hfl]
            repeat' split
            all_goals simp
            all_goals omega
          · simp only [slice, rdBE, Res.frame, Res.error, Res.oob]
            repeat' split
            all_goals simp
      · simp only [slice, rdBE, Res.frame, Res.error, Res.oob]
        repeat' split
        all_goals simp
    · simp only [h2, Bool.not_false, ↓reduceIte]; exact good_needMore _ _
  · simp only [h1, Bool.not_false, ↓reduceIte]; exact good_needMore _ _

end MosnVerif.Model.FrameChk
