import MosnVerif.Model.ConfigCodec
import MosnVerif.Lemmas.GoDuration
import MosnVerif.Lemmas.ConfigMeta
/-! Lemmas behind C19: the generic codec round trip. -/
namespace MosnVerif.Model.ConfigCodec
open MosnVerif.Model MosnVerif.Model.GoDuration

/-! ### member lookup -/

theorem lookupLast_foldl_none (k : String) : (ms : List (String × Json)) → (acc : Option Json) →
    (∀ m ∈ ms, (fold m.1 == fold k) = false) →
    ms.foldl (fun acc m => if fold m.1 == fold k then some m.2 else acc) acc = acc
  | [], _, _ => rfl
  | m :: r, acc, h => by
    have hm := h m (by simp)
    simp only [List.foldl, hm]
    exact lookupLast_foldl_none k r acc (fun m' hm' => h m' (by simp [hm']))

theorem lookupLast_append (a b : List (String × Json)) (k : String) :
    lookupLast (a ++ b) k = b.foldl (fun acc m => if fold m.1 == fold k then some m.2 else acc) (lookupLast a k) := by
  simp [lookupLast, List.foldl_append]

/-- no member of `ms` matches `k` -/
def noMatch (ms : List (String × Json)) (k : String) : Prop := ∀ m ∈ ms, (fold m.1 == fold k) = false

theorem lookupLast_noMatch (ms : List (String × Json)) (k : String) (h : noMatch ms k) : lookupLast ms k = none :=
  lookupLast_foldl_none k ms none h

theorem lookupLast_mid (a b : List (String × Json)) (k : String) (j : Json) (ha : noMatch b k) :
    lookupLast (a ++ (k, j) :: b) k = some j := by
  rw [lookupLast_append]
  simp only [List.foldl, BEq.rfl, if_true]
  exact lookupLast_foldl_none k b (some j) ha

theorem lookupLast_skip (a b : List (String × Json)) (k : String) (ha : noMatch a k) (hb : noMatch b k) :
    lookupLast (a ++ b) k = none := by
  rw [lookupLast_append, lookupLast_noMatch a k ha]
  exact lookupLast_foldl_none k b none hb

/-! ### keys of an encoded struct -/

theorem encodeF_keys : (fs : Fields) → (vs : List CVal) → ∀ m ∈ encodeF fs vs, m.1 ∈ fs.keys
  | .nil, _ => by simp [encodeF]
  | .cons k o sh r, [] => by simp [encodeF]
  | .cons k o sh r, v :: vs => by
    intro m hm
    simp only [encodeF] at hm
    split at hm
    · exact List.mem_cons_of_mem _ (encodeF_keys r vs m hm)
    · simp only [List.mem_cons] at hm
      rcases hm with rfl | hm
      · simp [Fields.keys]
      · exact List.mem_cons_of_mem _ (encodeF_keys r vs m hm)

/-! ### the round trip -/

theorem rtL (e : Shape) (ih : ∀ v, wt e v = true → decode e (encode e v) = some (norm e v)) :
    (vs : List CVal) → wtL (wt e) vs = true → decodeL (decode e) (encodeL (encode e) vs) = some (normL (norm e) vs)
  | [], _ => by simp [encodeL, decodeL, normL]
  | v :: r, h => by
    simp only [wtL, Bool.and_eq_true] at h
    simp [encodeL, decodeL, normL, ih v h.1, rtL e ih r h.2]

theorem rtM (e : Shape) (ih : ∀ v, wt e v = true → decode e (encode e v) = some (norm e v)) :
    (kvs : List (String × CVal)) → wtM (wt e) kvs = true → decodeM (decode e) (encodeM (encode e) kvs) = some (normM (norm e) kvs)
  | [], _ => by simp [encodeM, decodeM, normM]
  | (k, v) :: r, h => by
    simp only [wtM, Bool.and_eq_true] at h
    simp [encodeM, decodeM, normM, ih v h.1, rtM e ih r h.2]

theorem encode_ne_null (e : Shape) (v : CVal) (he : ptrElemOK e = true) (hw : wt e v = true) : encode e v ≠ .null := by
  cases e <;> simp [ptrElemOK] at he <;> cases v <;> simp [wt] at hw <;> simp [encode]

theorem decode_ptr (e : Shape) (j : Json) (h : j ≠ .null) : decode (.ptr e) j = (decode e j).map (fun v => .ptr [v]) := by
  cases j <;> simp [decode] at h ⊢

mutual
theorem rt : (sh : Shape) → keysOK sh = true → (v : CVal) → wt sh v = true → decode sh (encode sh v) = some (norm sh v)
  | .str, _, v, hw => by cases v <;> simp [wt] at hw; simp [encode, decode, norm]
  | .num, _, v, hw => by cases v <;> simp [wt] at hw; simp [encode, decode, norm]
  | .bool, _, v, hw => by cases v <;> simp [wt] at hw; simp [encode, decode, norm]
  | .hole, _, v, hw => by cases v <;> simp [wt] at hw; simp [encode, decode, norm]
  | .hmap, _, v, hw => by cases v <;> simp [wt] at hw; simp [encode, decode, norm, hw]
  | .dur, _, v, hw => by
    cases v <;> simp [wt] at hw
    simp [encode, decode, norm, durU, parseDur_fmtDur _ hw.1 hw.2]
  | .struct fs, hk, v, hw => by
    cases v <;> simp [wt] at hw
    rename_i vs
    simp only [keysOK] at hk
    have := rtF fs hk [] vs hw (by intro k _ m hm; simp at hm)
    simp only [List.nil_append] at this
    simp [encode, decode, norm, this]
  | .slice e, hk, v, hw => by
    cases v <;> simp [wt] at hw
    rename_i n vs
    simp only [keysOK] at hk
    cases n with
    | true =>
      have : vs = [] := by simpa using hw.1
      subst this
      simp [encode, decode, norm, normL]
    | false => simp [encode, decode, norm, rtL e (rt e hk) vs hw.2]
  | .map e, hk, v, hw => by
    cases v <;> simp [wt] at hw
    rename_i n kvs
    simp only [keysOK] at hk
    cases n with
    | true =>
      have : kvs = [] := by simpa using hw.1
      subst this
      simp [encode, decode, norm, normM]
    | false => simp [encode, decode, norm, rtM e (rt e hk) kvs hw.2]
  | .ptr e, hk, v, hw => by
    cases v <;> simp [wt] at hw
    rename_i vs
    simp only [keysOK, Bool.and_eq_true] at hk
    have hk := hk.2
    obtain ⟨⟨hpe, hlen⟩, hwl⟩ := hw
    match vs, hlen, hwl with
    | [], _, _ => simp [encode, decode, norm, normL]
    | [v], _, hwl =>
      simp only [wtL, Bool.and_true] at hwl
      simp only [encode, norm, normL]
      rw [decode_ptr e _ (encode_ne_null e v hpe hwl), rt e hk v hwl]
      rfl
    | _ :: _ :: _, hlen, _ => simp at hlen
  | .metaS i fs, hk, v, hw => by
    cases v <;> simp [wt] at hw
    rename_i vs
    simp only [keysOK, Bool.and_eq_true] at hk
    obtain ⟨k, hg⟩ := metaAt_get fs i hk.1
    have hw2 : wtF fs (metaFix i vs) = true := wtF_set fs vs i k true metaShape _ hw.2 hg (wt_fromMeta _)
    have := rtF fs hk.2 [] (metaFix i vs) hw2 (by intro k _ m hm; simp at hm)
    simp only [List.nil_append] at this
    simp [encode, decode, norm, this]
  | .boxed e, hk, v, hw => by
    cases v <;> simp [wt] at hw
    rename_i vs
    simp only [keysOK] at hk
    match vs, hw with
    | [v], hw => simp [encode, decode, norm, normL, rt e hk v hw]
theorem rtF : (fs : Fields) → keysOKF fs = true → (pre : List (String × Json)) → (vs : List CVal) → wtF fs vs = true →
    (∀ k ∈ fs.keys, noMatch pre k) → decodeF fs (pre ++ encodeF fs vs) = some (normF fs vs)
  | .nil, _, pre, vs, hw, _ => by cases vs <;> simp [wtF] at hw; simp [decodeF, normF]
  | .cons k o sh r, hk, pre, vs, hw, hpre => by
    cases vs with
    | nil => simp [wtF] at hw
    | cons v vs =>
      simp only [wtF, Bool.and_eq_true] at hw
      simp only [keysOKF, Bool.and_eq_true, Bool.not_eq_true'] at hk
      obtain ⟨⟨hdist, hksh⟩, hkr⟩ := hk
      -- members produced by the remaining fields never match k
      have hrest : noMatch (encodeF r vs) k := by
        intro m hm
        have hmem := encodeF_keys r vs m hm
        have := List.any_eq_false.mp hdist m.1 hmem
        simpa using this
      have hprek : noMatch pre k := hpre k (by simp [Fields.keys])
      simp only [encodeF, normF]
      by_cases hom : (o && isEmpty v) = true
      · simp only [hom, if_true]
        have hl : lookupLast (pre ++ encodeF r vs) k = none := lookupLast_skip pre _ k hprek hrest
        have ih := rtF r hkr pre vs hw.2 (fun k' hk' => hpre k' (by simp [Fields.keys, hk']))
        simp [decodeF, hl, ih]
      · simp only [hom]
        have hl : lookupLast (pre ++ (k, encode sh v) :: encodeF r vs) k = some (encode sh v) :=
          lookupLast_mid pre _ k _ hrest
        -- the rest sees `pre ++ [(k, _)]` as its prefix
        have hpre' : ∀ k' ∈ r.keys, noMatch (pre ++ [(k, encode sh v)]) k' := by
          intro k' hk' m hm
          simp only [List.mem_append, List.mem_singleton] at hm
          rcases hm with hm | rfl
          · exact hpre k' (by simp [Fields.keys, hk']) m hm
          · have := List.any_eq_false.mp hdist k' hk'
            show (fold k == fold k') = false
            rw [Bool.eq_false_iff]
            intro e; apply this
            have e' : fold k = fold k' := by simpa using e
            simp [e']
        have ih := rtF r hkr (pre ++ [(k, encode sh v)]) vs hw.2 hpre'
        simp only [List.append_assoc, List.singleton_append] at ih
        simp [decodeF, hl, ih, rt sh hksh v hw.1]
end

/-! ### `norm` is what the cycle keeps: encoding is blind to it, and it is idempotent -/

theorem normL_length (e : Shape) : (vs : List CVal) → (normL (norm e) vs).length = vs.length
  | [] => by simp [normL]
  | v :: r => by simp [normL, normL_length e r]

theorem normM_isEmpty (e : Shape) (kvs : List (String × CVal)) : (normM (norm e) kvs).isEmpty = kvs.isEmpty := by
  cases kvs with
  | nil => simp [normM]
  | cons kv r => obtain ⟨k, v⟩ := kv; simp [normM]

theorem normL_isEmpty (e : Shape) (vs : List CVal) : (normL (norm e) vs).isEmpty = vs.isEmpty := by
  cases vs <;> simp [normL]

theorem isEmpty_norm (sh : Shape) (v : CVal) (hw : wt sh v = true) : isEmpty (norm sh v) = isEmpty v := by
  cases sh <;> cases v <;> simp [wt] at hw <;> simp [norm, isEmpty, normL_isEmpty, normM_isEmpty]

theorem isEmpty_zero (sh : Shape) (v : CVal) (hw : wt sh v = true) (he : isEmpty v = true) : isEmpty (zero sh) = true := by
  cases sh <;> cases v <;> simp [wt] at hw <;> simp [isEmpty] at he <;> simp [zero, isEmpty]

theorem enL (e : Shape) (ih : ∀ v, wt e v = true → encode e (norm e v) = encode e v) :
    (vs : List CVal) → wtL (wt e) vs = true → encodeL (encode e) (normL (norm e) vs) = encodeL (encode e) vs
  | [], _ => by simp [normL]
  | v :: r, h => by
    simp only [wtL, Bool.and_eq_true] at h
    simp [normL, encodeL, ih v h.1, enL e ih r h.2]

theorem enM (e : Shape) (ih : ∀ v, wt e v = true → encode e (norm e v) = encode e v) :
    (kvs : List (String × CVal)) → wtM (wt e) kvs = true → encodeM (encode e) (normM (norm e) kvs) = encodeM (encode e) kvs
  | [], _ => by simp [normM]
  | (k, v) :: r, h => by
    simp only [wtM, Bool.and_eq_true] at h
    simp [normM, encodeM, ih v h.1, enM e ih r h.2]

mutual
theorem en : (sh : Shape) → (v : CVal) → wt sh v = true → encode sh (norm sh v) = encode sh v
  | .str, v, hw => by cases v <;> simp [wt] at hw; simp [norm]
  | .num, v, hw => by cases v <;> simp [wt] at hw; simp [norm]
  | .bool, v, hw => by cases v <;> simp [wt] at hw; simp [norm]
  | .hole, v, hw => by cases v <;> simp [wt] at hw; simp [norm]
  | .hmap, v, hw => by cases v <;> simp [wt] at hw; simp [norm]
  | .dur, v, hw => by cases v <;> simp [wt] at hw; simp [norm]
  | .struct fs, v, hw => by
    cases v <;> simp [wt] at hw
    simp [norm, encode, enF fs _ hw]
  | .slice e, v, hw => by
    cases v <;> simp [wt] at hw
    simp [norm, encode, enL e (en e) _ hw.2]
  | .map e, v, hw => by
    cases v <;> simp [wt] at hw
    simp [norm, encode, enM e (en e) _ hw.2]
  | .ptr e, v, hw => by
    cases v <;> simp [wt] at hw
    rename_i vs
    match vs, hw with
    | [], _ => simp [norm, normL, encode]
    | v :: r, hw =>
      simp only [wtL, Bool.and_eq_true] at hw
      simp [norm, normL, encode, en e v hw.2.1]
  | .metaS i fs, v, hw => by
    cases v <;> simp [wt] at hw
    rename_i vs
    obtain ⟨k, hg⟩ := metaAt_get fs i hw.1
    have hlt : i < vs.length := by rw [wtF_length fs vs hw.2]; exact get?_lt fs i _ hg
    have hw2 : wtF fs (metaFix i vs) = true := wtF_set fs vs i k true metaShape _ hw.2 hg (wt_fromMeta _)
    have hget : (metaFix i vs)[i]? = some (fromMeta (mdOf vs[i]?)) := by simp [metaFix, hlt]
    have hn := normF_get fs _ i k true metaShape _ hw2 hg hget
    rw [norm_fromMeta] at hn
    have hfix : metaFix i (normF fs (metaFix i vs)) = normF fs (metaFix i vs) := by
      unfold metaFix at hn ⊢
      rw [hn, mdOf_fromMeta _ (mdOf_nodup _)]
      exact set_self _ i _ hn
    simp only [norm, encode, hfix, enF fs _ hw2]
  | .boxed e, v, hw => by
    cases v <;> simp [wt] at hw
    rename_i vs
    match vs, hw with
    | [v], hw => simp [norm, normL, encode, en e v hw]
theorem enF : (fs : Fields) → (vs : List CVal) → wtF fs vs = true → encodeF fs (normF fs vs) = encodeF fs vs
  | .nil, vs, _ => by cases vs <;> simp [encodeF]
  | .cons k o sh r, [], hw => by simp [wtF] at hw
  | .cons k o sh r, v :: vs, hw => by
    simp only [wtF, Bool.and_eq_true] at hw
    simp only [normF, encodeF]
    by_cases hom : (o && isEmpty v) = true
    · have ho : o = true := by simp only [Bool.and_eq_true] at hom; exact hom.1
      have he : isEmpty v = true := by simp only [Bool.and_eq_true] at hom; exact hom.2
      have hz := isEmpty_zero sh v hw.1 he
      subst ho
      simp only [Bool.true_and, he, if_true, hz, enF r vs hw.2]
    · simp only [hom]
      have : (o && isEmpty (norm sh v)) = (o && isEmpty v) := by rw [isEmpty_norm sh v hw.1]
      simp [this, hom, en sh v hw.1, enF r vs hw.2]
end

/-! ### decoded values are values of the shape -/

mutual
theorem wt_zero : (sh : Shape) → keysOK sh = true → wt sh (zero sh) = true
  | .str, _ => by simp [zero, wt]
  | .num, _ => by simp [zero, wt]
  | .bool, _ => by simp [zero, wt]
  | .hole, _ => by simp [zero, wt]
  | .hmap, _ => by simp [zero, wt, isObjOrNull]
  | .dur, _ => by simp [zero, wt, two63]
  | .struct fs, h => by simp only [keysOK] at h; simp [zero, wt, wtF_zero fs h]
  | .slice e, _ => by simp [zero, wt, wtL]
  | .map e, _ => by simp [zero, wt, wtM]
  | .ptr e, h => by simp only [keysOK, Bool.and_eq_true] at h; simp [zero, wt, wtL, h.1]
  | .metaS i fs, h => by simp only [keysOK, Bool.and_eq_true] at h; simp [zero, wt, h.1, wtF_zero fs h.2]
  | .boxed e, h => by simp only [keysOK] at h; simp [zero, wt, wt_zero e h]
theorem wtF_zero : (fs : Fields) → keysOKF fs = true → wtF fs (zeroF fs) = true
  | .nil, _ => by simp [zeroF, wtF]
  | .cons k o sh r, h => by
    simp only [keysOKF, Bool.and_eq_true] at h
    simp [zeroF, wtF, wt_zero sh h.1.2, wtF_zero r h.2]
end

theorem dwL (e : Shape) (ih : ∀ j v, decode e j = some v → wt e v = true) :
    (xs : List Json) → (vs : List CVal) → decodeL (decode e) xs = some vs → wtL (wt e) vs = true
  | [], vs, h => by simp [decodeL] at h; subst h; simp [wtL]
  | x :: r, vs, h => by
    simp only [decodeL] at h
    cases h1 : decode e x with
    | none => simp [h1] at h
    | some v =>
      cases h2 : decodeL (decode e) r with
      | none => simp [h1, h2] at h
      | some vs' =>
        simp [h1, h2] at h; subst h
        simp [wtL, ih x v h1, dwL e ih r vs' h2]

theorem dwM (e : Shape) (ih : ∀ j v, decode e j = some v → wt e v = true) :
    (ms : List (String × Json)) → (kvs : List (String × CVal)) → decodeM (decode e) ms = some kvs → wtM (wt e) kvs = true
  | [], kvs, h => by simp [decodeM] at h; subst h; simp [wtM]
  | (k, x) :: r, kvs, h => by
    simp only [decodeM] at h
    cases h1 : decode e x with
    | none => simp [h1] at h
    | some v =>
      cases h2 : decodeM (decode e) r with
      | none => simp [h1, h2] at h
      | some vs' =>
        simp [h1, h2] at h; subst h
        simp [wtM, ih x v h1, dwM e ih r vs' h2]

mutual
theorem dw : (sh : Shape) → keysOK sh = true → (j : Json) → (v : CVal) → decode sh j = some v → wt sh v = true
  | .str, _, j, v, h => by cases j <;> simp [decode] at h <;> subst h <;> simp [wt]
  | .num, _, j, v, h => by cases j <;> simp [decode] at h <;> subst h <;> simp [wt]
  | .bool, _, j, v, h => by cases j <;> simp [decode] at h <;> subst h <;> simp [wt]
  | .hole, _, j, v, h => by simp [decode] at h; subst h; simp [wt]
  | .hmap, _, j, v, h => by
    simp only [decode] at h
    split at h
    · rename_i ho; simp at h; subst h; simp [wt, ho]
    · simp at h
  | .dur, _, j, v, h => by
    simp only [decode] at h
    cases hd : durU j with
    | none => simp [hd] at h
    | some d =>
      simp [hd] at h; subst h
      have hr : -(two63 : Int) ≤ d ∧ d < (two63 : Int) := by
        cases j <;> simp [durU, parseDur] at hd <;> exact parseChars_range _ d hd
      simp [wt, hr.1, hr.2]
  | .struct fs, hk, j, v, h => by
    simp only [keysOK] at hk
    cases j <;> simp [decode] at h
    · subst h; simp [wt, wtF_zero fs hk]
    · obtain ⟨vs, hvs, rfl⟩ := h
      simp [wt, dwF fs hk _ vs hvs]
  | .slice e, hk, j, v, h => by
    simp only [keysOK] at hk
    cases j <;> simp [decode] at h
    · subst h; simp [wt, wtL]
    · obtain ⟨vs, hvs, rfl⟩ := h
      simp [wt, dwL e (dw e hk) _ vs hvs]
  | .map e, hk, j, v, h => by
    simp only [keysOK] at hk
    cases j <;> simp [decode] at h
    · subst h; simp [wt, wtM]
    · obtain ⟨vs, hvs, rfl⟩ := h
      simp [wt, dwM e (dw e hk) _ vs hvs]
  | .ptr e, hk, j, v, h => by
    simp only [keysOK, Bool.and_eq_true] at hk
    by_cases hj : j = .null
    · subst hj; simp [decode] at h; subst h; simp [wt, wtL, hk.1]
    · rw [decode_ptr e j hj] at h
      cases h1 : decode e j with
      | none => simp [h1] at h
      | some v' => simp [h1] at h; subst h; simp [wt, wtL, hk.1, dw e hk.2 j v' h1]
  | .metaS i fs, hk, j, v, h => by
    simp only [keysOK, Bool.and_eq_true] at hk
    cases j <;> simp [decode] at h
    · subst h; simp [wt, hk.1, wtF_zero fs hk.2]
    · obtain ⟨vs, hvs, rfl⟩ := h
      simp [wt, hk.1, dwF fs hk.2 _ vs hvs]
  | .boxed e, hk, j, v, h => by
    simp only [keysOK] at hk
    simp only [decode] at h
    cases h1 : decode e j with
    | none => simp [h1] at h
    | some v' => simp [h1] at h; subst h; simp [wt, dw e hk j v' h1]
theorem dwF : (fs : Fields) → keysOKF fs = true → (ms : List (String × Json)) → (vs : List CVal) →
    decodeF fs ms = some vs → wtF fs vs = true
  | .nil, _, ms, vs, h => by simp [decodeF] at h; subst h; simp [wtF]
  | .cons k o sh r, hk, ms, vs, h => by
    simp only [keysOKF, Bool.and_eq_true] at hk
    simp only [decodeF] at h
    cases h2 : decodeF r ms with
    | none => simp [h2] at h
    | some vs' =>
      cases hl : lookupLast ms k with
      | none =>
        simp [hl, h2] at h; subst h
        simp [wtF, wt_zero sh hk.1.2, dwF r hk.2 ms vs' h2]
      | some j =>
        cases h1 : decode sh j with
        | none => simp [hl, h1] at h
        | some v =>
          simp [hl, h1, h2] at h; subst h
          simp [wtF, dw sh hk.1.2 j v h1, dwF r hk.2 ms vs' h2]
end

end MosnVerif.Model.ConfigCodec
