import MosnVerif.Model.GaugeFlags
/-!
Lemmas about `Model/GaugeFlags.lean` (C10, builder c10r7): an unconditional list of movements moves its metric by the same
amount under every valuation of the condition atoms.
-/
namespace MosnVerif.Lemmas.GaugeFlags
open MosnVerif.Gen.GaugeSites MosnVerif.Model.GaugeFlags

theorem fires_of_nil (ρ : Val) (m : Move) (h : m.conds.isEmpty = true) : fires ρ m = true := by
  unfold fires
  cases hc : m.conds with
  | nil => rfl
  | cons a b => simp [hc] at h

theorem delta_uncond (ρ ρ' : Val) : ∀ ms : List Move, uncond ms = true → delta ρ ms = delta ρ' ms
  | [], _ => rfl
  | m :: ms, h => by
    simp only [uncond, List.all_cons, Bool.and_eq_true] at h
    simp only [delta, fires_of_nil ρ m h.1, fires_of_nil ρ' m h.1]
    rw [delta_uncond ρ ρ' ms (by simpa [uncond] using h.2)]

end MosnVerif.Lemmas.GaugeFlags
