import MosnVerif.Model.H2Payload
import MosnVerif.Lemmas.H2Frame
/-!
Round trips `parse (write f) = f` of every frame type through the regenerated writers and parsers, the agreement of
`MFramer`'s own writers with `Framer.Write*`, the reserved bits, and the error class of every payload against the RFC table.
-/
set_option linter.unusedSimpArgs false
namespace MosnVerif.Lemmas.H2Payload
open MosnVerif.Gen.H2Payload MosnVerif.Model.H2Payload
open MosnVerif.Model.H2Frame (FrameHeader Priority Bytes)

/-! ### bytes -/

theorem toNat_ofNat (x : Nat) (h : x < 256) : (UInt8.ofNat x).toNat = x := by
  simp [Nat.mod_eq_of_lt h]

theorem be32_u32be (v : Nat) (h : v < 2 ^ 32) (r : Bytes) : be32 ((u32be v ++ r).take 4) = v := by
  simp only [u32be, be32, byteAt, List.cons_append, List.nil_append, List.take_succ_cons, List.take_zero,
    List.getD_eq_getElem?_getD, List.getElem?_cons_zero, List.getElem?_cons_succ, Option.getD_some,
    Nat.shiftRight_eq_div_pow, UInt8.toNat_ofNat']
  omega

theorem drop_u32be (v : Nat) (r : Bytes) : (u32be v ++ r).drop 4 = r := by simp [u32be]

theorem length_u32be (v : Nat) : (u32be v).length = 4 := rfl

theorem be32_u32be' (v : Nat) (h : v < 2 ^ 32) : be32 (u32be v) = v := by
  have := be32_u32be v h []
  simpa [u32be] using this

theorem mu32be_eq (v : Nat) : mu32be v = u32be v := rfl
theorem mu16be_eq (v : Nat) : mu16be v = u16be v := rfl

theorem be16_u16be (v : Nat) (h : v < 2 ^ 16) (r : Bytes) : be16 ((u16be v ++ r).take 2) = v := by
  simp only [u16be, be16, byteAt, List.cons_append, List.nil_append, List.take_succ_cons, List.take_zero,
    List.getD_eq_getElem?_getD, List.getElem?_cons_zero, List.getElem?_cons_succ, Option.getD_some,
    Nat.shiftRight_eq_div_pow, UInt8.toNat_ofNat']
  omega

theorem mask31 (v : Nat) : v &&& 2147483647 = v % 2 ^ 31 := by
  have : (2147483647 : Nat) = 2 ^ 31 - 1 := by decide
  rw [this, Nat.and_two_pow_sub_one_eq_mod]

theorem bit31 (v : Nat) (h : v < 2 ^ 32) : (v &&& 2147483648 = 0) ↔ v < 2 ^ 31 := by
  have e : (2147483648 : Nat) = 2 ^ 31 := by decide
  rw [e]
  constructor
  · intro h0
    have := congrArg (fun x => Nat.testBit x 31) h0
    simp only [Nat.testBit_and, Nat.testBit_two_pow_self, Bool.and_true, Nat.zero_testBit] at this
    rw [Nat.testBit_eq_decide_div_mod_eq] at this
    simp only [decide_eq_false_iff_not] at this
    omega
  · intro hlt
    apply Nat.eq_of_testBit_eq
    intro i
    simp only [Nat.testBit_and, Nat.zero_testBit, Nat.testBit_two_pow]
    by_cases hi : 31 = i
    · subst hi; rw [Nat.testBit_lt_two_pow hlt]; rfl
    · simp [hi]

theorem validStreamID_iff (sid : Nat) (h : sid < 2 ^ 32) : validStreamID sid = true ↔ (sid ≠ 0 ∧ sid < 2 ^ 31) := by
  unfold validStreamID
  simp only [Bool.and_eq_true, decide_eq_true_eq, bit31 sid h]

theorem validStreamIDOrZero_iff (sid : Nat) (h : sid < 2 ^ 32) : validStreamIDOrZero sid = true ↔ sid < 2 ^ 31 := by
  unfold validStreamIDOrZero
  simp only [decide_eq_true_eq, bit31 sid h]

theorem or_bit31 (v : Nat) (h : v < 2 ^ 31) (e : Bool) : (v ||| (if e then 2147483648 else 0)) = v + (if e then 2 ^ 31 else 0) := by
  cases e
  · simp
  · simp only [if_true]
    have := Nat.two_pow_add_eq_or_of_lt h 1
    rw [Nat.mul_one] at this
    rw [Nat.or_comm, show (2147483648 : Nat) = 2 ^ 31 by decide, ← this, Nat.add_comm]

theorem mod31_lt (v : Nat) (h : v < 2 ^ 31) : v % 2 ^ 31 = v := Nat.mod_eq_of_lt h

/-! ### well-formed frames -/

/-- the value ranges the fields have by their Go types (uint32, uint8, [8]byte) and by RFC 7540 (31-bit stream ids, stream 0
where the frame type forbids it, zero padding, a frame below 2^24 octets, an extension type for a raw frame) -/
def WF : Frame → Prop
  | .data sid _ d pad =>
    0 < sid ∧ sid < 2 ^ 31 ∧ (∀ p', pad = some p' → p' = List.replicate p'.length 0 ∧ p'.length ≤ 255) ∧ d.length + 256 < 2 ^ 24
  | .headers sid _ _ pl pr frag =>
    0 < sid ∧ sid < 2 ^ 31 ∧ pl < 256 ∧ pr.streamDep < 2 ^ 31 ∧ pr.weight < 256 ∧ frag.length + 262 < 2 ^ 24
  | .priority sid p => 0 < sid ∧ sid < 2 ^ 31 ∧ p.streamDep < 2 ^ 31 ∧ p.weight < 256
  | .rst sid code => 0 < sid ∧ sid < 2 ^ 31 ∧ code < 2 ^ 32
  | .settings ss => (∀ s ∈ ss, s.1 < 2 ^ 16 ∧ s.2 < 2 ^ 32 ∧ (s.1 = 4 → s.2 < 2 ^ 31)) ∧ 6 * ss.length < 2 ^ 24
  | .settingsAck => True
  | .pushPromise sid pr _ pl frag => 0 < sid ∧ sid < 2 ^ 31 ∧ 0 < pr ∧ pr < 2 ^ 31 ∧ pl < 256 ∧ frag.length + 260 < 2 ^ 24
  | .ping _ d => d.length = 8
  | .goAway last code dbg => last < 2 ^ 31 ∧ code < 2 ^ 32 ∧ dbg.length + 8 < 2 ^ 24
  | .windowUpdate sid incr => sid < 2 ^ 31 ∧ 0 < incr ∧ incr < 2 ^ 31
  | .continuation sid _ frag => 0 < sid ∧ sid < 2 ^ 31 ∧ frag.length < 2 ^ 24
  | .raw t fl sid pl => 10 ≤ t ∧ t < 256 ∧ fl < 256 ∧ sid < 2 ^ 31 ∧ pl.length < 2 ^ 24

/-- what is read back from what `Framer.Write*` wrote (`allowIllegal` = `Framer.AllowIllegalWrites`) -/
def roundTrip (a : Bool) (f : Frame) : Option (Except PErr Frame) := (f.write a).map decode

theorem finishWrite_ok (t fl sid : Nat) (p : Bytes) (hp : p.length < 2 ^ 24) :
    finishWrite false t fl sid p = some ({ length := p.length, type := t, flags := fl, streamID := sid }, p) := by
  unfold finishWrite
  have : ¬ MosnVerif.Gen.H2Frame.writeTooLarge ≤ p.length := by
    unfold MosnVerif.Gen.H2Frame.writeTooLarge; omega
  simp [this]

theorem lookup_parser (t : Nat) (name : String) (h : frameParsers.lookup t = some name) :
    (frameParsers.lookup t).getD "parseUnknownFrame" = name := by rw [h]; rfl

/-! ### the dispatch -/

theorem parsePayload_priority (h : FrameHeader) (p : Bytes) (ht : h.type = 2) : parsePayload h p = parsePriority h p := by
  unfold parsePayload; rw [ht, lookup_parser 2 "parsePriorityFrame" (by decide)]; simp
theorem parsePayload_rst (h : FrameHeader) (p : Bytes) (ht : h.type = 3) : parsePayload h p = parseRst h p := by
  unfold parsePayload; rw [ht, lookup_parser 3 "parseRSTStreamFrame" (by decide)]; simp
theorem parsePayload_settings (h : FrameHeader) (p : Bytes) (ht : h.type = 4) : parsePayload h p = parseSettings h p := by
  unfold parsePayload; rw [ht, lookup_parser 4 "parseSettingsFrame" (by decide)]; simp
theorem parsePayload_push (h : FrameHeader) (p : Bytes) (ht : h.type = 5) : parsePayload h p = parsePushPromise h p := by
  unfold parsePayload; rw [ht, lookup_parser 5 "parsePushPromise" (by decide)]; simp
theorem parsePayload_ping (h : FrameHeader) (p : Bytes) (ht : h.type = 6) : parsePayload h p = parsePing h p := by
  unfold parsePayload; rw [ht, lookup_parser 6 "parsePingFrame" (by decide)]; simp
theorem parsePayload_goAway (h : FrameHeader) (p : Bytes) (ht : h.type = 7) : parsePayload h p = parseGoAway h p := by
  unfold parsePayload; rw [ht, lookup_parser 7 "parseGoAwayFrame" (by decide)]; simp
theorem parsePayload_wu (h : FrameHeader) (p : Bytes) (ht : h.type = 8) : parsePayload h p = parseWindowUpdate h p := by
  unfold parsePayload; rw [ht, lookup_parser 8 "parseWindowUpdateFrame" (by decide)]; simp
theorem parsePayload_cont (h : FrameHeader) (p : Bytes) (ht : h.type = 9) : parsePayload h p = parseContinuation h p := by
  unfold parsePayload; rw [ht, lookup_parser 9 "parseContinuationFrame" (by decide)]; simp
theorem parsePayload_data (h : FrameHeader) (p : Bytes) (ht : h.type = 0) : parsePayload h p = parseDataFrame h p := by
  unfold parsePayload; rw [ht, lookup_parser 0 "parseDataFrame" (by decide)]; simp
theorem parsePayload_headers (h : FrameHeader) (p : Bytes) (ht : h.type = 1) : parsePayload h p = parseHeadersFrame h p := by
  unfold parsePayload; rw [ht, lookup_parser 1 "parseHeadersFrame" (by decide)]; simp

theorem lookup_unknown (t : Nat) (h : 10 ≤ t) : (frameParsers.lookup t).getD "parseUnknownFrame" = "parseUnknownFrame" := by
  have hk : ∀ k : Nat, k < 10 → (t == k) = false := fun k hk => by simp; omega
  have : frameParsers.lookup t = none := by
    simp [frameParsers, List.lookup, hk]
  rw [this]; rfl

theorem parsePayload_unknown (h : FrameHeader) (p : Bytes) (ht : 10 ≤ h.type) : parsePayload h p = .ok (.unknown p) := by
  unfold parsePayload; rw [lookup_unknown _ ht]; simp

/-! ### the parsers on the byte layouts the writers produce (any 32-bit word: the reserved bit is part of the input) -/

theorem parsePing_ok (h : FrameHeader) (d : Bytes) (hs : h.streamID = 0) (hd : d.length = 8) : parsePing h d = .ok (.ping d) := by
  simp [parsePing, pPingLen, pPingSid, hd, hs]

theorem parseRst_ok (h : FrameHeader) (code : Nat) (hs : h.streamID ≠ 0) (hc : code < 2 ^ 32) :
    parseRst h (u32be code) = .ok (.rst code) := by
  have e : be32 (List.take 4 (u32be code)) = code := by simpa using be32_u32be code hc []
  simp [parseRst, pRstLen, pRstSid, length_u32be, pRstCode, hs, e]

theorem parseWindowUpdate_ok (h : FrameHeader) (v : Nat) (hv : v < 2 ^ 32) (hz : v % 2 ^ 31 ≠ 0) :
    parseWindowUpdate h (u32be v) = .ok (.windowUpdate (v % 2 ^ 31)) := by
  have e : be32 (List.take 4 (u32be v)) = v := by simpa using be32_u32be v hv []
  have hz' : decide (v % 2 ^ 31 = 0) = false := by simp [hz]
  simp only [parseWindowUpdate, pWuLen, length_u32be, pWuInc, pWuZero, e, mask31, hz']
  simp

theorem parseGoAway_ok (h : FrameHeader) (l c : Nat) (dbg : Bytes) (hs : h.streamID = 0) (hl : l < 2 ^ 32) (hc : c < 2 ^ 32) :
    parseGoAway h (u32be l ++ u32be c ++ dbg) = .ok (.goAway (l % 2 ^ 31) c dbg) := by
  have e1 : be32 (List.take 4 (u32be l ++ u32be c ++ dbg)) = l := by rw [List.append_assoc, be32_u32be _ hl]
  have e2 : be32 (List.take 4 (List.drop 4 (u32be l ++ u32be c ++ dbg))) = c := by
    rw [List.append_assoc, drop_u32be, be32_u32be c hc]
  have e3 : List.drop 8 (u32be l ++ u32be c ++ dbg) = dbg := by simp [u32be]
  have hlen : (u32be l ++ u32be c ++ dbg).length = dbg.length + 8 := by simp [length_u32be]; omega
  have h8 : ¬ dbg.length + 8 < 8 := by omega
  simp only [parseGoAway, pGoAwaySid, pGoAwayLen, hlen, pGoAwayLast, pGoAwayCode, pGoAwayDebug, e1, e2, e3, mask31, hs]
  simp [h8]

theorem pPrioDep_eq (v : Nat) : pPrioDep v = v % 2 ^ 31 := mask31 v
theorem pPrioExcl_eq (v d : Nat) : pPrioExcl v d = decide (d ≠ v) := rfl

theorem parsePriority_ok (h : FrameHeader) (v w : Nat) (hs : h.streamID ≠ 0) (hv : v < 2 ^ 32) (hw : w < 256) :
    parsePriority h (u32be v ++ u8be w) = .ok (.priority ⟨v % 2 ^ 31, decide (v % 2 ^ 31 ≠ v), w⟩) := by
  have e1 : pPrioV (u32be v ++ u8be w) = v := be32_u32be v hv _
  have e2 : pPrioWeight (u32be v ++ u8be w) = w := by simp [pPrioWeight, byteAt, u32be, u8be, Nat.mod_eq_of_lt hw]
  have g1 : pPrioSid h.flags h.streamID h.length (u32be v ++ u8be w) = false := by simp [pPrioSid, hs]
  have g2 : pPrioLen h.flags h.streamID h.length (u32be v ++ u8be w) = false := by simp [pPrioLen, u32be, u8be]
  unfold parsePriority
  rw [g1, g2, e1, e2, pPrioDep_eq, pPrioExcl_eq]
  rfl

theorem parseContinuation_ok (h : FrameHeader) (p : Bytes) (hs : h.streamID ≠ 0) : parseContinuation h p = .ok (.continuation p) := by
  simp [parseContinuation, pContSid, hs]

/-! ### round trips -/

theorem rt_ping (a ack : Bool) (d : Bytes) (hd : d.length = 8) : roundTrip a (.ping ack d) = some (.ok (.ping ack d)) := by
  simp only [roundTrip, Frame.write, wPingRefuse, wPingType, wPingFlags, wPingSid, wPingPayload,
    finishWrite_ok _ _ _ d (by omega), Option.map_some, decode]
  rw [parsePayload_ping _ _ rfl, parsePing_ok _ _ rfl hd]
  cases ack <;> simp [toFrame, readHdr, has, flagsHas, flagPingAck]

theorem rt_rst (a : Bool) (sid code : Nat) (h0 : 0 < sid) (hs : sid < 2 ^ 31) (hc : code < 2 ^ 32) :
    roundTrip a (.rst sid code) = some (.ok (.rst sid code)) := by
  have hv : validStreamID sid = true := (validStreamID_iff sid (by omega)).2 ⟨by omega, hs⟩
  simp only [roundTrip, Frame.write, wRstRefuse, wRstType, wRstFlags, wRstSid, wRstPayload, hv, Bool.not_true, Bool.false_and,
    finishWrite_ok _ _ _ (u32be code) (by rw [length_u32be]; decide), Option.map_some, decode]
  rw [parsePayload_rst _ _ rfl, parseRst_ok _ _ (by simp [readHdr, mod31_lt sid hs]; omega) hc]
  simp [toFrame, readHdr, mod31_lt sid hs]

theorem roundTrip_of (a : Bool) (f : Frame) (h : FrameHeader) (p : Bytes) (b : Body) (hw : f.write a = some (h, p))
    (hp : parsePayload (readHdr h) p = .ok b) (ht : toFrame (readHdr h) b = f) : roundTrip a f = some (.ok f) := by
  unfold roundTrip
  rw [hw, Option.map_some, decode]
  simp only [hp, ht]

theorem rt_windowUpdate (a : Bool) (sid incr : Nat) (hs : sid < 2 ^ 31) (h0 : 0 < incr) (hi : incr < 2 ^ 31) :
    roundTrip a (.windowUpdate sid incr) = some (.ok (.windowUpdate sid incr)) := by
  have hr : wWindowUpdateRefuse a sid incr = false := by
    have h1 : decide (incr < 1) = false := decide_eq_false (by omega)
    have h2 : decide (incr > 2147483647) = false := decide_eq_false (by omega)
    unfold wWindowUpdateRefuse
    rw [h1, h2]; rfl
  have hz : incr % 2 ^ 31 ≠ 0 := by rw [mod31_lt incr hi]; omega
  apply roundTrip_of a _ ⟨4, 8, 0, sid⟩ (u32be incr) (.windowUpdate (incr % 2 ^ 31))
  · show finishWrite (wWindowUpdateRefuse a sid incr) 8 0 sid (u32be incr) = _
    rw [hr, finishWrite_ok _ _ _ _ (by rw [length_u32be]; decide), length_u32be]
  · rw [parsePayload_wu _ _ rfl]
    exact parseWindowUpdate_ok _ incr (by omega) hz
  · simp only [toFrame, readHdr, mod31_lt sid hs, mod31_lt incr hi]

theorem rt_goAway (a : Bool) (last code : Nat) (dbg : Bytes) (hl : last < 2 ^ 31) (hc : code < 2 ^ 32) (hd : dbg.length + 8 < 2 ^ 24) :
    roundTrip a (.goAway last code dbg) = some (.ok (.goAway last code dbg)) := by
  have hlen : (u32be (last &&& 2147483647) ++ u32be code ++ dbg).length = dbg.length + 8 := by
    simp [length_u32be]; omega
  simp only [roundTrip, Frame.write, wGoAwayRefuse, wGoAwayType, wGoAwayFlags, wGoAwaySid, wGoAwayPayload,
    finishWrite_ok _ _ _ _ (by rw [hlen]; omega), Option.map_some, decode]
  rw [parsePayload_goAway _ _ rfl, parseGoAway_ok _ _ _ _ rfl (by rw [mask31]; omega) hc]
  simp [toFrame, mask31, mod31_lt last hl]

theorem rt_priority (a : Bool) (sid : Nat) (p : Priority) (h0 : 0 < sid) (hs : sid < 2 ^ 31) (hd : p.streamDep < 2 ^ 31) (hw : p.weight < 256) :
    roundTrip a (.priority sid p) = some (.ok (.priority sid p)) := by
  have hv : validStreamID sid = true := (validStreamID_iff sid (by omega)).2 ⟨by omega, hs⟩
  have hz : validStreamIDOrZero p.streamDep = true := (validStreamIDOrZero_iff _ (by omega)).2 hd
  obtain ⟨dep, ex, w⟩ := p
  simp only at hd hw hz
  have hlen : (u32be (dep ||| (if ex then 2147483648 else 0)) ++ u8be w).length = 5 := rfl
  have hv32 : dep + (if ex then 2 ^ 31 else 0) < 2 ^ 32 := by cases ex <;> simp <;> omega
  simp only [roundTrip, Frame.write, wPriorityRefuse, wPriorityType, wPriorityFlags, wPrioritySid, wPriorityPayload, hv, hz,
    Bool.not_true, Bool.false_and, Bool.or_self, or_bit31 dep hd ex]
  rw [finishWrite_ok _ _ _ _ (by simp [u32be, u8be])]
  simp only [Option.map_some, decode]
  rw [parsePayload_priority _ _ rfl, parsePriority_ok _ _ _ (by simp [readHdr, mod31_lt sid hs]; omega) hv32 hw]
  cases ex
  · simp [toFrame, readHdr, mod31_lt sid hs, Nat.mod_eq_of_lt hd]
  · have e : (dep + 2 ^ 31) % 2 ^ 31 = dep := by omega
    simp only [if_true, e]
    have : dep ≠ dep + 2 ^ 31 := by omega
    simp [toFrame, readHdr, mod31_lt sid hs, this]

theorem rt_continuation (a : Bool) (sid : Nat) (eh : Bool) (frag : Bytes) (h0 : 0 < sid) (hs : sid < 2 ^ 31) (hf : frag.length < 2 ^ 24) :
    roundTrip a (.continuation sid eh frag) = some (.ok (.continuation sid eh frag)) := by
  have hv : validStreamID sid = true := (validStreamID_iff sid (by omega)).2 ⟨by omega, hs⟩
  simp only [roundTrip, Frame.write, wContinuationRefuse, wContinuationType, wContinuationFlags, wContinuationSid, wContinuationPayload,
    hv, Bool.not_true, Bool.false_and, finishWrite_ok _ _ _ frag hf, Option.map_some, decode]
  rw [parsePayload_cont _ _ rfl, parseContinuation_ok _ _ (by simp [readHdr, mod31_lt sid hs]; omega)]
  cases eh <;> simp [toFrame, readHdr, has, flagsHas, flagContinuationEndHeaders, mod31_lt sid hs]

theorem rt_raw (a : Bool) (t fl sid : Nat) (pl : Bytes) (ht : 10 ≤ t) (hs : sid < 2 ^ 31) (hp : pl.length < 2 ^ 24) :
    roundTrip a (.raw t fl sid pl) = some (.ok (.raw t fl sid pl)) := by
  simp only [roundTrip, Frame.write, wRawRefuse, wRawType, wRawFlags, wRawSid, wRawPayload,
    finishWrite_ok _ _ _ pl hp, Option.map_some, decode]
  rw [parsePayload_unknown _ _ (by simpa [readHdr] using ht)]
  simp [toFrame, readHdr, mod31_lt sid hs]

/-! #### SETTINGS -/

def encSetting (s : Nat × Nat) : Bytes := u16be s.1 ++ u32be s.2

theorem length_encSetting (s : Nat × Nat) : (encSetting s).length = 6 := rfl

theorem length_encSettings (ss : List (Nat × Nat)) : (ss.flatMap encSetting).length = 6 * ss.length := by
  induction ss with
  | nil => rfl
  | cons s r ih => simp only [List.flatMap_cons, List.length_append, length_encSetting, ih, List.length_cons]; omega

theorem drop_encSettings (ss : List (Nat × Nat)) (i : Nat) (hi : i < ss.length) :
    (ss.flatMap encSetting).drop (i * 6) = encSetting (ss.getD i (0, 0)) ++ (ss.drop (i + 1)).flatMap encSetting := by
  induction ss generalizing i with
  | nil => simp at hi
  | cons s r ih =>
    cases i with
    | zero => simp
    | succ i =>
      have : (i + 1) * 6 = 6 + i * 6 := by omega
      rw [List.flatMap_cons, this, ← List.drop_drop, List.drop_left' (length_encSetting s)]
      simpa using ih i (by simpa using hi)

theorem settingAt_enc (ss : List (Nat × Nat)) (i : Nat) (hi : i < ss.length)
    (hr : ∀ s ∈ ss, s.1 < 2 ^ 16 ∧ s.2 < 2 ^ 32) : settingAt (ss.flatMap encSetting) i = ss.getD i (0, 0) := by
  have hm : ss.getD i (0, 0) ∈ ss := by
    rw [List.getD_eq_getElem?_getD, List.getElem?_eq_getElem hi]; exact List.getElem_mem hi
  obtain ⟨h1, h2⟩ := hr _ hm
  unfold settingAt setIdLo setIdHi setValLo setValHi
  have e1 : i * 6 + 2 - i * 6 = 2 := by omega
  have e2 : i * 6 + 6 - (i * 6 + 2) = 4 := by omega
  have e3 : List.drop (i * 6 + 2) (ss.flatMap encSetting) = List.drop 2 (List.drop (i * 6) (ss.flatMap encSetting)) := by
    rw [List.drop_drop, Nat.add_comm]
  rw [e1, e2, e3, drop_encSettings ss i hi,
    show encSetting (ss.getD i (0, 0)) = u16be (ss.getD i (0, 0)).1 ++ u32be (ss.getD i (0, 0)).2 from rfl]
  rw [List.append_assoc, be16_u16be _ h1]
  have : List.drop 2 (u16be (ss.getD i (0, 0)).1 ++ (u32be (ss.getD i (0, 0)).2 ++ (ss.drop (i + 1)).flatMap encSetting)) =
      u32be (ss.getD i (0, 0)).2 ++ (ss.drop (i + 1)).flatMap encSetting := by simp [u16be]
  rw [this, be32_u32be _ h2]

theorem settingsOf_enc (ss : List (Nat × Nat)) (hr : ∀ s ∈ ss, s.1 < 2 ^ 16 ∧ s.2 < 2 ^ 32) :
    settingsOf (ss.flatMap encSetting) = ss := by
  unfold settingsOf numSettings
  rw [length_encSettings, Nat.mul_div_cancel_left _ (by decide : 0 < 6)]
  apply List.ext_getElem
  · simp
  · intro i h1 h2
    simp only [List.getElem_map, List.getElem_range]
    rw [settingAt_enc ss i h2 hr, List.getD_eq_getElem?_getD, List.getElem?_eq_getElem h2]; rfl

theorem wSettingsPayload_eq (ss : List (Nat × Nat)) : wSettingsPayload ss = ss.flatMap encSetting := rfl

theorem parseSettings_ok (h : FrameHeader) (ss : List (Nat × Nat)) (hs : h.streamID = 0)
    (hfl : flagsHas h.flags 1 = false ∨ h.length = 0)
    (hr : ∀ s ∈ ss, s.1 < 2 ^ 16 ∧ s.2 < 2 ^ 32 ∧ (s.1 = 4 → s.2 < 2 ^ 31)) :
    parseSettings h (ss.flatMap encSetting) = .ok (.settings ss) := by
  have hso := settingsOf_enc ss (fun s hs => ⟨(hr s hs).1, (hr s hs).2.1⟩)
  have g1 : pSettingsAckLen h.flags h.streamID h.length (ss.flatMap encSetting) = false := by
    unfold pSettingsAckLen
    rcases hfl with h1 | h1
    · rw [h1]; rfl
    · rw [h1]; simp
  have g2 : pSettingsSid h.flags h.streamID h.length (ss.flatMap encSetting) = false := by simp [pSettingsSid, hs]
  have g3 : pSettingsMod h.flags h.streamID h.length (ss.flatMap encSetting) = false := by
    unfold pSettingsMod
    rw [length_encSettings, Nat.mul_mod_right]
    rfl
  have g4 : pSettingsWinBad (settingValue (ss.flatMap encSetting) pSettingsWinId).1 (settingValue (ss.flatMap encSetting) pSettingsWinId).2 = false := by
    unfold settingValue
    rw [hso]
    cases hf : ss.find? (fun s => s.1 == pSettingsWinId) with
    | none => simp [pSettingsWinBad]
    | some s =>
      have hm := List.mem_of_find?_eq_some hf
      have hp := List.find?_some hf
      have : s.1 = 4 := by simpa [pSettingsWinId] using hp
      have := (hr s hm).2.2 this
      simp only [pSettingsWinBad, Bool.true_and, decide_eq_false_iff_not]
      omega
  unfold parseSettings
  rw [g1, g2, g3, g4, hso]
  rfl

theorem rt_settings (a : Bool) (ss : List (Nat × Nat)) (hr : ∀ s ∈ ss, s.1 < 2 ^ 16 ∧ s.2 < 2 ^ 32 ∧ (s.1 = 4 → s.2 < 2 ^ 31))
    (hl : 6 * ss.length < 2 ^ 24) : roundTrip a (.settings ss) = some (.ok (.settings ss)) := by
  apply roundTrip_of a _ ⟨6 * ss.length, 4, 0, 0⟩ (ss.flatMap encSetting) (.settings ss)
  · show finishWrite false 4 0 0 (wSettingsPayload ss) = _
    rw [wSettingsPayload_eq, finishWrite_ok _ _ _ _ (by rw [length_encSettings]; exact hl), length_encSettings]
  · rw [parsePayload_settings _ _ rfl]
    exact parseSettings_ok _ ss rfl (Or.inl (by simp [readHdr, flagsHas])) hr
  · simp [toFrame, readHdr, has, flagsHas, flagSettingsAck]

theorem rt_settingsAck (a : Bool) : roundTrip a .settingsAck = some (.ok .settingsAck) := by
  apply roundTrip_of a _ ⟨0, 4, 1, 0⟩ [] (.settings [])
  · rfl
  · rw [parsePayload_settings _ _ rfl]
    exact parseSettings_ok _ [] rfl (Or.inr rfl) (by simp)
  · simp [toFrame, readHdr, has, flagsHas, flagSettingsAck]

/-! #### PUSH_PROMISE -/

theorem pPushPromised_eq (v : Nat) : pPushPromised v = v % 2 ^ 31 := mask31 v

theorem parsePush_plain (h : FrameHeader) (v : Nat) (frag : Bytes) (hs : h.streamID ≠ 0) (hf : flagsHas h.flags 8 = false) (hv : v < 2 ^ 32) :
    parsePushPromise h (u32be v ++ frag) = .ok (.pushPromise (v % 2 ^ 31) frag) := by
  have g1 : pPushSid h.flags h.streamID h.length (u32be v ++ frag) = false := by simp [pPushSid, hs]
  have g2 : pPushPadded h.flags h.streamID h.length (u32be v ++ frag) = false := by simp [pPushPadded, hf]
  have g3 : readUint32Short (u32be v ++ frag) = false := by
    simp only [readUint32Short, List.length_append, length_u32be, decide_eq_false_iff_not]; omega
  have g4 : pPushPadBig 0 frag = false := by simp [pPushPadBig]
  have g5 : pPushFrag 0 frag = frag := by simp [pPushFrag]
  unfold parsePushPromise
  simp only [g1, g2, g3, Bool.false_eq_true, if_false, be32_u32be v hv, drop_u32be, g4, g5]
  rw [pPushPromised_eq]

theorem parsePush_padded (h : FrameHeader) (v pl : Nat) (frag : Bytes) (hs : h.streamID ≠ 0) (hf : flagsHas h.flags 8 = true)
    (hv : v < 2 ^ 32) (hp : pl < 256) :
    parsePushPromise h (u8be pl ++ u32be v ++ frag ++ List.replicate pl 0) = .ok (.pushPromise (v % 2 ^ 31) frag) := by
  have ep : u8be pl ++ u32be v ++ frag ++ List.replicate pl 0 = UInt8.ofNat pl :: (u32be v ++ (frag ++ List.replicate pl 0)) := by
    simp [u8be]
  rw [ep]
  have g1 : pPushSid h.flags h.streamID h.length (UInt8.ofNat pl :: (u32be v ++ (frag ++ List.replicate pl 0))) = false := by
    simp [pPushSid, hs]
  have g2 : pPushPadded h.flags h.streamID h.length (UInt8.ofNat pl :: (u32be v ++ (frag ++ List.replicate pl 0))) = true := by
    simp [pPushPadded, hf]
  have g0 : readByteShort (UInt8.ofNat pl :: (u32be v ++ (frag ++ List.replicate pl 0))) = false := by simp [readByteShort]
  have gb : byteAt (UInt8.ofNat pl :: (u32be v ++ (frag ++ List.replicate pl 0))) 0 = pl := by
    simp [byteAt, Nat.mod_eq_of_lt hp]
  have g3 : readUint32Short (u32be v ++ (frag ++ List.replicate pl 0)) = false := by
    simp only [readUint32Short, List.length_append, length_u32be, decide_eq_false_iff_not]; omega
  have g4 : pPushPadBig pl (frag ++ List.replicate pl 0) = false := by
    simp only [pPushPadBig, List.length_append, List.length_replicate, decide_eq_false_iff_not]; omega
  have g5 : pPushFrag pl (frag ++ List.replicate pl 0) = frag := by
    simp only [pPushFrag, List.length_append, List.length_replicate, Nat.add_sub_cancel, List.take_left']
  unfold parsePushPromise
  simp only [g1, g2, g0, gb, Bool.false_eq_true, if_false, if_true, List.drop_succ_cons, List.drop_zero, g3,
    be32_u32be v hv, drop_u32be, g4, g5]
  rw [pPushPromised_eq]

theorem rt_pushPromise (a : Bool) (sid pr : Nat) (eh : Bool) (pl : Nat) (frag : Bytes) (h0 : 0 < sid) (hs : sid < 2 ^ 31)
    (hp0 : 0 < pr) (hp : pr < 2 ^ 31) (hpl : pl < 256) (hf : frag.length + 260 < 2 ^ 24) :
    roundTrip a (.pushPromise sid pr eh pl frag) = some (.ok (.pushPromise sid pr eh pl frag)) := by
  have hv : validStreamID sid = true := (validStreamID_iff sid (by omega)).2 ⟨by omega, hs⟩
  have hv2 : validStreamID pr = true := (validStreamID_iff pr (by omega)).2 ⟨by omega, hp⟩
  have hr : wPushPromiseRefuse a sid pr eh pl frag = false := by simp [wPushPromiseRefuse, hv, hv2]
  have hne : sid % 2 ^ 31 ≠ 0 := by rw [mod31_lt sid hs]; omega
  by_cases hz : pl = 0
  · subst hz
    apply roundTrip_of a _ ⟨4 + frag.length, 5, (if eh then 4 else 0), sid⟩ (u32be pr ++ frag) (.pushPromise pr frag)
    · show finishWrite (wPushPromiseRefuse a sid pr eh 0 frag) _ _ _ _ = _
      rw [hr]
      have : wPushPromisePayload a sid pr eh 0 frag = u32be pr ++ frag := by simp [wPushPromisePayload]
      rw [this, finishWrite_ok _ _ _ _ (by simp [length_u32be]; omega)]
      cases eh <;> simp [wPushPromiseType, wPushPromiseFlags, wPushPromiseSid, length_u32be, Nat.add_comm]
    · rw [parsePayload_push _ _ rfl, parsePush_plain _ pr frag hne (by cases eh <;> simp [readHdr, flagsHas]) (by omega), mod31_lt pr hp]
    · cases eh <;> simp [toFrame, readHdr, has, flagsHas, mod31_lt sid hs, flagPushPromiseEndHeaders, flagPushPromisePadded]
  · apply roundTrip_of a _ ⟨1 + 4 + frag.length + pl, 5, 8 ||| (if eh then 4 else 0), sid⟩
      (u8be pl ++ u32be pr ++ frag ++ List.replicate pl 0) (.pushPromise pr frag)
    · show finishWrite (wPushPromiseRefuse a sid pr eh pl frag) _ _ _ _ = _
      rw [hr]
      have : wPushPromisePayload a sid pr eh pl frag = u8be pl ++ u32be pr ++ frag ++ List.replicate pl 0 := by
        simp [wPushPromisePayload, hz]
      rw [this, finishWrite_ok _ _ _ _ (by simp [length_u32be, u8be]; omega)]
      cases eh <;> simp [wPushPromiseType, wPushPromiseFlags, wPushPromiseSid, length_u32be, u8be, hz] <;> omega
    · rw [parsePayload_push _ _ rfl, parsePush_padded _ pr pl frag hne (by cases eh <;> simp [readHdr, flagsHas]) (by omega) hpl, mod31_lt pr hp]
    · have e : 1 + 4 + frag.length + pl - frag.length - 4 - 1 = pl := by omega
      cases eh <;> simp [toFrame, readHdr, has, flagsHas, mod31_lt sid hs, flagPushPromiseEndHeaders, flagPushPromisePadded, e]

/-! #### DATA, HEADERS (the arithmetic is `Lemmas.H2Frame`; here: the regenerated writer produces that layout) -/

theorem rt_data_plain (a : Bool) (sid : Nat) (es : Bool) (d : Bytes) (h0 : 0 < sid) (hs : sid < 2 ^ 31) (hd : d.length < 2 ^ 24) :
    roundTrip a (.data sid es d none) = some (.ok (.data sid es d none)) := by
  have hv : validStreamID sid = true := (validStreamID_iff sid (by omega)).2 ⟨by omega, hs⟩
  have hr : wDataRefuse a sid es d true [] = false := by simp [wDataRefuse, hv]
  have hne : sid % 2 ^ 31 ≠ 0 := by rw [mod31_lt sid hs]; omega
  apply roundTrip_of a _ ⟨d.length, 0, (if es then 1 else 0), sid⟩ d (.data d)
  · simp only [Frame.write, Option.isNone_none, Option.getD_none]
    rw [hr]
    have : wDataPayload a sid es d true [] = d := by simp [wDataPayload]
    rw [this, finishWrite_ok _ _ _ _ hd]
    cases es <;> simp [wDataType, wDataFlags, wDataSid]
  · rw [parsePayload_data _ _ rfl]
    unfold parseDataFrame
    have hf : MosnVerif.Model.H2Frame.hasFlag (readHdr ⟨d.length, 0, (if es then 1 else 0), sid⟩).flags MosnVerif.Gen.H2Frame.flagDataPadded = false := by
      cases es <;> simp [readHdr, MosnVerif.Model.H2Frame.hasFlag, MosnVerif.Gen.H2Frame.flagDataPadded]
    have := MosnVerif.Lemmas.H2Frame.data_roundtrip_plain _ d hf
    simp only [MosnVerif.Model.H2Frame.encodeData] at this
    rw [if_neg (by simpa [readHdr] using hne), this]
  · cases es <;> simp [toFrame, readHdr, has, flagsHas, mod31_lt sid hs, flagDataEndStream, flagDataPadded]

theorem rt_data_padded (a : Bool) (sid : Nat) (es : Bool) (d : Bytes) (k : Nat) (h0 : 0 < sid) (hs : sid < 2 ^ 31) (hk : k ≤ 255)
    (hd : d.length + 256 < 2 ^ 24) :
    roundTrip a (.data sid es d (some (List.replicate k 0))) = some (.ok (.data sid es d (some (List.replicate k 0)))) := by
  have hv : validStreamID sid = true := (validStreamID_iff sid (by omega)).2 ⟨by omega, hs⟩
  have hany : (List.replicate k (0 : UInt8)).any (fun b => decide (b.toNat ≠ 0)) = false := by
    simp [List.any_replicate]
  have hr : wDataRefuse a sid es d false (List.replicate k 0) = false := by
    have : ¬ k > 255 := by omega
    simp [wDataRefuse, hv, hany, this]
  have hne : sid % 2 ^ 31 ≠ 0 := by rw [mod31_lt sid hs]; omega
  apply roundTrip_of a _ ⟨1 + d.length + k, 0, (if es then 1 else 0) ||| 8, sid⟩ (MosnVerif.Model.H2Frame.encodeData d (some k)) (.data d)
  · simp only [Frame.write, Option.isNone_some, Option.getD_some]
    rw [hr]
    have : wDataPayload a sid es d false (List.replicate k 0) = MosnVerif.Model.H2Frame.encodeData d (some k) := by
      simp [wDataPayload, MosnVerif.Model.H2Frame.encodeData, u8be, Nat.mod_eq_of_lt (show k < 256 by omega)]
    rw [this, finishWrite_ok _ _ _ _ (by simp [MosnVerif.Model.H2Frame.encodeData]; omega)]
    cases es <;> simp [wDataType, wDataFlags, wDataSid, MosnVerif.Model.H2Frame.encodeData] <;> omega
  · rw [parsePayload_data _ _ rfl]
    unfold parseDataFrame
    have hf : MosnVerif.Model.H2Frame.hasFlag (readHdr ⟨1 + d.length + k, 0, (if es then 1 else 0) ||| 8, sid⟩).flags MosnVerif.Gen.H2Frame.flagDataPadded = true := by
      cases es <;> simp [readHdr, MosnVerif.Model.H2Frame.hasFlag, MosnVerif.Gen.H2Frame.flagDataPadded]
    rw [if_neg (by simpa [readHdr] using hne), MosnVerif.Lemmas.H2Frame.data_roundtrip_padded _ d k (by omega) hf]
  · have e : 1 + d.length + k - 1 - d.length = k := by omega
    cases es <;> simp [toFrame, readHdr, has, flagsHas, mod31_lt sid hs, flagDataEndStream, flagDataPadded, e]

/-- the optional priority of a HEADERS frame: `WriteHeaders` writes it iff it is not the zero value -/
def prioOpt (pr : Priority) : Option Priority := if prioZero pr then none else some pr

theorem prioOpt_getD (pr : Priority) : (prioOpt pr).getD ⟨0, false, 0⟩ = pr := by
  obtain ⟨d, e, w⟩ := pr
  unfold prioOpt prioZero
  by_cases h : (d == 0 && !e && w == 0) = true
  · simp only [h, if_true, Option.getD_none]
    simp only [Bool.and_eq_true, beq_iff_eq, Bool.not_eq_true'] at h
    obtain ⟨⟨h1, h2⟩, h3⟩ := h
    subst h1 h2 h3; rfl
  · simp [h]

theorem u32be_div (v : Nat) : u32be v = [UInt8.ofNat (v / 2 ^ 24), UInt8.ofNat (v / 2 ^ 16), UInt8.ofNat (v / 2 ^ 8), UInt8.ofNat v] := by
  simp only [u32be, Nat.shiftRight_eq_div_pow]
  have m : ∀ x : Nat, UInt8.ofNat (x % 256) = UInt8.ofNat x := by
    intro x; apply UInt8.toNat_inj.1; simp
  rw [m, m, m, m]

theorem wHeadersPayload_eq (a : Bool) (sid : Nat) (es eh : Bool) (pl : Nat) (pr : Priority) (frag : Bytes) (hd : pr.streamDep < 2 ^ 31) :
    wHeadersPayload a sid es eh pl (prioZero pr) pr.streamDep pr.exclusive pr.weight frag =
      MosnVerif.Model.H2Frame.encodeHeaders frag pl (prioOpt pr) := by
  unfold wHeadersPayload MosnVerif.Model.H2Frame.encodeHeaders prioOpt
  cases hpz : prioZero pr with
  | true => simp [u8be]
  | false =>
    have e1 : (pr.streamDep ||| if pr.exclusive = true then 2147483648 else 0) =
        pr.streamDep + (if pr.exclusive then 2 ^ 31 else 0) := or_bit31 pr.streamDep hd pr.exclusive
    simp only [Bool.not_false, Bool.true_and, if_true, Bool.false_eq_true, if_false]
    rw [e1, u32be_div]
    simp [MosnVerif.Model.H2Frame.encodePrio, u8be]

theorem hasFlag_headers (es eh : Bool) (pl : Nat) (pz : Bool) :
    MosnVerif.Model.H2Frame.hasFlag ((((0 ||| (if decide (pl ≠ 0) then 8 else 0)) ||| (if es then 1 else 0)) ||| (if eh then 4 else 0)) ||| (if !pz then 32 else 0))
        MosnVerif.Gen.H2Frame.flagHeadersPadded = decide (pl ≠ 0) ∧
    MosnVerif.Model.H2Frame.hasFlag ((((0 ||| (if decide (pl ≠ 0) then 8 else 0)) ||| (if es then 1 else 0)) ||| (if eh then 4 else 0)) ||| (if !pz then 32 else 0))
        MosnVerif.Gen.H2Frame.flagHeadersPriority = !pz := by
  by_cases h : pl = 0 <;> cases es <;> cases eh <;> cases pz <;>
    simp [h, MosnVerif.Model.H2Frame.hasFlag, MosnVerif.Gen.H2Frame.flagHeadersPadded, MosnVerif.Gen.H2Frame.flagHeadersPriority]

theorem rt_headers (a : Bool) (sid : Nat) (es eh : Bool) (pl : Nat) (pr : Priority) (frag : Bytes) (h0 : 0 < sid) (hs : sid < 2 ^ 31)
    (hpl : pl < 256) (hd : pr.streamDep < 2 ^ 31) (hw : pr.weight < 256) (hf : frag.length + 262 < 2 ^ 24) :
    roundTrip a (.headers sid es eh pl pr frag) = some (.ok (.headers sid es eh pl pr frag)) := by
  have hv : validStreamID sid = true := (validStreamID_iff sid (by omega)).2 ⟨by omega, hs⟩
  have hz : validStreamIDOrZero pr.streamDep = true := (validStreamIDOrZero_iff _ (by omega)).2 hd
  have hr : wHeadersRefuse a sid es eh pl (prioZero pr) pr.streamDep pr.exclusive pr.weight frag = false := by
    simp [wHeadersRefuse, hv, hz]
  have hne : sid % 2 ^ 31 ≠ 0 := by rw [mod31_lt sid hs]; omega
  have hlen : (MosnVerif.Model.H2Frame.encodeHeaders frag pl (prioOpt pr)).length =
      (if pl ≠ 0 then 1 else 0) + (if prioZero pr then 0 else 5) + frag.length + pl := by
    unfold MosnVerif.Model.H2Frame.encodeHeaders prioOpt
    by_cases c1 : pl = 0 <;> by_cases c2 : prioZero pr = true <;> simp [c1, c2, MosnVerif.Model.H2Frame.encodePrio] <;> omega
  apply roundTrip_of a _ ⟨(MosnVerif.Model.H2Frame.encodeHeaders frag pl (prioOpt pr)).length, 1,
      wHeadersFlags a sid es eh pl (prioZero pr) pr.streamDep pr.exclusive pr.weight frag, sid⟩
      (MosnVerif.Model.H2Frame.encodeHeaders frag pl (prioOpt pr)) (.headers (prioOpt pr) frag)
  · show finishWrite (wHeadersRefuse a sid es eh pl (prioZero pr) pr.streamDep pr.exclusive pr.weight frag) _ _ _ _ = _
    rw [hr, wHeadersPayload_eq a sid es eh pl pr frag hd, finishWrite_ok _ _ _ _ (by rw [hlen]; split <;> split <;> omega)]
    rfl
  · rw [parsePayload_headers _ _ rfl]
    unfold parseHeadersFrame
    have hfl := hasFlag_headers es eh pl (prioZero pr)
    have hso : (prioOpt pr).isSome = !prioZero pr := by unfold prioOpt; cases prioZero pr <;> rfl
    have := MosnVerif.Lemmas.H2Frame.headers_roundtrip'
      (readHdr ⟨(MosnVerif.Model.H2Frame.encodeHeaders frag pl (prioOpt pr)).length, 1,
        wHeadersFlags a sid es eh pl (prioZero pr) pr.streamDep pr.exclusive pr.weight frag, sid⟩).flags frag pl (prioOpt pr) hpl
      (by intro p hp; unfold prioOpt at hp; split at hp
          · cases hp
          · cases hp; exact ⟨hd, hw⟩)
      hfl.1 (by rw [hso]; exact hfl.2)
    rw [if_neg (by simpa [readHdr] using hne), this]
  · have hfl := hasFlag_headers es eh pl (prioZero pr)
    simp only [toFrame, readHdr, mod31_lt sid hs, prioOpt_getD]
    have e1 : has ⟨(MosnVerif.Model.H2Frame.encodeHeaders frag pl (prioOpt pr)).length, 1,
        wHeadersFlags a sid es eh pl (prioZero pr) pr.streamDep pr.exclusive pr.weight frag, sid⟩ flagHeadersEndStream = es := by
      by_cases h : pl = 0 <;> cases es <;> cases eh <;> cases prioZero pr <;> simp [has, flagsHas, wHeadersFlags, flagHeadersEndStream, h]
    have e2 : has ⟨(MosnVerif.Model.H2Frame.encodeHeaders frag pl (prioOpt pr)).length, 1,
        wHeadersFlags a sid es eh pl (prioZero pr) pr.streamDep pr.exclusive pr.weight frag, sid⟩ flagHeadersEndHeaders = eh := by
      by_cases h : pl = 0 <;> cases es <;> cases eh <;> cases prioZero pr <;> simp [has, flagsHas, wHeadersFlags, flagHeadersEndHeaders, h]
    have e3 : has ⟨(MosnVerif.Model.H2Frame.encodeHeaders frag pl (prioOpt pr)).length, 1,
        wHeadersFlags a sid es eh pl (prioZero pr) pr.streamDep pr.exclusive pr.weight frag, sid⟩ flagHeadersPadded = decide (pl ≠ 0) := by
      by_cases h : pl = 0 <;> cases es <;> cases eh <;> cases prioZero pr <;> simp [has, flagsHas, wHeadersFlags, flagHeadersPadded, h]
    have e4 : has ⟨(MosnVerif.Model.H2Frame.encodeHeaders frag pl (prioOpt pr)).length, 1,
        wHeadersFlags a sid es eh pl (prioZero pr) pr.streamDep pr.exclusive pr.weight frag, sid⟩ flagHeadersPriority = !prioZero pr := by
      by_cases h : pl = 0 <;> cases es <;> cases eh <;> cases prioZero pr <;> simp [has, flagsHas, wHeadersFlags, flagHeadersPriority, h]
    rw [e1, e2, e3, e4, hlen]
    congr 1
    by_cases c1 : pl = 0 <;> cases c2 : prioZero pr <;> simp [c1] <;> omega

/-! ### every frame type -/

theorem all_roundtrip (a : Bool) (f : Frame) (hwf : WF f) : roundTrip a f = some (.ok f) := by
  cases f with
  | data sid es d pad =>
    obtain ⟨h0, hs, hp, hd⟩ := hwf
    cases pad with
    | none => exact rt_data_plain a sid es d h0 hs (by omega)
    | some p' =>
      obtain ⟨e, hl⟩ := hp p' rfl
      rw [e]
      exact rt_data_padded a sid es d p'.length h0 hs hl hd
  | headers sid es eh pl pr frag =>
    obtain ⟨h0, hs, hpl, hd, hw, hf⟩ := hwf
    exact rt_headers a sid es eh pl pr frag h0 hs hpl hd hw hf
  | priority sid p => obtain ⟨h0, hs, hd, hw⟩ := hwf; exact rt_priority a sid p h0 hs hd hw
  | rst sid code => obtain ⟨h0, hs, hc⟩ := hwf; exact rt_rst a sid code h0 hs hc
  | settings ss => obtain ⟨hr, hl⟩ := hwf; exact rt_settings a ss hr hl
  | settingsAck => exact rt_settingsAck a
  | pushPromise sid pr eh pl frag =>
    obtain ⟨h0, hs, hp0, hp, hpl, hf⟩ := hwf
    exact rt_pushPromise a sid pr eh pl frag h0 hs hp0 hp hpl hf
  | ping ack d => exact rt_ping a ack d hwf
  | goAway last code dbg => obtain ⟨hl, hc, hd⟩ := hwf; exact rt_goAway a last code dbg hl hc hd
  | windowUpdate sid incr => obtain ⟨hs, h0, hi⟩ := hwf; exact rt_windowUpdate a sid incr hs h0 hi
  | continuation sid eh frag => obtain ⟨h0, hs, hf⟩ := hwf; exact rt_continuation a sid eh frag h0 hs hf
  | raw t fl sid pl => obtain ⟨ht, _, _, hs, hp⟩ := hwf; exact rt_raw a t fl sid pl ht hs hp

/-! ### MOSN's own writers write what `Framer.Write*` writes -/

theorem finishWrite_mono (r r' : Bool) (t fl sid : Nat) (p : Bytes) (w : FrameHeader × Bytes) (hr : r' = true → r = true)
    (h : finishWrite r t fl sid p = some w) : finishWrite r' t fl sid p = some w := by
  unfold finishWrite at h ⊢
  cases hr1 : r with
  | true => rw [hr1] at h; simp at h
  | false =>
    have : r' = false := by cases hr' : r' with
      | false => rfl
      | true => have := hr hr'; rw [hr1] at this; cases this
    rw [this]; rw [hr1] at h; exact h

/-- whatever `MFramer.write*` / `MServerConn` / `MClientConn` write in line for a frame is, byte for byte, what
`Framer.Write*` writes for it (the MOSN writers refuse at least what the reference writer refuses with AllowIllegalWrites) -/
theorem mwrite_eq_write (server : Bool) (f : Frame) (w : FrameHeader × Bytes) (h : f.mwrite server = some w) : f.write true = some w := by
  cases f with
  | data sid es d pad =>
    cases pad with
    | some p' => simp [Frame.mwrite] at h
    | none =>
      simp only [Frame.mwrite] at h
      simp only [Frame.write, Option.isNone_none, Option.getD_none]
      refine finishWrite_mono (mDataRefuse sid es d) _ _ _ _ _ w (by simp [wDataRefuse]) ?_
      simpa [mDataType, mDataFlags, mDataSid, mDataPayload, wDataType, wDataFlags, wDataSid, wDataPayload] using h
  | headers sid es eh pl pr frag =>
    simp only [Frame.mwrite] at h
    simp only [Frame.write]
    refine finishWrite_mono (mHeadersRefuse sid es eh pl (prioZero pr) pr.streamDep pr.exclusive pr.weight frag) _ _ _ _ _ w
      (by simp [wHeadersRefuse]) ?_
    simpa [mHeadersType, mHeadersFlags, mHeadersSid, mHeadersPayload, wHeadersType, wHeadersFlags, wHeadersSid, wHeadersPayload,
      mu32be_eq] using h
  | priority sid p => simp [Frame.mwrite] at h
  | rst sid code =>
    simp only [Frame.mwrite] at h
    simp only [Frame.write]
    refine finishWrite_mono false _ _ _ _ _ w (by simp [wRstRefuse]) ?_
    cases server <;> simpa [mSrvRstRefuse, mCliRstRefuse, mSrvRstType, mSrvRstFlags, mSrvRstSid, mSrvRstPayload, mCliRstType, mCliRstFlags, mCliRstSid, mCliRstPayload,
      wRstType, wRstFlags, wRstSid, wRstPayload, mu32be_eq] using h
  | settings ss =>
    simp only [Frame.mwrite] at h
    simp only [Frame.write]
    simpa [mSettingsRefuse, mSettingsType, mSettingsFlags, mSettingsSid, mSettingsPayload, wSettingsRefuse, wSettingsType,
      wSettingsFlags, wSettingsSid, wSettingsPayload, mu32be_eq, mu16be_eq] using h
  | settingsAck =>
    simp only [Frame.mwrite] at h
    simp only [Frame.write]
    cases server <;> simpa [mCliSettingsAckRefuse, mCliSettingsAckType, mCliSettingsAckFlags, mCliSettingsAckSid,
      mCliSettingsAckPayload, mSrvSettingsAckRefuse, mSrvSettingsAckType, mSrvSettingsAckFlags, mSrvSettingsAckSid,
      mSrvSettingsAckPayload, wSettingsAckRefuse, wSettingsAckType, wSettingsAckFlags, wSettingsAckSid, wSettingsAckPayload] using h
  | pushPromise sid pr eh pl frag => simp [Frame.mwrite] at h
  | ping ack d =>
    simp only [Frame.mwrite] at h
    simp only [Frame.write]
    cases server
    · simpa [mCliPingRefuse, mCliPingType, mCliPingFlags, mCliPingSid, mCliPingPayload, wPingRefuse, wPingType, wPingFlags,
        wPingSid, wPingPayload] using h
    · cases ack
      · simp at h
      · simpa [mSrvPingAckRefuse, mSrvPingAckType, mSrvPingAckFlags, mSrvPingAckSid, mSrvPingAckPayload, wPingRefuse, wPingType,
          wPingFlags, wPingSid, wPingPayload] using h
  | goAway last code dbg =>
    simp only [Frame.mwrite] at h
    simp only [Frame.write]
    cases server
    · simp at h
    · simpa [mSrvGoAwayRefuse, mSrvGoAwayType, mSrvGoAwayFlags, mSrvGoAwaySid, mSrvGoAwayPayload, wGoAwayRefuse, wGoAwayType,
        wGoAwayFlags, wGoAwaySid, wGoAwayPayload, mu32be_eq] using h
  | windowUpdate sid incr =>
    simp only [Frame.mwrite] at h
    simp only [Frame.write]
    refine finishWrite_mono (mWindowUpdateRefuse sid incr) _ _ _ _ _ w (by simp [wWindowUpdateRefuse]) ?_
    simpa [mWindowUpdateType, mWindowUpdateFlags, mWindowUpdateSid, mWindowUpdatePayload, wWindowUpdateType, wWindowUpdateFlags,
      wWindowUpdateSid, wWindowUpdatePayload, mu32be_eq] using h
  | continuation sid eh frag =>
    simp only [Frame.mwrite] at h
    simp only [Frame.write]
    refine finishWrite_mono (mContinuationRefuse sid eh frag) _ _ _ _ _ w (by simp [wContinuationRefuse]) ?_
    simpa [mContinuationType, mContinuationFlags, mContinuationSid, mContinuationPayload, wContinuationType, wContinuationFlags,
      wContinuationSid, wContinuationPayload] using h
  | raw t fl sid pl => simp [Frame.mwrite] at h

/-! ### reserved bits -/

theorem pWuInc_u32be (x : Nat) (hx : x < 2 ^ 32) : pWuInc (u32be x) = x % 2 ^ 31 := by
  have e : be32 (List.take 4 (u32be x)) = x := by simpa using be32_u32be x hx []
  unfold pWuInc; rw [e, mask31]

theorem wu_reserved (h : FrameHeader) (v : Nat) (hv : v < 2 ^ 32) :
    parseWindowUpdate h (u32be v) = parseWindowUpdate h (u32be (v % 2 ^ 31)) := by
  have hm : v % 2 ^ 31 < 2 ^ 32 := by omega
  unfold parseWindowUpdate
  rw [pWuInc_u32be v hv, pWuInc_u32be _ hm, Nat.mod_mod]
  rfl

theorem goAway_reserved (h : FrameHeader) (l c : Nat) (dbg : Bytes) (hl : l < 2 ^ 32) (hc : c < 2 ^ 32) :
    parseGoAway h (u32be l ++ u32be c ++ dbg) = parseGoAway h (u32be (l % 2 ^ 31) ++ u32be c ++ dbg) := by
  by_cases hs : h.streamID = 0
  · rw [parseGoAway_ok h l c dbg hs hl hc, parseGoAway_ok h _ c dbg hs (by omega) hc, Nat.mod_mod]
  · have g : ∀ p, pGoAwaySid h.flags h.streamID h.length p = true := by intro p; simp [pGoAwaySid, hs]
    unfold parseGoAway
    simp only [g, if_true]

theorem push_reserved (h : FrameHeader) (v : Nat) (frag : Bytes) (hv : v < 2 ^ 32) (hf : flagsHas h.flags 8 = false) :
    parsePushPromise h (u32be v ++ frag) = parsePushPromise h (u32be (v % 2 ^ 31) ++ frag) := by
  by_cases hs : h.streamID = 0
  · have g : ∀ p, pPushSid h.flags h.streamID h.length p = true := by intro p; simp [pPushSid, hs]
    unfold parsePushPromise
    simp only [g, if_true]
  · rw [parsePush_plain h v frag hs hf hv, parsePush_plain h _ frag hs hf (by omega), Nat.mod_mod]

theorem hdr_reserved (h : FrameHeader) : readHdr { h with streamID := h.streamID % 2 ^ 31 + 2 ^ 31 } = readHdr h := by
  have e : (h.streamID % 2 ^ 31 + 2 ^ 31) % 2 ^ 31 = h.streamID % 2 ^ 31 := by omega
  unfold readHdr
  simp only [e]

/-! ### every payload: one of ok / connection error / stream error, as RFC 7540 §6 prescribes -/

/-- the parser's answer agrees with the table: accepted iff no rule is violated; an error is one the table lists -/
def Agrees (r : Except PErr Body) (v : List Class) : Prop :=
  match r with
  | .ok _ => v = []
  | .error e => classOf (.error e) ∈ v

theorem flagsHas_flagSet : ∀ f, f < 256 → (flagsHas f 1 = flagSet f 1 ∧ flagsHas f 8 = flagSet f 8 ∧ flagsHas f 32 = flagSet f 32) := by
  decide +kernel

theorem byteAt_take (p : Bytes) (n i : Nat) (h : i < n) : byteAt (p.take n) i = byteAt p i := by
  unfold byteAt
  rw [List.getD_eq_getElem?_getD, List.getD_eq_getElem?_getD, List.getElem?_take_of_lt h]

theorem byteAt_drop (p : Bytes) (n i : Nat) : byteAt (p.drop n) i = byteAt p (n + i) := by
  unfold byteAt
  rw [List.getD_eq_getElem?_getD, List.getD_eq_getElem?_getD, List.getElem?_drop]

theorem be32_take (p : Bytes) (k : Nat) : be32 (List.take 4 (List.drop k p)) = u32At p k := by
  unfold be32 u32At
  rw [byteAt_take _ _ _ (by decide), byteAt_take _ _ _ (by decide), byteAt_take _ _ _ (by decide), byteAt_take _ _ _ (by decide),
    byteAt_drop, byteAt_drop, byteAt_drop, byteAt_drop]
  simp [byteAt]

theorem total_ping (h : FrameHeader) (p : Bytes) : Agrees (parsePing h p) (rfcViolations 6 h.flags h.streamID p) := by
  unfold parsePing rfcViolations pPingLen pPingSid
  by_cases c1 : p.length = 8 <;> by_cases c2 : h.streamID = 0 <;>
    simp [c1, c2, Agrees, classOf, pPingLenCode, pPingSidCode, FRAME_SIZE_ERROR, PROTOCOL_ERROR]

theorem total_rst (h : FrameHeader) (p : Bytes) : Agrees (parseRst h p) (rfcViolations 3 h.flags h.streamID p) := by
  unfold parseRst rfcViolations pRstLen pRstSid
  by_cases c1 : p.length = 4 <;> by_cases c2 : h.streamID = 0 <;>
    simp [c1, c2, Agrees, classOf, pRstLenCode, pRstSidCode, FRAME_SIZE_ERROR, PROTOCOL_ERROR]

theorem total_priority (h : FrameHeader) (p : Bytes) : Agrees (parsePriority h p) (rfcViolations 2 h.flags h.streamID p) := by
  unfold parsePriority rfcViolations pPrioLen pPrioSid
  by_cases c1 : p.length = 5 <;> by_cases c2 : h.streamID = 0 <;>
    simp [c1, c2, Agrees, classOf, pPrioLenCode, pPrioSidCode, FRAME_SIZE_ERROR, PROTOCOL_ERROR]

theorem total_goAway (h : FrameHeader) (p : Bytes) : Agrees (parseGoAway h p) (rfcViolations 7 h.flags h.streamID p) := by
  unfold parseGoAway rfcViolations pGoAwayLen pGoAwaySid
  by_cases c1 : p.length < 8 <;> by_cases c2 : h.streamID = 0 <;>
    simp [c1, c2, Agrees, classOf, pGoAwayLenCode, pGoAwaySidCode, FRAME_SIZE_ERROR, PROTOCOL_ERROR]

theorem total_continuation (h : FrameHeader) (p : Bytes) : Agrees (parseContinuation h p) (rfcViolations 9 h.flags h.streamID p) := by
  unfold parseContinuation rfcViolations pContSid
  by_cases c2 : h.streamID = 0 <;> simp [c2, Agrees, classOf, pContSidCode, PROTOCOL_ERROR]

theorem total_windowUpdate (h : FrameHeader) (p : Bytes) : Agrees (parseWindowUpdate h p) (rfcViolations 8 h.flags h.streamID p) := by
  have e : pWuInc p = u32At p 0 % 2 ^ 31 := by
    unfold pWuInc
    rw [mask31, ← be32_take p 0]; rfl
  unfold parseWindowUpdate rfcViolations pWuLen pWuZero pWuZeroConn
  rw [e]
  by_cases c1 : p.length = 4 <;> by_cases c2 : h.streamID = 0 <;> by_cases c3 : u32At p 0 % 2 ^ 31 = 0 <;>
    simp [c1, c2, c3, Agrees, classOf, pWuLenCode, pWuZeroConnCode, pWuZeroStreamCode, FRAME_SIZE_ERROR, PROTOCOL_ERROR]

theorem be16_take (p : Bytes) (k : Nat) : be16 (List.take 2 (List.drop k p)) = (p.getD k 0).toNat * 256 + (p.getD (k + 1) 0).toNat := by
  unfold be16
  rw [byteAt_take _ _ _ (by decide), byteAt_take _ _ _ (by decide), byteAt_drop, byteAt_drop]
  simp [byteAt]

theorem settingsOf_rfc (p : Bytes) : settingsOf p = rfcSettings p := by
  unfold settingsOf rfcSettings numSettings
  apply List.map_congr_left
  intro i _
  unfold settingAt setIdLo setIdHi setValLo setValHi
  have e1 : i * 6 + 2 - i * 6 = 2 := by omega
  have e2 : i * 6 + 6 - (i * 6 + 2) = 4 := by omega
  rw [e1, e2, be16_take, be32_take, Nat.mul_comm i 6]

theorem total_settings (h : FrameHeader) (p : Bytes) (hl : h.length = p.length) (hf : h.flags < 256) :
    Agrees (parseSettings h p) (rfcViolations 4 h.flags h.streamID p) := by
  have hfs := (flagsHas_flagSet h.flags hf).1
  unfold parseSettings rfcViolations pSettingsAckLen pSettingsSid pSettingsMod settingValue pSettingsWinBad pSettingsWinId
  rw [settingsOf_rfc, hfs, hl]
  by_cases c1 : (flagSet h.flags 1 = true ∧ p.length ≠ 0)
  · have : (flagSet h.flags 1 && decide (p.length > 0)) = true := by
      simp only [Bool.and_eq_true, decide_eq_true_eq]; exact ⟨c1.1, by omega⟩
    have hpos : 0 < p.length := by omega
    simp [this, c1, hpos, Agrees, classOf, pSettingsAckLenCode, FRAME_SIZE_ERROR]
  · have h1 : (flagSet h.flags 1 && decide (p.length > 0)) = false := by
      cases hfl : flagSet h.flags 1
      · rfl
      · have : p.length = 0 := by
          by_cases hz : p.length = 0
          · exact hz
          · exact absurd ⟨hfl, hz⟩ c1
        simp [this]
    simp only [h1, Bool.false_eq_true, if_false, c1, List.nil_append]
    by_cases c2 : h.streamID = 0
    · by_cases c3 : p.length % 6 = 0
      · cases hfind : (rfcSettings p).find? (fun s => s.1 == 4) with
        | none => simp [c2, c3, Agrees, classOf]
        | some s =>
          by_cases c4 : s.2 > 2147483647
          · have : s.2 > 2 ^ 31 - 1 := by omega
            simp [c2, c3, c4, this, Agrees, classOf, pSettingsWinCode, FLOW_CONTROL_ERROR]
          · have : ¬ s.2 > 2 ^ 31 - 1 := by omega
            simp [c2, c3, c4, this, Agrees, classOf]
      · simp [c2, c3, Agrees, classOf, pSettingsModCode, FRAME_SIZE_ERROR]
    · simp [c2, Agrees, classOf, pSettingsSidCode, PROTOCOL_ERROR]

theorem total_pushPromise (h : FrameHeader) (p : Bytes) (hf : h.flags < 256) :
    Agrees (parsePushPromise h p) (rfcViolations 5 h.flags h.streamID p) := by
  have hfs := (flagsHas_flagSet h.flags hf).2.1
  unfold parsePushPromise rfcViolations pPushSid pPushPadded
  rw [hfs]
  by_cases c0 : h.streamID = 0
  · simp [c0, Agrees, classOf, pPushSidCode, PROTOCOL_ERROR]
  · simp only [c0, decide_false, Bool.false_eq_true, if_false, List.nil_append]
    cases hp : flagSet h.flags 8
    · -- not padded
      simp only [Bool.false_eq_true, if_false]
      by_cases c1 : p.length < 4
      · simp [readUint32Short, c1, Agrees, classOf]
      · simp [readUint32Short, c1, pPushPadBig, Agrees, classOf]
    · simp only [if_true]
      by_cases c1 : p.length = 0
      · simp [readByteShort, c1, Agrees, classOf]
      · have hb : readByteShort p = false := by simp [readByteShort, c1]
        simp only [hb, Bool.false_eq_true, if_false]
        by_cases c2 : p.length < 5
        · have : readUint32Short (List.drop 1 p) = true := by
            simp only [readUint32Short, List.length_drop, decide_eq_true_eq]; omega
          have c2' : p.length < 1 + 4 := by omega
          have this' : readUint32Short (List.tail p) = true := by rw [← List.drop_one]; exact this
          simp [this', c2', Agrees, classOf]
        · have h4 : readUint32Short (List.drop 1 p) = false := by
            simp only [readUint32Short, List.length_drop, decide_eq_false_iff_not]; omega
          have c2' : ¬ p.length < 1 + 4 := by omega
          have hb0 : byteAt p 0 = (p.getD 0 0).toNat := rfl
          have h4' : readUint32Short (List.tail p) = false := by rw [← List.drop_one]; exact h4
          simp only [h4, Bool.false_eq_true, if_false, c2']
          by_cases c3 : (p.getD 0 0).toNat > p.length - (1 + 4)
          · have : pPushPadBig (byteAt p 0) (List.drop 4 (List.drop 1 p)) = true := by
              simp only [pPushPadBig, List.length_drop, decide_eq_true_eq, hb0]; omega
            have this' : pPushPadBig (byteAt p 0) (List.drop 5 p) = true := by simpa [List.drop_drop] using this
            simp only [List.getD_eq_getElem?_getD] at c3
            simp [this', h4', c3, Agrees, classOf, pPushPadBigCode, PROTOCOL_ERROR]
          · have : pPushPadBig (byteAt p 0) (List.drop 4 (List.drop 1 p)) = false := by
              simp only [pPushPadBig, List.length_drop, decide_eq_false_iff_not, hb0]; omega
            have this' : pPushPadBig (byteAt p 0) (List.drop 5 p) = false := by simpa [List.drop_drop] using this
            simp only [List.getD_eq_getElem?_getD] at c3
            simp [this', h4', c3, Agrees, classOf]

theorem total_unknown (h : FrameHeader) (p : Bytes) (ht : 10 ≤ h.type) : Agrees (parsePayload h p) (rfcViolations h.type h.flags h.streamID p) := by
  rw [parsePayload_unknown h p ht]
  have : ∀ k : Nat, k < 10 → ¬ h.type = k := fun k hk => by omega
  simp [Agrees, rfcViolations, this]

/-- every frame type but DATA / HEADERS (whose answers are `read_outcome_matches_reference`): the parser's answer agrees with
the table of RFC 7540 §6 -/
theorem parse_total (h : FrameHeader) (p : Bytes) (hl : h.length = p.length) (hf : h.flags < 256) (ht : 2 ≤ h.type) :
    Agrees (parsePayload h p) (rfcViolations h.type h.flags h.streamID p) := by
  by_cases h10 : 10 ≤ h.type
  · exact total_unknown h p h10
  · have : h.type = 2 ∨ h.type = 3 ∨ h.type = 4 ∨ h.type = 5 ∨ h.type = 6 ∨ h.type = 7 ∨ h.type = 8 ∨ h.type = 9 := by omega
    rcases this with t | t | t | t | t | t | t | t
    · rw [parsePayload_priority h p t, t]; exact total_priority h p
    · rw [parsePayload_rst h p t, t]; exact total_rst h p
    · rw [parsePayload_settings h p t, t]; exact total_settings h p hl hf
    · rw [parsePayload_push h p t, t]; exact total_pushPromise h p hf
    · rw [parsePayload_ping h p t, t]; exact total_ping h p
    · rw [parsePayload_goAway h p t, t]; exact total_goAway h p
    · rw [parsePayload_wu h p t, t]; exact total_windowUpdate h p
    · rw [parsePayload_cont h p t, t]; exact total_continuation h p

end MosnVerif.Lemmas.H2Payload
