import MosnVerif.Model.RelayStart
import MosnVerif.Lemmas.Relay
/-! invariant of the connection set-up model (core only) -/
namespace MosnVerif.Model.RelayStart
open MosnVerif.Model

theorem flat_append (a b : List Bytes) : flat (a ++ b) = flat a ++ flat b := by
  induction a with
  | nil => rfl
  | cons x r ih => simp [flat, ih, List.append_assoc]

structure Inv (reg start : String) (s : St) : Prop where
  /-- the calls still to come register the filter before they start the loop, or it is registered already -/
  order : safeOrder reg start s.todo s.filterOn = true
  loop_filter : s.loopOn = true → s.filterOn = true
  /-- nothing ever waits in the read buffer -/
  buf_empty : s.buf = []
  /-- every byte the peer has sent is delivered, in order, or still in the socket -/
  all : flat s.delivered ++ s.wire = s.peerSent
  eof_done : s.eof = true → s.wire = [] ∧ s.peerClosed = true

theorem inv_init (reg start : String) (todo : List String) (h : safeOrder reg start todo false = true) :
    Inv reg start { todo := todo } :=
  ⟨h, (by intro h; cases h), rfl, rfl, (by intro h; cases h)⟩

theorem step_inv (reg start : String) (s : St) (e : Ev) (h : Inv reg start s) : Inv reg start (step reg start s e) := by
  cases e with
  | setup =>
    unfold step
    cases hq : s.todo with
    | nil => simp only; exact h
    | cons c r =>
      simp only
      have ho := h.order
      rw [hq] at ho
      unfold safeOrder at ho
      by_cases h1 : (c == reg) = true
      · simp only [h1, if_true] at ho ⊢
        exact ⟨ho, fun _ => rfl, h.buf_empty, h.all, h.eof_done⟩
      · simp only [h1, Bool.false_eq_true, if_false] at ho ⊢
        by_cases h2 : (c == start) = true
        · simp only [h2, if_true, Bool.and_eq_true] at ho ⊢
          exact ⟨ho.2, fun _ => ho.1, h.buf_empty, h.all, h.eof_done⟩
        · simp only [h2, Bool.false_eq_true, if_false] at ho ⊢
          exact ⟨ho, h.loop_filter, h.buf_empty, h.all, h.eof_done⟩
  | peerSend b =>
    unfold step
    by_cases hp : s.peerClosed = true
    · simp only [hp, if_true]; exact h
    · simp only [hp, Bool.false_eq_true, if_false]
      refine ⟨h.order, h.loop_filter, h.buf_empty, ?_, ?_⟩
      · simp only; rw [← List.append_assoc, h.all]
      · intro he; exact absurd (h.eof_done he).2 hp
  | peerClose =>
    unfold step
    exact ⟨h.order, h.loop_filter, h.buf_empty, h.all, fun he => ⟨(h.eof_done he).1, rfl⟩⟩
  | loop =>
    unfold step
    by_cases hc : (!s.loopOn || s.eof) = true
    · simp only [hc, if_true]; exact h
    · simp only [hc, Bool.false_eq_true, if_false]
      have hl : s.loopOn = true := by
        cases hh : s.loopOn with
        | true => rfl
        | false => simp [hh] at hc
      have hne : s.eof = false := by
        cases hh : s.eof with
        | false => rfl
        | true => simp [hh] at hc
      have hf := h.loop_filter hl
      by_cases hw : s.wire.isEmpty = true
      · simp only [hw, if_true]
        by_cases hp : s.peerClosed = true
        · simp only [hp, if_true]
          have hw' : s.wire = [] := by simpa using hw
          exact ⟨h.order, h.loop_filter, rfl, h.all, fun _ => ⟨hw', by first | exact hp | rfl⟩⟩
        · simp only [hp, Bool.false_eq_true, if_false]; exact h
      · simp only [hw, Bool.false_eq_true, if_false]
        rw [if_pos hf]
        refine ⟨h.order, h.loop_filter, rfl, ?_, ?_⟩
        · simp only
          rw [flat_append, h.buf_empty]
          simp only [flat, List.nil_append, List.append_nil]
          exact h.all
        · intro he; simp only at he; rw [hne] at he; cases he

theorem run_inv (reg start : String) (evs : List Ev) (s : St) (h : Inv reg start s) : Inv reg start (run reg start s evs) := by
  unfold run
  induction evs generalizing s with
  | nil => exact h
  | cons e r ih => exact ih _ (step_inv reg start s e h)

/-- a list of reads from side `d` of the relay model: `d` receives their concatenation, nothing else about `d`'s own
connection changes, and the other connection's peer is not reported closed -/
theorem relay_reads (d : Relay.Side) (l : List Bytes) (t : Relay.State)
    (hc : (t.get d).closed = false) (he : (t.get d).eofSeen = false) :
    ((Relay.run t (l.map (fun b => Relay.Ev.read d b))).get d).received = (t.get d).received ++ flat l ∧
    ((Relay.run t (l.map (fun b => Relay.Ev.read d b))).get d.other).eofSeen = (t.get d.other).eofSeen := by
  induction l generalizing t with
  | nil => simp [Relay.run, flat]
  | cons b r ih =>
    have hstep : Relay.step t (.read d b) =
        (t.set d { t.get d with received := (t.get d).received ++ b }).set d.other ((t.get d.other).write (.data b)) := by
      simp [Relay.step, hc, he]
    have hrun : Relay.run t ((b :: r).map (fun b => Relay.Ev.read d b)) =
        Relay.run (Relay.step t (.read d b)) (r.map (fun b => Relay.Ev.read d b)) := by
      simp [Relay.run]
    rw [hrun, hstep]
    have hg : (((t.set d { t.get d with received := (t.get d).received ++ b }).set d.other ((t.get d.other).write (.data b))).get d)
        = { t.get d with received := (t.get d).received ++ b } := by simp
    have hgo : (((t.set d { t.get d with received := (t.get d).received ++ b }).set d.other ((t.get d.other).write (.data b))).get d.other)
        = (t.get d.other).write (.data b) := by
      have := Relay.get_set_same (t.set d { t.get d with received := (t.get d).received ++ b }) d.other ((t.get d.other).write (.data b))
      exact this
    obtain ⟨h1, h2⟩ := ih _ (by rw [hg]; exact hc) (by rw [hg]; exact he)
    refine ⟨?_, ?_⟩
    · rw [h1, hg]; simp [flat, List.append_assoc]
    · rw [h2, hgo]; unfold Relay.Conn.write; split <;> rfl

end MosnVerif.Model.RelayStart
