import MosnVerif.Lemmas.VhostTable
import MosnVerif.Model.VhostCase
/-!
The fast index follows the route list, and the `vht` cases of the harness (one lookup concurrent with
`RemoveAllRoutes; AddRoute new₀; …`) satisfy the declarative reference `Model/VhostSpec.lean` under every schedule.
-/
namespace MosnVerif.Model.VhostTable
open MosnVerif.Gen.VhostLocks MosnVerif.Model

variable {α K : Type} [DecidableEq K]

/-! ### the index is a function of the route list -/

/-- the index entry of every key is the LAST route of the table filed under that key -/
def IndexOk (keyOf : α → Option K) (v : View α K) : Prop :=
  ∀ q, lookupK (some q) v.2 = ((v.1.filter (fun r => keyOf r == some q)).getLast?).toList

theorem find_filter_ne (m : List (K × α)) (k q : K) (h : q ≠ k) :
    (m.filter (fun e => !(e.1 == k))).find? (fun e => e.1 == q) = m.find? (fun e => e.1 == q) := by
  induction m with
  | nil => rfl
  | cons e t ih =>
    by_cases h1 : e.1 = k
    · have hf : (!(e.1 == k)) = false := by simp [h1]
      have hq : (e.1 == q) = false := by
        simp only [beq_eq_false_iff_ne, ne_eq]
        intro x; exact h (x ▸ h1)
      rw [List.filter_cons, hf, List.find?_cons, hq]
      simpa using ih
    · have hf : (!(e.1 == k)) = true := by simp [h1]
      rw [List.filter_cons, hf]
      simp only [if_true, List.find?_cons]
      rw [ih]

theorem indexOk_removeAll (keyOf : α → Option K) (v : View α K) : IndexOk keyOf (removeAllSpec v) := by
  intro q; simp [removeAllSpec, lookupK]

theorem indexOk_add (keyOf : α → Option K) (v : View α K) (x : α) (h : IndexOk keyOf v) :
    IndexOk keyOf (addRouteSpec { route := some x, key := keyOf x } v) := by
  intro q
  have hq := h q
  simp only [addRouteSpec, List.filter_append, List.filter_cons, List.filter_nil]
  cases hk : keyOf x with
  | none =>
    dsimp only at hq ⊢
    have : (none == some q) = false := rfl
    simp only [this, Bool.false_eq_true, if_false, List.append_nil]
    exact hq
  | some k =>
    by_cases e : q = k
    · subst e
      simp [lookupK, upsert]
    · have hne : (some k == some q) = false := by
        simp only [beq_eq_false_iff_ne, ne_eq, Option.some.injEq]
        exact fun x => e x.symm
      simp only [hne, Bool.false_eq_true, if_false, List.append_nil]
      rw [← hq]
      simp only [lookupK, upsert, List.find?_cons]
      have : (k == q) = false := by simp only [beq_eq_false_iff_ne, ne_eq]; exact fun x => e x.symm
      simp only [this]
      rw [find_filter_ne _ _ _ e]
/-- a call that files every added route under `keyOf` of that route -/
def keyed (keyOf : α → Option K) : Call α K → Prop
  | .add r key => key = keyOf r
  | _ => True

theorem indexOk_specOf (keyOf : α → Option K) (cl : Call α K) (hk : keyed keyOf cl) (v : View α K) (h : IndexOk keyOf v) :
    IndexOk keyOf (specOf cl v) := by
  cases cl with
  | add r key => simp only [keyed] at hk; subst hk; exact indexOk_add keyOf v r h
  | removeAll => exact indexOk_removeAll keyOf v
  | entries mt => exact h
  | all mt => exact h
  | kv k => exact h

omit [DecidableEq K] in
theorem serialPubs_all (P : View α K → Prop) (eff : Nat → View α K → View α K) (hP : ∀ t v, P v → P (eff t v))
    (o : List Nat) (v : View α K) (hv : P v) : ∀ x ∈ serialPubs eff o v, P x := by
  induction o generalizing v with
  | nil => intro x hx; simp [serialPubs] at hx; subst hx; exact hv
  | cons t r ih =>
    intro x hx
    simp only [serialPubs, List.mem_cons] at hx
    rcases hx with e | hx
    · subst e; exact hv
    · exact ih _ (hP t v hv) x hx

/-! ### the cases of the harness -/

open VhostSpec in
theorem caseCalls_keyed (new : List R) (first : Bool) (q : Nat) (t : Nat) : keyed R.key (caseCalls new first q t) := by
  match t with
  | 0 => cases first <;> simp [caseCalls, keyed]
  | 1 => simp [caseCalls, keyed]
  | t + 2 =>
    simp only [caseCalls]
    cases new[t]? <;> simp [keyed]

open VhostSpec in
/-- the adds in issue order from the table `new.take j` produce the tables `new.take j`, `new.take (j+1)`, … -/
theorem serial_adds (new : List R) (first : Bool) (q : Nat) (n j : Nat) (v : View R Nat) (hj : j + n ≤ new.length)
    (hv : v.1 = new.take j) :
    (serialPubs (fun t => specOf (caseCalls new first q t)) (List.range' (j + 2) n) v).map (·.1) =
      (List.range' j (n + 1)).map (fun i => new.take i) := by
  induction n generalizing j v with
  | zero => simp [serialPubs, hv]
  | succ n ih =>
    rw [List.range'_succ, serialPubs, List.map_cons, List.range'_succ, List.map_cons, hv]
    congr 1
    have hlt : j < new.length := by omega
    have hget : new[j]? = some new[j] := List.getElem?_eq_getElem hlt
    have := ih (j + 1) (specOf (caseCalls new first q (j + 2)) v) (by omega) (by
      simp only [caseCalls, hget, specOf, addRouteSpec, hv]
      rw [List.take_add_one, hget]; rfl)
    simpa [Nat.add_assoc] using this

open VhostSpec in
/-- the routes of every view published by the first `m` writer calls in issue order are one of the reference tables -/
theorem serial_tables (old new : List R) (first : Bool) (q : Nat) (m : Nat) (hm : m ≤ new.length + 1) (v0 : View R Nat)
    (h0 : v0.1 = old) :
    ∀ v ∈ serialPubs (fun t => specOf (caseCalls new first q t)) (List.range' 1 m) v0, v.1 ∈ tables old new := by
  intro v hv
  cases m with
  | zero =>
    simp [serialPubs] at hv
    subst hv
    simp [tables, h0]
  | succ m =>
    rw [List.range'_succ, serialPubs, List.mem_cons] at hv
    rcases hv with e | hv
    · subst e; simp [tables, h0]
    · have hmem : v.1 ∈ (serialPubs (fun t => specOf (caseCalls new first q t)) (List.range' (0 + 2) m)
          (specOf (caseCalls new first q 1) v0)).map (·.1) := List.mem_map.2 ⟨v, hv, rfl⟩
      rw [serial_adds new first q m 0 _ (by omega) (by simp [caseCalls, specOf, removeAllSpec])] at hmem
      obtain ⟨i, hi, hiv⟩ := List.mem_map.1 hmem
      rw [List.mem_range'_1] at hi
      simp only [tables, List.mem_cons, List.mem_map, List.mem_range]
      right
      exact ⟨i, by omega, hiv⟩

open VhostSpec in
/-- **the reference holds of the model under every schedule**: the lookup (thread 0) runs concurrently with the regenerated
`RemoveAllRoutes` and `AddRoute` programs; whenever the writer calls completed so far are the first `m` in issue order (one
goroutine issues them one after the other), every answer of the lookup is the answer of ONE reference table. -/
theorem case_answers_allowed (old new : List R) (first : Bool) (q : Nat) (s0 : Shared R Nat) (h0 : (view s0).1 = old)
    (sched : List Nat) (m : Nat) (hm : m ≤ new.length + 1) :
    let c := runSched false (fun t => argOf (caseCalls new first q t)) (initConf (fun t => progOf (caseCalls new first q t)) s0) sched
    c.g.done = List.range' 1 m → ∀ o ∈ (c.th 0).obs, ansAllowed old new first q (o.res.map (·.id)) = true := by
  intro c hdone o ho
  obtain ⟨_, hser, _, hobs, hkv⟩ := schedule_facts false (fun t => argOf (caseCalls new first q t))
    (fun t => progOf (caseCalls new first q t)) s0 (fun t => disciplined_progOf _) (fun e => by cases e) sched
  have hp : progOf (caseCalls new first q 0) = if first then getRouteFromEntries else getAllRoutesFromEntries := by
    cases first <;> rfl
  have hl : Step.lock ∉ progOf (caseCalls new first q 0) := by rw [hp]; cases first <;> decide
  obtain ⟨v, hv, hres⟩ := hobs 0 hl o ho
  have hk : o.kv = false := hkv 0 (by rw [hp]; cases first <;> decide) (by rw [hp]; cases first <;> decide) o ho
  have hmem : v ∈ c.g.pubs := List.mem_of_getElem? hv
  have heq : (fun t => effect (progOf (caseCalls new first q t)) (argOf (caseCalls new first q t))) =
      (fun t => specOf (caseCalls new first q t)) := by
    funext t v; exact effect_progOf _ v
  rw [hser, hdone, heq] at hmem
  have htab := serial_tables old new first q m hm (view s0) h0 v hmem
  rw [ansAllowed, List.any_eq_true]
  refine ⟨v.1, htab, ?_⟩
  rw [hres, hk]
  cases first <;> simp [answer, caseCalls, argOf, ansOf, firstOf, allOf, lim]

end MosnVerif.Model.VhostTable
