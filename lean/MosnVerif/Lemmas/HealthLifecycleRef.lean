import MosnVerif.Lemmas.HealthLifecycle
/-! Lemmas for C16 part C: the life-cycle model refines the hand-written reference `Ref`, and what it shows after every
operation satisfies the property predicate `holdsStep`. Core Lean only. -/
namespace MosnVerif.Model.HealthLifecycle
open MosnVerif.Gen.HealthLifecycle MosnVerif.Gen.HealthCheck
open MosnVerif.Model.HealthCheck (Result Out trail isSucc_eq_ok trail_cons)

theorem effThr_eq (cu ch : Nat) : effThr cu ch = (if cu = 0 then 1 else cu, if ch = 0 then 1 else ch) := by
  have e1 : effUnhealthyThreshold cu = ((if cu = 0 then 1 else cu : Nat) : Int) := by
    simp only [effUnhealthyThreshold, defaultUnhealthyThreshold]
    split <;> split <;> simp_all
  have e2 : effHealthyThreshold ch = ((if ch = 0 then 1 else ch : Nat) : Int) := by
    simp only [effHealthyThreshold, defaultHealthyThreshold]
    split <;> split <;> simp_all
  simp only [effThr, e1, e2, Int.toNat_natCast]

theorem result_hosts (k : Cid) (a : Addr) (r : Result) (w : World) : (result k a r w).1.hosts = w.hosts := by
  simp only [result]; split
  · rfl
  · split <;> rfl

theorem result_thr (k : Cid) (a : Addr) (r : Result) (w : World) : (result k a r w).1.thr = w.thr := by
  simp only [result]; split
  · rfl
  · split <;> rfl

/-- address `a` is checked by cluster `k` alone: no other cluster lists it or has a session checker for it, and the
session checker of `k` satisfies the single-checker invariant of part B against the address's flag -/
def SoleInv (w : World) (k : Cid) (a : Addr) : Prop :=
  (∀ k', k' ≠ k → a ∉ w.hosts k' ∧ w.chk k' a = none) ∧
  (∀ c, w.chk k a = some c → HealthCheck.Inv (w.thr k).1 (w.thr k).2 ⟨c.un, c.hc, (w.words a).active⟩ c.rev)

structure Sim (all : List Op) (w : World) (s : Ref) : Prop where
  thr : ∀ k, s.thr k = w.thr k
  hosts : ∀ k, s.hosts k = w.hosts k
  live : ∀ k a, s.live k a = (w.chk k a).map (·.rev)
  good : Good w
  pos : ∀ k, 1 ≤ (w.thr k).1 ∧ 1 ≤ (w.thr k).2
  sole : ∀ k a, soleOwner all k a = true → SoleInv w k a

theorem soleOwner_setHosts (all : List Op) (k0 : Cid) (a0 : Addr) (h : soleOwner all k0 a0 = true) (k : Cid) (hs : List Addr)
    (hm : Op.setHosts k hs ∈ all) : k = k0 ∨ a0 ∉ hs := by
  simp only [soleOwner, List.all_eq_true] at h
  have := h _ hm
  simp only [Bool.or_eq_true, beq_iff_eq, Bool.not_eq_true', List.contains_eq_mem, decide_eq_false_iff_not] at this
  exact this

theorem sim_init (all : List Op) (cfg : Cid → Nat × Nat) (words0 : Addr → Word) :
    Sim all (World.init cfg words0) (Ref.init cfg) where
  thr := by intro k; simp [Ref.init, World.init, effThr_eq]
  hosts := by intro k; rfl
  live := by intro k a; rfl
  good := good_init cfg words0
  pos := by
    intro k
    simp only [World.init, effThr_eq]
    constructor <;> split <;> omega
  sole := by
    intro k a _
    constructor
    · intro k' _; simp [World.init]
    · intro c hc; simp [World.init] at hc

theorem step_thr (w : World) (op : Op) (k' : Cid) :
    (step w op).1.thr k' = match op with
      | .recreate k cu ch => if k' = k then effThr cu ch else w.thr k'
      | _ => w.thr k' := by
  cases op with
  | setHosts k hs => simp [step, setHosts_thr]
  | stopAll k => simp [step, stopAll_thr]
  | recreate k cu ch => simp [step, upd_apply, stopAll_thr]
  | result k a r => simp [step, result_thr]
  | outlier a on => rfl

theorem step_hosts (w : World) (op : Op) (k' : Cid) :
    (step w op).1.hosts k' = match op with
      | .setHosts k hs => if k' = k then hs else w.hosts k'
      | .recreate k _ _ => if k' = k then [] else w.hosts k'
      | _ => w.hosts k' := by
  cases op with
  | setHosts k hs => simp [step, setHosts_hosts]
  | stopAll k => simp [step, stopAll_hosts]
  | recreate k cu ch => simp [step, upd_apply, stopAll_hosts]
  | result k a r => simp [step, result_hosts]
  | outlier a on => rfl

theorem sim_step_thr (all : List Op) (w : World) (s : Ref) (hs : Sim all w s) (op : Op) (k' : Cid) :
    (s.step op).thr k' = (step w op).1.thr k' := by
  rw [step_thr]
  cases op with
  | recreate k cu ch => simp only [Ref.step, upd_apply, effThr_eq]; split <;> simp [hs.thr]
  | setHosts k l => exact hs.thr k'
  | stopAll k => exact hs.thr k'
  | result k a r => exact hs.thr k'
  | outlier a on => exact hs.thr k'

theorem sim_step_hosts (all : List Op) (w : World) (s : Ref) (hs : Sim all w s) (op : Op) (k' : Cid) :
    (s.step op).hosts k' = (step w op).1.hosts k' := by
  rw [step_hosts]
  cases op with
  | recreate k cu ch => simp only [Ref.step, upd_apply]; split <;> simp [hs.hosts]
  | setHosts k l => simp only [Ref.step, upd_apply]; split <;> simp [hs.hosts]
  | stopAll k => exact hs.hosts k'
  | result k a r => exact hs.hosts k'
  | outlier a on => exact hs.hosts k'

theorem sim_step_pos (all : List Op) (w : World) (s : Ref) (hs : Sim all w s) (op : Op) (k' : Cid) :
    1 ≤ ((step w op).1.thr k').1 ∧ 1 ≤ ((step w op).1.thr k').2 := by
  rw [step_thr]
  cases op with
  | recreate k cu ch =>
    simp only [effThr_eq]
    split
    · constructor <;> dsimp only <;> split <;> omega
    · exact hs.pos k'
  | setHosts k l => exact hs.pos k'
  | stopAll k => exact hs.pos k'
  | result k a r => exact hs.pos k'
  | outlier a on => exact hs.pos k'

theorem freshOr_map_rev (o : Option Checker) :
    (freshOr o).map (·.rev) = if o.isNone then some [] else o.map (·.rev) := by
  cases o <;> simp [freshOr, fresh]

theorem sim_step_live (all : List Op) (w : World) (s : Ref) (hs : Sim all w s) (op : Op) (k' : Cid) (a' : Addr) :
    (s.step op).live k' a' = ((step w op).1.chk k' a').map (·.rev) := by
  cases op with
  | setHosts k l =>
    simp only [Ref.step, step, setHosts_chk, hs.hosts, hs.live, List.contains_eq_mem, Bool.and_eq_true, Bool.not_eq_true',
      decide_eq_true_eq, decide_eq_false_iff_not, Option.isNone_map]
    by_cases hk : k' = k
    · subst hk
      simp only [true_and, if_true]
      by_cases h1 : a' ∈ w.hosts k' ∧ ¬a' ∈ l
      · rw [if_pos h1, if_pos h1]; rfl
      · rw [if_neg h1, if_neg h1]
        by_cases h2 : a' ∈ l ∧ ¬a' ∈ w.hosts k'
        · rw [if_pos h2]
          cases hc : w.chk k' a' <;> simp [h2, freshOr, fresh]
        · rw [if_neg h2, if_neg (fun h => h2 h.1)]
    · simp [hk]
  | stopAll k =>
    simp only [Ref.step, step, stopAll_chk, hs.hosts, hs.live, List.contains_eq_mem, decide_eq_true_eq]
    split <;> simp
  | recreate k cu ch =>
    simp only [Ref.step, step, hs.live]
    by_cases hk : k' = k
    · simp [hk]
    · simp [hk, stopAll_chk]
  | outlier a on => exact hs.live k' a'
  | result k a r =>
    simp only [Ref.step, step, upd2_apply, hs.live]
    cases hc : w.chk k a with
    | none =>
      rw [result_none _ _ _ _ hc]
      split
      · rename_i e; rw [e.1, e.2, hc]; rfl
      · rfl
    | some c =>
      obtain ⟨hrun, _, _⟩ := hs.good _ _ _ hc
      obtain ⟨_, _, hchk, _, _⟩ := result_live k a r w c hc hrun
      rw [hchk, upd2_apply]
      split <;> simp

theorem inv_fresh (u h : Nat) (hu : 1 ≤ u) (hh : 1 ≤ h) (f : Bool) :
    HealthCheck.Inv u h ⟨fresh.un, fresh.hc, f⟩ fresh.rev := HealthCheck.inv_init u h hu hh f

theorem sim_step_sole (all : List Op) (w : World) (s : Ref) (hs : Sim all w s) (op : Op) (hm : op ∈ all)
    (k0 : Cid) (a0 : Addr) (hso : soleOwner all k0 a0 = true) : SoleInv (step w op).1 k0 a0 := by
  obtain ⟨hA, hB⟩ := hs.sole k0 a0 hso
  cases op with
  | setHosts k l =>
    have hkl := soleOwner_setHosts all k0 a0 hso k l hm
    constructor
    · intro k' hk'
      obtain ⟨h1, h2⟩ := hA k' hk'
      constructor
      · rw [step_hosts]; dsimp only; split
        · rename_i e; subst e
          rcases hkl with e | e
          · exact absurd e hk'
          · exact e
        · exact h1
      · simp only [step, setHosts_chk]
        split
        · rfl
        · split
          · rename_i e
            rcases hkl with e' | e'
            · exact absurd (e.1.trans e') hk'
            · exact absurd e.2.1 e'
          · exact h2
    · intro c hc
      simp only [step] at hc ⊢
      rw [setHosts_words, setHosts_thr]
      rw [setHosts_chk] at hc
      split at hc
      · cases hc
      · split at hc
        · rename_i e
          rcases freshOr_cases _ _ hc with e1 | e1
          · subst e1; exact inv_fresh _ _ (hs.pos k0).1 (hs.pos k0).2 _
          · rw [← e.1] at e1; exact hB c e1
        · exact hB c hc
  | stopAll k =>
    constructor
    · intro k' hk'
      obtain ⟨h1, h2⟩ := hA k' hk'
      constructor
      · rw [step_hosts]; exact h1
      · simp only [step, stopAll_chk]; split
        · rfl
        · exact h2
    · intro c hc
      simp only [step] at hc ⊢
      rw [stopAll_words, stopAll_thr]
      rw [stopAll_chk] at hc
      split at hc
      · cases hc
      · exact hB c hc
  | recreate k cu ch =>
    constructor
    · intro k' hk'
      obtain ⟨h1, h2⟩ := hA k' hk'
      constructor
      · rw [step_hosts]; dsimp only; split
        · simp
        · exact h1
      · simp only [step]; split
        · rfl
        · rw [stopAll_chk]; split
          · rfl
          · exact h2
    · intro c hc
      rw [step_thr]
      simp only [step] at hc ⊢
      rw [stopAll_words]
      split at hc
      · cases hc
      · rename_i hne
        rw [stopAll_chk] at hc
        split at hc
        · cases hc
        · rw [if_neg hne]; exact hB c hc
  | outlier a on =>
    constructor
    · intro k' hk'; exact hA k' hk'
    · intro c hc
      simp only [step] at hc ⊢
      have : (upd w.words a { w.words a with outlier := on } a0).active = (w.words a0).active := by
        rw [upd_apply]; split
        · rename_i e; rw [e]
        · rfl
      rw [this]; exact hB c hc
  | result k a r =>
    simp only [step]
    cases hc : w.chk k a with
    | none => rw [result_none _ _ _ _ hc]; exact ⟨hA, hB⟩
    | some c =>
      obtain ⟨hrun, _, _⟩ := hs.good _ _ _ hc
      obtain ⟨_, hw, hchk, hho, hth⟩ := result_live k a r w c hc hrun
      -- a live checker for address a0 belongs to cluster k0
      have hk : a = a0 → k = k0 := by
        intro e; subst e
        by_cases hk : k = k0
        · exact hk
        · rw [(hA k hk).2] at hc; cases hc
      constructor
      · intro k' hk'
        obtain ⟨h1, h2⟩ := hA k' hk'
        rw [hho, hchk, upd2_apply]
        refine ⟨h1, ?_⟩
        split
        · rename_i e; exact absurd (e.1.symm ▸ hk e.2.symm) hk'
        · exact h2
      · intro c' hc'
        rw [hth, hw, upd_apply]
        rw [hchk, upd2_apply] at hc'
        by_cases ha : a0 = a
        · subst ha
          have hk0 := hk rfl
          subst hk0
          rw [if_pos ⟨rfl, rfl⟩] at hc'
          injection hc' with hc'
          subst hc'
          rw [if_pos rfl]
          have hi := hB c hc
          exact (HealthCheck.step_spec _ _ (hs.pos k).1 (hs.pos k).2 _ _ r hi).2.2
        · rw [if_neg (fun e => ha e.2)] at hc'
          rw [if_neg ha]
          exact hB c' hc'

theorem sim_step (all : List Op) (w : World) (s : Ref) (hs : Sim all w s) (op : Op) (hm : op ∈ all) :
    Sim all (step w op).1 (s.step op) where
  thr := sim_step_thr all w s hs op
  hosts := sim_step_hosts all w s hs op
  live := sim_step_live all w s hs op
  good := good_step w op hs.good
  pos := sim_step_pos all w s hs op
  sole := sim_step_sole all w s hs op hm

theorem all_range (n : Nat) (f : Nat → Bool) (h : ∀ x, f x = true) : (List.range n).all f = true := by
  simp only [List.all_eq_true]; intro x _; exact h x

/-- what the model shows after one operation satisfies the property predicate -/
theorem holds_step (n : Nat) (all : List Op) (w : World) (s : Ref) (hs : Sim all w s) (op : Op) :
    holdsStep n all s w.words (step w op).1.words (step w op).2 op = true := by
  cases op with
  | setHosts k l =>
    simp only [holdsStep, step, setHosts_words, Option.isNone_none, Bool.true_and]
    exact all_range _ _ (fun x => by simp)
  | stopAll k =>
    simp only [holdsStep, step, stopAll_words, Option.isNone_none, Bool.true_and]
    exact all_range _ _ (fun x => by simp)
  | recreate k cu ch =>
    simp only [holdsStep, step, stopAll_words, Option.isNone_none, Bool.true_and]
    exact all_range _ _ (fun x => by simp)
  | outlier a on =>
    simp only [holdsStep, step, Option.isNone_none, Bool.true_and]
    exact all_range _ _ (fun x => by
      simp only [upd_apply, beq_iff_eq]
      split
      · rename_i e; subst e; rfl
      · rfl)
  | result k a r =>
    simp only [holdsStep, step]
    rw [hs.live]
    cases hc : w.chk k a with
    | none =>
      rw [result_none _ _ _ _ hc]
      simp only [Option.map_none]
      exact all_range _ _ (fun x => by simp)
    | some c =>
      obtain ⟨hrun, _, _⟩ := hs.good _ _ _ hc
      obtain ⟨hcb, hw, _, _, _⟩ := result_live k a r w c hc hrun
      simp only [Option.map_some]
      have hf : ((result k a r w).1.words a).active = (handled w k a c r).1.flag := by rw [hw, upd_apply, if_pos rfl]
      -- (1) only the active-health-check condition of address a may change
      have h1 : (List.range n).all (fun x => (result k a r w).1.words x ==
          (if x = a then { w.words x with active := ((result k a r w).1.words a).active } else w.words x)) = true := by
        apply all_range; intro x
        rw [hf, hw, upd_apply]
        split
        · rename_i e; subst e; simp
        · simp
      -- (3) / (4): only by a threshold-completing result of this checker
      have h3 : (!((w.words a).active && !((result k a r w).1.words a).active) ||
          (r.ok && decide ((s.thr k).2 ≤ trail Result.ok (r :: c.rev)))) = true := by
        cases hb : (w.words a).active with
        | false => simp
        | true =>
          cases ha : ((result k a r w).1.words a).active with
          | true => simp
          | false =>
            obtain ⟨k1, c1, e, hc1, _, hle⟩ := cleared_only_by_success w hs.good (.result k a r) a hb ha
            injection e with e1 e2 e3
            subst e1 e3
            rw [hc] at hc1; injection hc1 with hc1; subst hc1
            simp [Result.ok, hs.thr, hle]
      have h4 : (!(!(w.words a).active && ((result k a r w).1.words a).active) ||
          (r.bad && decide ((s.thr k).1 ≤ trail Result.bad (r :: c.rev)))) = true := by
        cases hb : (w.words a).active with
        | true => simp
        | false =>
          cases ha : ((result k a r w).1.words a).active with
          | false => simp
          | true =>
            obtain ⟨k1, c1, r1, e, hbad, hc1, _, hle⟩ := set_only_by_failure w hs.good (.result k a r) a hb ha
            injection e with e1 e2 e3
            subst e1 e3
            rw [hc] at hc1; injection hc1 with hc1; subst hc1
            simp [hbad, hs.thr, hle]
      -- (2) the callback
      have h2 : (result k a r w).2 = some ⟨(w.words a).active != ((result k a r w).1.words a).active, r.ok,
          ((result k a r w).1.words a).active⟩ := by
        rw [hcb, hf]
        simp only [handled]
        cases hro : r.ok with
        | true =>
          have := (ok_true_iff r).mp hro
          subst this
          rw [step_success]
          cases (w.words a).active <;> cases decide (c.hc + 1 = ((w.thr k).2 : Int)) <;> rfl
        | false =>
          rw [step_bad _ _ _ _ _ _ hro]
          cases (w.words a).active <;> cases decide (c.un + 1 = ((w.thr k).1 : Int)) <;> rfl
      -- (5) exactness when cluster k is the only one checking the address
      have h5 : (!soleOwner all k a ||
          (((w.words a).active != ((result k a r w).1.words a).active) ==
            ((!(w.words a).active && r.bad && trail Result.bad (r :: c.rev) == (s.thr k).1) ||
             ((w.words a).active && r.ok && trail Result.ok (r :: c.rev) == (s.thr k).2)))) = true := by
        cases hso : soleOwner all k a with
        | false => rfl
        | true =>
          have hi := (hs.sole k a hso).2 c hc
          obtain ⟨_, hfl, _⟩ := HealthCheck.step_spec _ _ (hs.pos k).1 (hs.pos k).2 _ _ r hi
          simp only [] at hfl
          rw [hf]
          simp only [handled, hs.thr]
          rw [hfl]
          generalize ((!(w.words a).active && r.bad && trail Result.bad (r :: c.rev) == (w.thr k).1) ||
             ((w.words a).active && r.ok && trail Result.ok (r :: c.rev) == (w.thr k).2)) = ch
          cases (w.words a).active <;> cases ch <;> rfl
      rw [h2]
      simp only [h1, h3, h4, h5, beq_self_eq_true, Bool.and_self]

theorem holdsFrom_trace (n : Nat) (all : List Op) (ops : List Op) (w : World) (s : Ref) (hs : Sim all w s)
    (hsub : ∀ op ∈ ops, op ∈ all) : holdsFrom n all s w.words ops (trace w ops) = true := by
  induction ops generalizing w s with
  | nil => rfl
  | cons op ops ih =>
    simp only [trace, holdsFrom, Bool.and_eq_true]
    refine ⟨holds_step n all w s hs op, ?_⟩
    exact ih _ _ (sim_step all w s hs op (hsub op (List.mem_cons_self ..))) (fun o ho => hsub o (List.mem_cons_of_mem _ ho))

def Ref.run (s : Ref) (ops : List Op) : Ref := ops.foldl Ref.step s

theorem sim_runOps (all : List Op) (ops : List Op) (w : World) (s : Ref) (hs : Sim all w s)
    (hsub : ∀ op ∈ ops, op ∈ all) : Sim all (runOps w ops) (s.run ops) := by
  induction ops generalizing w s with
  | nil => exact hs
  | cons op ops ih =>
    exact ih _ _ (sim_step all w s hs op (hsub op (List.mem_cons_self ..))) (fun o ho => hsub o (List.mem_cons_of_mem _ ho))

/-- a result handed to the live session checker of a cluster that checks the address alone: exactly the run-length rule -/
theorem sole_result_exact (all : List Op) (w : World) (s : Ref) (hs : Sim all w s) (k : Cid) (a : Addr) (r : Result)
    (c : Checker) (hso : soleOwner all k a = true) (hc : w.chk k a = some c) :
    let before := (w.words a).active
    let changed := (!before && r.bad && trail Result.bad (r :: c.rev) == (w.thr k).1) ||
                   (before && r.ok && trail Result.ok (r :: c.rev) == (w.thr k).2)
    (step w (.result k a r)).2 = some ⟨changed, r.ok, if changed then !before else before⟩ ∧
    ((step w (.result k a r)).1.words a).active = (if changed then !before else before) := by
  obtain ⟨hrun, _, _⟩ := hs.good _ _ _ hc
  obtain ⟨hcb, hw, _, _, _⟩ := result_live k a r w c hc hrun
  have hi := (hs.sole k a hso).2 c hc
  obtain ⟨ho, hfl, _⟩ := HealthCheck.step_spec _ _ (hs.pos k).1 (hs.pos k).2 _ _ r hi
  simp only [] at ho hfl
  simp only [step]
  rw [hcb, hw, upd_apply, if_pos rfl]
  simp only [handled]
  exact ⟨by rw [ho], hfl⟩

end MosnVerif.Model.HealthLifecycle
