import MosnVerif.Model.H1Seg
import MosnVerif.Lemmas.Framing
/-! the HTTP/1 serve loop over the reader queue: without a destroying operation it is the generic dispatch loop -/
namespace MosnVerif.Lemmas.H1Seg
open MosnVerif.Model.Framing MosnVerif.Model.H1Seg

theorem drainQ_false {F} (d : Bytes → Step F) (fuel : Nat) (buf : Bytes) :
    drainQ false d fuel buf = drain d fuel buf := by
  induction fuel generalizing buf with
  | zero => rfl
  | succ n ih =>
    simp only [drainQ, drain]
    split
    · rfl
    · split <;> simp_all

theorem feedQ_false {F} (d : Bytes → Step F) (c : Conn F) (x : Bytes) : feedQ false d c x = feed d c x := by
  simp [feedQ, feed, drainQ_false]

theorem runQ_false {F} (d : Bytes → Step F) (chunks : List Bytes) : runQ false d chunks = run d chunks := by
  have : feedQ false d = feed d := by funext c x; exact feedQ_false d c x
  simp [runQ, run, this]

end MosnVerif.Lemmas.H1Seg
