import MosnVerif.Lemmas.HpackEmit
/-!
[c08p10] C08: the HPACK header-block decoder (Model/HpackEmit: `Decoder.Write` + `Close` with the emit flag, table lookups
through the regenerated, checked `Decoder.at`) never indexes the static or the dynamic table out of range, on EVERY block,
for every emit callback, from every decoder state whose table is consistent and within 32 bits: the indices come out of
`readVarInt` (< 2^64: the loop stops at shift 63), `lookup` is safe for every uint64 (Lemmas/HpackAt), and every
representation keeps the table bounded.
-/
namespace MosnVerif.Lemmas.HpackNoPanic
open MosnVerif.Model.HpackTable MosnVerif.Model.HpackInt MosnVerif.Model.HpackAt MosnVerif.Model.HpackEmit
open MosnVerif.Lemmas.HpackTable MosnVerif.Lemmas.HpackAt MosnVerif.Lemmas.HpackEmit

/-- the continuation loop keeps the value below `256 + 2^63`: every byte adds less than `2^(m+7)` and the loop stops at `m = 63` -/
theorem readCont_lt : ∀ (p : Bytes) (i m v : Nat) (r : Bytes), m % 7 = 0 → m ≤ 56 → i < 256 + 2 ^ m - 1 →
    readCont p i m = .ok (v, r) → v < 256 + 2 ^ 63 := by
  intro p
  induction p with
  | nil => intro i m v r _ _ _ h; simp [readCont] at h
  | cons b t ih =>
    intro i m v r hm hm56 hi h
    simp only [readCont] at h
    have hb : b.toNat % 128 < 128 := Nat.mod_lt _ (by decide)
    have hpow : 2 ^ m ≤ 2 ^ 56 := Nat.pow_le_pow_right (by decide) hm56
    have hmul : (b.toNat % 128) * 2 ^ m ≤ 127 * 2 ^ m := Nat.mul_le_mul_right _ (by omega)
    split at h
    · injection h with h; injection h with h1 _; subst h1
      have : (2:Nat) ^ 63 = 128 * 2 ^ 56 := by decide
      omega
    · split at h
      · simp at h
      · rename_i hlim
        simp only [MosnVerif.Gen.Hpack.varintShiftLimit, Nat.not_le] at hlim
        have hm49 : m ≤ 49 := by omega
        refine ih _ (m + 7) v r (by omega) (by omega) ?_ h
        have : 2 ^ (m + 7) = 128 * 2 ^ m := by rw [Nat.pow_add]; omega
        omega

theorem readVarInt_lt (n : Nat) (p : Bytes) (v : Nat) (r : Bytes) (h : readVarInt n p = .ok (v, r)) :
    v < uint64Bound := by
  unfold uint64Bound
  cases p with
  | nil => simp [readVarInt] at h
  | cons b t =>
    simp only [readVarInt] at h
    have hb : b.toNat < 256 := b.toNat_lt
    generalize hi0 : (if n < 8 then b.toNat % 2 ^ n else b.toNat) = i0 at h
    have hi : i0 < 256 := by
      rw [← hi0]; split
      · have := Nat.mod_le b.toNat (2 ^ n); omega
      · omega
    split at h
    · injection h with h; injection h with h1 _; subst h1; omega
    · have := readCont_lt t i0 0 v r (by decide) (by decide) (by omega) h
      omega

/-- the table indices of a representation fit a uint64 (they come out of `readVarInt`) -/
def RepOk : Rep → Prop
  | .indexed i => i < uint64Bound
  | .literal _ ni _ _ => ni < uint64Bound
  | .sizeUpdate _ => True

theorem parseLiteralW_ok (mx : Nat) (w : Bool) (k : LitKind) (buf : Bytes) (r : Rep) (rest : Bytes)
    (h : parseLiteralW mx w k buf = .ok (r, rest)) : RepOk r := by
  unfold parseLiteralW at h
  cases hv : readVarInt k.prefixBits buf with
  | error e => simp [hv] at h
  | ok x =>
    obtain ⟨ni, b2⟩ := x
    have hlt := readVarInt_lt _ _ _ _ hv
    simp only [hv] at h
    split at h
    · simp at h
    · split at h
      · simp at h
      · injection h with h; injection h with h1 _; subst h1; exact hlt

theorem parseOneW_ok (pol : Policy) (emit : Bool) (mx : Nat) (buf : Bytes) (r : Rep) (rest : Bytes)
    (h : parseOneW pol emit mx buf = .ok (r, rest)) : RepOk r := by
  unfold parseOneW at h
  cases buf with
  | nil => simp at h
  | cons b t =>
    simp only at h
    split at h
    · cases hv : readVarInt 7 (b :: t) with
      | error e => simp [hv] at h
      | ok x =>
        simp only [hv] at h
        injection h with h; injection h with h1 _; subst h1
        exact readVarInt_lt _ _ _ _ hv
    · split at h
      · exact parseLiteralW_ok _ _ _ _ _ _ h
      · split at h
        · exact parseLiteralW_ok _ _ _ _ _ _ h
        · split at h
          · exact parseLiteralW_ok _ _ _ _ _ _ h
          · split at h
            · cases hv : readVarInt 5 (b :: t) with
              | error e => simp [hv] at h
              | ok x =>
                simp only [hv] at h
                injection h with h; injection h with h1 _; subst h1
                trivial
            · simp at h

theorem emitStep_safe (pol : Policy) (d : DecE) (b' : Dec) (f : Field) (hb : Bounded b') :
    emitStep pol d b' f ≠ .error .panic ∧ ∀ d' g, emitStep pol d b' f = .ok (d', g) → Bounded d'.base := by
  unfold emitStep
  cases callEmit d.base f with
  | error e => simp
  | ok u =>
    refine ⟨by simp, fun d' g h => ?_⟩
    simp only [Except.ok.injEq, Prod.mk.injEq] at h
    obtain ⟨h1, _⟩ := h
    subst h1
    exact ⟨hb.cons, hb.le, hb.max32, hb.allowed32⟩

/-- one representation: no table access out of range, and the table stays bounded -/
theorem applyP_safe (pol : Policy) (d : DecE) (r : Rep) (hb : Bounded d.base) (hr : RepOk r) :
    d.applyP pol r ≠ .error .panic ∧ ∀ d' f, d.applyP pol r = .ok (d', f) → Bounded d'.base := by
  have hlen := bounded_len d.base hb
  cases r with
  | indexed idx =>
    have hno := lookup_no_oob d.base idx hr hlen
    simp only [DecE.applyP]
    cases hl : lookup d.base idx with
    | oob => exact absurd hl hno
    | none => simp
    | some e => exact emitStep_safe pol d d.base _ hb
  | sizeUpdate size =>
    simp only [DecE.applyP]
    split
    · simp
    · split
      · simp
      · rename_i h2
        refine ⟨by simp, fun d' f h => ?_⟩
        simp only [Except.ok.injEq, Prod.mk.injEq] at h
        obtain ⟨h1, _⟩ := h
        subst h1
        obtain ⟨c, l, m⟩ := setMaxSize_consistent d.base.tab size hb.cons
        refine ⟨c, ?_, ?_, hb.allowed32⟩
        · show (d.base.tab.setMaxSize size).size ≤ (d.base.tab.setMaxSize size).maxSize
          rw [m]; exact l
        · show (d.base.tab.setMaxSize size).maxSize ≤ uint32Max
          rw [m]; have := hb.allowed32; omega
  | literal k nameIdx name value =>
    have hno := lookup_no_oob d.base nameIdx hr hlen
    simp only [DecE.applyP]
    have key : ∀ nm : Bytes, ∀ v : Bytes,
        Bounded (if pol.addGuard d.emit (isIndexed k) then { d.base with tab := d.base.tab.add (nm, v) } else d.base) := by
      intro nm v
      split
      · obtain ⟨c, l, m⟩ := add_consistent d.base.tab (nm, v) hb.cons
        refine ⟨c, l, ?_, hb.allowed32⟩
        show (d.base.tab.add (nm, v)).maxSize ≤ uint32Max
        rw [m]; exact hb.max32
      · exact hb
    by_cases hpos : nameIdx > 0
    · simp only [hpos, if_true]
      cases hl : lookup d.base nameIdx with
      | oob => exact absurd hl hno
      | none => simp
      | some e => exact emitStep_safe pol d _ _ (key _ _)
    · simp only [hpos, if_false]
      exact emitStep_safe pol d _ _ (key _ _)

/-- **the header-block decoder never indexes a table out of range**: `Decoder.Write` + `Close` on EVERY block, for every
emit callback (whatever it keeps, whenever it switches emitting off), from every decoder state whose table is consistent
and within 32 bits -/
theorem decodeLoopE_no_panic {σ : Type} (pol : Policy) (cb : Callback σ) :
    ∀ (fuel : Nat) (d : DecE) (st : σ) (buf : Bytes) (acc : List Field), Bounded d.base →
      decodeLoopE pol cb fuel d st buf acc ≠ .error .panic := by
  intro fuel
  induction fuel with
  | zero => intro d st buf acc _; simp [decodeLoopE]
  | succ n ih =>
    intro d st buf acc hb
    simp only [decodeLoopE]
    split
    · simp
    · cases hp : parseOneW pol d.emit d.base.maxStrLen buf with
      | error e => simp
      | ok x =>
        obtain ⟨r, rest⟩ := x
        have hr := parseOneW_ok _ _ _ _ _ _ hp
        have hs := applyP_safe pol d r hb hr
        simp only
        cases ha : d.applyP pol r with
        | error e =>
          simp only
          intro h
          injection h with h
          exact hs.1 (by rw [ha, h])
        | ok y =>
          obtain ⟨d', f⟩ := y
          have hb' := hs.2 d' f ha
          simp only
          cases f with
          | none => exact ih d' st rest acc hb'
          | some f =>
            simp only
            apply ih
            split
            · exact ⟨hb'.cons, hb'.le, hb'.max32, hb'.allowed32⟩
            · exact hb'

theorem decodeFullP_no_panic {σ : Type} (pol : Policy) (cb : Callback σ) (d : DecE) (st : σ) (block : Bytes)
    (hb : Bounded d.base) : d.decodeFullP pol cb st block ≠ .error .panic :=
  decodeLoopE_no_panic pol cb _ d st block [] hb

end MosnVerif.Lemmas.HpackNoPanic
