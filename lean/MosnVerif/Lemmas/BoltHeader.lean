import MosnVerif.Model.BoltHeader
import MosnVerif.Lemmas.Bytes
/-! lemmas about the key/value block (core only) -/
namespace MosnVerif.Model.BoltHeader
open MosnVerif.Model MosnVerif.Model.Bytes

theorem encodeStr_length (s : Bytes) : (encodeStr s).length = 4 + s.length := by simp [encodeStr]

theorem encode_length (kvs : List KV) : (encode kvs).length = encodeLen kvs := by
  induction kvs with
  | nil => rfl
  | cons kv r ih =>
    obtain ⟨k, v⟩ := kv
    simp only [encode, encodeLen, List.length_append, encodeStr_length, ih]; omega

theorem encodeLen_ge (kvs : List KV) : 8 * kvs.length ≤ encodeLen kvs := by
  induction kvs with
  | nil => simp [encodeLen]
  | cons kv r ih => obtain ⟨k, v⟩ := kv; simp only [encodeLen, List.length_cons]; omega

theorem encodeLen_append (a b : List KV) : encodeLen (a ++ b) = encodeLen a + encodeLen b := by
  induction a with
  | nil => simp [encodeLen]
  | cons kv r ih => obtain ⟨k, v⟩ := kv; simp only [List.cons_append, encodeLen, ih]; omega

theorem encode_append (a b : List KV) : encode (a ++ b) = encode a ++ encode b := by
  induction a with
  | nil => simp [encode]
  | cons kv r ih => obtain ⟨k, v⟩ := kv; simp only [List.cons_append, encode, ih, List.append_assoc]

/-- reading back one length-prefixed string -/
theorem readStr_encodeStr (s rest : Bytes) (h : s.length < invalidLen) :
    readStr (encodeStr s ++ rest) = .str s rest := by
  have hb : s.length % 256 ^ 4 = s.length := Nat.mod_eq_of_lt (by unfold invalidLen at h; omega)
  have h4 : (encodeStr s ++ rest).take 4 = be 4 s.length := by
    simp [encodeStr, List.take_append_of_le_length]
  have hd : (encodeStr s ++ rest).drop 4 = s ++ rest := by
    simp [encodeStr, List.append_assoc, List.drop_append]
  have hl : (encodeStr s ++ rest).length = 4 + s.length + rest.length := by simp [encodeStr]; omega
  unfold readStr
  rw [h4, toNat_be, hb, hl]
  have h1 : ¬ (4 + s.length + rest.length < 4) := by omega
  have h2 : ¬ (s.length = invalidLen) := by omega
  have h3 : ¬ (4 + s.length > 4 + s.length + rest.length) := by omega
  simp only [h1, h2, h3, if_false]
  rw [hd]
  have hdd : (encodeStr s ++ rest).drop (4 + s.length) = rest := by
    rw [← List.drop_drop, hd]; simp
  rw [hdd]
  simp

theorem decodeLoop_encode (kvs : List KV) (hw : wf kvs) (fuel : Nat) (rest : Bytes) (acc : List KV) :
    decodeLoop (fuel + kvs.length) (encode kvs ++ rest) acc = decodeLoop fuel rest (kvs.reverse ++ acc) := by
  induction kvs generalizing acc with
  | nil => simp [encode]
  | cons kv r ih =>
    obtain ⟨k, v⟩ := kv
    have hk := hw (k, v) (by simp)
    have hr : wf r := fun x hx => hw x (by simp [hx])
    rw [List.length_cons, ← Nat.add_assoc, decodeLoop]
    have hne : (encode ((k, v) :: r) ++ rest).isEmpty = false := by
      have : 0 < (encode ((k, v) :: r) ++ rest).length := by
        simp only [encode, List.length_append, encodeStr_length]; omega
      cases hx : encode ((k, v) :: r) ++ rest with
      | nil => rw [hx] at this; simp at this
      | cons _ _ => rfl
    rw [hne]
    simp only [encode, List.append_assoc, Bool.false_eq_true, if_false]
    rw [readStr_encodeStr k _ hk.1]
    simp only
    rw [readStr_encodeStr v _ hk.2]
    simp only
    rw [ih hr]
    simp

/-- **decode_encode**: decoding the encoding of any well-formed pair list gives the list back -/
theorem decode_encode (kvs : List KV) (hw : wf kvs) : decode (encode kvs) = .ok kvs := by
  unfold decode
  have hl := encode_length kvs
  have hg := encodeLen_ge kvs
  have : (encode kvs).length + 1 = ((encode kvs).length + 1 - kvs.length) + kvs.length := by omega
  rw [this]
  have h := decodeLoop_encode kvs hw ((encode kvs).length + 1 - kvs.length) [] []
  rw [List.append_nil] at h
  rw [h]
  have : (encode kvs).length + 1 - kvs.length = ((encode kvs).length - kvs.length) + 1 := by omega
  rw [this, decodeLoop]
  simp

/-- pairs whose total encoded length fits 16 bits are well-formed -/
theorem wf_of_encodeLen (kvs : List KV) (h : encodeLen kvs ≤ 65535) : wf kvs := by
  induction kvs with
  | nil => intro x hx; cases hx
  | cons kv r ih =>
    obtain ⟨k, v⟩ := kv
    simp only [encodeLen] at h
    intro x hx
    rcases List.mem_cons.mp hx with rfl | hx
    · simp only [invalidLen]; omega
    · exact ih (by omega) x hx

end MosnVerif.Model.BoltHeader
