import MosnVerif.Model.ConfigCodec
/-! Lemmas about metadata (`configToMetadata` / `metadataToConfig`) and about positions in a field table, used by the
round-trip lemmas of the codec (`Lemmas/ConfigCodec.lean`) and by the custom pairs. -/
namespace MosnVerif.Model.ConfigCodec
open MosnVerif.Model MosnVerif.Model.GoDuration

theorem dedupLast_keys_sub : (ms : List (String × Json)) → ∀ m ∈ dedupLast ms, m ∈ ms
  | [], _, h => by simp [dedupLast] at h
  | (k, v) :: r, m, h => by
    simp only [dedupLast] at h
    split at h
    · exact List.mem_cons_of_mem _ (dedupLast_keys_sub r m h)
    · simp only [List.mem_cons] at h
      rcases h with rfl | h
      · simp
      · exact List.mem_cons_of_mem _ (dedupLast_keys_sub r m h)

theorem dedupLast_nodup : (ms : List (String × Json)) → ((dedupLast ms).map (·.1)).Nodup
  | [] => by simp [dedupLast]
  | (k, v) :: r => by
    simp only [dedupLast]
    split
    · exact dedupLast_nodup r
    · rename_i hno
      simp only [List.map_cons, List.nodup_cons]
      refine ⟨?_, dedupLast_nodup r⟩
      intro hmem
      simp only [List.mem_map] at hmem
      obtain ⟨m, hm, hk⟩ := hmem
      have := dedupLast_keys_sub r m hm
      apply hno
      simp only [List.any_eq_true]
      exact ⟨m, this, by simp [hk]⟩

theorem dedupLast_id : (ms : List (String × Json)) → (ms.map (·.1)).Nodup → dedupLast ms = ms
  | [], _ => by simp [dedupLast]
  | (k, v) :: r, h => by
    simp only [List.map_cons, List.nodup_cons] at h
    have hno : (r.any fun m => m.1 == k) = false := by
      rw [Bool.eq_false_iff]
      intro hany
      simp only [List.any_eq_true, beq_iff_eq] at hany
      obtain ⟨m, hm, hk⟩ := hany
      exact h.1 (by simp only [List.mem_map]; exact ⟨m, hm, hk⟩)
    simp [dedupLast, hno, dedupLast_id r h.2]

theorem toMeta_nodup (j : Json) : ((toMeta j).map (·.1)).Nodup := by
  unfold toMeta
  split
  · rename_i ms
    have h := dedupLast_nodup ms
    generalize dedupLast ms = l at h
    induction l with
    | nil => simp
    | cons m r ih =>
      simp only [List.map_cons, List.nodup_cons] at h
      simp only [List.filterMap_cons]
      split
      · exact ih h.2
      · rename_i b hb
        simp only [List.map_cons, List.nodup_cons]
        refine ⟨?_, ih h.2⟩
        intro hmem
        simp only [List.mem_map, List.mem_filterMap] at hmem
        obtain ⟨b', ⟨m', hm', hb'⟩, hk⟩ := hmem
        apply h.1
        simp only [List.mem_map]
        refine ⟨m', hm', ?_⟩
        cases hv : m'.2 <;> simp [hv] at hb'
        cases hv2 : m.2 <;> simp [hv2] at hb
        subst hb'; subst hb
        simpa using hk
  · simp

theorem toMeta_fromMeta (md : List (String × String)) (h : (md.map (·.1)).Nodup) :
    toMeta (.obj (md.map (fun m => (m.1, Json.str m.2)))) = md := by
  unfold toMeta
  simp only
  rw [dedupLast_id _ (by simpa [List.map_map, Function.comp_def] using h)]
  induction md with
  | nil => simp
  | cons m r ih =>
    simp only [List.map_cons, List.nodup_cons] at h
    simp [ih h.2]


mutual
theorem Shape.eq_of_beq : (a b : Shape) → Shape.beq a b = true → a = b
  | .str, b, h => by cases b <;> simp [Shape.beq] at h <;> rfl
  | .num, b, h => by cases b <;> simp [Shape.beq] at h <;> rfl
  | .bool, b, h => by cases b <;> simp [Shape.beq] at h <;> rfl
  | .hole, b, h => by cases b <;> simp [Shape.beq] at h <;> rfl
  | .hmap, b, h => by cases b <;> simp [Shape.beq] at h <;> rfl
  | .dur, b, h => by cases b <;> simp [Shape.beq] at h <;> rfl
  | .struct fa, b, h => by
    cases b <;> simp [Shape.beq] at h
    rename_i fb; rw [Fields.eq_of_beq fa fb h]
  | .slice ea, b, h => by
    cases b <;> simp [Shape.beq] at h
    rename_i eb; rw [Shape.eq_of_beq ea eb h]
  | .map ea, b, h => by
    cases b <;> simp [Shape.beq] at h
    rename_i eb; rw [Shape.eq_of_beq ea eb h]
  | .ptr ea, b, h => by
    cases b <;> simp [Shape.beq] at h
    rename_i eb; rw [Shape.eq_of_beq ea eb h]
  | .metaS i fa, b, h => by
    cases b <;> simp [Shape.beq] at h
    rename_i j fb; rw [h.1, Fields.eq_of_beq fa fb h.2]
  | .boxed ea, b, h => by
    cases b <;> simp [Shape.beq] at h
    rename_i eb; rw [Shape.eq_of_beq ea eb h]
theorem Fields.eq_of_beq : (a b : Fields) → Fields.beq a b = true → a = b
  | .nil, b, h => by cases b <;> simp [Fields.beq] at h <;> rfl
  | .cons k o s r, b, h => by
    cases b <;> simp [Fields.beq] at h
    rename_i k' o' s' r'
    obtain ⟨⟨⟨h1, h2⟩, h3⟩, h4⟩ := h
    rw [h1, h2, Shape.eq_of_beq s s' h3, Fields.eq_of_beq r r' h4]
end

theorem shape_eq_of_beq (a b : Shape) (h : (a == b) = true) : a = b := Shape.eq_of_beq a b h

/-! ### positions in a field table -/

theorem wtF_length : (fs : Fields) → (vs : List CVal) → wtF fs vs = true → vs.length = fs.length
  | .nil, [], _ => rfl
  | .nil, _ :: _, h => by simp [wtF] at h
  | .cons _ _ _ r, [], h => by simp [wtF] at h
  | .cons _ _ _ r, v :: vs, h => by
    simp only [wtF, Bool.and_eq_true] at h
    simp [Fields.length, wtF_length r vs h.2]

theorem get?_lt : (fs : Fields) → (i : Nat) → (x : String × Bool × Shape) → fs.get? i = some x → i < fs.length
  | .nil, _, _, h => by simp [Fields.get?] at h
  | .cons _ _ _ r, 0, _, _ => by simp [Fields.length]
  | .cons _ _ _ r, i + 1, x, h => by
    simp only [Fields.get?] at h
    have := get?_lt r i x h
    simp [Fields.length]; omega

/-- replacing the value of field `i` by a value of its shape keeps the struct well-typed -/
theorem wtF_set : (fs : Fields) → (vs : List CVal) → (i : Nat) → (k : String) → (o : Bool) → (sh : Shape) → (v : CVal) →
    wtF fs vs = true → fs.get? i = some (k, o, sh) → wt sh v = true → wtF fs (vs.set i v) = true
  | .nil, _, _, _, _, _, _, _, h, _ => by simp [Fields.get?] at h
  | .cons _ _ _ r, [], _, _, _, _, _, h, _, _ => by simp [wtF] at h
  | .cons k' o' sh' r, v' :: vs, 0, k, o, sh, v, h, hg, hv => by
    simp only [Fields.get?, Option.some.injEq, Prod.mk.injEq] at hg
    obtain ⟨_, _, rfl⟩ := hg
    simp only [wtF, Bool.and_eq_true] at h
    simp [wtF, hv, h.2]
  | .cons k' o' sh' r, v' :: vs, i + 1, k, o, sh, v, h, hg, hv => by
    simp only [Fields.get?] at hg
    simp only [wtF, Bool.and_eq_true] at h
    simp [wtF, h.1, wtF_set r vs i k o sh v h.2 hg hv]

/-- the value of field `i` after one cycle -/
theorem normF_get : (fs : Fields) → (vs : List CVal) → (i : Nat) → (k : String) → (o : Bool) → (sh : Shape) → (v : CVal) →
    wtF fs vs = true → fs.get? i = some (k, o, sh) → vs[i]? = some v →
    (normF fs vs)[i]? = some (if o && isEmpty v then zero sh else norm sh v)
  | .nil, _, _, _, _, _, _, _, h, _ => by simp [Fields.get?] at h
  | .cons _ _ _ r, [], _, _, _, _, _, h, _, _ => by simp [wtF] at h
  | .cons k' o' sh' r, v' :: vs, 0, k, o, sh, v, h, hg, hv => by
    simp only [Fields.get?, Option.some.injEq, Prod.mk.injEq] at hg
    obtain ⟨_, rfl, rfl⟩ := hg
    simp only [List.getElem?_cons_zero, Option.some.injEq] at hv
    subst hv
    simp [normF]
  | .cons k' o' sh' r, v' :: vs, i + 1, k, o, sh, v, h, hg, hv => by
    simp only [Fields.get?] at hg
    simp only [wtF, Bool.and_eq_true] at h
    simp only [List.getElem?_cons_succ] at hv
    simp [normF, normF_get r vs i k o sh v h.2 hg hv]

theorem set_self (l : List CVal) (i : Nat) (v : CVal) (h : l[i]? = some v) : l.set i v = l := by
  induction l generalizing i with
  | nil => simp
  | cons a r ih =>
    cases i with
    | zero => simp at h; simp [h]
    | succ i => simp at h; simp [ih i h]

/-! ### metadata wrappers -/

theorem metaAt_get (fs : Fields) (i : Nat) (h : metaAt fs i = true) : ∃ k, fs.get? i = some (k, true, metaShape) := by
  unfold metaAt at h
  split at h
  · rename_i k o sh hg
    simp only [Bool.and_eq_true] at h
    obtain ⟨ho, hs⟩ := h
    subst ho
    exact ⟨k, by rw [hg, shape_eq_of_beq sh metaShape hs]⟩
  · simp at h

theorem wt_fromMeta (md : List (String × String)) : wt metaShape (fromMeta md) = true := by
  unfold fromMeta metaShape; split <;> simp [wt, wtF, wtL, ptrElemOK, isObjOrNull]

/-- the metadata member written by `metadataToConfig` comes back unchanged from one cycle -/
theorem norm_fromMeta (md : List (String × String)) :
    (if true && isEmpty (fromMeta md) then zero metaShape else norm metaShape (fromMeta md)) = fromMeta md := by
  unfold fromMeta metaShape
  split
  · simp [isEmpty, zero]
  · simp [isEmpty, norm, normL, normF]

theorem mdOf_fromMeta (md : List (String × String)) (h : (md.map (·.1)).Nodup) : mdOf (some (fromMeta md)) = md := by
  unfold fromMeta
  by_cases he : md = []
  · simp [he, mdOf]
  · have he' : md.isEmpty = false := by cases hq : md <;> simp_all
    simp [he', mdOf, toMeta_fromMeta md h]

theorem mdOf_nodup (v : Option CVal) : ((mdOf v).map (·.1)).Nodup := by
  unfold mdOf
  split
  · exact toMeta_nodup _
  · simp


end MosnVerif.Model.ConfigCodec
