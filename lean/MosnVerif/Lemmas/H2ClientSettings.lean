import MosnVerif.Model.H2ClientSettings
/-! [c08l9] lemmas: validated SETTINGS keep MAX_FRAME_SIZE in range; the chunking loops end iff the step is positive -/
namespace MosnVerif.Lemmas.H2ClientSettings
open MosnVerif.Gen MosnVerif.Model.H2ClientSettings

theorem invalidCode_zero_maxFrame (val : Nat) (h : (H2Limits.settingInvalidCode (5 : Nat) (val : Int)).toNat = 0) :
    16384 ≤ val ∧ val ≤ 16777215 := by
  simp only [H2Limits.settingInvalidCode] at h
  by_cases h1 : (val : Int) < 16384
  · simp [h1] at h
  · by_cases h2 : (val : Int) > 16777215
    · simp [h2] at h
    · omega

theorem init_ok : init.Ok := by simp [Conn.Ok, init, H2Limits.initialMaxFrameSize]

/-- a validating callback never stores a MAX_FRAME_SIZE outside the range -/
theorem applyOne_ok (applies : List (Nat × String)) (c c' : Conn) (id val : Nat) (hc : c.Ok)
    (h : applyOne true applies c id val = .ok c') : c'.Ok := by
  unfold applyOne at h
  simp only [Bool.true_and] at h
  split at h
  · cases h
  · split at h
    · cases h
    · rename_i hv _
      injection h with h
      subst h
      simp only [Conn.Ok]
      split
      · rename_i h5
        simp only [Bool.and_eq_true, beq_iff_eq, H2Limits.settingMaxFrameSize] at h5
        obtain ⟨rfl, _⟩ := h5
        simp only [bne_iff_ne, ne_eq, Decidable.not_not] at hv
        exact invalidCode_zero_maxFrame val hv
      · exact hc

theorem processSettings_ok (applies : List (Nat × String)) (ss : List (Nat × Nat)) (c c' : Conn) (hc : c.Ok)
    (h : processSettings true applies c ss = .ok c') : c'.Ok := by
  induction ss generalizing c with
  | nil => simp only [processSettings] at h; injection h with h; subst h; exact hc
  | cons p r ih =>
    obtain ⟨id, val⟩ := p
    simp only [processSettings] at h
    split at h
    · cases h
    · rename_i c1 h1
      exact ih c1 (applyOne_ok applies c c1 id val hc h1) h

theorem chunkLen_pos (rest m : Int) (hm : 0 < m) (hr : 0 < rest) : 0 < chunkLen rest m ∧ chunkLen rest m ≤ m ∧ chunkLen rest m ≤ rest := by
  simp only [chunkLen, C08H2Settings.headersChunkCut]
  by_cases h : rest > m
  · simp [h]; omega
  · simp [h]; omega

def sumI (l : List Int) : Int := l.foldr (· + ·) 0

/-- with a positive frame size the HEADERS/CONTINUATION loop ends within `rest` turns: fragments are non-empty, at most
the frame size, and add up to the block -/
theorem headerFrames_terminates (m : Int) (hm : 0 < m) (fuel : Nat) (rest : Int) (h0 : 0 ≤ rest) (hf : rest ≤ fuel) :
    ∃ fs, headerFrames m (fuel + 1) rest = some fs ∧ sumI fs = rest ∧ (∀ f ∈ fs, 0 < f ∧ f ≤ m) ∧ (fs.length : Int) ≤ rest := by
  induction fuel generalizing rest with
  | zero =>
    have : rest = 0 := by omega
    subst this
    exact ⟨[], by simp [headerFrames], rfl, by simp, by simp⟩
  | succ n ih =>
    by_cases hr : rest > 0
    · have ⟨hp, hle, hlr⟩ := chunkLen_pos rest m hm hr
      obtain ⟨fs, h1, h2, h3, h4⟩ := ih (rest - chunkLen rest m) (by omega) (by omega)
      refine ⟨chunkLen rest m :: fs, ?_, ?_, ?_, ?_⟩
      · rw [headerFrames]; simp only [hr, if_true, h1, Option.map_some]
      · simp only [sumI, List.foldr_cons] at h2 ⊢; omega
      · intro f hfm
        rcases List.mem_cons.mp hfm with rfl | h'
        · exact ⟨hp, hle⟩
        · exact h3 f h'
      · simp only [List.length_cons]; omega
    · exact ⟨[], by rw [headerFrames]; simp [hr], by simp [sumI]; omega, by simp, by simp; omega⟩

/-- with a frame size ≤ 0 the loop never ends, whatever the fuel: `hdrs` does not shrink -/
theorem headerFrames_diverges (m : Int) (hm : m ≤ 0) (fuel : Nat) (rest : Int) (hr : 0 < rest) :
    headerFrames m fuel rest = none := by
  induction fuel generalizing rest with
  | zero => rfl
  | succ n ih =>
    rw [headerFrames]
    have hc : chunkLen rest m = m := by
      simp only [chunkLen, C08H2Settings.headersChunkCut]
      have : rest > m := by omega
      simp [this]
    simp only [hr, if_true, hc, ih (rest - m) (by omega), Option.map_none]

theorem fragLen_pos (rest : Int) (hr : 0 < rest) : 0 < fragLen rest ∧ fragLen rest ≤ rest := by
  simp only [fragLen, C08H2Settings.dataFragCut, C08H2Settings.dataFragMax]
  by_cases h : rest > ((16384 : Nat) : Int)
  · simp; omega
  · simp; omega

theorem fragFrames_terminates (fuel : Nat) (rest : Int) (h0 : 0 ≤ rest) (hf : rest ≤ fuel) :
    ∃ fs, fragFrames (fuel + 1) rest = some fs ∧ sumI fs = rest ∧ (∀ f ∈ fs, 0 < f) := by
  induction fuel generalizing rest with
  | zero =>
    have : rest = 0 := by omega
    subst this
    exact ⟨[], by simp [fragFrames], rfl, by simp⟩
  | succ n ih =>
    by_cases hr : rest > 0
    · have ⟨hp, hle⟩ := fragLen_pos rest hr
      obtain ⟨fs, h1, h2, h3⟩ := ih (rest - fragLen rest) (by omega) (by omega)
      refine ⟨fragLen rest :: fs, ?_, ?_, ?_⟩
      · rw [fragFrames]; simp only [hr, if_true, h1, Option.map_some]
      · simp only [sumI, List.foldr_cons] at h2 ⊢; omega
      · intro f hfm
        rcases List.mem_cons.mp hfm with rfl | h'
        · exact hp
        · exact h3 f h'
    · exact ⟨[], by rw [fragFrames]; simp [hr], by simp [sumI]; omega, by simp⟩

theorem take_pos (avail rest m : Int) (hm : 0 < m) (hr : 0 < rest) (ha : rest ≤ avail) :
    0 < take avail rest m ∧ take avail rest m ≤ rest ∧ take avail rest m ≤ m := by
  simp only [take, C08H2Settings.clientTakeOverBytes, C08H2Settings.clientTakeOverFrame]
  by_cases h1 : avail > rest <;> by_cases h2 : rest > m <;> by_cases h3 : avail > m <;> simp [h1, h2, h3] <;> omega

/-- with a positive frame size and a send window covering the body the DATA loop ends: every frame is non-empty -/
theorem dataFrames_terminates (m : Int) (hm : 0 < m) (fuel : Nat) (avail rest : Int) (h0 : 0 ≤ rest) (hf : rest ≤ fuel)
    (ha : rest ≤ avail) :
    ∃ fs, dataFrames m (fuel + 1) avail rest = some fs ∧ sumI fs = rest ∧ (∀ f ∈ fs, 0 < f) := by
  induction fuel generalizing rest avail with
  | zero =>
    have : rest = 0 := by omega
    subst this
    exact ⟨[], by simp [dataFrames], rfl, by simp⟩
  | succ n ih =>
    by_cases hr : rest > 0
    · have ⟨hp, hle, _⟩ := take_pos avail rest m hm hr ha
      obtain ⟨a, a1, a2, a3⟩ := fragFrames_terminates (take avail rest m).toNat (take avail rest m) (by omega) (by omega)
      obtain ⟨b, b1, b2, b3⟩ := ih (avail - take avail rest m) (rest - take avail rest m) (by omega) (by omega) (by omega)
      refine ⟨a ++ b, ?_, ?_, ?_⟩
      · rw [dataFrames]; simp only [hr, if_true, a1, b1]
      · have : ∀ (x y : List Int), sumI (x ++ y) = sumI x + sumI y := by
          intro x y; induction x with
          | nil => simp [sumI]
          | cons z zs ihx => simp only [sumI, List.cons_append, List.foldr_cons] at ihx ⊢; omega
        rw [this, a2, b2]; omega
      · intro f hfm
        rcases List.mem_append.mp hfm with h' | h'
        · exact a3 f h'
        · exact b3 f h'
    · exact ⟨[], by rw [dataFrames]; simp [hr], by simp [sumI]; omega, by simp⟩

/-- with frame size 0 the DATA loop never ends (and writes nothing: `writeData` of an empty non-nil slice) -/
theorem dataFrames_diverges (fuel : Nat) (avail rest : Int) (hr : 0 < rest) (ha : 0 < avail) :
    dataFrames 0 fuel avail rest = none := by
  induction fuel generalizing rest avail with
  | zero => rfl
  | succ n ih =>
    rw [dataFrames]
    have ht : take avail rest 0 = 0 := by
      simp only [take, C08H2Settings.clientTakeOverBytes, C08H2Settings.clientTakeOverFrame]
      by_cases h1 : avail > rest <;> simp [h1] <;> omega
    simp only [hr, if_true, ht, Int.sub_zero, ih avail rest hr ha]
    split <;> simp_all

theorem zeros_eq_zero_of_pos (l : List Int) (h : ∀ f ∈ l, 0 < f) : zeros l = 0 := by
  simp only [zeros, List.length_eq_zero_iff, List.filter_eq_nil_iff, beq_iff_eq]
  intro a ha h0
  have := h a ha
  omega

/-- a request written with a frame size in range satisfies the predicate (window of 65535 covers the body) -/
theorem request_spec (settle same : String) (m h b : Nat) (hs : settle ≠ "none") (hm : 0 < m) (hb : b ≤ 65535) :
    h2setSpec (request settle same m h b) = true := by
  obtain ⟨hf, h1, _, h3, _⟩ := headerFrames_terminates (m : Int) (by omega) h (h : Int) (by omega) (by omega)
  obtain ⟨df, d1, _, d3⟩ := dataFrames_terminates (m : Int) (by omega) b (H2Limits.initialWindowSize : Int) (b : Int)
    (by omega) (by omega) (by simp [H2Limits.initialWindowSize]; omega)
  have z1 := zeros_eq_zero_of_pos hf (fun f hfm => (h3 f hfm).1)
  have z2 := zeros_eq_zero_of_pos df d3
  simp only [request, h1, d1, h2setSpec, z1, z2]
  simp [hs]

end MosnVerif.Lemmas.H2ClientSettings
