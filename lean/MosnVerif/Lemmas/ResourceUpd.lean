import MosnVerif.Model.ResourceUpd
/-! Lemmas for the resource-threshold part of C12 (Model/ResourceUpd.lean). -/
namespace MosnVerif.Model.ResourceUpd
open MosnVerif.Gen.ResourceUpd

/-- the regenerated `updateResourceValue` stores ALL four new thresholds, whatever their value -/
theorem updateResourceValue_eq (o n : Maxes) : updateResourceValue o n = n := by
  cases o; cases n; rfl

theorem wanted_eq_newRM (cb : List Maxes) : Spec.wanted cb = newRM cb := by
  cases cb with
  | nil => rfl
  | cons t _ => cases t; rfl

theorem handler_max (via : Via) (old : Option Live) (cfg : Cfg) : (handler via old cfg).max = newRM cfg.cb := by
  unfold handler
  cases old with
  | none => rfl
  | some o =>
    simp only [handler_typeGuard, handler_handsOver, handler_updatesOld, Bool.true_and, if_true, updateResourceValue_eq]
    split
    · rfl
    · split <;> rfl

theorem handler_cur (via : Via) (o : Live) (cfg : Cfg) (h : o.typ = cfg.typ) : (handler via (some o) cfg).cur = o.rm.cur := by
  have hv : runsHandler via = true := by cases via <;> rfl
  simp [handler, hv, handler_typeGuard, handler_handsOver, h]

theorem handler_cur_new (via : Via) (cfg : Cfg) : (handler via none cfg).cur = Curs.zero := rfl

/-- the invariant: live thresholds = thresholds of a fresh cluster built from the stored configuration -/
def Inv (s : State) : Prop := liveMax s = rebuilt s

theorem inv_init : Inv init := rfl

theorem bump_max (f : Int → Int → Int) (rm : RM) (r : Rsrc) : (bump f rm r).max = rm.max := rfl

theorem inv_step (s : State) (op : Op) (h : Inv s) : Inv (step s op) := by
  unfold Inv liveMax rebuilt at *
  cases op with
  | update via cfg => simp [step, handler_max]
  | setHosts has =>
    cases hl : s.live with
    | none => simpa [step, hl] using h
    | some l => simpa [step, hl] using h
  | remove =>
    cases hl : s.live with
    | none => simpa [step, hl] using h
    | some l => simp [step, hl]
  | incr r =>
    cases hl : s.live with
    | none => simpa [step, hl] using h
    | some l => simpa [step, hl, bump_max] using h
  | decr r =>
    cases hl : s.live with
    | none => simpa [step, hl] using h
    | some l => simpa [step, hl, bump_max] using h

theorem inv_runFrom (s : State) (ops : List Op) (h : Inv s) : Inv (runFrom s ops) := by
  induction ops generalizing s with
  | nil => exact h
  | cons op r ih => exact ih (step s op) (inv_step s op h)

theorem runFrom_append (s : State) (a b : List Op) : runFrom s (a ++ b) = runFrom (runFrom s a) b := by
  simp [runFrom, List.foldl_append]

/-- what `Spec.holdsFrom` remembers about the state before a step -/
def prevOf (s : State) : Option (RM × Nat) := s.live.map (fun l => (l.rm, l.typ))

theorem stepOk_model (s : State) (op : Op) (h : Inv s) :
    Spec.stepOk (prevOf s) op (observe (result s op) (step s op)) = true := by
  have h' := inv_step s op h
  unfold Inv liveMax rebuilt at h'
  have ha : ((observe (result s op) (step s op)).live.map (·.max)) = (observe (result s op) (step s op)).reb := by
    simpa [observe, rebuilt, Option.map_map, Function.comp_def] using h'
  have hb : Spec.hostOk (observe (result s op) (step s op)) = true := by
    simp only [observe, Spec.hostOk]
    cases (step s op).live with
    | none => rfl
    | some l => cases hh : l.hasHost <;> simp [hh]
  have hc : Spec.opOk (prevOf s) op (observe (result s op) (step s op)) = true := by
    cases op with
    | update via cfg =>
      cases hl : s.live with
      | none => simp [Spec.opOk, Spec.cursOk, observe, step, rebuilt, wanted_eq_newRM, prevOf, hl, handler_cur_new]
      | some l =>
        by_cases ht : l.typ = cfg.typ
        · simp [Spec.opOk, Spec.cursOk, observe, step, rebuilt, wanted_eq_newRM, prevOf, hl, handler_cur, ht]
        · simp [Spec.opOk, Spec.cursOk, observe, step, rebuilt, wanted_eq_newRM, prevOf, hl, ht]
    | setHosts has => rfl
    | remove =>
      cases hl : s.live with
      | none => simp [Spec.opOk, observe, result, hl]
      | some l => simp [Spec.opOk, observe, step, rebuilt, hl]
    | incr r => rfl
    | decr r => rfl
  simp [Spec.stepOk, ha, hb, hc]

theorem prevOf_step (s : State) (op : Op) :
    Spec.nextPrev (prevOf s) op (observe (result s op) (step s op)).live = prevOf (step s op) := by
  cases op with
  | update via cfg => simp [Spec.nextPrev, observe, step, prevOf]
  | setHosts has => cases hl : s.live <;> simp [Spec.nextPrev, observe, step, prevOf, hl]
  | remove => cases hl : s.live <;> simp [Spec.nextPrev, observe, step, prevOf, hl]
  | incr r => cases hl : s.live <;> simp [Spec.nextPrev, observe, step, prevOf, hl]
  | decr r => cases hl : s.live <;> simp [Spec.nextPrev, observe, step, prevOf, hl]

theorem holdsFrom_model (s : State) (ops : List Op) (h : Inv s) :
    Spec.holdsFrom (prevOf s) ops (trace s ops) = true := by
  induction ops generalizing s with
  | nil => rfl
  | cons op r ih =>
    simp only [trace, Spec.holdsFrom, Bool.and_eq_true]
    refine ⟨stepOk_model s op h, ?_⟩
    rw [prevOf_step]
    exact ih (step s op) (inv_step s op h)

/-! ## the skip-zero variant (what the seeded change does): negation witness material -/

/-- `updateResourceValue` with every store guarded by `if nrm.<r>.max != 0` -/
def updateSkipZero (orm nrm : Maxes) : Maxes :=
  ⟨if nrm.connections != 0 then nrm.connections else orm.connections,
   if nrm.pendingRequests != 0 then nrm.pendingRequests else orm.pendingRequests,
   if nrm.requests != 0 then nrm.requests else orm.requests,
   if nrm.retries != 0 then nrm.retries else orm.retries⟩

end MosnVerif.Model.ResourceUpd
