import MosnVerif.Model.TlsAccept
/-!
Lemmas about `Model/TlsAccept.lean`: the accept path over listener tables given by three booleans, decided exhaustively.
-/
namespace MosnVerif.Lemmas.TlsAccept
open MosnVerif.Model.TlsAccept MosnVerif.Gen.TlsAccept MosnVerif.Gen.TlsConnect

def tab (a b c : Bool) : Target → Bool
  | .self => a | .matched => b | .localFallback => c

theorem tab_eta (f : Target → Bool) : f = tab (f .self) (f .matched) (f .localFallback) := by
  funext t; cases t <;> rfl

/-- the path ends in `newConnection` of the owner with exactly the owner's tlsMng.Conn on it (none when the owner has no
manager or the connection was transferred), or the owner's manager failed and the connection was closed -/
def pathOk (e : Env) (useOrig : Bool) : Bool :=
  let tr := accept e 3 .self useOrig
  let o := specOwner useOrig e.lookupOk e.matched e.localMatched
  (tr.getLast? == some (.serve o) && wraps tr == (if e.mng o && !e.transferred then [o] else [])) ||
  (tr == [.closed o] && e.mng o && !e.transferred && e.mngErr o)

theorem pathOk_tab (a b c a' b' c' tr lk m lm uo : Bool) :
    pathOk ⟨tab a b c, tab a' b' c', tr, lk, true, m, lm⟩ uo = true := by
  revert a b c a' b' c' tr lk m lm uo
  decide

theorem pathOk_all (e : Env) (useOrig : Bool) (htcp : e.isTCP = true) : pathOk e useOrig = true := by
  obtain ⟨mng, err, tr, lk, tcp, m, lm⟩ := e
  simp only at htcp; subst htcp
  rw [tab_eta mng, tab_eta err]
  exact pathOk_tab ..

end MosnVerif.Lemmas.TlsAccept
