import MosnVerif.Model.ConfigDir
/-! Lemmas behind C19's directory-mode round trip (`Model/ConfigDir.lean`): `path.Ext`, `uniqueFileName`
(termination bound, freshness, shape of the result), what the regenerated file-name operations preserve, the invariant
of the dump loop, the loader on a directory of documents. -/
namespace MosnVerif.Model.ConfigDir
open MosnVerif.Model MosnVerif.Model.DirTypes


theorem extGo_scan (s rest acc : Bytes) (h46 : s.contains 46 = false) (h47 : s.contains 47 = false) :
    extGo (s ++ 46 :: rest) acc = 46 :: (s.reverse ++ acc) := by
  induction s generalizing acc with
  | nil => simp [extGo]
  | cons c r ih =>
    simp only [List.contains_cons, Bool.or_eq_false_iff] at h46 h47
    have h1 : (c == 47) = false := by
      rw [Bool.eq_false_iff]; intro h; have := h47.1; simp_all
    have h2 : (c == 46) = false := by
      rw [Bool.eq_false_iff]; intro h; have := h46.1; simp_all
    simp only [List.cons_append, extGo, h1, h2, Bool.false_eq_true, if_false]
    rw [ih (c :: acc) h46.2 h47.2]
    simp



theorem isDigit_bounds (c : Char) (h : c.isDigit = true) : 48 ≤ c.toNat ∧ c.toNat ≤ 57 := by
  simp only [Char.isDigit, Bool.and_eq_true, decide_eq_true_eq] at h
  have h1 : (48 : UInt32).toNat ≤ c.val.toNat := UInt32.le_iff_toNat_le.mp h.1
  have h2 : c.val.toNat ≤ (57 : UInt32).toNat := UInt32.le_iff_toNat_le.mp h.2
  have e1 : (48 : UInt32).toNat = 48 := by decide
  have e2 : (57 : UInt32).toNat = 57 := by decide
  rw [e1] at h1; rw [e2] at h2
  exact ⟨h1, h2⟩

theorem byte_of_small (n : Nat) (h : n < 256) : (UInt8.ofNat n).toNat = n := by
  simp [UInt8.toNat_ofNat', Nat.mod_eq_of_lt h]

/-- back from a digit byte to its character -/
theorem digit_back (c : Char) (h : c.isDigit = true) : Char.ofNat (UInt8.ofNat c.toNat).toNat = c := by
  have hb := isDigit_bounds c h
  rw [byte_of_small _ (by omega)]
  exact Char.ofNat_toNat c

theorem dec_inj (i j : Nat) (h : dec i = dec j) : i = j := by
  unfold dec at h
  have hb : ∀ n, ((Nat.toDigits 10 n).map (fun c => UInt8.ofNat c.toNat)).map (fun b => Char.ofNat b.toNat) = Nat.toDigits 10 n := by
    intro n
    rw [List.map_map]
    conv => rhs; rw [← List.map_id (Nat.toDigits 10 n)]
    apply List.map_congr_left
    intro c hc
    exact digit_back c (Nat.isDigit_of_mem_toDigits (by decide) (by decide) hc)
  have := congrArg (List.map (fun b : UInt8 => Char.ofNat b.toNat)) h
  rw [hb i, hb j] at this
  have h2 := congrArg (fun l => Nat.ofDigitChars 10 l 0) this
  simpa [Nat.ofDigitChars_ten_toDigits] using h2

theorem dec_digits (i : Nat) : ∀ b ∈ dec i, 48 ≤ b.toNat ∧ b.toNat ≤ 57 := by
  intro b hb
  unfold dec at hb
  simp only [List.mem_map] at hb
  obtain ⟨c, hc, rfl⟩ := hb
  have h := isDigit_bounds c (Nat.isDigit_of_mem_toDigits (b := 10) (by decide) (by decide) hc)
  rw [byte_of_small _ (by omega)]
  exact h




theorem dec_ne_nil (i : Nat) : dec i ≠ [] := by
  unfold dec
  intro h
  exact Nat.toDigits_ne_nil (List.map_eq_nil_iff.mp h)

theorem cand_inj (base e : Bytes) (i j : Nat) (h : cand base e i = cand base e j) : i = j := by
  unfold cand at h
  simp only [List.append_assoc] at h
  have h1 := List.append_cancel_left (List.append_cancel_left h)
  exact dec_inj i j (List.append_cancel_right h1)

theorem uniqLoop_not_mem (written : List Bytes) (base e : Bytes) : (fuel i : Nat) → (cur : Bytes) → (seen : List Bytes) →
    seen.Nodup → seen ⊆ written → cur ∉ seen → (∀ j, i ≤ j → cand base e j ∉ seen) → (∀ j, i ≤ j → cand base e j ≠ cur) →
    written.length < seen.length + fuel → uniqLoop written base e fuel i cur ∉ written
  | 0, i, cur, seen, hn, hs, _, _, _, hl => by
    have := List.Nodup.length_le_of_subset hn hs
    omega
  | fuel + 1, i, cur, seen, hn, hs, hc, hj, hne, hl => by
    unfold uniqLoop
    by_cases hw : written.contains cur = true
    · simp only [hw, if_true]
      have hmem : cur ∈ written := by simpa using hw
      apply uniqLoop_not_mem written base e fuel (i + 1) (cand base e i) (cur :: seen)
      · exact List.nodup_cons.mpr ⟨hc, hn⟩
      · intro x hx
        simp only [List.mem_cons] at hx
        rcases hx with rfl | hx
        · exact hmem
        · exact hs hx
      · simp only [List.mem_cons, not_or]
        exact ⟨hne i (Nat.le_refl i), hj i (Nat.le_refl i)⟩
      · intro j hij
        simp only [List.mem_cons, not_or]
        exact ⟨hne j (by omega), hj j (by omega)⟩
      · intro j hij heq
        have := cand_inj base e j i heq
        omega
      · simp only [List.length_cons]; omega
    · simp only [hw, Bool.false_eq_true, if_false]
      simpa using hw

theorem uniqLoop_form (written : List Bytes) (base e : Bytes) : (fuel i : Nat) → (cur : Bytes) →
    uniqLoop written base e fuel i cur = cur ∨ ∃ j, uniqLoop written base e fuel i cur = cand base e j
  | 0, _, _ => Or.inl rfl
  | fuel + 1, i, cur => by
    unfold uniqLoop
    split
    · rcases uniqLoop_form written base e fuel (i + 1) (cand base e i) with h | ⟨j, h⟩
      · exact Or.inr ⟨i, h⟩
      · exact Or.inr ⟨j, h⟩
    · exact Or.inl rfl

theorem extGo_length (r : Bytes) : ∀ acc, (extGo r acc).length ≤ r.length + acc.length := by
  induction r with
  | nil => intro acc; simp [extGo]
  | cons c r ih =>
    intro acc
    simp only [extGo]
    split
    · simp
    · split
      · simp; omega
      · have := ih (c :: acc)
        simp only [List.length_cons] at this ⊢
        omega

theorem ext_length_le (f : Bytes) : (ext f).length ≤ f.length := by
  have := extGo_length f.reverse []
  simpa [ext] using this

theorem uniq_not_mem (written : List Bytes) (f : Bytes) : uniq written f ∉ written := by
  unfold uniq
  apply uniqLoop_not_mem written _ _ _ _ _ [] List.nodup_nil (by simp) (by simp) (by simp)
  · intro j _ h
    have hl := congrArg List.length h
    have he := ext_length_le f
    have hd : 0 < (dec j).length := List.length_pos_iff.mpr (dec_ne_nil j)
    simp only [cand, List.length_append, List.length_take] at hl
    omega
  · simp

theorem uniq_form (written : List Bytes) (f : Bytes) :
    uniq written f = f ∨ ∃ j, uniq written f = cand (f.take (f.length - (ext f).length)) (ext f) j :=
  uniqLoop_form written _ _ _ _ f

theorem uniq_of_not_mem (written : List Bytes) (f : Bytes) (h : f ∉ written) : uniq written f = f := by
  unfold uniq uniqLoop
  simp only [List.contains_eq_mem, decide_eq_true_eq, h, if_false]




/-- byte `b` does not occur in `f` -/
def free (b : UInt8) (f : Bytes) : Prop := ∀ x ∈ f, x ≠ b

theorem free_of_contains {b : UInt8} {f : Bytes} (h : f.contains b = false) : free b f := by
  intro x hx hxb
  subst hxb
  have : f.contains x = true := by simpa using hx
  rw [this] at h; cases h

theorem free_append {b : UInt8} {f g : Bytes} (hf : free b f) (hg : free b g) : free b (f ++ g) := by
  intro x hx
  rcases List.mem_append.mp hx with h | h
  · exact hf x h
  · exact hg x h

theorem ext_append_ext (x e : Bytes) (he : isExt e = true) : ext (x ++ e) = e := by
  unfold isExt at he
  cases e with
  | nil => simp at he
  | cons c t =>
    simp only [Bool.and_eq_true, beq_iff_eq, Bool.not_eq_true'] at he
    obtain ⟨⟨⟨⟨hc, _⟩, h46⟩, h47⟩, _⟩ := he
    subst hc
    unfold ext
    have : (x ++ 46 :: t).reverse = t.reverse ++ 46 :: x.reverse := by simp
    rw [this, extGo_scan t.reverse x.reverse [] (by simpa using h46) (by simpa using h47)]
    simp

theorem extGo_subset (r : Bytes) : ∀ acc x, x ∈ extGo r acc → x ∈ r ∨ x ∈ acc := by
  induction r with
  | nil => intro acc x h; simp [extGo] at h
  | cons c r ih =>
    intro acc x h
    simp only [extGo] at h
    split at h
    · simp at h
    · split at h
      · rename_i _ h46
        simp only [List.mem_cons] at h
        rcases h with rfl | h
        · left; simp only [List.mem_cons]; left; exact (beq_iff_eq.mp h46).symm
        · right; exact h
      · rcases ih (c :: acc) x h with h | h
        · left; exact List.mem_cons_of_mem _ h
        · simp only [List.mem_cons] at h
          rcases h with rfl | h
          · left; simp
          · right; exact h

theorem ext_subset (f : Bytes) : ∀ x ∈ ext f, x ∈ f := by
  intro x hx
  rcases extGo_subset f.reverse [] x hx with h | h
  · simpa using h
  · simp at h

theorem free_ext {b : UInt8} {f : Bytes} (h : free b f) : free b (ext f) := fun x hx => h x (ext_subset f x hx)

theorem free_take {b : UInt8} {f : Bytes} (n : Nat) (h : free b f) : free b (f.take n) :=
  fun x hx => h x (List.mem_of_mem_take hx)

theorem free_dec (b : UInt8) (hb : b.toNat < 48 ∨ 57 < b.toNat) (i : Nat) : free b (dec i) := by
  intro x hx hxb
  subst hxb
  have := dec_digits i x hx
  omega

theorem uniq_free (b : UInt8) (hb : b.toNat < 48 ∨ 57 < b.toNat) (hsep : free b Gen.ConfigDir.uniqueSep)
    (w : List Bytes) (f : Bytes) (hf : free b f) : free b (uniq w f) := by
  rcases uniq_form w f with h | ⟨j, h⟩
  · rw [h]; exact hf
  · rw [h]
    unfold cand
    exact free_append (free_append (free_append (free_take _ hf) hsep) (free_dec b hb j)) (free_ext hf)

theorem applyOps_append (stamp : Bytes) (w : List Bytes) (a b : List NameOp) (f : Bytes) :
    applyOps stamp w (a ++ b) f = applyOps stamp w b (applyOps stamp w a f) := by
  induction a generalizing f with
  | nil => rfl
  | cons op r ih => simp [applyOps, ih]

theorem free_flatMap {b o : UInt8} {n f : Bytes} (hn : free b n) (hf : ∀ x ∈ f, x ≠ o → x ≠ b) :
    free b (f.flatMap (fun x => if x == o then n else [x])) := by
  intro x hx
  simp only [List.mem_flatMap] at hx
  obtain ⟨y, hy, hxy⟩ := hx
  split at hxy
  · exact hn x hxy
  · rename_i hne
    simp only [List.mem_singleton] at hxy
    subst hxy
    exact hf x hy (by simpa using hne)

theorem applyOps_noByte (b : UInt8) (hb : b.toNat < 48 ∨ 57 < b.toNat) (stamp : Bytes) (w : List Bytes)
    (hst : free b stamp) (hsep : free b Gen.ConfigDir.uniqueSep) :
    (ops : List NameOp) → (clean : Bool) → noByte b clean ops = true → (f : Bytes) → (clean = true → free b f) →
    free b (applyOps stamp w ops f)
  | [], clean, h, f, hf => by simp only [noByte] at h; exact hf h
  | op :: r, clean, h, f, hf => by
    simp only [applyOps]
    cases op with
    | orStamp =>
      simp only [noByte] at h
      apply applyOps_noByte b hb stamp w hst hsep r clean h
      intro hc
      simp only [applyOp]; split
      · exact hst
      · exact hf hc
    | truncate lim keep =>
      simp only [noByte] at h
      apply applyOps_noByte b hb stamp w hst hsep r clean h
      intro hc
      simp only [applyOp]; split
      · exact free_take _ (hf hc)
      · exact hf hc
    | replaceAll o n =>
      simp only [noByte] at h
      apply applyOps_noByte b hb stamp w hst hsep r _ h
      intro hc
      simp only [Bool.and_eq_true, Bool.or_eq_true, beq_iff_eq, Bool.not_eq_true'] at hc
      simp only [applyOp]
      apply free_flatMap (free_of_contains hc.2)
      intro x hx hxo
      rcases hc.1 with hcl | ho
      · exact hf hcl x hx
      · rw [← ho]; exact hxo
    | append s =>
      simp only [noByte] at h
      apply applyOps_noByte b hb stamp w hst hsep r _ h
      intro hc
      simp only [Bool.and_eq_true, Bool.not_eq_true'] at hc
      simp only [applyOp]
      exact free_append (hf hc.1) (free_of_contains hc.2)
    | unique =>
      simp only [noByte] at h
      apply applyOps_noByte b hb stamp w hst hsep r clean h
      intro hc
      simp only [applyOp]
      exact uniq_free b hb hsep w f (hf hc)
    | mark =>
      simp only [noByte] at h
      apply applyOps_noByte b hb stamp w hst hsep r clean h
      intro hc
      simp only [applyOp]
      exact hf hc

/-- what `opsOK` says -/
theorem opsOK_split (ops : List NameOp) (e : Bytes) (h : opsOK ops e = true) :
    ∃ pre, ops = pre ++ [.append e, .unique, .mark] ∧ pre.all (· != .mark) = true ∧ isExt e = true ∧
      noSep false pre = true ∧ noNul false pre = true ∧
      free 47 Gen.ConfigDir.uniqueSep ∧ free 0 Gen.ConfigDir.uniqueSep := by
  unfold opsOK at h
  split at h
  · rename_i e' pre hrev
    simp only [Bool.and_eq_true, beq_iff_eq, Bool.not_eq_true'] at h
    obtain ⟨⟨⟨⟨⟨⟨hm, he⟩, hx⟩, hs⟩, hn⟩, h47⟩, h0⟩ := h
    subst he
    refine ⟨pre.reverse, ?_, by simpa using hm, hx, hs, hn, free_of_contains h47, free_of_contains h0⟩
    have := congrArg List.reverse hrev
    simpa using this
  · simp at h

theorem ext_uniq (w : List Bytes) (g e : Bytes) (he : isExt e = true) : ext (uniq w (g ++ e)) = e := by
  rcases uniq_form w (g ++ e) with h | ⟨j, h⟩
  · rw [h]; exact ext_append_ext g e he
  · rw [h, ext_append_ext g e he]
    unfold cand
    exact ext_append_ext _ e he

theorem free_isExt (e : Bytes) (he : isExt e = true) : free 47 e ∧ free 0 e := by
  unfold isExt at he
  cases e with
  | nil => simp at he
  | cons c t =>
    simp only [Bool.and_eq_true, beq_iff_eq, Bool.not_eq_true'] at he
    obtain ⟨⟨⟨⟨hc, _⟩, _⟩, h47⟩, h0⟩ := he
    subst hc
    constructor
    · intro x hx
      simp only [List.mem_cons] at hx
      rcases hx with rfl | hx
      · decide
      · exact free_of_contains h47 x hx
    · intro x hx
      simp only [List.mem_cons] at hx
      rcases hx with rfl | hx
      · decide
      · exact free_of_contains h0 x hx

theorem isExt_length (e : Bytes) (he : isExt e = true) : 2 ≤ e.length := by
  unfold isExt at he
  cases e with
  | nil => simp at he
  | cons c t =>
    cases t with
    | nil => simp at he
    | cons _ _ => simp

theorem contains_false_of_free {b : UInt8} {f : Bytes} (h : free b f) : f.contains b = false := by
  rw [Bool.eq_false_iff]
  intro hc
  have : b ∈ f := by simpa using hc
  exact h b this rfl

/-- the file name of an item: has the extension, is usable, and is new -/
theorem fileName_ok (ops : List NameOp) (e : Bytes) (h : opsOK ops e = true) (stamp : Bytes) (w : List Bytes) (name : Bytes)
    (hs0 : free 0 stamp) (hs47 : free 47 stamp) :
    ext (fileName ops stamp w name) = e ∧ usable (fileName ops stamp w name) = true ∧ fileName ops stamp w name ∉ w := by
  obtain ⟨pre, rfl, _, he, hsep, hnul, hu47, hu0⟩ := opsOK_split ops e h
  have hfn : fileName (pre ++ [.append e, .unique, .mark]) stamp w name = uniq w (applyOps stamp w pre name ++ e) := by
    simp [fileName, applyOps_append, applyOps, applyOp]
  rw [hfn]
  have hext := ext_uniq w (applyOps stamp w pre name) e he
  have hg0 := applyOps_noByte 0 (by decide) stamp w hs0 hu0 pre false hnul name (by simp)
  have hg47 := applyOps_noByte 47 (by decide) stamp w hs47 hu47 pre false hsep name (by simp)
  have hfe := free_isExt e he
  have h0 := uniq_free 0 (by decide) hu0 w _ (free_append hg0 hfe.2)
  have h47 := uniq_free 47 (by decide) hu47 w _ (free_append hg47 hfe.1)
  refine ⟨hext, ?_, uniq_not_mem w _⟩
  have hl := isExt_length e he
  generalize uniq w (applyOps stamp w pre name ++ e) = n at hext h0 h47
  unfold usable
  have hne : n ≠ [] := by
    intro hn; subst hn
    have : ext ([] : Bytes) = [] := rfl
    rw [this] at hext; subst hext; simp at hl
  have h1 : n ≠ [46] := by
    intro hn; subst hn
    have : ext ([46] : Bytes) = [46] := by decide
    rw [this] at hext; subst hext; simp at hl
  have h2 : n ≠ [46, 46] := by
    intro hn; subst hn
    have : ext ([46, 46] : Bytes) = [46] := by decide
    rw [this] at hext; subst hext; simp at hl
  have a : n.isEmpty = false := by cases n <;> simp_all
  have b : (n != [46]) = true := bne_iff_ne.mpr h1
  have c : (n != [46, 46]) = true := bne_iff_ne.mpr h2
  rw [a, b, c, contains_false_of_free h0, contains_false_of_free h47]
  rfl




/-! ### the in-use mark: taken on the final name (`opsOK`), the kept names are the written names -/

/-- the item loop when the mark is taken on the final name: one list serves as `written` and `kept` -/
def dumpLoopW {α : Type} (ops : List NameOp) (enc : α → Json) (nameOf : α → Bytes) (clock : Nat → Bytes) :
    Nat → List α → Dir → List Bytes → Option (Dir × List Bytes)
  | _, [], d, written => some (d, written)
  | i, c :: r, d, written =>
    let n := fileName ops (clock i) written (nameOf c)
    if usable n then dumpLoopW ops enc nameOf clock (i + 1) r (write d n (.doc (enc c))) (n :: written) else none

def marshalDynamicW {α : Type} (ops : List NameOp) (enc : α → Json) (nameOf : α → Bytes) (clock : Nat → Bytes)
    (d : Dir) (cs : List α) : Option Dir :=
  match dumpLoopW ops enc nameOf clock 0 cs d [] with
  | none => none
  | some (d', written) =>
    let stale := (d.map (·.1)).filter (fun n => !written.contains n)
    some (d'.filter (fun f => !stale.contains f.1))

theorem markAt_last (stamp : Bytes) (w : List Bytes) : (pre : List NameOp) → pre.all (· != .mark) = true → (f : Bytes) →
    markAt stamp w (pre ++ [.mark]) f = some (applyOps stamp w (pre ++ [.mark]) f)
  | [], _, f => by simp [markAt, applyOps, applyOp]
  | op :: r, h, f => by
    simp only [List.all_cons, Bool.and_eq_true, bne_iff_ne] at h
    have ih := markAt_last stamp w r h.2 (applyOp stamp w op f)
    cases op with
    | mark => exact absurd rfl h.1
    | orStamp => simpa [markAt, applyOps] using ih
    | truncate a b => simpa [markAt, applyOps] using ih
    | replaceAll a b => simpa [markAt, applyOps] using ih
    | append a => simpa [markAt, applyOps] using ih
    | unique => simpa [markAt, applyOps] using ih

theorem markAt_opsOK (ops : List NameOp) (e : Bytes) (h : opsOK ops e = true) (stamp : Bytes) (w : List Bytes) (f : Bytes) :
    markAt stamp w ops f = some (fileName ops stamp w f) := by
  obtain ⟨pre, rfl, hm, _⟩ := opsOK_split ops e h
  have : pre ++ [NameOp.append e, .unique, .mark] = (pre ++ [.append e, .unique]) ++ [.mark] := by simp
  rw [this]
  exact markAt_last stamp w _ (by simp [hm]) f

theorem dumpLoop_eq_W {α : Type} (ops : List NameOp) (e : Bytes) (h : opsOK ops e = true) (enc : α → Json)
    (nameOf : α → Bytes) (clock : Nat → Bytes) : (cs : List α) → (i : Nat) → (d : Dir) → (w : List Bytes) →
    dumpLoop ops enc nameOf clock i cs d w w = (dumpLoopW ops enc nameOf clock i cs d w).map (fun p => (p.1, p.2, p.2))
  | [], _, _, _ => rfl
  | c :: r, i, d, w => by
    simp only [dumpLoop, dumpLoopW, markAt_opsOK ops e h]
    split
    · exact dumpLoop_eq_W ops e h enc nameOf clock r (i + 1) _ _
    · rfl

theorem marshalDynamic_eq_W {α : Type} (ops : List NameOp) (e : Bytes) (h : opsOK ops e = true) (enc : α → Json)
    (nameOf : α → Bytes) (clock : Nat → Bytes) (d : Dir) (cs : List α) :
    marshalDynamic ops enc nameOf clock d cs = marshalDynamicW ops enc nameOf clock d cs := by
  unfold marshalDynamic marshalDynamicW
  rw [dumpLoop_eq_W ops e h]
  cases dumpLoopW ops enc nameOf clock 0 cs d [] <;> rfl

/-- the names the item loop of `MarshalJSON` chooses, as a function of the items and the clock alone — the directory
content is not consulted (newest first; `done` = the items written so far with their file names) -/
def planLoop {α : Type} (ops : List NameOp) (nameOf : α → Bytes) (clock : Nat → Bytes) :
    Nat → List α → List (Bytes × α) → List (Bytes × α)
  | _, [], done => done
  | i, c :: r, done =>
    planLoop ops nameOf clock (i + 1) r ((fileName ops (clock i) (done.map (·.1)) (nameOf c), c) :: done)

/-- the files a dump of `cs` leaves (file name, item), newest first -/
def plan {α : Type} (ops : List NameOp) (nameOf : α → Bytes) (clock : Nat → Bytes) (cs : List α) : List (Bytes × α) :=
  planLoop ops nameOf clock 0 cs []

/-- the file of an item -/
def docOf {α : Type} (enc : α → Json) (p : Bytes × α) : Bytes × Body := (p.1, .doc (enc p.2))

/-- the clock never shows a NUL byte or a separator (it shows decimal digits) -/
def ClockOK (clock : Nat → Bytes) : Prop := ∀ i, free 0 (clock i) ∧ free 47 (clock i)

theorem filter_write {α : Type} (enc : α → Json) (d : Dir) (n : Bytes) (b : Body) (written : List Bytes)
    (done : List (Bytes × α)) (hn : n ∉ written)
    (hd : d.filter (fun f => written.contains f.1) = done.map (docOf enc)) :
    (write d n b).filter (fun f => (n :: written).contains f.1) = (n, b) :: done.map (docOf enc) := by
  unfold write
  simp only [List.filter_cons, List.contains_cons, BEq.rfl, Bool.true_or, if_true, List.filter_filter]
  congr 1
  rw [← hd]
  apply List.filter_congr
  intro f _
  by_cases hfn : f.1 = n
  · simp [hfn, hn]
  · have h1 : (f.1 == n) = false := by simpa using hfn
    have h2 : (f.1 != n) = true := by simpa using hfn
    simp [h1, h2]

theorem dumpLoop_spec {α : Type} (ops : List NameOp) (e : Bytes) (hops : opsOK ops e = true) (enc : α → Json)
    (nameOf : α → Bytes) (clock : Nat → Bytes) (hclock : ClockOK clock) :
    (cs : List α) → (i : Nat) → (d : Dir) → (done : List (Bytes × α)) →
    (done.map (·.1)).Nodup → d.filter (fun f => (done.map (·.1)).contains f.1) = done.map (docOf enc) →
    ∃ (d' : Dir) (new : List (Bytes × α)),
      dumpLoopW ops enc nameOf clock i cs d (done.map (·.1)) = some (d', (new ++ done).map (·.1)) ∧
      ((new ++ done).map (·.1)).Nodup ∧
      d'.filter (fun f => ((new ++ done).map (·.1)).contains f.1) = (new ++ done).map (docOf enc) ∧
      (∀ p ∈ new, ext p.1 = e) ∧ new.map (·.2) = cs.reverse ∧
      (∀ f ∈ d', f.1 ∈ d.map (·.1) ∨ f.1 ∈ (new ++ done).map (·.1)) ∧
      new ++ done = planLoop ops nameOf clock i cs done
  | [], i, d, done, hnd, hd => by
    refine ⟨d, [], by simp [dumpLoopW], by simpa using hnd, by simpa using hd, by simp, by simp, ?_, by simp [planLoop]⟩
    intro f hf
    left
    exact List.mem_map_of_mem hf
  | c :: r, i, d, done, hnd, hd => by
    obtain ⟨hext, huse, hnew⟩ := fileName_ok ops e hops (clock i) (done.map (·.1)) (nameOf c)
      (hclock i).1 (hclock i).2
    simp only [dumpLoopW, huse, if_true]
    generalize hn : fileName ops (clock i) (done.map (·.1)) (nameOf c) = n at hext hnew
    have hd2 := filter_write enc d n (.doc (enc c)) (done.map (·.1)) done hnew hd
    obtain ⟨d', new, h1, h2, h3, h4, h5, h6, h7⟩ := dumpLoop_spec ops e hops enc nameOf clock hclock r (i + 1)
      (write d n (.doc (enc c))) ((n, c) :: done)
      (by simpa using List.nodup_cons.mpr ⟨hnew, hnd⟩)
      (by simpa [docOf] using hd2)
    refine ⟨d', new ++ [(n, c)], ?_, ?_, ?_, ?_, ?_, ?_, ?_⟩
    · simpa using h1
    · simpa using h2
    · simpa using h3
    · intro p hp
      simp only [List.mem_append, List.mem_singleton] at hp
      rcases hp with hp | rfl
      · exact h4 p hp
      · exact hext
    · simp [h5]
    · intro f hf
      rcases h6 f hf with h | h
      · simp only [write, List.map_cons, List.mem_cons, List.mem_map, List.mem_filter] at h
        rcases h with h | ⟨g, ⟨hg, _⟩, hgf⟩
        · right; simp [h]
        · left; exact List.mem_map.mpr ⟨g, hg, hgf⟩
      · right; simpa using h
    · simp only [planLoop, hn, List.append_assoc, List.singleton_append]
      exact h7




theorem stale_iff (names w : List Bytes) (x : Bytes) (h : x ∈ names ∨ x ∈ w) :
    (!(names.filter (fun n => !w.contains n)).contains x) = w.contains x := by
  by_cases hx : x ∈ w
  · have h1 : w.contains x = true := by simpa using hx
    have h2 : (names.filter (fun n => !w.contains n)).contains x = false := by
      rw [Bool.eq_false_iff]; intro hc
      have hm : x ∈ names.filter (fun n => !w.contains n) := by simpa using hc
      have := (List.mem_filter.mp hm).2
      rw [h1] at this; cases this
    rw [h1, h2]; rfl
  · have h1 : w.contains x = false := by rw [Bool.eq_false_iff]; intro hc; exact hx (by simpa using hc)
    have hn : x ∈ names := by
      rcases h with h | h
      · exact h
      · exact absurd h hx
    have h2 : (names.filter (fun n => !w.contains n)).contains x = true := by
      have : x ∈ names.filter (fun n => !w.contains n) := List.mem_filter.mpr ⟨hn, by rw [h1]; rfl⟩
      simpa using this
    rw [h1, h2]; rfl

/-- what the dump leaves in the directory: exactly one file per item, under pairwise distinct names with the
extension, whatever was there before -/
theorem marshalDynamic_spec {α : Type} (ops : List NameOp) (e : Bytes) (hops : opsOK ops e = true) (enc : α → Json)
    (nameOf : α → Bytes) (clock : Nat → Bytes) (hclock : ClockOK clock) (d : Dir) (cs : List α) :
    ∃ files : List (Bytes × α), marshalDynamic ops enc nameOf clock d cs = some (files.map (docOf enc)) ∧
      (files.map (·.1)).Nodup ∧ (∀ p ∈ files, ext p.1 = e) ∧ files.map (·.2) = cs.reverse ∧
      files = plan ops nameOf clock cs := by
  obtain ⟨d', new, h1, h2, h3, h4, h5, h6, h7⟩ := dumpLoop_spec ops e hops enc nameOf clock hclock cs 0 d []
    (by simp) (by simp)
  simp only [List.map_nil, List.append_nil] at h1 h2 h3 h6 h7
  refine ⟨new, ?_, h2, h4, h5, h7⟩
  rw [marshalDynamic_eq_W ops e hops]
  unfold marshalDynamicW
  rw [h1]
  simp only
  rw [← h3]
  congr 1
  apply List.filter_congr
  intro f hf
  exact stale_iff (d.map (·.1)) (new.map (·.1)) f.1 (h6 f hf)

/-- what the loader makes of one file that carries the extension -/
def readFile {α : Type} (dcd : Json → Option α) (f : Bytes × Body) : Option α :=
  match f.2 with
  | .doc j => dcd j
  | _ => none

/-- the loader on files that all carry the extension and hold documents of items the codec reads back: every item,
in file order -/
theorem loadL_docs {α : Type} (dcd : Json → Option α) (e : Bytes) (enc : α → Json) (nrm : α → α) :
    (M : List (Bytes × Body)) → (∀ f ∈ M, ext f.1 = e ∧ ∃ c, f.2 = .doc (enc c) ∧ dcd (enc c) = some (nrm c)) →
    loadL dcd e M = some (M.filterMap (readFile dcd))
  | [], _ => rfl
  | f :: r, h => by
    obtain ⟨he, c, hc, hcodec⟩ := h f (by simp)
    have h1 : (ext f.1 != e) = false := by simp [he]
    have ih := loadL_docs dcd e enc nrm r (fun q hq => h q (by simp [hq]))
    obtain ⟨n, b⟩ := f
    simp only at hc he h1
    subst hc
    simp [loadL, h1, hcodec, ih, readFile]

theorem filterMap_docOf {α : Type} (dcd : Json → Option α) (enc : α → Json) (nrm : α → α) (L : List (Bytes × α))
    (hcodec : ∀ p ∈ L, dcd (enc p.2) = some (nrm p.2)) :
    (L.map (docOf enc)).filterMap (readFile dcd) = L.map (fun p => nrm p.2) := by
  induction L with
  | nil => rfl
  | cons p r ih =>
    have h1 := hcodec p (by simp)
    have ih' := ih (fun q hq => hcodec q (by simp [hq]))
    simp [docOf, readFile, h1] at ih' ⊢
    exact ih'

/-- **the directory round trip**: whatever the directory held, after the dump the loader returns exactly the dumped
items (each as one (un)marshal cycle `nrm` leaves it), as a permutation -/
theorem dynamic_roundtrip_gen {α : Type} (ops : List NameOp) (e : Bytes) (hops : opsOK ops e = true)
    (enc : α → Json) (dcd : Json → Option α) (nrm : α → α) (nameOf : α → Bytes) (clock : Nat → Bytes)
    (hclock : ClockOK clock) (d : Dir) (cs : List α) (hcodec : ∀ c ∈ cs, dcd (enc c) = some (nrm c)) :
    ∃ d' l, marshalDynamic ops enc nameOf clock d cs = some d' ∧ unmarshalDynamic dcd e d' = some l ∧
      l.Perm (cs.map nrm) := by
  obtain ⟨files, h1, _, h3, h4, _⟩ := marshalDynamic_spec ops e hops enc nameOf clock hclock d cs
  have hmem : ∀ p ∈ files, p.2 ∈ cs := by
    intro p hp
    have : p.2 ∈ files.map (·.2) := List.mem_map_of_mem hp
    rw [h4] at this
    exact List.mem_reverse.mp this
  refine ⟨files.map (docOf enc),
    ((files.map (docOf enc)).mergeSort (fun a b => bytesLe a.1 b.1)).filterMap (readFile dcd), h1, ?_, ?_⟩
  · unfold unmarshalDynamic
    apply loadL_docs dcd e enc nrm
    intro f hf
    have hf' : f ∈ files.map (docOf enc) := (List.mergeSort_perm _ _).mem_iff.mp hf
    obtain ⟨p, hp, rfl⟩ := List.mem_map.mp hf'
    exact ⟨h3 p hp, p.2, rfl, hcodec p.2 (hmem p hp)⟩
  · have hp : ((files.map (docOf enc)).mergeSort (fun a b => bytesLe a.1 b.1)).Perm (files.map (docOf enc)) :=
      List.mergeSort_perm _ _
    have := hp.filterMap (readFile dcd)
    rw [filterMap_docOf dcd enc nrm files (fun p hp => hcodec p.2 (hmem p hp))] at this
    refine this.trans ?_
    have e1 : files.map (fun p => nrm p.2) = (files.map (·.2)).map nrm := by simp
    rw [e1, h4, List.map_reverse]
    exact List.reverse_perm _

/-! ## the dump does not look at the directory: idempotence, any number of dumps -/

/-- the directory a dump leaves is a function of the items and the clock: `plan`, whatever the directory held -/
theorem marshalDynamic_plan {α : Type} (ops : List NameOp) (e : Bytes) (hops : opsOK ops e = true) (enc : α → Json)
    (nameOf : α → Bytes) (clock : Nat → Bytes) (hclock : ClockOK clock) (d : Dir) (cs : List α) :
    marshalDynamic ops enc nameOf clock d cs = some ((plan ops nameOf clock cs).map (docOf enc)) := by
  obtain ⟨files, h1, _, _, _, h5⟩ := marshalDynamic_spec ops e hops enc nameOf clock hclock d cs
  rw [h1, h5]

theorem applyOps_noStamp (s1 s2 : Bytes) (w : List Bytes) :
    (ops : List NameOp) → ops.all (· != .orStamp) = true → (f : Bytes) → applyOps s1 w ops f = applyOps s2 w ops f
  | [], _, _ => rfl
  | op :: r, h, f => by
    simp only [List.all_cons, Bool.and_eq_true, bne_iff_ne] at h
    simp only [applyOps]
    have : applyOp s1 w op f = applyOp s2 w op f := by
      cases op with
      | orStamp => exact absurd rfl h.1
      | _ => rfl
    rw [this]
    exact applyOps_noStamp s1 s2 w r h.2 _

/-- a non-empty name never reads the clock -/
theorem fileName_clock_indep (ops : List NameOp) (h : stampFirst ops = true) (s1 s2 : Bytes) (w : List Bytes)
    (name : Bytes) (hne : name ≠ []) : fileName ops s1 w name = fileName ops s2 w name := by
  unfold fileName
  cases ops with
  | nil => rfl
  | cons op r =>
    cases op with
    | orStamp =>
      simp only [stampFirst] at h
      have hemp : name.isEmpty = false := by cases name <;> simp_all
      simp only [applyOps, applyOp, hemp]
      exact applyOps_noStamp s1 s2 w r h _
    | truncate a b => exact applyOps_noStamp s1 s2 w _ h _
    | replaceAll a b => exact applyOps_noStamp s1 s2 w _ h _
    | append a => exact applyOps_noStamp s1 s2 w _ h _
    | unique => exact applyOps_noStamp s1 s2 w _ h _
    | mark => exact applyOps_noStamp s1 s2 w _ h _

theorem planLoop_clock_indep {α : Type} (ops : List NameOp) (h : stampFirst ops = true) (nameOf : α → Bytes)
    (k1 k2 : Nat → Bytes) : (cs : List α) → (∀ c ∈ cs, nameOf c ≠ []) → (i j : Nat) → (done : List (Bytes × α)) →
    planLoop ops nameOf k1 i cs done = planLoop ops nameOf k2 j cs done
  | [], _, _, _, _ => rfl
  | c :: r, hne, i, j, done => by
    simp only [planLoop]
    rw [fileName_clock_indep ops h (k1 i) (k2 j) _ (nameOf c) (hne c (by simp))]
    exact planLoop_clock_indep ops h nameOf k1 k2 r (fun c' hc' => hne c' (by simp [hc'])) _ _ _

end MosnVerif.Model.ConfigDir
