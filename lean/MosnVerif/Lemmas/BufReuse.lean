import MosnVerif.Model.BufReuse
namespace MosnVerif.Model.BufReuse
open MosnVerif.Gen.BufReset

theorem clearsPart_of_full {c : BufCtx} (hf : fullReset c = true) {f : String} (hm : c.fields.contains f = true)
    (sub : String) : clearsPart c f sub = true := by
  unfold fullReset at hf
  unfold clearsPart
  cases hw : c.whole with
  | true => simp
  | false =>
    rw [hw] at hf
    simp only [Bool.false_or, List.all_eq_true] at hf
    have hmem : f ∈ c.fields := by
      simpa using hm
    have := hf f hmem
    rw [this]; simp

theorem resetObj_full {c : BufCtx} (hf : fullReset c = true) (hc : covers c = true) (o : Obj) :
    resetObj c o = Obj.zero := by
  have hc' : ∀ f ∈ msgFields, c.fields.contains f = true := by
    simpa [covers, List.all_eq_true] using hc
  have h1 := hc' "serverRequest" (by simp [msgFields])
  have h2 := hc' "serverResponse" (by simp [msgFields])
  have h3 := hc' "clientRequest" (by simp [msgFields])
  have h4 := hc' "clientResponse" (by simp [msgFields])
  simp [resetObj, keep, Obj.zero, clearsPart_of_full hf h1, clearsPart_of_full hf h2, clearsPart_of_full hf h3,
    clearsPart_of_full hf h4]

/-- on a clean object every party receives only its own exchange's tokens -/
theorem serve_zero_own (e : Ex) : ownOut e (serve Obj.zero e).2 = true := by
  obtain ⟨k, fwd, head, reqBody, ans, direct, status⟩ := e
  cases fwd <;> cases head <;> cases reqBody <;> rcases ans with _ | (_ | _) <;> cases direct <;>
    simp [serve, ownOut, expectedBody, Obj.zero]

def allZero (pool : List Obj) : Prop := ∀ o ∈ pool, o = Obj.zero

theorem takeObj_zero {pool : List Obj} (h : allZero pool) (pick : Nat) :
    (takeObj pool pick).1 = Obj.zero ∧ allZero (takeObj pool pick).2 := by
  unfold takeObj
  cases hp : pool[pick]? with
  | none => exact ⟨rfl, h⟩
  | some o =>
    refine ⟨h o (List.mem_of_getElem? hp), ?_⟩
    intro x hx
    exact h x (List.mem_of_mem_eraseIdx hx)

theorem step_zero {c : BufCtx} (hf : fullReset c = true) (hc : covers c = true) {pool : List Obj} (h : allZero pool)
    (x : Ex × Nat) : allZero (step c pool x).1 ∧ (step c pool x).2 = (serve Obj.zero x.1).2 := by
  have ht := takeObj_zero h x.2
  constructor
  · intro o ho
    simp only [step, List.mem_cons] at ho
    rcases ho with ho | ho
    · rw [ho]; exact resetObj_full hf hc _
    · exact ht.2 o ho
  · simp only [step, ht.1]

theorem run_zero {c : BufCtx} (hf : fullReset c = true) (hc : covers c = true) :
    ∀ (xs : List (Ex × Nat)) (pool : List Obj), allZero pool →
      run c pool xs = xs.map (fun x => (serve Obj.zero x.1).2) := by
  intro xs
  induction xs with
  | nil => intro _ _; rfl
  | cons x xs ih =>
    intro pool h
    have hs := step_zero hf hc h x
    simp only [run, List.map_cons, hs.2, ih _ hs.1]

end MosnVerif.Model.BufReuse
