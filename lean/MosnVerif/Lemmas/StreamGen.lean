import MosnVerif.Model.StreamGen
/-! Invariant of the stream-generation model for the destroy-before-deliver order, for every schedule. -/
namespace MosnVerif.Lemmas.StreamGen
open MosnVerif.Model.StreamGen MosnVerif.Gen.RecvOrder

/-- the order the theorems are about; `Props.C02` shows the regenerated list IS this one -/
def goodProg : List Act := [.destroy, .deliver]

structure Inv (s : St) : Prop where
  slotOk : ∀ c k, s.slot c = some k → (s.ex k).pc = none ∧ (s.ex k).taken = true ∧ (s.ex k).conn = c
  pcOk : ∀ k p, (s.ex k).pc = some p → (p = [.destroy, .deliver] ∨ p = [.deliver] ∨ p = []) ∧ (s.ex k).taken = true
  gotOk : ∀ k, (s.ex k).got ≠ [] → (s.ex k).pc = some [] ∧ (s.ex k).got = [(s.ex k).rtok]
  doneOk : ∀ k, (s.ex k).done = true → (s.ex k).got ≠ []
  own : ∀ k, (s.ex k).taken = true → (s.ex k).done = false →
      (s.obj (s.ex k).obj).gen = (s.ex k).gen ∧ (s.obj (s.ex k).obj).owner = some k ∧
      (s.obj (s.ex k).obj).lis = (s.ex k).conn ∧ (s.obj (s.ex k).obj).cur = k
  logOk : ∀ r ∈ s.log, r.genHit = r.genMade ∧ (∀ c, r.gave = some c → c = r.own)

theorem inv_init : Inv ({} : St) := by
  constructor <;> simp

theorem inv_take (s : St) (h : Inv s) (k o : Nat) : Inv (step goodProg s (.take k o)) := by
  simp only [step]
  split
  · exact h
  · rename_i hc
    simp only [Bool.or_eq_true, not_or, Bool.not_eq_true, Option.isSome_eq_false_iff, Option.isNone_iff_eq_none] at hc
    obtain ⟨hk, ho⟩ := hc
    have hpc : (s.ex k).pc = none := by
      cases hp : (s.ex k).pc with
      | none => rfl
      | some p => have := (h.pcOk k p hp).2; simp [hk] at this
    have hgot : (s.ex k).got = [] := by
      by_cases hg : (s.ex k).got = []
      · exact hg
      · have := (h.gotOk k hg).1; simp [hpc] at this
    have hdone : (s.ex k).done = false := by
      cases hd : (s.ex k).done with
      | false => rfl
      | true => exact absurd hgot (h.doneOk k hd)
    constructor
    · intro c k' hs
      simp only [upd] at hs ⊢
      by_cases hkk : k' = k
      · subst hkk; simp only [if_true, hpc, true_and]
        split at hs
        · rename_i e; exact e.symm
        · have := (h.slotOk c k' hs).2.1; simp [hk] at this
      · simp only [hkk, if_false]
        split at hs
        · simp at hs; exact absurd hs.symm hkk
        · exact h.slotOk c k' hs
    · intro k' p hp
      simp only [upd] at hp ⊢
      by_cases hkk : k' = k
      · subst hkk; simp [hpc] at hp
      · simp only [hkk, if_false] at hp ⊢; exact h.pcOk k' p hp
    · intro k' hg
      simp only [upd] at hg ⊢
      by_cases hkk : k' = k
      · subst hkk; simp [hgot] at hg
      · simp only [hkk, if_false] at hg ⊢; exact h.gotOk k' hg
    · intro k' hd
      simp only [upd] at hd ⊢
      by_cases hkk : k' = k
      · subst hkk; simp [hdone] at hd
      · simp only [hkk, if_false] at hd ⊢; exact h.doneOk k' hd
    · intro k' ht hd
      simp only [upd] at ht hd ⊢
      by_cases hkk : k' = k
      · subst hkk; simp
      · simp only [hkk, if_false] at ht hd ⊢
        have := h.own k' ht hd
        by_cases hoo : (s.ex k').obj = o
        · rw [hoo] at this; simp [ho] at this
        · simp only [hoo, if_false]; exact this
    · exact h.logOk

theorem inv_send (s : St) (h : Inv s) (k : Nat) : Inv (step goodProg s (.send k)) := by
  simp only [step]
  split
  · exact h
  · constructor
    · intro c k' hs
      have := h.slotOk c k' hs
      simp only [upd]; split
      · rename_i e; subst e; simpa using this
      · exact this
    · intro k' p hp
      simp only [upd] at hp ⊢; split at hp
      · rename_i e; subst e; simpa using h.pcOk k' p hp
      · rename_i e; simp only [e, if_false]; exact h.pcOk k' p hp
    · intro k' hg
      simp only [upd] at hg ⊢; split at hg
      · rename_i e; subst e; simpa using h.gotOk k' hg
      · rename_i e; simp only [e, if_false]; exact h.gotOk k' hg
    · intro k' hd
      simp only [upd] at hd ⊢; split at hd
      · rename_i e; subst e; simpa using h.doneOk k' hd
      · rename_i e; simp only [e, if_false]; exact h.doneOk k' hd
    · intro k' ht hd
      simp only [upd] at ht hd ⊢
      by_cases hkk : k' = k
      · subst hkk; simp only [if_true] at ht hd ⊢; exact h.own k' ht hd
      · simp only [hkk, if_false] at ht hd ⊢; exact h.own k' ht hd
    · exact h.logOk

theorem inv_read (s : St) (h : Inv s) (c : Nat) : Inv (step goodProg s (.read c)) := by
  simp only [step]
  split
  · exact h
  · split
    · exact ⟨h.slotOk, h.pcOk, h.gotOk, h.doneOk, h.own, h.logOk⟩
    · rename_i j r _ k hsl
      have hk := h.slotOk c k hsl
      have hgot : (s.ex k).got = [] := by
        by_cases hg : (s.ex k).got = []
        · exact hg
        · have := (h.gotOk k hg).1; simp [hk.1] at this
      constructor
      · intro c' k' hs
        simp only [upd] at hs ⊢
        split at hs
        · simp at hs
        · have := h.slotOk c' k' hs
          by_cases hkk : k' = k
          · subst hkk
            rename_i hne
            exact absurd (this.2.2.symm.trans hk.2.2) hne
          · simp only [hkk, if_false]; exact this
      · intro k' p hp
        simp only [upd] at hp ⊢
        by_cases hkk : k' = k
        · subst hkk; simp at hp; subst hp; simp [goodProg, hk.2]
        · simp only [hkk, if_false] at hp ⊢; exact h.pcOk k' p hp
      · intro k' hg
        simp only [upd] at hg ⊢
        by_cases hkk : k' = k
        · subst hkk; simp [hgot] at hg
        · simp only [hkk, if_false] at hg ⊢; exact h.gotOk k' hg
      · intro k' hd
        simp only [upd] at hd ⊢
        by_cases hkk : k' = k
        · subst hkk; simpa using h.doneOk k' (by simpa using hd)
        · simp only [hkk, if_false] at hd ⊢; exact h.doneOk k' hd
      · intro k' ht hd
        simp only [upd] at ht hd ⊢
        by_cases hkk : k' = k
        · subst hkk; simpa using h.own k' (by simpa using ht) (by simpa using hd)
        · simp only [hkk, if_false] at ht hd ⊢; exact h.own k' ht hd
      · exact h.logOk


theorem got_nil_of_pc (s : St) (h : Inv s) (k : Nat) (a : Act) (p : List Act) (hp : (s.ex k).pc = some (a :: p)) :
    (s.ex k).got = [] ∧ (s.ex k).done = false ∧ (s.ex k).taken = true := by
  have hgot : (s.ex k).got = [] := by
    by_cases hg : (s.ex k).got = []
    · exact hg
    · have := (h.gotOk k hg).1; simp [hp] at this
  refine ⟨hgot, ?_, (h.pcOk k _ hp).2⟩
  cases hd : (s.ex k).done with
  | false => rfl
  | true => exact absurd hgot (h.doneOk k hd)

theorem inv_finish (s : St) (h : Inv s) (k : Nat) : Inv (step goodProg s (.finish k)) := by
  simp only [step]
  split
  · exact h
  · rename_i hc
    simp only [Bool.or_eq_true, not_or, Bool.not_eq_true, Bool.not_eq_eq_eq_not, Bool.not_true,
      List.isEmpty_eq_false_iff] at hc
    obtain ⟨⟨ht, hd⟩, hg⟩ := hc
    have hown := h.own k (by simpa using ht) hd
    constructor
    · intro c k' hs
      have := h.slotOk c k' hs
      simp only [upd]; split
      · rename_i e; subst e; simpa using this
      · exact this
    · intro k' p hp
      simp only [upd] at hp ⊢
      by_cases hkk : k' = k
      · subst hkk; simp only [if_true] at hp ⊢; exact h.pcOk k' p hp
      · simp only [hkk, if_false] at hp ⊢; exact h.pcOk k' p hp
    · intro k' hg'
      simp only [upd] at hg' ⊢
      by_cases hkk : k' = k
      · subst hkk; simp only [if_true] at hg' ⊢; exact h.gotOk k' hg'
      · simp only [hkk, if_false] at hg' ⊢; exact h.gotOk k' hg'
    · intro k' hd'
      simp only [upd] at hd' ⊢
      by_cases hkk : k' = k
      · subst hkk; simpa using hg
      · simp only [hkk, if_false] at hd' ⊢; exact h.doneOk k' hd'
    · intro k' ht' hd'
      simp only [upd] at ht' hd' ⊢
      by_cases hkk : k' = k
      · subst hkk; simp at hd'
      · simp only [hkk, if_false] at ht' hd' ⊢
        have := h.own k' ht' hd'
        by_cases hoo : (s.ex k').obj = (s.ex k).obj
        · rw [hoo] at this; rw [hown.2.1] at this; simp at this; exact absurd this.2.1.symm hkk
        · simp only [hoo, if_false]; exact this
    · exact h.logOk


@[simp] theorem upd_apply {α : Type} (f : Nat → α) (i : Nat) (v : α) (j : Nat) : upd f i v j = if j = i then v else f j := rfl

set_option linter.unusedSimpArgs false in
theorem inv_io (s : St) (h : Inv s) (k : Nat) : Inv (step goodProg s (.io k)) := by
  simp only [step]
  split
  · rename_i a p hp
    obtain ⟨hgot, hdone, htaken⟩ := got_nil_of_pc s h k a p hp
    have hshape := (h.pcOk k _ hp).1
    have hown := h.own k htaken hdone
    rcases hshape with hs | hs | hs
    · -- destroy
      simp only [List.cons.injEq] at hs
      obtain ⟨ha, hp'⟩ := hs
      subst ha; subst hp'
      simp only [doDestroy]
      split
      · rename_i hlive
        constructor
        · intro c k' hsl
          try simp only [upd_apply, hown.2.2.2, ite_true] at hsl ⊢
          have := h.slotOk c k' hsl
          by_cases hkk : k' = k
          · subst hkk; simp [hp] at this
          · simp only [hkk, if_false]; exact this
        · intro k' p' hp''
          try simp only [upd_apply, hown.2.2.2, ite_true] at hp'' ⊢
          by_cases hkk : k' = k
          · subst hkk; simp at hp''; subst hp''; simp [htaken]
          · simp only [hkk, if_false] at hp'' ⊢; exact h.pcOk k' p' hp''
        · intro k' hg
          try simp only [upd_apply, hown.2.2.2, ite_true] at hg ⊢
          by_cases hkk : k' = k
          · subst hkk; simp [hgot] at hg
          · simp only [hkk, if_false] at hg ⊢; exact h.gotOk k' hg
        · intro k' hd
          try simp only [upd_apply, hown.2.2.2, ite_true] at hd ⊢
          by_cases hkk : k' = k
          · subst hkk; simp [hdone] at hd
          · simp only [hkk, if_false] at hd ⊢; exact h.doneOk k' hd
        · intro k' ht hd
          try simp only [upd_apply, hown.2.2.2, ite_true] at ht hd ⊢
          by_cases hkk : k' = k
          · subst hkk; simpa using ⟨hown.1, hown.2.1, hown.2.2.1⟩
          · simp only [hkk, if_false] at ht hd ⊢
            have := h.own k' ht hd
            by_cases hoo : (s.ex k').obj = (s.ex k).obj
            · rw [hoo, hown.2.1] at this; simp at this; exact absurd this.2.1.symm hkk
            · simp only [hoo, if_false]; exact this
        · intro r hr
          try simp only [upd_apply, hown.2.2.2, ite_true] at hr ⊢
          simp only [List.mem_cons] at hr
          rcases hr with hr | hr
          · subst hr; simp [hown.1, hown.2.2.1]
          · exact h.logOk r hr
      · constructor
        · intro c k' hsl
          try simp only [upd_apply, hown.2.2.2, ite_true] at hsl ⊢
          have := h.slotOk c k' hsl
          by_cases hkk : k' = k
          · subst hkk; simp [hp] at this
          · simp only [hkk, if_false]; exact this
        · intro k' p' hp''
          try simp only [upd_apply, hown.2.2.2, ite_true] at hp'' ⊢
          by_cases hkk : k' = k
          · subst hkk; simp at hp''; subst hp''; simp [htaken]
          · simp only [hkk, if_false] at hp'' ⊢; exact h.pcOk k' p' hp''
        · intro k' hg
          try simp only [upd_apply, hown.2.2.2, ite_true] at hg ⊢
          by_cases hkk : k' = k
          · subst hkk; simp [hgot] at hg
          · simp only [hkk, if_false] at hg ⊢; exact h.gotOk k' hg
        · intro k' hd
          try simp only [upd_apply, hown.2.2.2, ite_true] at hd ⊢
          by_cases hkk : k' = k
          · subst hkk; simp [hdone] at hd
          · simp only [hkk, if_false] at hd ⊢; exact h.doneOk k' hd
        · intro k' ht hd
          try simp only [upd_apply, hown.2.2.2, ite_true] at ht hd ⊢
          by_cases hkk : k' = k
          · subst hkk; simp only [if_true] at ht hd ⊢; simpa using hown
          · simp only [hkk, if_false] at ht hd ⊢; exact h.own k' ht hd
        · intro r hr
          try simp only [upd_apply, hown.2.2.2, ite_true] at hr ⊢
          simp only [List.mem_cons] at hr
          rcases hr with hr | hr
          · subst hr; simp [hown.1]
          · exact h.logOk r hr
    · -- deliver
      simp only [List.cons.injEq] at hs
      obtain ⟨ha, hp'⟩ := hs
      subst ha; subst hp'
      constructor
      · intro c k' hsl
        try simp only [upd_apply, hown.2.2.2, ite_true] at hsl ⊢
        have := h.slotOk c k' hsl
        by_cases hkk : k' = k
        · subst hkk; simp [hp] at this
        · simp only [hkk, if_false]; exact this
      · intro k' p' hp''
        try simp only [upd_apply, hown.2.2.2, ite_true] at hp'' ⊢
        by_cases hkk : k' = k
        · subst hkk; simp at hp''; subst hp''; simp [htaken]
        · simp only [hkk, if_false] at hp'' ⊢; exact h.pcOk k' p' hp''
      · intro k' hg
        try simp only [upd_apply, hown.2.2.2, ite_true] at hg ⊢
        by_cases hkk : k' = k
        · subst hkk; simp [hgot]
        · simp only [hkk, if_false] at hg ⊢; exact h.gotOk k' hg
      · intro k' hd
        try simp only [upd_apply, hown.2.2.2, ite_true] at hd ⊢
        by_cases hkk : k' = k
        · subst hkk; simp [hdone] at hd
        · simp only [hkk, if_false] at hd ⊢; exact h.doneOk k' hd
      · intro k' ht hd
        try simp only [upd_apply, hown.2.2.2, ite_true] at ht hd ⊢
        by_cases hkk : k' = k
        · subst hkk; simp only [if_true] at ht hd ⊢; simpa using hown
        · simp only [hkk, if_false] at ht hd ⊢; exact h.own k' ht hd
      · exact h.logOk
    · simp at hs
  · exact h

theorem inv_step (s : St) (h : Inv s) (e : Ev) : Inv (step goodProg s e) := by
  cases e with
  | take k o => exact inv_take s h k o
  | send k => exact inv_send s h k
  | read c => exact inv_read s h c
  | io k => exact inv_io s h k
  | finish k => exact inv_finish s h k

theorem inv_run (evs : List Ev) (s : St) (h : Inv s) : Inv (run goodProg s evs) := by
  induction evs generalizing s with
  | nil => exact h
  | cons e r ih => exact ih _ (inv_step s h e)

end MosnVerif.Lemmas.StreamGen
