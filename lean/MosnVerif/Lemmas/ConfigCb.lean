import MosnVerif.Model.ConfigCb
import MosnVerif.Lemmas.ConfigPairs2
/-!
Lemmas for the effective circuit-breaker thresholds (C19): one marshal / unmarshal cycle of a thresholds list keeps
every entry at its position with the same numbers — an entry that sets no limit included.
-/
namespace MosnVerif.Model.ConfigCb
open MosnVerif.Model MosnVerif.Model.ConfigCodec MosnVerif.Model.GoTypes

theorem numOf_zero : numOf (.num "0") = 0 := by simp [numOf]

theorem numOf_norm_num (o : Bool) (v : CVal) :
    numOf (if (o && isEmpty v) = true then zero .num else norm .num v) = numOf v := by
  have hn : norm .num v = v := by cases v <;> simp [norm]
  rw [hn]
  split
  · rename_i h
    simp only [Bool.and_eq_true] at h
    cases v <;> simp_all [isEmpty, zero, numOf_zero] <;> simp [numOf]
  · rfl

theorem normF_nums : (fs : Fields) → allNum fs = true → (vs : List CVal) → wtF fs vs = true →
    (normF fs vs).map numOf = vs.map numOf
  | .nil, _, vs, hw => by cases vs <;> simp_all [wtF, normF]
  | .cons k o sh r, hn, vs, hw => by
    cases vs with
    | nil => simp [wtF] at hw
    | cons v vs =>
      simp only [allNum, Bool.and_eq_true] at hn
      simp only [wtF, Bool.and_eq_true] at hw
      have hsh : sh = .num := by cases sh <;> simp_all
      subst hsh
      simp only [normF, List.map_cons, numOf_norm_num, normF_nums r hn.2 vs hw.2]

theorem entries_norm (fs : Fields) (hn : allNum fs = true) :
    (vs : List CVal) → wtL (wt (.struct fs)) vs = true →
    (normL (norm (.struct fs)) vs).map (fun v => match v with | .struct ms => ms.map numOf | _ => []) =
      vs.map (fun v => match v with | .struct ms => ms.map numOf | _ => [])
  | [], _ => rfl
  | v :: r, hw => by
    simp only [wtL, Bool.and_eq_true] at hw
    simp only [normL, List.map_cons, entries_norm fs hn r hw.2]
    congr 1
    cases v <;> simp [wt] at hw
    rename_i ms
    simp only [norm]
    exact normF_nums fs hn ms hw.1

/-- one cycle of `CircuitBreakers` keeps the entries — their number, order and limits -/
theorem cb_entries_survive (fs : Fields) (hk : keysOKF fs = true) (hn : allNum fs = true) (w : Json) (x : CVal)
    (hU : cbU (.struct fs) w = some x) :
    ∃ y, cbU (.struct fs) (cbM (.struct fs) x) = some y ∧ entries y = entries x := by
  have hks : keysOK (.slice (.struct fs)) = true := by simpa [keysOK] using hk
  have hw := dw _ hks w x hU
  refine ⟨norm (.slice (.struct fs)) x, rt _ hks x hw, ?_⟩
  cases x <;> simp [wt] at hw
  rename_i n vs
  simp only [norm, entries]
  exact entries_norm fs hn vs hw.2

end MosnVerif.Model.ConfigCb
