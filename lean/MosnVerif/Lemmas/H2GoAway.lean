import MosnVerif.Model.H2GoAway
/-! Lemmas for the HTTP/2 part of C11: a stream that is in the stream table when the graceful GOAWAY goes out keeps
receiving its DATA frames and trailers, whatever else happens on the connection. -/
namespace MosnVerif.Lemmas.H2GoAway
open MosnVerif.Gen.H2GoAway MosnVerif.Model.H2GoAway

/-! ### what the regenerated guards owe -/

/-- `processData` does not drop the DATA of a stream at or below the last stream id after a graceful GOAWAY -/
theorem dataDiscarded_inflight (g : Bool) (code : Int) (id m : Nat) (h1 : g = true → code = gracefulCode)
    (h2 : id ≤ m) : dataDiscarded g code id m = false := by
  cases g
  · simp [dataDiscarded]
  · have := h1 rfl; subst this
    simp [dataDiscarded, gracefulCode, ErrCodeNo]; omega

/-- `processHeaders` does not ignore the trailers of such a stream either -/
theorem headersIgnored_inflight (g : Bool) (code : Int) (id m : Nat) (h1 : g = true → code = gracefulCode)
    (h2 : id ≤ m) : headersIgnored g code id m = false := by
  cases g
  · simp [headersIgnored]
  · have := h1 rfl; subst this
    simp [headersIgnored, gracefulCode, ErrCodeNo]; omega

theorem headersStale_false (j m : Nat) (h : headersStale j m = false) : m < j := by
  simp [headersStale] at h; omega

theorem headersStale_of_lt (j m : Nat) (h : m < j) : headersStale j m = false := by
  simp [headersStale]; omega

theorem headersIgnored_noGoAway (code : Int) (id m : Nat) : headersIgnored false code id m = false := by
  simp [headersIgnored]

/-- a new stream is never opened once a GOAWAY was sent (its id would have to exceed every earlier one) -/
theorem headersIgnored_new (code : Int) (id m : Nat) (h : headersStale id m = false) :
    headersIgnored true code id m = true := by
  have := headersStale_false id m h
  simp [headersIgnored]; omega

/-- after a GOAWAY every frame of a stream above the last stream id is dropped -/
theorem discarded_above (code : Int) (j m : Nat) (h : m < j) :
    headersIgnored true code j m = true ∧ dataDiscarded true code j m = true ∧ rstDiscarded true code j m = true := by
  refine ⟨?_, ?_, ?_⟩
  · simp [headersIgnored]; omega
  · simp [dataDiscarded]; omega
  · simp [rstDiscarded]; omega

/-! ### connection errors are final -/

theorem goAway_dead (c : Conn) (code : Int) : (goAway c code).1.dead = c.dead := by
  unfold goAway; split <;> rfl

theorem connError_dead (c : Conn) (code : Int) : (connError c code).1.dead = true := rfl

theorem step_dead (r : Rule) (c : Conn) (e : Ev) (h : c.dead = true) : stepWith r c e = (c, []) := by
  cases e <;> simp [stepWith, h]

theorem run_dead (r : Rule) (c : Conn) (evs : List Ev) (h : c.dead = true) : (runWith r c evs).1.dead = true := by
  induction evs with
  | nil => exact h
  | cons e t ih => simp only [runWith, step_dead r c e h]; exact ih

theorem run_cons (c : Conn) (e : Ev) (t : List Ev) :
    run c (e :: t) = ((run (step c e).1 t).1, (step c e).2 ++ (run (step c e).1 t).2) := rfl

theorem alive_of_run (c : Conn) (evs : List Ev) (h : (run c evs).1.dead = false) : c.dead = false := by
  cases hd : c.dead
  · rfl
  · have := run_dead dataDiscarded c evs hd; simp only [run] at h; rw [this] at h; exact Bool.noConfusion h

/-! ### the stream table under updates of other streams -/

theorem getS_setS_ne (c : Conn) (i j : Nat) (st : Strm) (h : i ≠ j) : getS (setS c j st) i = getS c i := by
  simp [getS, setS, h]
theorem getS_setS_eq (c : Conn) (i : Nat) (st : Strm) : getS (setS c i st) i = some st := by
  simp [getS, setS]
theorem getS_delS_ne (c : Conn) (i j : Nat) (h : i ≠ j) : getS (delS c j) i = getS c i := by
  simp [getS, delS, h]

theorem streamError_other (c : Conn) (i j : Nat) (code : Int) (h : i ≠ j) :
    getS (streamError c j code).1 i = getS c i ∧ (streamError c j code).1.maxId = c.maxId ∧
    (streamError c j code).1.inGoAway = c.inGoAway ∧ (streamError c j code).1.code = c.code ∧
    (streamError c j code).1.dead = c.dead := by
  unfold streamError
  split
  · exact ⟨getS_delS_ne c i j h, rfl, rfl, rfl, rfl⟩
  · exact ⟨rfl, rfl, rfl, rfl, rfl⟩

/-- what an in-flight stream needs from the connection -/
structure Keeps (c : Conn) (id : Nat) (st : Strm) : Prop where
  alive : c.dead = false
  strm : getS c id = some st
  max : id ≤ c.maxId
  graceful : c.inGoAway = true → c.code = gracefulCode

theorem keeps_setS (c : Conn) (id j : Nat) (st x : Strm) (hk : Keeps c id st) (h : id ≠ j) : Keeps (setS c j x) id st :=
  ⟨hk.alive, by rw [getS_setS_ne c id j x h]; exact hk.strm, hk.max, hk.graceful⟩

theorem keeps_delS (c : Conn) (id j : Nat) (st : Strm) (hk : Keeps c id st) (h : id ≠ j) : Keeps (delS c j) id st :=
  ⟨hk.alive, by rw [getS_delS_ne c id j h]; exact hk.strm, hk.max, hk.graceful⟩

theorem keeps_streamError (c : Conn) (id j : Nat) (st : Strm) (code : Int) (hk : Keeps c id st) (h : id ≠ j) :
    Keeps (streamError c j code).1 id st := by
  have := streamError_other c id j code h
  exact ⟨by rw [this.2.2.2.2]; exact hk.alive, by rw [this.1]; exact hk.strm, by rw [this.2.1]; exact hk.max,
    by rw [this.2.2.1, this.2.2.2.1]; exact hk.graceful⟩

/-- frames of other streams and the shutdown itself either kill the connection or leave an in-flight stream as it is -/
theorem keeps_other' (c : Conn) (id : Nat) (st : Strm) (e : Ev) (hk : Keeps c id st) (ho : e.other id = true) :
    (step c e).1.dead = true ∨ Keeps (step c e).1 id st := by
  have h1 := hk.alive
  cases e with
  | shutdown =>
    right
    simp only [step, stepWith, h1, Bool.false_eq_true, if_false, goAway]
    split
    · exact hk
    · refine ⟨?_, ?_, ?_, ?_⟩
      · first | exact h1 | rfl
      · exact hk.strm
      · exact hk.max
      · intro _; rfl
  | headers j es decl =>
    have hj : id ≠ j := by simp [Ev.other] at ho; exact fun e => ho e.symm
    simp only [step, stepWith, h1, Bool.false_eq_true, if_false]
    by_cases hig : headersIgnored c.inGoAway c.code j c.maxId = true
    · rw [if_pos hig]; exact Or.inr hk
    rw [if_neg hig]
    by_cases hodd : j % 2 ≠ 1
    · rw [if_pos hodd]; exact Or.inl rfl
    rw [if_neg hodd]
    cases hg : getS c j with
    | some stj =>
      simp only []
      by_cases hsc : (srvTrailerStateCheck && stj.halfClosed) = true   -- [c08l9]
      · rw [if_pos hsc]; exact Or.inr (keeps_streamError c id j st _ hk hj)
      rw [if_neg hsc]
      by_cases hgt : stj.gotTrailer = true
      · rw [if_pos hgt]; exact Or.inl rfl
      rw [if_neg hgt]
      by_cases hes : (!es) = true
      · rw [if_pos hes]; exact Or.inr (keeps_streamError c id j st _ hk hj)
      · rw [if_neg hes]; exact Or.inr (keeps_setS c id j st _ hk hj)
    | none =>
      simp only []
      by_cases hst : headersStale j c.maxId = true
      · rw [if_pos hst]; exact Or.inl rfl
      · rw [if_neg hst]
        have hlt := headersStale_false j c.maxId (by simpa using hst)
        right
        refine ⟨h1, ?_, ?_, hk.graceful⟩
        · show getS (setS c j _) id = some st
          rw [getS_setS_ne c id j _ hj]; exact hk.strm
        · show id ≤ j
          have := hk.max; omega
  | data j len es =>
    have hj : id ≠ j := by simp [Ev.other] at ho; exact fun e => ho e.symm
    simp only [step, stepWith, h1, Bool.false_eq_true, if_false]
    by_cases hdis : dataDiscarded c.inGoAway c.code j c.maxId = true
    · rw [if_pos hdis]; exact Or.inr hk
    rw [if_neg hdis]
    cases hg : getS c j with
    | none =>
      simp only []
      by_cases hcl : (decide (j % 2 = 1) && decide (j ≤ c.maxId)) = true
      · rw [if_pos hcl]; exact Or.inr (keeps_streamError c id j st _ hk hj)
      · rw [if_neg hcl]; exact Or.inl rfl
    | some stj =>
      simp only []
      by_cases hhc : (stj.halfClosed || stj.gotTrailer) = true
      · rw [if_pos hhc]; exact Or.inr (keeps_streamError c id j st _ hk hj)
      rw [if_neg hhc]
      by_cases hex : overDecl stj.decl (stj.body + len) = true
      · rw [if_pos hex]; exact Or.inr (keeps_streamError c id j st _ hk hj)
      · rw [if_neg hex]; exact Or.inr (keeps_setS c id j st _ hk hj)
  | rst j =>
    have hj : id ≠ j := by simp [Ev.other] at ho; exact fun e => ho e.symm
    simp only [step, stepWith, h1, Bool.false_eq_true, if_false]
    by_cases hdis : rstDiscarded c.inGoAway c.code j c.maxId = true
    · rw [if_pos hdis]; exact Or.inr hk
    rw [if_neg hdis]
    cases hg : getS c j with
    | some stj => exact Or.inr (keeps_delS c id j st hk hj)
    | none =>
      simp only []
      by_cases hcl : (decide (j % 2 = 1) && decide (j ≤ c.maxId)) = true
      · rw [if_pos hcl]; exact Or.inr hk
      · rw [if_neg hcl]; exact Or.inl rfl

theorem keeps_other (c : Conn) (id : Nat) (st : Strm) (e : Ev) (hk : Keeps c id st) (ho : e.other id = true)
    (ha : (step c e).1.dead = false) : Keeps (step c e).1 id st := by
  rcases keeps_other' c id st e hk ho with h | h
  · rw [h] at ha; exact Bool.noConfusion ha
  · exact h

/-- a DATA frame of an in-flight open stream, within its declared length, is accounted; END_STREAM delivers the request -/
theorem data_inflight (c : Conn) (id k len : Nat) (decl : Option Nat) (es : Bool)
    (hk : Keeps c id ⟨id, false, k, decl, false⟩) (hd : ∀ d, decl = some d → k + len ≤ d) :
    step c (.data id len es) =
      (setS c id ⟨id, es, k + len, decl, false⟩, if es then [Out.deliver id (k + len)] else []) := by
  obtain ⟨h1, h2, h3, h4⟩ := hk
  have hnd := dataDiscarded_inflight c.inGoAway c.code id c.maxId h4 h3
  simp only [step, stepWith, h1, Bool.false_eq_true, if_false, hnd, h2, Bool.or_self]
  have : overDecl decl (k + len) = false := by
    cases decl with
    | none => rfl
    | some d => have := hd d rfl; simp [overDecl]; omega
  rw [this]; rfl

/-- the trailers of an in-flight open stream end it and deliver the request -/
theorem trailers_inflight (c : Conn) (id k : Nat) (decl : Option Nat) (hodd : id % 2 = 1)
    (hk : Keeps c id ⟨id, false, k, decl, false⟩) :
    (step c (.headers id true none)).2 = [Out.deliver id k] := by
  obtain ⟨h1, h2, h3, h4⟩ := hk
  have hni := headersIgnored_inflight c.inGoAway c.code id c.maxId h4 h3
  simp [step, stepWith, h1, hni, hodd, h2]

theorem keeps_data (c : Conn) (id k len : Nat) (decl : Option Nat)
    (hk : Keeps c id ⟨id, false, k, decl, false⟩) (hd : ∀ d, decl = some d → k + len ≤ d) :
    Keeps (step c (.data id len false)).1 id ⟨id, false, k + len, decl, false⟩ := by
  rw [data_inflight c id k len decl false hk hd]
  exact ⟨hk.alive, getS_setS_eq c id _, hk.max, hk.graceful⟩

/-- the core: from a state in which stream `id` is open with `k` body bytes, any event list whose frames of stream
`id` are exactly the rest of its body delivers the request with the complete body, if the connection survives -/
theorem inflight_complete (id : Nat) (decl : Option Nat) (tr : Bool) (hodd : id % 2 = 1) :
    ∀ (evs : List Ev) (chunks : List Nat) (c : Conn) (k : Nat),
      Keeps c id ⟨id, false, k, decl, false⟩ →
      (run c evs).1.dead = false →
      evs.filter (fun e => !e.other id) = bodyFrames id tr chunks →
      (∀ d, decl = some d → k + chunks.sum ≤ d) →
      (tr = true ∨ chunks ≠ []) →
      Out.deliver id (k + chunks.sum) ∈ (run c evs).2 := by
  intro evs
  induction evs with
  | nil =>
    intro chunks c k _ _ hp _ hend
    simp only [List.filter_nil] at hp
    cases chunks with
    | nil =>
      rcases hend with h | h
      · subst h; simp [bodyFrames] at hp
      · exact absurd rfl h
    | cons a r => simp [bodyFrames] at hp
  | cons e t ih =>
    intro chunks c k hk hdead hp hdecl hend
    rw [run_cons] at hdead ⊢
    simp only at hdead
    have ha1 : (step c e).1.dead = false := alive_of_run _ t hdead
    by_cases ho : e.other id = true
    · -- a frame of another stream / the shutdown
      have hk' := keeps_other c id _ e hk ho ha1
      have hp' : t.filter (fun e => !e.other id) = bodyFrames id tr chunks := by
        simpa [List.filter_cons, ho] using hp
      exact List.mem_append_right _ (ih chunks _ k hk' hdead hp' hdecl hend)
    · -- the next frame of the stream itself
      have ho' : e.other id = false := by simpa using ho
      simp only [List.filter_cons, ho', Bool.not_false, if_true] at hp
      cases chunks with
      | nil =>
        rcases hend with h | h
        · subst h
          simp only [bodyFrames, if_true, List.cons.injEq] at hp
          rw [hp.1, trailers_inflight c id k decl hodd hk]
          simp
        · exact absurd rfl h
      | cons a r =>
        simp only [bodyFrames, List.cons.injEq] at hp
        obtain ⟨he, hp'⟩ := hp
        have hda : ∀ d, decl = some d → k + a ≤ d := by
          intro d hd; have := hdecl d hd; simp only [List.sum_cons] at this; omega
        by_cases hlast : (!tr && r.isEmpty) = true
        · -- END_STREAM on this frame
          simp only [Bool.and_eq_true, Bool.not_eq_true', List.isEmpty_iff] at hlast
          obtain ⟨htr, hr⟩ := hlast
          subst hr
          rw [he, htr]
          simp only [Bool.not_false, List.isEmpty_nil, Bool.and_self]
          rw [data_inflight c id k a decl true hk hda]
          simp
        · have hlast' : (!tr && r.isEmpty) = false := by simpa using hlast
          rw [hlast'] at he
          have hk' := keeps_data c id k a decl hk hda
          rw [he] at hdead ⊢
          have hend' : tr = true ∨ r ≠ [] := by
            cases tr with
            | true => exact Or.inl rfl
            | false =>
              right; intro hr; subst hr; simp at hlast'
          have := ih r _ (k + a) hk' hdead hp'
            (by intro d hd; have := hdecl d hd; simp only [List.sum_cons] at this; omega) hend'
          have hsum : k + (a :: r).sum = k + a + r.sum := by simp only [List.sum_cons]; omega
          rw [hsum]
          exact List.mem_append_right _ this

/-- the HEADERS of a new request on a connection that has not sent a GOAWAY open the stream -/
theorem open_step (c : Conn) (id : Nat) (decl : Option Nat) (hd : c.dead = false) (hg : c.inGoAway = false)
    (hodd : id % 2 = 1) (hnone : getS c id = none) (hmax : c.maxId < id) :
    step c (.headers id false decl) = ({ setS c id ⟨id, false, 0, decl, false⟩ with maxId := id }, []) := by
  have hst := headersStale_of_lt id c.maxId hmax
  simp [step, stepWith, hd, hg, headersIgnored_noGoAway, hodd, hnone, hst]

theorem body_other (id : Nat) (tr : Bool) : ∀ (l : List Nat), ∀ e ∈ bodyFrames id tr l, Ev.other id e = false := by
  intro l
  induction l with
  | nil =>
    intro e he
    cases tr <;> simp [bodyFrames] at he
    subst he; simp [Ev.other]
  | cons a r ih =>
    intro e he
    simp only [bodyFrames, List.mem_cons] at he
    rcases he with he | he
    · subst he; simp [Ev.other]
    · exact ih e he

theorem shutdown_dead (c : Conn) : (step c .shutdown).1.dead = c.dead := by
  simp only [step, stepWith]
  split
  · rfl
  · exact goAway_dead c gracefulCode

/-- shutdowns alone never close the connection -/
theorem run_shutdowns_alive (evs : List Ev) : ∀ (c : Conn), c.dead = false → (∀ e ∈ evs, e = Ev.shutdown) →
    (run c evs).1.dead = false := by
  induction evs with
  | nil => intro c h _; exact h
  | cons e t ih =>
    intro c h hall
    rw [run_cons]
    have he := hall e (List.mem_cons_self ..)
    subst he
    exact ih _ (by rw [shutdown_dead]; exact h) (fun x hx => hall x (List.mem_cons_of_mem _ hx))

theorem trailers_alive (c : Conn) (id k : Nat) (decl : Option Nat) (hodd : id % 2 = 1)
    (hk : Keeps c id ⟨id, false, k, decl, false⟩) : (step c (.headers id true none)).1.dead = false := by
  obtain ⟨h1, h2, h3, h4⟩ := hk
  have hni := headersIgnored_inflight c.inGoAway c.code id c.maxId h4 h3
  simp [step, stepWith, h1, hni, hodd, h2, setS]

/-- a connection that carries only this request and shutdowns is never closed -/
theorem alone_alive (id : Nat) (decl : Option Nat) (tr : Bool) (hodd : id % 2 = 1) :
    ∀ (evs : List Ev) (chunks : List Nat) (c : Conn) (k : Nat),
      Keeps c id ⟨id, false, k, decl, false⟩ →
      (∀ e ∈ evs, e = Ev.shutdown ∨ e.other id = false) →
      evs.filter (fun e => !e.other id) = bodyFrames id tr chunks →
      (∀ d, decl = some d → k + chunks.sum ≤ d) →
      (run c evs).1.dead = false := by
  intro evs
  induction evs with
  | nil => intro _ c _ hk _ _ _; exact hk.alive
  | cons e t ih =>
    intro chunks c k hk hall hp hdecl
    rw [run_cons]
    have hall' : ∀ x ∈ t, x = Ev.shutdown ∨ x.other id = false := fun x hx => hall x (List.mem_cons_of_mem _ hx)
    rcases hall e (List.mem_cons_self ..) with he | he
    · subst he
      have hk' : Keeps (step c .shutdown).1 id ⟨id, false, k, decl, false⟩ :=
        keeps_other c id _ .shutdown hk rfl (by rw [shutdown_dead]; exact hk.alive)
      have hp' : t.filter (fun e => !e.other id) = bodyFrames id tr chunks := by
        simpa [List.filter_cons, Ev.other] using hp
      exact ih chunks _ k hk' hall' hp' hdecl
    · simp only [List.filter_cons, he, Bool.not_false, if_true] at hp
      -- after the frame that ends the stream only shutdowns can follow
      have rest_shut : t.filter (fun e => !e.other id) = [] → ∀ x ∈ t, x = Ev.shutdown := by
        intro hnil x hx
        rcases hall' x hx with h | h
        · exact h
        · have : x ∈ t.filter (fun e => !e.other id) := List.mem_filter.2 ⟨hx, by simp [h]⟩
          rw [hnil] at this; exact absurd this (List.not_mem_nil)
      cases chunks with
      | nil =>
        cases tr with
        | false => simp [bodyFrames] at hp
        | true =>
          simp only [bodyFrames, if_true, List.cons.injEq] at hp
          rw [hp.1]
          exact run_shutdowns_alive t _ (trailers_alive c id k decl hodd hk) (rest_shut hp.2)
      | cons a r =>
        simp only [bodyFrames, List.cons.injEq] at hp
        obtain ⟨hev, hp'⟩ := hp
        have hda : ∀ d, decl = some d → k + a ≤ d := by
          intro d hd; have := hdecl d hd; simp only [List.sum_cons] at this; omega
        by_cases hlast : (!tr && r.isEmpty) = true
        · simp only [Bool.and_eq_true, Bool.not_eq_true', List.isEmpty_iff] at hlast
          obtain ⟨htr, hr⟩ := hlast
          subst hr; subst htr
          rw [hev]
          simp only [Bool.not_false, List.isEmpty_nil, Bool.and_self]
          rw [data_inflight c id k a decl true hk hda]
          simp only [bodyFrames, Bool.false_eq_true, if_false] at hp'
          exact run_shutdowns_alive t _ hk.alive (rest_shut hp')
        · have hlast' : (!tr && r.isEmpty) = false := by simpa using hlast
          rw [hlast'] at hev
          rw [hev]
          exact ih r _ (k + a) (keeps_data c id k a decl hk hda) hall' hp'
            (by intro d hd; have := hdecl d hd; simp only [List.sum_cons] at this; omega)

/-- a stream begun after the GOAWAY (id above the last stream id) is invisible: its HEADERS, DATA and RST_STREAM
frames change nothing and produce nothing — in particular no connection error -/
theorem refused_stream_step (c : Conn) (e : Ev) (j : Nat) (hg : c.inGoAway = true) (hj : c.maxId < j)
    (he : e = .headers j false none ∨ (∃ es d, e = .headers j es d) ∨ (∃ n es, e = .data j n es) ∨ e = .rst j) :
    step c e = (c, []) := by
  obtain ⟨h1, h2, h3⟩ := discarded_above c.code j c.maxId hj
  by_cases hd : c.dead = true
  · exact step_dead _ c e hd
  have hd : c.dead = false := by simpa using hd
  rcases he with he | ⟨es, d, he⟩ | ⟨n, es, he⟩ | he <;> subst he <;>
    simp [step, stepWith, hd, hg, h1, h2, h3]

end MosnVerif.Lemmas.H2GoAway

