import MosnVerif.Model.CheckedGo
/-!
Reasoning about checked-access programs (Model/CheckedGo.lean): `x.Safe Q` — the computation does not panic (`≠ oob`) and
its value satisfies `Q` — with one rule per construct of the target language of the statement translator, and the tactic
`chk_auto` that walks a regenerated program along these rules and hands the side conditions of every checked access
(`0 ≤ i < len b`, `0 ≤ lo ≤ hi ≤ len b`, `n ≤ len b`) to `omega`.
-/
namespace MosnVerif.Model.CheckedGo
set_option linter.unusedSimpArgs false

/-- total correctness: no out-of-range access, and the value satisfies `Q` -/
def Chk.Safe {α : Type} (x : Chk α) (Q : α → Prop) : Prop := ∃ a, x = .ok a ∧ Q a

namespace Safe

theorem ok {α : Type} {Q : α → Prop} {a : α} (h : Q a) : (Chk.ok a).Safe Q := ⟨a, rfl, h⟩

theorem ne_oob {α : Type} {Q : α → Prop} {x : Chk α} (h : x.Safe Q) : x ≠ .oob := by
  obtain ⟨a, ha, _⟩ := h
  rw [ha]; intro h; cases h

theorem mono {α : Type} {P Q : α → Prop} {x : Chk α} (h : x.Safe P) (hpq : ∀ a, P a → Q a) : x.Safe Q := by
  obtain ⟨a, ha, hp⟩ := h
  exact ⟨a, ha, hpq a hp⟩

theorem of_ne_oob {α : Type} {x : Chk α} (h : x ≠ .oob) : x.Safe (fun _ => True) := by
  cases x with
  | ok a => exact ⟨a, rfl, trivial⟩
  | oob => exact absurd rfl h

theorem value {α : Type} {Q : α → Prop} {x : Chk α} {a : α} (h : x.Safe Q) (hx : x = .ok a) : Q a := by
  obtain ⟨b, hb, hq⟩ := h
  rw [hx] at hb; cases hb; exact hq

theorem bind {α β : Type} {P : α → Prop} {Q : β → Prop} {x : Chk α} {f : α → Chk β}
    (hx : x.Safe P) (hf : ∀ a, P a → (f a).Safe Q) : (x.bind f).Safe Q := by
  obtain ⟨a, ha, hp⟩ := hx
  rw [ha]; exact hf a hp

theorem ite {α : Type} {Q : α → Prop} {c : Prop} [Decidable c] {A B : Chk α}
    (ht : c → A.Safe Q) (he : ¬c → B.Safe Q) : (if c then A else B).Safe Q := by
  split
  · exact ht ‹_›
  · exact he ‹_›

theorem idx {b : Bytes} {i : Int} (h0 : 0 ≤ i) (h1 : i < len b) :
    (idx b i).Safe (fun v => byteAt b i = v ∧ 0 ≤ v ∧ v < 256) := by
  refine ⟨byteAt b i, ?_, rfl, ?_, ?_⟩
  · simp [CheckedGo.idx, h0, h1]
  · simp [byteAt]
  · simp only [byteAt]
    have := (b.getD i.toNat 0).toNat_lt
    omega

theorem len_sub {b : Bytes} {lo hi : Int} (h0 : 0 ≤ lo) (h1 : lo ≤ hi) (h2 : hi ≤ len b) : len (sub b lo hi) = hi - lo := by
  simp only [len, sub, List.length_drop, List.length_take] at *
  omega

theorem slc {b : Bytes} {lo hi : Int} (h0 : 0 ≤ lo) (h1 : lo ≤ hi) (h2 : hi ≤ len b) :
    (slc b lo hi).Safe (fun r => sub b lo hi = r ∧ len r = hi - lo) := by
  refine ⟨sub b lo hi, ?_, rfl, len_sub h0 h1 h2⟩
  simp [CheckedGo.slc, h0, h1, h2]

theorem beU {n : Nat} {b : Bytes} (h : (n : Int) ≤ len b) : (beU n b).Safe (fun v => beVal n b = v ∧ 0 ≤ v) := by
  refine ⟨beVal n b, ?_, rfl, ?_⟩
  · simp [CheckedGo.beU, h]
  · simp [beVal]

theorem forRange_go {α : Type} {Q : α → Prop} {hi : Int} {body : Int → (Unit → Chk α) → Chk α} {after : Unit → Chk α}
    (hb : ∀ i next, i < hi → (next ()).Safe Q → (body i next).Safe Q) (ha : (after ()).Safe Q) :
    ∀ (n : Nat) (i : Int), i + n = hi ∨ (n = 0 ∧ hi ≤ i) → (forRange.go body after n i).Safe Q := by
  intro n
  induction n with
  | zero => intro i _; exact ha
  | succ k ih =>
    intro i h
    simp only [forRange.go]
    apply hb
    · omega
    · apply ih; omega

/-- a counted loop: the body, run at any `lo ≤ i < hi` in front of a safe continuation, is safe -/
theorem forRange {α : Type} {Q : α → Prop} {lo hi : Int} {body : Int → (Unit → Chk α) → Chk α} {after : Unit → Chk α}
    (hb : ∀ i next, lo ≤ i → i < hi → (next ()).Safe Q → (body i next).Safe Q) (ha : (after ()).Safe Q) :
    (forRange lo hi body after).Safe Q := by
  unfold CheckedGo.forRange
  suffices h : ∀ (n : Nat) (i : Int), lo ≤ i → (i + n = hi ∨ (n = 0 ∧ hi ≤ i)) → (forRange.go body after n i).Safe Q by
    apply h
    · omega
    · omega
  intro n
  induction n with
  | zero => intro i _ _; exact ha
  | succ k ih =>
    intro i hlo h
    simp only [forRange.go]
    apply hb i _ hlo
    · omega
    · apply ih
      · omega
      · omega

/-- a `for cond { body }` loop: an invariant `I` and a variant `μ` below the fuel -/
theorem whileLoop {σ α : Type} {Q : α → Prop} {cond : σ → Bool} {body : σ → (σ → Chk α) → Chk α} {after : σ → Chk α}
    (I : σ → Prop) (μ : σ → Nat)
    (hb : ∀ s next, I s → cond s = true → (∀ s', I s' → μ s' < μ s → (next s').Safe Q) → (body s next).Safe Q)
    (ha : ∀ s, I s → cond s = false → (after s).Safe Q) :
    ∀ (n : Nat) (s : σ), I s → μ s < n → (CheckedGo.whileLoop cond body after n s).Safe Q := by
  intro n
  induction n with
  | zero => intro s _ h; omega
  | succ k ih =>
    intro s hi hm
    simp only [CheckedGo.whileLoop]
    by_cases hc : cond s = true
    · rw [if_pos hc]
      exact hb s _ hi hc (fun s' hi' hlt => ih s' hi' (by omega))
    · rw [if_neg hc]
      exact ha s hi (by simpa using hc)

end Safe

theorem land_nonneg (a b : Int) : 0 ≤ land a b := by simp [land]
theorem lor_nonneg (a b : Int) : 0 ≤ lor a b := by simp [lor]
theorem len_nonneg (b : Bytes) : 0 ≤ len b := by simp [len]

/-- side conditions: booleans to propositions, lengths to `Nat` casts, then linear arithmetic -/
macro "chk_side" : tactic => `(tactic| (
  try simp only [decide_eq_true_eq, Bool.and_eq_true, Bool.or_eq_true, Bool.not_eq_true', Bool.not_eq_true,
    decide_eq_false_iff_not, not_and, not_or, Int.not_lt, Int.not_le, ne_eq, Decidable.not_not] at *
  try simp only [len] at *
  first | omega | trivial | (simp_all; done) | (simp_all; omega)))

/-- one step of the walk along a regenerated program (extended with `macro_rules` by the specifications of callees) -/
syntax "chk_step" : tactic
macro_rules | `(tactic| chk_step) => `(tactic| first
  | (show Chk.Safe _ _; dsimp only [])
  | (intro _)
  | (with_reducible refine Safe.ite ?_ ?_ <;> intro _)
  | (with_reducible refine Safe.forRange ?_ ?_; intro _ _ _ _ _)
  | (with_reducible refine Safe.bind (Safe.ite (Q := fun _ => True) ?_ ?_) ?_)
  | (with_reducible refine Safe.ok ?_)
  | (refine Safe.bind (Safe.idx (by chk_side) (by chk_side)) ?_; intro _ _)
  | (refine Safe.bind (Safe.slc (by chk_side) (by chk_side) (by chk_side)) ?_; intro _ _)
  | (refine Safe.bind (Safe.beU (by chk_side)) ?_; intro _ _)
  | assumption
  | (exact trivial)
  | rfl)

/-- walk the whole program; what is left are the goals `chk_step` could not close (a side condition of an access that
does not follow from the guards on its path, or a postcondition) -/
macro "chk_auto" : tactic => `(tactic| repeat' chk_step)

end MosnVerif.Model.CheckedGo
