import MosnVerif.Model.RetryPolicy
import MosnVerif.Lemmas.Retry
/-! Lemmas for the configuration → accessor → proxy chain of the retry policy (`Model/RetryPolicy.lean`) and the EXACT number of
attempts of consecutive-failure histories on the attempt machine (`Model/Retry.lean`). Core Lean only. -/
namespace MosnVerif.Model.RetryPolicy
open MosnVerif.Model.Retry MosnVerif.Gen.RetryState MosnVerif.Gen.RetryPolicyBuild

/-! ### construction and accessors -/

theorem effective_eq_spec (cfg : Option RetryCfg) : effectivePolicy cfg = specEffective cfg := by
  cases cfg with
  | none => simp [effectivePolicy, build, buildCond, accessors, specEffective, accRetryOn, accTryTimeout, accNumRetries, accStatusCodes]
  | some c =>
    obtain ⟨ro, rt, nr, sc⟩ := c
    cases ro <;>
      simp [effectivePolicy, build, buildCond, accessors, specEffective, accRetryOn, accTryTimeout, accNumRetries, accStatusCodes,
        fieldRetryOn, fieldRetryTimeout, fieldNumRetries, fieldStatusCodes, codesInt]

theorem toNat_codes (l : List Nat) : (l.map Int.ofNat).map Int.toNat = l := by
  induction l with
  | nil => rfl
  | cons a r ih => simp [ih]

/-! ### exact attempt counts -/

/-- a request that can still retry: an attempt is outstanding, the retry state exists, nothing was sent downstream, the worker
has a pass left -/
structure Alive (s : St) : Prop where
  live : s.live = true
  hasRS : s.hasRS = true
  notStarted : s.started = false
  loops : s.loops ≠ 0

/-- nothing can happen any more -/
def Dead (s : St) : Prop := s.live = false ∧ s.started = true

theorem step_dead (p : Policy) (s : St) (l : Label) (h : Dead s) : step p s l = s := by
  unfold step
  simp [h.1, h.2, resetGuard_started]

theorem run_dead (p : Policy) (s : St) (ls : List Label) (h : Dead s) : ls.foldl (step p) s = s := by
  induction ls with
  | nil => rfl
  | cons l r ih => simp only [List.foldl_cons, step_dead p s l h, ih]

/-- a retried step keeps the request alive -/
theorem step_retries_alive (p : Policy) (s : St) (l : Label) (h : Nat)
    (ha : Alive s) (hrem : s.remaining ≠ 0)
    (hret : retryable p l.o = true) (hcc : l.canCreate = true) (hh : l.host = some h)
    (hpt : l.o = .perTry → p.tryTimeout = true) : Alive (step p s l) := by
  obtain ⟨hlive, hrs, hst, hloops⟩ := ha
  obtain ⟨rem, rs, st, lv, lo, att, ls, tr⟩ := s
  obtain ⟨o, cc, host⟩ := l
  simp only at hlive hrs hst hrem hloops hret hcc hh hpt
  subst hlive hrs hst hcc hh
  unfold step
  have hpt' : ¬ (o = .perTry ∧ p.tryTimeout = false) := by
    intro ⟨a, b⟩; rw [hpt a] at b; simp at b
  simp only [hpt', if_false, Bool.true_eq_false]
  by_cases hr : ∃ c, o = .resp c
  · obtain ⟨c, rfl⟩ := hr
    have hchk := check_resp p c
    constructor <;>
    simp [stepResp, headersGuard, retryCall, hchk, hret, shouldRetry_yes _ hrem, retry, headersRetryCond, setupRetryResult,
      rcShouldRetry, doRetry, hloops, retryKeepsBudget]
  · have ho : ∀ c, o ≠ .resp c := fun c hc => hr ⟨c, hc⟩
    have hchk := check_reset p o ls.isNone (ls.getD 0) ho
    have hg := resetGuard_of_retryable p o hret
    constructor <;>
    simp [stepReset, hg, retryCall, hchk, hret, shouldRetry_yes _ hrem, retry, resetRetryCond, setupRetryResult,
      rcShouldRetry, doRetry, hloops, retryKeepsBudget]

theorem shouldRetry_no (rem : Int) (chk cc : Bool) (h : rem = 0 ∨ chk = false) : retry (shouldRetry rem chk cc).1 ≠ rcShouldRetry := by
  intro hc
  have := retry_should rem chk cc hc
  rcases h with h | h
  · exact this.1 h
  · rw [this.2.1] at h; simp at h

theorem attemptCount_append (a b : List Ev) : attemptCount (a ++ b) = attemptCount a + attemptCount b := by
  simp [attemptCount, List.filter_append]

/-- an outcome that is not retried (budget used up, or not retryable under the policy) ends the exchange with a reply and
without any further attempt -/
theorem step_not_retried (p : Policy) (s : St) (l : Label)
    (ha : Alive s) (hno : s.remaining = 0 ∨ retryable p l.o = false)
    (hpt : l.o = .perTry → p.tryTimeout = true) :
    Dead (step p s l) ∧ attemptCount (step p s l).trace = attemptCount s.trace := by
  obtain ⟨hlive, hrs, hst, hloops⟩ := ha
  obtain ⟨rem, rs, st, lv, lo, att, ls, tr⟩ := s
  obtain ⟨o, cc, host⟩ := l
  simp only at hlive hrs hst hloops hno hpt
  subst hlive hrs hst
  unfold step
  have hpt' : ¬ (o = .perTry ∧ p.tryTimeout = false) := by
    intro ⟨a, b⟩; rw [hpt a] at b; simp at b
  simp only [hpt', if_false, Bool.true_eq_false]
  by_cases hr : ∃ c, o = .resp c
  · obtain ⟨c, rfl⟩ := hr
    have hchk := check_resp p c
    have hn : retry (shouldRetry rem (retryable p (.resp c)) cc).1 ≠ rcShouldRetry :=
      shouldRetry_no _ _ _ hno
    simp [stepResp, headersGuard, retryCall, hchk, headersRetryCond, hn, forward, Dead, attemptCount, isAttempt]
  · have ho : ∀ c, o ≠ .resp c := fun c hc => hr ⟨c, hc⟩
    have hchk := check_reset p o ls.isNone (ls.getD 0) ho
    have hn : retry (shouldRetry rem (retryable p o) cc).1 ≠ rcShouldRetry :=
      shouldRetry_no _ _ _ hno
    cases o <;> first | exact absurd rfl (ho _) | skip
    all_goals
      simp only [stepReset]
      split <;>
        simp_all [retryCall, resetRetryCond, hijack, Dead, attemptCount, isAttempt]

/-- every label carries an outcome retryable under the policy, an admitting breaker and a healthy host -/
def AllRetried (p : Policy) (ls : List Label) : Prop :=
  ∀ l ∈ ls, retryable p l.o = true ∧ l.canCreate = true ∧ l.host.isSome = true ∧ (l.o = .perTry → p.tryTimeout = true)

theorem foldl_retried (p : Policy) (ls : List Label) (hall : AllRetried p ls) (s : St) (ha : Alive s) (hr : 0 ≤ s.remaining) :
    attemptCount (ls.foldl (step p) s).trace = attemptCount s.trace + min ls.length s.remaining.toNat := by
  induction ls generalizing s with
  | nil => simp
  | cons l r ih =>
    obtain ⟨hret, hcc, hh, hpt⟩ := hall l (by simp)
    have hall' : AllRetried p r := fun x hx => hall x (by simp [hx])
    simp only [List.foldl_cons, List.length_cons]
    by_cases h0 : s.remaining = 0
    · obtain ⟨hd, hc⟩ := step_not_retried p s l ha (Or.inl h0) hpt
      rw [run_dead p _ r hd, hc, h0]; simp
    · obtain ⟨h, hh⟩ := Option.isSome_iff_exists.mp hh
      have hal := step_retries_alive p s l h ha h0 hret hcc hh hpt
      obtain ⟨ht, _, hrem⟩ := step_retries p s l h ha.live ha.hasRS ha.notStarted h0 ha.loops hret hcc hh hpt
      rw [ih hall' _ hal (by omega), ht, hrem]
      simp only [attemptCount_append]
      simp only [attemptCount, isAttempt, List.filter_cons, List.filter_nil]
      simp
      omega

theorem start_alive (p : Policy) (h0 : Nat) : Alive (start p (some h0)) := by
  constructor <;> simp [start, workLoopBound]

theorem start_count (p : Policy) (h0 : Nat) : attemptCount (start p (some h0)).trace = 1 := by
  simp [start, attemptCount, List.filter, isAttempt]

theorem start_remaining (p : Policy) (h0 : Nat) : (start p (some h0)).remaining = ((max 3 p.numRetries : Nat) : Int) := by
  simp only [start]; exact initialBudget_eq p.numRetries

/-- EXACT number of attempts of a history of retryable outcomes -/
theorem run_retried_count (p : Policy) (h0 : Nat) (ls : List Label) (hall : AllRetried p ls) :
    attemptCount (run p (some h0) ls).trace = 1 + min ls.length (max 3 p.numRetries) := by
  unfold run
  rw [foldl_retried p ls hall _ (start_alive p h0) (by rw [start_remaining]; omega), start_count, start_remaining]
  simp

/-- a first outcome that is not retryable under the policy: exactly one attempt, whatever follows -/
theorem run_not_retried_count (p : Policy) (h0 : Nat) (l : Label) (ls : List Label) (hno : retryable p l.o = false)
    (hpt : l.o = .perTry → p.tryTimeout = true) :
    attemptCount (run p (some h0) (l :: ls)).trace = 1 := by
  unfold run
  simp only [List.foldl_cons]
  obtain ⟨hd, hc⟩ := step_not_retried p _ l (start_alive p h0) (Or.inr hno) hpt
  rw [run_dead p _ ls hd, hc, start_count]

end MosnVerif.Model.RetryPolicy
