import MosnVerif.Lemmas.PoolWin
/-! The request ledger of the two ping-pong pools in every intermediate state of `OnDestroyStream` (model
`Model/PoolWin.lean`): for every statement program of the class `ledgerOk` (each of the three decrements exactly once,
none of them skipped by an early return) and under every interleaving, the requests breaker and the two
upstream_request_active gauges equal the requests in flight plus what the destroy calls in progress still owe. -/
namespace MosnVerif.Lemmas.PoolWinLedger
open MosnVerif.Model.PoolWin MosnVerif.Lemmas.PoolWin MosnVerif.Gen.Pool MosnVerif.Gen.PoolDestroy
open MosnVerif.Model.Pool (Kind Dial Res resIncrease_eq resDecrease_eq)

structure LInv (m : Nat) (s : State) : Prop where
  mx : s.maxReq = m
  req : s.reqCur = if s.maxReq = 0 then 0 else (s.ext : Int) + s.liveN + (owed .decRes s.tasks : Nat)
  host : s.rqHost = s.liveN + (owed .decHost s.tasks : Nat)
  cluster : s.rqCluster = s.liveN + (owed .decCluster s.tasks : Nat)
  safe : ∀ t, t ∈ s.tasks → retSafe t.2 = true
  ok : ledgerOk s.kind s.prog = true

variable {m : Nat}

/-! ### what the tasks owe -/
theorem owed_append (st : DStep) (ts : List Task) (c : Nat) (p : List DStep) :
    owed st (ts ++ [(c, p)]) = owed st ts + p.count st := by
  simp [owed]

theorem owed_eraseIdx (st : DStep) (ts : List Task) (k c : Nat) (p : List DStep) (hk : ts[k]? = some (c, p)) :
    owed st (ts.eraseIdx k) + p.count st = owed st ts := by
  induction ts generalizing k with
  | nil => simp at hk
  | cons t r ih =>
    cases k with
    | zero =>
      simp only [List.getElem?_cons_zero, Option.some.injEq] at hk
      subst hk
      simp [owed]; omega
    | succ k =>
      simp only [List.getElem?_cons_succ] at hk
      have := ih k hk
      simp only [owed, List.eraseIdx_cons_succ, List.map_cons, List.sum_cons] at *
      omega

theorem owed_set (st : DStep) (ts : List Task) (k c : Nat) (p q : List DStep) (hk : ts[k]? = some (c, p)) :
    owed st (ts.set k (c, q)) + p.count st = owed st ts + q.count st := by
  induction ts generalizing k with
  | nil => simp at hk
  | cons t r ih =>
    cases k with
    | zero =>
      simp only [List.getElem?_cons_zero, Option.some.injEq] at hk
      subst hk
      simp [owed]; omega
    | succ k =>
      simp only [List.getElem?_cons_succ] at hk
      have := ih k hk
      simp only [owed, List.set_cons_succ, List.map_cons, List.sum_cons] at *
      omega

theorem owed_setTask (st : DStep) (ts : List Task) (k c : Nat) (p q : List DStep) (hk : ts[k]? = some (c, p)) :
    owed st (setTask ts k c q) + p.count st = owed st ts + q.count st := by
  unfold setTask
  split
  · rename_i hq
    have : q = [] := by simpa using hq
    subst this
    simpa using owed_eraseIdx st ts k c p hk
  · exact owed_set st ts k c p q hk

theorem mem_setTask' (ts : List Task) (k c : Nat) (q : List DStep) (t : Task) (ht : t ∈ setTask ts k c q) :
    t ∈ ts ∨ t = (c, q) := by
  unfold setTask at ht
  split at ht
  · exact Or.inl (List.mem_of_mem_eraseIdx ht)
  · exact List.mem_or_eq_of_mem_set ht

/-! ### program class -/
theorem noDecs_count (p : List DStep) (h : noDecs p = true) :
    p.count .decHost = 0 ∧ p.count .decCluster = 0 ∧ p.count .decRes = 0 := by
  unfold noDecs at h
  rw [List.all_eq_true] at h
  refine ⟨?_, ?_, ?_⟩ <;> (apply List.count_eq_zero.mpr; intro hm; have := h _ hm; simp at this)

theorem retSafe_tail (st : DStep) (rest : List DStep) (h : retSafe (st :: rest) = true) : retSafe rest = true := by
  cases st with
  | closeIf ret => cases ret <;> simp_all [retSafe]
  | poolEvent ret => cases ret <;> simp_all [retSafe]
  | _ => simpa [retSafe] using h

theorem retSafe_close (ret : Bool) (rest : List DStep) (h : retSafe (.closeIf ret :: rest) = true) :
    retSafe (.poolEvent ret :: rest) = true ∧ retSafe (if ret = true then [] else rest) = true ∧
    (if ret = true then [] else rest).count .decHost = rest.count .decHost ∧
    (if ret = true then [] else rest).count .decCluster = rest.count .decCluster ∧
    (if ret = true then [] else rest).count .decRes = rest.count .decRes := by
  cases ret
  · simp_all [retSafe]
  · simp only [retSafe, Bool.and_eq_true] at h
    have := noDecs_count rest h.1
    simp [retSafe, h.1, h.2, this]

theorem retSafe_event (ret : Bool) (rest : List DStep) (h : retSafe (.poolEvent ret :: rest) = true) :
    retSafe (if ret = true then [] else rest) = true ∧
    (if ret = true then [] else rest).count .decHost = rest.count .decHost ∧
    (if ret = true then [] else rest).count .decCluster = rest.count .decCluster ∧
    (if ret = true then [] else rest).count .decRes = rest.count .decRes := by
  cases ret
  · simp_all [retSafe]
  · simp only [retSafe, Bool.and_eq_true] at h
    have := noDecs_count rest h.1
    simp [retSafe, this]

theorem ledgerOk_spec (k : Kind) (p : List DStep) (h : ledgerOk k p = true) :
    retSafe p = true ∧ p.count .decHost = 1 ∧ p.count .decCluster = 1 ∧ p.count .decRes = 1 ∧ takeCodes k = [10, 11, 12] := by
  simpa [ledgerOk, and_assoc] using h

/-! ### the connection gauges do not touch the request ledger -/
theorem close_ledger (s : State) (k : Kind) : (applyMoves s (closeGaugeCodes k)).reqCur = s.reqCur ∧
    (applyMoves s (closeGaugeCodes k)).rqHost = s.rqHost ∧ (applyMoves s (closeGaugeCodes k)).rqCluster = s.rqCluster := by
  cases k <;> exact ⟨rfl, rfl, rfl⟩
theorem dial_ledger (s : State) (k : Kind) : (applyMoves s (dialGaugeCodes k)).reqCur = s.reqCur ∧
    (applyMoves s (dialGaugeCodes k)).rqHost = s.rqHost ∧ (applyMoves s (dialGaugeCodes k)).rqCluster = s.rqCluster := by
  cases k <;> exact ⟨rfl, rfl, rfl⟩

theorem poolOnClose_reqCur (s : State) (c : Nat) : (poolOnClose s c).reqCur = s.reqCur := (close_ledger _ s.kind).1
theorem poolOnClose_rqHost (s : State) (c : Nat) : (poolOnClose s c).rqHost = s.rqHost := (close_ledger _ s.kind).2.1
theorem poolOnClose_rqCluster (s : State) (c : Nat) : (poolOnClose s c).rqCluster = s.rqCluster := (close_ledger _ s.kind).2.2
theorem newClient_reqCur (s : State) : (newClient s).reqCur = s.reqCur := (dial_ledger _ s.kind).1
theorem newClient_rqHost (s : State) : (newClient s).rqHost = s.rqHost := (dial_ledger _ s.kind).2.1
theorem newClient_rqCluster (s : State) : (newClient s).rqCluster = s.rqCluster := (dial_ledger _ s.kind).2.2

/-- the fields of the ledger other than the three counters -/
structure LFrame (s s1 : State) : Prop where
  tasks : s1.tasks = s.tasks
  ext : s1.ext = s.ext
  liveN : s1.liveN = s.liveN
  maxReq : s1.maxReq = s.maxReq
  kind : s1.kind = s.kind
  prog : s1.prog = s.prog

theorem LFrame.refl (s : State) : LFrame s s := ⟨rfl, rfl, rfl, rfl, rfl, rfl⟩
theorem LFrame.of_frame {s s1 : State} (f : Frame s s1) : LFrame s s1 := ⟨f.tasks, f.ext, f.liveN, f.maxReq, f.kind, f.prog⟩

/-! ### the general step -/
theorem linv_of (s s' : State) (h : LInv m s) (emax : s'.maxReq = s.maxReq) (ek : s'.kind = s.kind) (ep : s'.prog = s.prog)
    (hsafe : ∀ t, t ∈ s'.tasks → retSafe t.2 = true) (a : Int)
    (hreq0 : s.maxReq = 0 → s'.reqCur = s.reqCur) (hreq1 : s.maxReq ≠ 0 → s'.reqCur = s.reqCur + a)
    (hbal : (s'.ext : Int) + s'.liveN + (owed .decRes s'.tasks : Nat) = (s.ext : Int) + s.liveN + (owed .decRes s.tasks : Nat) + a)
    (hhost : s'.rqHost - (s'.liveN + (owed .decHost s'.tasks : Nat)) = s.rqHost - (s.liveN + (owed .decHost s.tasks : Nat)))
    (hcl : s'.rqCluster - (s'.liveN + (owed .decCluster s'.tasks : Nat)) = s.rqCluster - (s.liveN + (owed .decCluster s.tasks : Nat))) :
    LInv m s' := by
  refine ⟨emax.trans h.mx, ?_, ?_, ?_, hsafe, by rw [ek, ep]; exact h.ok⟩
  · rw [emax]
    by_cases h0 : s.maxReq = 0
    · rw [if_pos h0, hreq0 h0, h.req, if_pos h0]
    · have h1 := h.req
      rw [if_neg h0] at h1 ⊢
      rw [hreq1 h0]; omega
  · have := h.host; omega
  · have := h.cluster; omega

theorem linv_same (s s' : State) (h : LInv m s) (f : LFrame s s') (e1 : s'.reqCur = s.reqCur) (e2 : s'.rqHost = s.rqHost)
    (e3 : s'.rqCluster = s.rqCluster) : LInv m s' := by
  refine linv_of s s' h f.maxReq f.kind f.prog (by rw [f.tasks]; exact h.safe) 0 (fun _ => e1) (fun _ => by rw [e1]; omega) ?_ ?_ ?_
  · rw [f.ext, f.liveN, f.tasks]; omega
  · rw [f.liveN, f.tasks, e2]
  · rw [f.liveN, f.tasks, e3]

/-! ### NewStream -/
theorem linv_lease (s s1 : State) (c : Nat) (h : LInv m s) (f : LFrame s s1) (e1 : s1.reqCur = s.reqCur)
    (e2 : s1.rqHost = s.rqHost) (e3 : s1.rqCluster = s.rqCluster) : LInv m (lease s1 c) := by
  have hk := (ledgerOk_spec _ _ h.ok).2.2.2.2
  have hk1 : takeCodes s1.kind = [10, 11, 12] := by rw [f.kind]; exact hk
  have e : lease s1 c = applyMoves { s1.updC c (fun cl => { cl with live := true }) with liveN := s1.liveN + 1 } [10, 11, 12] := by
    unfold lease; rw [hk1]
  rw [e]
  refine linv_of s _ h f.maxReq f.kind f.prog (by show ∀ t, t ∈ s1.tasks → _; rw [f.tasks]; exact h.safe) 1 ?_ ?_ ?_ ?_ ?_
  · intro h0
    show resIncrease s1.maxReq s1.reqCur = s.reqCur
    rw [resIncrease_eq, f.maxReq, if_pos h0, e1]
  · intro h0
    show resIncrease s1.maxReq s1.reqCur = s.reqCur + 1
    rw [resIncrease_eq, f.maxReq, if_neg h0, e1]
  · show (s1.ext : Int) + (s1.liveN + 1) + (owed .decRes s1.tasks : Nat) = _
    rw [f.ext, f.liveN, f.tasks]; omega
  · show s1.rqHost + 1 - (s1.liveN + 1 + (owed .decHost s1.tasks : Nat)) = _
    rw [f.liveN, f.tasks, e2]; omega
  · show s1.rqCluster + 1 - (s1.liveN + 1 + (owed .decCluster s1.tasks : Nat)) = _
    rw [f.liveN, f.tasks, e3]; omega

theorem linv_newStream (s : State) (d : Dial) (h : LInv m s) : LInv m (newStream s d).1 := by
  unfold newStream
  split
  · rcases hacq : acquire s d with ⟨s1, r⟩
    rcases acquire_spec s d s1 r hacq with ⟨t, hi, rfl, rfl⟩ | ⟨hi, rfl, rfl⟩ | ⟨t, hr, rfl⟩
    · have f := frame_newClient { s with total := t }
      exact linv_lease s _ _ h ⟨f.tasks, f.ext, f.liveN, f.maxReq, f.kind, f.prog⟩
        (newClient_reqCur _) (newClient_rqHost _) (newClient_rqCluster _)
    · exact linv_lease s _ _ h ⟨rfl, rfl, rfl, rfl, rfl, rfl⟩ rfl rfl rfl
    · have : LInv m { s with total := t } := linv_same s _ h ⟨rfl, rfl, rfl, rfl, rfl, rfl⟩ rfl rfl rfl
      cases r with
      | ok c => exact absurd rfl (hr c)
      | none => exact this
      | overflow => exact this
      | connFail _ => exact this
  · exact h

/-! ### end of a request: one request less in flight, one more destroy call owing each decrement once -/
theorem linv_end (s s' : State) (c : Nat) (h : LInv m s) (emax : s'.maxReq = s.maxReq) (ek : s'.kind = s.kind)
    (ep : s'.prog = s.prog) (eext : s'.ext = s.ext) (elive : s'.liveN = s.liveN - 1)
    (etasks : s'.tasks = s.tasks ++ [(c, s.prog)]) (e1 : s'.reqCur = s.reqCur) (e2 : s'.rqHost = s.rqHost)
    (e3 : s'.rqCluster = s.rqCluster) : LInv m s' := by
  have hp := ledgerOk_spec _ _ h.ok
  refine linv_of s s' h emax ek ep ?_ 0 (fun _ => e1) (fun _ => by rw [e1]; omega) ?_ ?_ ?_
  · intro t ht
    rw [etasks, List.mem_append, List.mem_singleton] at ht
    rcases ht with ht | rfl
    · exact h.safe t ht
    · exact hp.1
  · rw [eext, elive, etasks, owed_append, hp.2.2.2.1]; omega
  · rw [elive, etasks, owed_append, hp.2.1, e2]; omega
  · rw [elive, etasks, owed_append, hp.2.2.1, e3]; omega

theorem linv_endStream (s : State) (c : Nat) (cause : Cause) (h : LInv m s) : LInv m (step s (.endStream c cause)).1 := by
  simp only [step]
  split
  · exact linv_end s _ c h rfl rfl rfl rfl rfl rfl rfl rfl rfl
  · exact h

theorem linv_netClose (s : State) (c : Nat) (h : LInv m s) : LInv m (step s (.netClose c)).1 := by
  rw [step_netClose_eq]
  have f0 := frame_poolOnClose (Y s c) c
  have f : LFrame s (X s c) := ⟨f0.tasks, f0.ext, f0.liveN, f0.maxReq, f0.kind, f0.prog⟩
  have e1 : (X s c).reqCur = s.reqCur := poolOnClose_reqCur (Y s c) c
  have e2 : (X s c).rqHost = s.rqHost := poolOnClose_rqHost (Y s c) c
  have e3 : (X s c).rqCluster = s.rqCluster := poolOnClose_rqCluster (Y s c) c
  split
  · split
    · refine linv_end s _ c h f.maxReq f.kind f.prog f.ext ?_ ?_ e1 e2 e3
      · show (X s c).liveN - 1 = s.liveN - 1
        rw [f.liveN]
      · show (X s c).tasks ++ [(c, (X s c).prog)] = _
        rw [f.tasks, f.prog]
    · exact linv_same s _ h f e1 e2 e3
  · exact h

/-! ### one statement of OnDestroyStream -/
theorem step_task_eq (s : State) (k c : Nat) (st : DStep) (rest : List DStep) (hk : s.tasks[k]? = some (c, st :: rest)) :
    (step s (.taskStep k)).1 = { (execStep s c st rest).1 with
      tasks := setTask (execStep s c st rest).1.tasks k c (execStep s c st rest).2 } := by
  simp only [step, hk]

theorem linv_task (s : State) (h : LInv m s) (k c : Nat) (st : DStep) (rest : List DStep)
    (hk : s.tasks[k]? = some (c, st :: rest)) (s1 : State) (rest' : List DStep)
    (he : execStep s c st rest = (s1, rest')) (f : LFrame s s1)
    (hreq0 : s.maxReq = 0 → s1.reqCur = s.reqCur)
    (hreq1 : s.maxReq ≠ 0 → s1.reqCur + ((st :: rest).count .decRes : Nat) = s.reqCur + (rest'.count .decRes : Nat))
    (hhost : s1.rqHost + ((st :: rest).count .decHost : Nat) = s.rqHost + (rest'.count .decHost : Nat))
    (hcl : s1.rqCluster + ((st :: rest).count .decCluster : Nat) = s.rqCluster + (rest'.count .decCluster : Nat))
    (hsafe : retSafe rest' = true) : LInv m (step s (.taskStep k)).1 := by
  rw [step_task_eq s k c st rest hk, he]
  have o1 := owed_setTask .decRes s.tasks k c (st :: rest) rest' hk
  have o2 := owed_setTask .decHost s.tasks k c (st :: rest) rest' hk
  have o3 := owed_setTask .decCluster s.tasks k c (st :: rest) rest' hk
  refine ⟨f.maxReq.trans h.mx, ?_, ?_, ?_, ?_, ?_⟩
  · show s1.reqCur = if s1.maxReq = 0 then 0 else (s1.ext : Int) + s1.liveN + (owed .decRes (setTask s1.tasks k c rest') : Nat)
    rw [f.maxReq, f.ext, f.liveN, f.tasks]
    by_cases h0 : s.maxReq = 0
    · rw [if_pos h0, hreq0 h0, h.req, if_pos h0]
    · have h1 := h.req
      have h2 := hreq1 h0
      rw [if_neg h0] at h1 ⊢
      omega
  · show s1.rqHost = s1.liveN + (owed .decHost (setTask s1.tasks k c rest') : Nat)
    rw [f.liveN, f.tasks]
    have := h.host; omega
  · show s1.rqCluster = s1.liveN + (owed .decCluster (setTask s1.tasks k c rest') : Nat)
    rw [f.liveN, f.tasks]
    have := h.cluster; omega
  · intro t ht
    have ht' : t ∈ setTask s1.tasks k c rest' := ht
    rw [f.tasks] at ht'
    rcases mem_setTask' _ _ _ _ _ ht' with ht' | rfl
    · exact h.safe t ht'
    · exact hsafe
  · show ledgerOk s1.kind s1.prog = true
    rw [f.kind, f.prog]; exact h.ok

theorem linv_taskStep (s : State) (k : Nat) (h : LInv m s) : LInv m (step s (.taskStep k)).1 := by
  cases hk : s.tasks[k]? with
  | none => simp only [step, hk]; exact h
  | some t =>
    obtain ⟨c, p⟩ := t
    cases p with
    | nil => simp only [step, hk]; exact h
    | cons st rest =>
      have hs := h.safe _ (List.mem_of_getElem? hk)
      have hs' : retSafe rest = true := retSafe_tail st rest hs
      cases st with
      | decHost =>
        refine linv_task s h k c _ rest hk { s with rqHost := s.rqHost - 1 } rest rfl ⟨rfl, rfl, rfl, rfl, rfl, rfl⟩ (fun _ => rfl) (fun _ => ?_) ?_ ?_ hs'
        · simp
        · show s.rqHost - 1 + _ = _
          simp; omega
        · simp
      | decCluster =>
        refine linv_task s h k c _ rest hk { s with rqCluster := s.rqCluster - 1 } rest rfl ⟨rfl, rfl, rfl, rfl, rfl, rfl⟩ (fun _ => rfl) (fun _ => ?_) ?_ ?_ hs'
        · simp
        · simp
        · show s.rqCluster - 1 + _ = _
          simp; omega
      | decRes =>
        refine linv_task s h k c _ rest hk { s with reqCur := resDecrease s.maxReq s.reqCur } rest rfl ⟨rfl, rfl, rfl, rfl, rfl, rfl⟩ (fun h0 => ?_) (fun h0 => ?_) ?_ ?_ hs'
        · show resDecrease s.maxReq s.reqCur = _
          rw [resDecrease_eq, if_pos h0]
        · show resDecrease s.maxReq s.reqCur + _ = _
          rw [resDecrease_eq, if_neg h0]
          simp; omega
        · simp
        · simp
      | bad =>
        refine linv_task s h k c _ rest hk s rest rfl (LFrame.refl s) (fun _ => rfl) (fun _ => ?_) ?_ ?_ hs' <;> simp
      | put =>
        by_cases hp : MosnVerif.Model.Pool.putBack s.kind (s.client c).closed = true
        · refine linv_task s h k c _ rest hk { s with idle := s.idle ++ [c] } rest (by simp only [execStep, hp, if_true])
            ⟨rfl, rfl, rfl, rfl, rfl, rfl⟩ (fun _ => rfl) (fun _ => ?_) ?_ ?_ hs' <;> simp
        · refine linv_task s h k c _ rest hk s rest (by simp only [execStep, hp, Bool.false_eq_true, if_false])
            (LFrame.refl s) (fun _ => rfl) (fun _ => ?_) ?_ ?_ hs' <;> simp
      | poolEvent ret =>
        have hr := retSafe_event ret rest hs
        have f0 := frame_poolOnClose s c
        refine linv_task s h k c _ rest hk (poolOnClose s c) (if ret = true then [] else rest) rfl
          ⟨f0.tasks, f0.ext, f0.liveN, f0.maxReq, f0.kind, f0.prog⟩ (fun _ => poolOnClose_reqCur s c) (fun _ => ?_) ?_ ?_ hr.1
        · rw [poolOnClose_reqCur, hr.2.2.2]; simp
        · rw [poolOnClose_rqHost, hr.2.1]; simp
        · rw [poolOnClose_rqCluster, hr.2.2.1]; simp
      | closeIf ret =>
        have hr := retSafe_close ret rest hs
        by_cases hc : MosnVerif.Model.Pool.closeOnDestroy s.kind (s.client c).closed (s.client c).closeConn = true
        · by_cases hn : (s.client c).netOpen = true
          · refine linv_task s h k c _ rest hk
              { s.updC c (fun cl => { cl with netOpen := false }) with openN := s.openN - 1 } (.poolEvent ret :: rest)
              (by simp only [execStep, hc, hn, if_true]) ⟨rfl, rfl, rfl, rfl, rfl, rfl⟩ (fun _ => rfl) (fun _ => ?_) ?_ ?_ hr.1
            · show s.reqCur + _ = s.reqCur + _
              simp
            · show s.rqHost + _ = s.rqHost + _
              simp
            · show s.rqCluster + _ = s.rqCluster + _
              simp
          · refine linv_task s h k c _ rest hk s (if ret = true then [] else rest)
              (by simp only [execStep, hc, hn, Bool.false_eq_true, if_true, if_false]) (LFrame.refl s) (fun _ => rfl) (fun _ => ?_) ?_ ?_ hr.2.1
            · rw [hr.2.2.2.2]; simp
            · rw [hr.2.2.1]; simp
            · rw [hr.2.2.2.1]; simp
        · refine linv_task s h k c _ rest hk s rest (by simp only [execStep, hc, Bool.false_eq_true, if_false])
            (LFrame.refl s) (fun _ => rfl) (fun _ => ?_) ?_ ?_ hs' <;> simp

/-! ### all labels -/
theorem linv_step (s : State) (l : Label) (h : LInv m s) : LInv m (step s l).1 := by
  cases l with
  | newStream d => exact linv_newStream s d h
  | endStream c cause => exact linv_endStream s c cause h
  | taskStep k => exact linv_taskStep s k h
  | netClose c => exact linv_netClose s c h
  | goAway c =>
    simp only [step]
    split
    · exact linv_same s _ h ⟨rfl, rfl, rfl, rfl, rfl, rfl⟩ rfl rfl rfl
    · exact h
  | extInc =>
    refine linv_of s _ h rfl rfl rfl h.safe 1 (fun h0 => ?_) (fun h0 => ?_) ?_ rfl rfl
    · show resIncrease s.maxReq s.reqCur = _
      rw [resIncrease_eq, if_pos h0]
    · show resIncrease s.maxReq s.reqCur = _
      rw [resIncrease_eq, if_neg h0]
    · show ((s.ext + 1 : Nat) : Int) + s.liveN + (owed .decRes s.tasks : Nat) = (s.ext : Int) + s.liveN + (owed .decRes s.tasks : Nat) + 1
      omega
  | extDec =>
    simp only [step]
    split
    · rename_i hpos
      refine linv_of s _ h rfl rfl rfl h.safe (-1) (fun h0 => ?_) (fun h0 => ?_) ?_ rfl rfl
      · show resDecrease s.maxReq s.reqCur = _
        rw [resDecrease_eq, if_pos h0]
      · show resDecrease s.maxReq s.reqCur = _
        rw [resDecrease_eq, if_neg h0]; omega
      · show ((s.ext - 1 : Nat) : Int) + s.liveN + (owed .decRes s.tasks : Nat) = (s.ext : Int) + s.liveN + (owed .decRes s.tasks : Nat) + -1
        omega
    · exact h

theorem linv_run_of (s : State) (h : LInv m s) (ls : List Label) : LInv m (run s ls) := by
  induction ls generalizing s with
  | nil => exact h
  | cons l r ih => exact ih (step s l).1 (linv_step s l h)

theorem linv_init (k : Kind) (mc mr : Nat) (prog : List DStep) (h : ledgerOk k prog = true) : LInv mr (initWith k mc mr prog) := by
  refine ⟨rfl, ?_, ?_, ?_, ?_, h⟩
  · show (0 : Int) = if mr = 0 then 0 else _
    split <;> simp [initWith, owed]
  · simp [initWith, owed]
  · simp [initWith, owed]
  · intro t ht; cases ht

theorem linv_reachable (k : Kind) (mc mr : Nat) (prog : List DStep) (h : ledgerOk k prog = true) (ls : List Label) :
    LInv mr (run (initWith k mc mr prog) ls) := linv_run_of _ (linv_init k mc mr prog h) ls

/-- in every reachable state, under every interleaving: breaker and gauges = requests in flight + what the destroy
calls in progress still owe -/
theorem request_ledger_exact (k : Kind) (mc mr : Nat) (prog : List DStep) (h : ledgerOk k prog = true) (ls : List Label) :
    let s := run (initWith k mc mr prog) ls
    s.reqCur = (if mr = 0 then 0 else (s.ext : Int) + s.liveN + (owed .decRes s.tasks : Nat)) ∧
    s.rqHost = s.liveN + (owed .decHost s.tasks : Nat) ∧ s.rqCluster = s.liveN + (owed .decCluster s.tasks : Nat) := by
  intro s
  have hl := linv_reachable k mc mr prog h ls
  have hr := hl.req
  rw [hl.mx] at hr
  exact ⟨hr, hl.host, hl.cluster⟩

/-- nothing in flight, no destroy call in progress: the breaker only holds the other pools' slots, the gauges are 0 -/
theorem ledger_quiescent_zero (k : Kind) (mc mr : Nat) (prog : List DStep) (h : ledgerOk k prog = true) (ls : List Label) :
    let s := run (initWith k mc mr prog) ls
    s.tasks = [] → s.liveN = 0 → s.reqCur = (if mr = 0 then 0 else (s.ext : Int)) ∧ s.rqHost = 0 ∧ s.rqCluster = 0 := by
  intro s ht hl
  have h3 := request_ledger_exact k mc mr prog h ls
  simp only [] at h3
  obtain ⟨a, b, c⟩ := h3
  rw [show run (initWith k mc mr prog) ls = s from rfl] at a b c
  rw [ht, hl] at a b c
  refine ⟨?_, by simpa [owed] using b, by simpa [owed] using c⟩
  rw [a]; split <;> simp [owed]

end MosnVerif.Lemmas.PoolWinLedger
