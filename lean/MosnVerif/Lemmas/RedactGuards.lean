import MosnVerif.Model.RedactGuards
import MosnVerif.Lemmas.Redact
/-! # Lemmas: a benign guard of redact.go is transparent (skipping = redacting) -/
namespace MosnVerif.Model.RedactGuards
open MosnVerif.Model MosnVerif.Model.Redact MosnVerif.Model.GoTypes

theorem apply_nil_list (vis : Visit) : apply vis (.list []) = .list [] := by
  cases vis <;> simp [apply, applyL]

theorem apply_nil_map (vis : Visit) : apply vis (.map []) = .map [] := by
  cases vis <;> simp [apply, applyM]

theorem clean_nil (g : Graph) (ck ch : Bool) (fi : FInfo) :
    clean g ck ch fi (.list []) = true ∧ clean g ck ch fi (.map []) = true := by
  simp [clean, cleanL, cleanM]

theorem redactKeyF_keyEmpty : (fs : List (String × Val)) → keyEmpty fs = true → redactKeyF fs = fs
  | [], _ => rfl
  | (k, v) :: r, h => by
    simp only [keyEmpty, Bool.and_eq_true, Bool.or_eq_true] at h
    have ih := redactKeyF_keyEmpty r h.2
    simp only [redactKeyF, ih]
    by_cases hk : (k == "PrivateKey") = true
    · simp only [hk, if_true]
      rcases h.1 with h1 | h1
      · simp [bne, hk] at h1
      · cases v with
        | str s =>
          have : s = "" := by simpa using h1
          subst this; simp
        | _ => rfl
    · simp [hk]

/-- when a guard of a benign kind skips, the unconditional redaction would have returned the value unchanged -/
theorem skip_is_identity (k : GKind) (vis : Visit) (hb : benignFor k vis = true) (v : Val)
    (hs : k.skips v = true) : apply vis v = v := by
  cases k with
  | emptySkip =>
    cases v with
    | list vs => cases vs with
      | nil => exact apply_nil_list vis
      | cons _ _ => simp [GKind.skips] at hs
    | map kvs => cases kvs with
      | nil => exact apply_nil_map vis
      | cons _ _ => simp [GKind.skips] at hs
    | _ => simp [GKind.skips] at hs
  | loopAll => simp [GKind.skips] at hs
  | unchangedSkip =>
    cases vis <;> simp [benignFor] at hb
    cases v with
    | hole j =>
      simp only [GKind.skips] at hs
      simp only [apply, redJ_of_clean false j hs]
    | _ => simp [GKind.skips] at hs
  | keyEmptySkip =>
    cases vis <;> simp [benignFor] at hb
    cases v with
    | struct s fs =>
      simp only [GKind.skips] at hs
      simp only [apply, redactKeyF_keyEmpty fs hs]
    | _ => simp [GKind.skips] at hs
  | attr _ _ => simp [benignFor] at hb
  | unknown => simp [benignFor] at hb

/-- **a benign guard is transparent**: the guarded code computes what the unguarded model computes -/
theorem guard_transparent (k : GKind) (vis : Visit) (hb : benignFor k vis = true) (v : Val) :
    applyG k vis v = apply vis v := by
  unfold applyG
  by_cases hs : k.skips v = true
  · simp only [hs, if_true]; exact (skip_is_identity k vis hb v hs).symm
  · simp [hs]

/-- every benign kind has a redaction it is benign for; `attr` / `unknown` have none -/
theorem benign_iff (k : GKind) : k.benign = true ↔ ∃ vis, benignFor k vis = true := by
  cases k <;> simp [GKind.benign, benignFor]
  · exact ⟨.hole, rfl⟩
  · exact ⟨.tls, rfl⟩

end MosnVerif.Model.RedactGuards
