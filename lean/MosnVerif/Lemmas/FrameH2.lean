import MosnVerif.Model.FrameH2
import MosnVerif.Model.FrameH2Err
import MosnVerif.Lemmas.FramingS
import MosnVerif.Lemmas.FrameSteps
/-! prefix-stability of the HTTP/2 frame extraction -/
namespace MosnVerif.Model.FrameH2
open MosnVerif.Model.Framing MosnVerif.Model.FramingS MosnVerif.Model.FrameBytes MosnVerif.Model.FrameSteps
open MosnVerif.Gen.FrameLen MosnVerif.Gen.FrameConsts

variable (M : Nat) (P : Bytes → Bool)

theorem fh_append (p e : Bytes) (off : Nat) (h : off + 9 ≤ p.length) : fh (p ++ e) off = fh p off := by
  unfold fh
  rw [be_append p e _ _ (by omega), u8_append p e _ (by omega), u8_append p e _ (by omega),
    be_append p e _ _ (by omega)]

theorem one_ok_bound (b : Bytes) (off : Nat) (h : FH) (ho : one M P b off = .ok h) :
    off + 9 ≤ b.length ∧ off + h2_size h.len ≤ b.length ∧ h = fh b off ∧ 9 ≤ h2_size h.len := by
  unfold one at ho
  split at ho <;> try (simp at ho)
  split at ho <;> try (simp at ho)
  split at ho <;> try (simp at ho)
  split at ho <;> simp at ho
  rename_i h1 h2 h3 h4
  subst ho
  refine ⟨?_, ?_, rfl, ?_⟩ <;> (frame_len_defs; simp at h1 h3; omega)

theorem one_ext (p e : Bytes) (off : Nat) (h : one M P p off ≠ .needMore) :
    one M P (p ++ e) off = one M P p off := by
  unfold one at h ⊢
  by_cases h1 : h2_hdrShort p.length off
  · simp [h1] at h
  · have hl : off + 9 ≤ p.length := by frame_len_defs; simp at h1; omega
    have h1' : h2_hdrShort (p ++ e).length off = false := by frame_len_defs; simp; omega
    simp only [h1, h1', Bool.false_eq_true, ↓reduceIte, fh_append p e off hl] at h ⊢
    by_cases h2 : h2_tooLarge (fh p off).len M
    · simp [h2]
    · simp only [h2, Bool.false_eq_true, ↓reduceIte] at h ⊢
      by_cases h3 : h2_incomplete (fh p off).len p.length off
      · simp [h3] at h
      · have hc : off + h2_size (fh p off).len ≤ p.length := by frame_len_defs; simp at h3; omega
        have h3' : h2_incomplete (fh p off).len (p ++ e).length off = false := by
          frame_len_defs; simp at h3 ⊢; omega
        simp only [h3, h3', Bool.false_eq_true, ↓reduceIte, List.take_append_of_le_length hc]

theorem cont_ext (p e : Bytes) (size0 sid : Nat) : ∀ (fuel ms : Nat),
    cont M P p size0 sid fuel ms ≠ .needMore →
    cont M P (p ++ e) size0 sid fuel ms = cont M P p size0 sid fuel ms := by
  intro fuel
  induction fuel with
  | zero => intro ms h; simp [cont] at h
  | succ k ih =>
    intro ms h
    unfold cont at h ⊢
    have hone : one M P p (size0 + ms) ≠ .needMore := by
      intro hc; rw [hc] at h; simp at h
    rw [one_ext M P p e _ hone]
    cases ho : one M P p (size0 + ms) with
    | needMore => exact absurd ho hone
    | error => rfl
    | ok hd =>
      rw [ho] at h
      simp only at h ⊢
      split
      · rfl
      · rename_i hc
        simp only [hc, ↓reduceIte] at h
        split
        · rfl
        · rename_i he
          simp only [he, Bool.false_eq_true, ↓reduceIte] at h
          exact ih _ h

theorem cont_fuel (b : Bytes) (size0 sid : Nat) : ∀ (fuel k ms : Nat),
    cont M P b size0 sid fuel ms ≠ .needMore →
    cont M P b size0 sid (fuel + k) ms = cont M P b size0 sid fuel ms := by
  intro fuel
  induction fuel with
  | zero => intro k ms h; simp [cont] at h
  | succ n ih =>
    intro k ms h
    rw [Nat.add_right_comm]
    unfold cont at h ⊢
    cases ho : one M P b (size0 + ms) with
    | needMore => simp [ho] at h
    | error => rfl
    | ok hd =>
      rw [ho] at h
      simp only at h ⊢
      split
      · rfl
      · rename_i hc
        simp only [hc, ↓reduceIte] at h
        split
        · rfl
        · rename_i he
          simp only [he, Bool.false_eq_true, ↓reduceIte] at h
          exact ih k _ h

theorem cont_bound (b : Bytes) (size0 sid : Nat) : ∀ (fuel ms r : Nat),
    cont M P b size0 sid fuel ms = .len r → size0 + r ≤ b.length ∧ ms < r := by
  intro fuel
  induction fuel with
  | zero => intro ms r h; simp [cont] at h
  | succ n ih =>
    intro ms r h
    unfold cont at h
    cases ho : one M P b (size0 + ms) with
    | needMore => rw [ho] at h; simp at h
    | error => rw [ho] at h; simp at h
    | ok hd =>
      rw [ho] at h
      have ⟨_, hb, _, h9⟩ := one_ok_bound M P b _ hd ho
      simp only at h
      split at h
      · simp at h
      · split at h
        · simp at h; omega
        · have := ih _ r h; omega

theorem cont_no_error_ext (p e : Bytes) (size0 sid : Nat) (fuel ms : Nat)
    (h : cont M P p size0 sid fuel ms = .error) : cont M P (p ++ e) size0 sid fuel ms = .error := by
  rw [cont_ext M P p e size0 sid fuel ms (by rw [h]; simp), h]

theorem h2Hdr_stable : HdrStable (h2Hdr M P) := by
  constructor
  · intro p n h
    unfold h2Hdr at h
    cases ho : one M P p 0 with
    | needMore => rw [ho] at h; simp at h
    | error => rw [ho] at h; simp at h
    | ok hd =>
      rw [ho] at h
      have ⟨_, hb, _, h9⟩ := one_ok_bound M P p 0 hd ho
      simp only at h
      split at h
      · simp at h
      · split at h
        · cases hc : cont M P p (h2_size hd.len) hd.sid p.length 0 with
          | needMore => rw [hc] at h; simp at h
          | error => rw [hc] at h; simp at h
          | len ms =>
            rw [hc] at h
            have := cont_bound M P p _ _ _ _ _ hc
            simp only [Hdr.len.injEq] at h
            subst h
            frame_len_defs
            omega
        · split at h
          · simp only [Hdr.len.injEq] at h
            subst h
            frame_len_defs
            omega
          · simp at h
  · intro p n e h
    unfold h2Hdr at h ⊢
    cases ho : one M P p 0 with
    | needMore => rw [ho] at h; simp at h
    | error => rw [ho] at h; simp at h
    | ok hd =>
      rw [one_ext M P p e 0 (by rw [ho]; simp), ho]
      rw [ho] at h
      simp only at h ⊢
      split
      · rename_i hc; simp [hc] at h
      · rename_i hc
        simp only [hc, ↓reduceIte] at h
        split
        · rename_i hg
          simp only [hg] at h
          cases hcn : cont M P p (h2_size hd.len) hd.sid p.length 0 with
          | needMore => rw [hcn] at h; simp at h
          | error => rw [hcn] at h; simp at h
          | len ms =>
            rw [hcn] at h
            have hne : cont M P p (h2_size hd.len) hd.sid p.length 0 ≠ .needMore := by rw [hcn]; simp
            have h1 := cont_ext M P p e _ _ _ _ hne
            have h2 := cont_fuel M P (p ++ e) (h2_size hd.len) hd.sid p.length e.length 0 (by rw [h1]; exact hne)
            rw [List.length_append, h2, h1, hcn]
            exact h
        · rename_i hg
          simp only [hg] at h
          exact h
  · intro p e h
    unfold h2Hdr at h ⊢
    cases ho : one M P p 0 with
    | needMore => rw [ho] at h; simp at h
    | error => rw [one_ext M P p e 0 (by rw [ho]; simp), ho]
    | ok hd =>
      rw [one_ext M P p e 0 (by rw [ho]; simp), ho]
      rw [ho] at h
      simp only at h ⊢
      split
      · rfl
      · rename_i hc
        simp only [hc, ↓reduceIte] at h
        split
        · rename_i hg
          simp only [hg] at h
          cases hcn : cont M P p (h2_size hd.len) hd.sid p.length 0 with
          | needMore => rw [hcn] at h; simp at h
          | len ms => rw [hcn] at h; simp at h
          | error =>
            have hne : cont M P p (h2_size hd.len) hd.sid p.length 0 ≠ .needMore := by rw [hcn]; simp
            have h1 := cont_ext M P p e _ _ _ _ hne
            have h2 := cont_fuel M P (p ++ e) (h2_size hd.len) hd.sid p.length e.length 0 (by rw [h1]; exact hne)
            rw [List.length_append, h2, h1, hcn]
        · rename_i hg
          simp only [hg] at h
          exact h

theorem h2Step_pre (G : Bytes → Bool) (p : Bytes) : h2Step M P G false p =
    if p.length < http2_preface.length then .needMore
    else if MosnVerif.Model.Match.nats (p.take http2_preface.length) = http2_preface then .frame (none, true) http2_preface.length
    else .error := rfl

theorem h2Step_post (G : Bytes → Bool) (p : Bytes) : h2Step M P G true p =
    match h2Hdr M P p with
    | .needMore => .needMore
    | .error => .error
    | .len n => if G (p.take n) then .frame (some (p.take n), true) n else .error := rfl

theorem h2Step_stable (G : Bytes → Bool) : SStable (h2Step M P G) := by
  have hh := h2Hdr_stable M P
  have hL : 0 < http2_preface.length := by frame_consts_defs; simp
  constructor
  · intro s p f n h
    cases s
    · rw [h2Step_pre] at h
      by_cases h1 : p.length < http2_preface.length
      · simp [h1] at h
      · rw [if_neg h1] at h
        split at h <;> simp at h
        obtain ⟨_, rfl⟩ := h
        omega
    · rw [h2Step_post] at h
      split at h <;> try (simp at h)
      rename_i m hm
      split at h <;> simp at h
      obtain ⟨_, rfl⟩ := h
      exact hh.pos p m hm
  · intro s p f n e h
    cases s
    · rw [h2Step_pre] at h ⊢
      by_cases h1 : p.length < http2_preface.length
      · simp [h1] at h
      · have hl : http2_preface.length ≤ p.length := by omega
        have h1' : ¬ ((p ++ e).length < http2_preface.length) := by rw [List.length_append]; omega
        rw [if_neg h1] at h
        rw [if_neg h1', List.take_append_of_le_length hl]
        exact h
    · rw [h2Step_post] at h ⊢
      split at h <;> try (simp at h)
      rename_i m hm
      split at h <;> simp at h
      rename_i hg
      obtain ⟨rfl, rfl⟩ := h
      have hle := (hh.pos p m hm).2
      rw [hh.ext p m e hm]
      simp only [List.take_append_of_le_length hle, hg, ↓reduceIte]
  · intro s p e h
    cases s
    · rw [h2Step_pre] at h ⊢
      by_cases h1 : p.length < http2_preface.length
      · simp [h1] at h
      · have hl : http2_preface.length ≤ p.length := by omega
        have h1' : ¬ ((p ++ e).length < http2_preface.length) := by rw [List.length_append]; omega
        rw [if_neg h1] at h
        rw [if_neg h1', List.take_append_of_le_length hl]
        exact h
    · rw [h2Step_post] at h ⊢
      split at h <;> try (simp at h)
      · rename_i hm; rw [hh.errExt p e hm]
      · rename_i m hm
        have hle := (hh.pos p m hm).2
        rw [hh.ext p m e hm]
        simp only [List.take_append_of_le_length hle, h]
        simp

theorem h2Step_empty (G : Bytes → Bool) (s : Bool) : h2Step M P G s [] = .needMore := by
  cases s
  · rw [h2Step_pre]; frame_consts_defs; simp
  · rw [h2Step_post]; unfold h2Hdr one; frame_len_defs; simp

/-- a failing ReadFrame consumes nothing or a complete frame / header-block group: never more than was received -/
theorem errDrains_le (b : Bytes) (n : Nat) (h : n ∈ errDrains M P b) : n ≤ b.length := by
  unfold errDrains at h
  rcases List.mem_cons.1 h with rfl | h
  · omega
  · split at h
    · rcases List.mem_append.1 h with h | h
      · split at h
        · rename_i hh ho
          simp only [List.mem_singleton] at h
          subst h
          have := (one_ok_bound M (fun _ => true) b 0 hh ho).2.1
          omega
        · cases h
      · split at h
        · rename_i k hk
          simp only [List.mem_singleton] at h
          subst h
          exact ((h2Hdr_stable M P).pos b _ hk).2
        · cases h
    · cases h

end MosnVerif.Model.FrameH2
