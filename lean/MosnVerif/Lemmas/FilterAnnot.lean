import MosnVerif.Lemmas.FilterSpec
/-! the verdict annotation the driver recomputes from the scripts (`annot`) reproduces the model's own tokens -/
set_option linter.unusedSimpArgs false
namespace MosnVerif.Model.FilterSpec
open MosnVerif.Gen.FilterPhase MosnVerif.Model.FilterChain MosnVerif.Model.FilterMachine

/-! ### shape of a step with both invocation counters -/

theorem afterPE_calls (c : Cfg) (g : St) :
    (afterPE c g).trace = g.trace ∧ (afterPE c g).rcalls = g.rcalls ∧ (afterPE c g).scalls = g.scalls := by
  obtain ⟨h1, _, h3, _, _, h6, _⟩ := afterPE_frame c g
  exact ⟨h1, h3, h6⟩

/-- no filter pass in this step -/
def Plain (s r : St) : Prop :=
  (∃ evs, r.trace = s.trace ++ evs ∧ ∀ e ∈ evs, isRpass e = false ∧ isSpass e = false) ∧
    r.rcalls = s.rcalls ∧ r.scalls = s.scalls

def RecvStep (c : Cfg) (s r : St) : Prop :=
  ∃ p, r.trace = s.trace ++ [.rpass p (startOf s.toFState p) (runRecv c.recv p s.toFState).2] ∧
    r.rcalls = (runRecv c.recv p s.toFState).1.rcalls ∧ r.scalls = s.scalls

def SendStep (c : Cfg) (s r : St) : Prop :=
  r.trace = s.trace ++ [.spass s.scursor (runSend c.send s.toFState).2] ∧
    r.rcalls = s.rcalls ∧ r.scalls = (runSend c.send s.toFState).1.scalls

theorem Plain.via (c : Cfg) {s g : St} (h : Plain s g) : Plain s (afterPE c g) := by
  obtain ⟨h1, h2, h3⟩ := afterPE_calls c g
  exact ⟨by rw [h1]; exact h.1, by rw [h2]; exact h.2.1, by rw [h3]; exact h.2.2⟩

theorem Plain.same {s g : St} (ht : g.trace = s.trace) (hr : g.rcalls = s.rcalls) (hs : g.scalls = s.scalls) : Plain s g :=
  ⟨⟨[], by simp [ht], by simp⟩, hr, hs⟩

theorem Plain.emit1 {s g : St} (e : Ev) (ht : g.trace = s.trace ++ [e]) (h1 : isRpass e = false) (h2 : isSpass e = false)
    (hr : g.rcalls = s.rcalls) (hs : g.scalls = s.scalls) : Plain s g :=
  ⟨⟨[e], ht, by simp [h1, h2]⟩, hr, hs⟩

theorem phaseCase_shape3 (c : Cfg) (s : St) :
    Plain s (phaseCase c s) ∨ RecvStep c s (phaseCase c s) ∨ SendStep c s (phaseCase c s) := by
  have same : Plain s s := Plain.same rfl rfl rfl
  have stay : ∀ n, Plain s { s with phase := n } := fun n => Plain.same rfl rfl rfl
  have halt : ∀ e, isRpass e = false → isSpass e = false → Plain s { emit s e with halted := true } :=
    fun e h1 h2 => Plain.emit1 e rfl h1 h2 rfl rfl
  have pass : ∀ p, RecvStep c s (afterPE c (filterPass c p s)) := by
    intro p
    obtain ⟨h1, h2, h3⟩ := afterPE_calls c (filterPass c p s)
    refine ⟨p, by rw [h1, filterPass_trace], by rw [h2]; simp [filterPass, emit, liftF], ?_⟩
    rw [h3]
    show (filterPass c p s).toFState.scalls = s.toFState.scalls
    rw [filterPass_toFState]
    exact (recvLoop_sender p _ _ _).1
  rcases phase_cases s.phase with h | h | h | h | h | h | h | h | h | h | h | h | h | h | h | h | h | h
  · rw [pc0 c s h]; exact Or.inl (stay _)
  · rw [pc1 c s h]; exact Or.inr (Or.inl (pass _))
  · rw [pc2 c s h]; exact Or.inl (Plain.via c (Plain.same rfl rfl rfl))
  · rw [pc3 c s h]; exact Or.inr (Or.inl (pass _))
  · rw [pc4 c s h]
    refine Or.inl (Plain.via c ?_)
    unfold chooseHost; simp only []
    split
    · exact Plain.same rfl rfl rfl
    · exact Plain.same rfl rfl rfl
    · split <;> exact Plain.same rfl rfl rfl
  · rw [pc5 c s h]; exact Or.inr (Or.inl (pass _))
  · rw [pc6 c s h]; left; split
    · apply Plain.via
      unfold sendUpstream
      split
      · exact same
      · split
        · exact Plain.emit1 (.up true) rfl rfl rfl rfl rfl
        · exact Plain.emit1 (.up false) rfl rfl rfl rfl rfl
    · exact halt _ rfl rfl
  · rw [pc7 c s h]; left; split
    · exact Plain.via c same
    · exact stay _
  · rw [pc8 c s h]; left; split
    · exact Plain.via c same
    · exact stay _
  · rw [pc9 c s h]; left; split
    · exact Plain.via c (Plain.same rfl rfl rfl)
    · exact stay _
  · rw [pc10 c s h]; exact Or.inl (halt _ rfl rfl)
  · rw [pc11 c s h]; left
    have hd : Plain s (deliver c s) := by
      unfold deliver; split <;> (try split) <;> exact Plain.same rfl rfl rfl
    split
    · exact hd
    · exact Plain.via c hd
  · rw [pc12 c s h]; right; right
    obtain ⟨h1, h2, h3⟩ := afterPE_calls c (sendPassE c s)
    refine ⟨by rw [h1]; simp [sendPassE, sendPass, emit, liftF], ?_, ?_⟩
    · rw [h2]; simp [sendPassE, sendPass, emit, liftF, runSend, (sendLoop_cursor _ _ _).2]
    · rw [h3]; simp [sendPassE, sendPass, emit, liftF]
  · rw [pc13 c s h]; left; split
    · split
      · obtain ⟨h1, _, h3, _, _, h6, _⟩ := afterPEd_true_frame c s
        exact Plain.same h1 h3 h6
      · apply Plain.via
        unfold respHeaders; split
        · exact same
        · split
          · exact Plain.emit1 _ rfl rfl rfl rfl rfl
          · exact Plain.emit1 _ rfl rfl rfl rfl rfl
    · exact stay _
  · rw [pc14 c s h]; left; split
    · split
      · apply Plain.via
        unfold respData; split
        · exact same
        · split
          · exact Plain.emit1 _ rfl rfl rfl rfl rfl
          · exact Plain.emit1 _ rfl rfl rfl rfl rfl
      · exact stay _
    · exact stay _
  · rw [pc15 c s h]; left; split
    · split
      · apply Plain.via
        unfold respTrailers; split
        · exact same
        · exact Plain.emit1 _ rfl rfl rfl rfl rfl
      · exact stay _
    · exact stay _
  · rw [pc16 c s h]; exact Or.inl (Plain.same (by simp) (by simp [ret_toFState]) (by simp [ret_toFState]))
  · rw [pc17 c s h]; exact Or.inl (halt _ rfl rfl)

theorem step_shape3 (c : Cfg) (s : St) : Plain s (step c s) ∨ RecvStep c s (step c s) ∨ SendStep c s (step c s) := by
  unfold step
  split
  · exact Or.inl (Plain.same rfl rfl rfl)
  · split
    · -- [proxy8] what follows the exhausted task loop: no filter pass
      rcases finishStart_cases c s with ⟨_, e⟩ | ⟨_, e⟩ | ⟨_, e⟩ | ⟨_, _, e⟩ <;> rw [e]
      · exact Or.inl (Plain.same rfl rfl rfl)
      · exact Or.inl (Plain.same rfl rfl rfl)
      · exact Or.inl (Plain.same rfl rfl rfl)
      · exact Or.inl (Plain.via c (Plain.same rfl rfl rfl))
    split
    · exact Or.inl (Plain.same (by simp) (by simp [ret_toFState]) (by simp [ret_toFState]))
    · exact phaseCase_shape3 c { s with inner := s.inner + 1 }

/-! ### the annotation, sequentially -/

def rcAfter : List Obs → (Nat → Nat) → (Nat → Nat)
  | [], rc => rc
  | .f i _ _ :: r, rc => rcAfter r (bump rc i)
  | _ :: r, rc => rcAfter r rc

def scAfter : List Obs → (Nat → Nat) → (Nat → Nat)
  | [], sc => sc
  | .fs i _ :: r, sc => scAfter r (bump sc i)
  | _ :: r, sc => scAfter r sc

theorem annotGo_append (c : Cfg) (l l' : List Obs) (rc sc : Nat → Nat) :
    annotGo c ((l ++ l').map Obs.raw) rc sc =
      annotGo c (l.map Obs.raw) rc sc ++ annotGo c (l'.map Obs.raw) (rcAfter l rc) (scAfter l sc) := by
  induction l generalizing rc sc with
  | nil => rfl
  | cons o r ih =>
    simp only [List.map_append] at ih
    cases o <;> simp [Obs.raw, annotGo, rcAfter, scAfter, ih]

theorem rcAfter_append (l l' : List Obs) (rc : Nat → Nat) : rcAfter (l ++ l') rc = rcAfter l' (rcAfter l rc) := by
  induction l generalizing rc with
  | nil => rfl
  | cons o r ih => cases o <;> simp [rcAfter, ih]

theorem scAfter_append (l l' : List Obs) (sc : Nat → Nat) : scAfter (l ++ l') sc = scAfter l' (scAfter l sc) := by
  induction l generalizing sc with
  | nil => rfl
  | cons o r ih => cases o <;> simp [scAfter, ih]

def fObs (p : RPhase) (l : List Inv) : List Obs := l.map (fun iv => Obs.f iv.1 p iv.2)
def fsObs (l : List SInv) : List Obs := l.map (fun iv => Obs.fs iv.1 iv.2)

theorem getD_of_drop {α} (l : List α) (idx : Nat) (a : α) (rest : List α) (d : α) (h : l.drop idx = a :: rest) :
    l.getD idx d = a ∧ l.drop (idx + 1) = rest := by
  have hlt : idx < l.length := by
    rcases Nat.lt_or_ge idx l.length with h' | h'
    · exact h'
    · rw [List.drop_eq_nil_of_le h'] at h; cases h
  rw [List.drop_eq_getElem_cons hlt] at h
  cases h
  exact ⟨by simp [List.getD, List.getElem?_eq_getElem hlt], rfl⟩

/-- the receiver invocations of a pass are annotated with exactly the verdicts the model recorded -/
theorem recvLoop_annot (c : Cfg) (p : RPhase) (fs : List RFilter) (idx : Nat) (s : FState) (sc : Nat → Nat)
    (hfs : c.recv.drop idx = fs) :
    annotGo c ((fObs p (recvLoop p fs idx s).2).map Obs.raw) s.rcalls sc = fObs p (recvLoop p fs idx s).2 ∧
    rcAfter (fObs p (recvLoop p fs idx s).2) s.rcalls = (recvLoop p fs idx s).1.rcalls ∧
    scAfter (fObs p (recvLoop p fs idx s).2) sc = sc := by
  induction fs generalizing idx s with
  | nil => exact ⟨rfl, rfl, rfl⟩
  | cons f rest ih =>
    obtain ⟨hget, hrest⟩ := getD_of_drop c.recv idx f rest ⟨p, []⟩ hfs
    simp only [recvLoop]
    split
    · exact ih (idx + 1) s hrest
    · rename_i hph
      have hph : f.phase = p := by simpa using hph
      generalize hv : f.verdictAt (s.rcalls idx) = v
      have a2 : ∀ (t : FState) (a : Act), (applyAct t a).rcalls = t.rcalls := by
        intro t a; cases a <;> simp [applyAct, sendHijack] <;> split <;> rfl
      have a1 : ∀ (e : HEffect) (t : FState), (applyHandler e p t).rcalls = t.rcalls := by
        intro e t; cases e <;> simp [applyHandler, cleanStream] <;> split <;> rfl
      generalize hs1 : applyHandler (receiverHandler v.status) p (applyAct { s with rcalls := bump s.rcalls idx } v.act) = s1
      have hs1r : s1.rcalls = bump s.rcalls idx := by rw [← hs1, a1, a2]
      have hget' : c.recv[idx]?.getD ⟨p, []⟩ = f := by simpa [List.getD] using hget
      have head : annotGo c ((fObs p [(idx, v)]).map Obs.raw) s.rcalls sc = fObs p [(idx, v)] := by
        simp [fObs, Obs.raw, annotGo, hget', hv]
      split
      · simp only []
        obtain ⟨i1, i2, i3⟩ := ih (idx + 1) s1 hrest
        have hcons : fObs p ((idx, v) :: (recvLoop p rest (idx + 1) s1).2) =
            fObs p [(idx, v)] ++ fObs p (recvLoop p rest (idx + 1) s1).2 := by simp [fObs]
        rw [hcons]
        refine ⟨?_, ?_, ?_⟩
        · rw [annotGo_append, head]
          have : rcAfter (fObs p [(idx, v)]) s.rcalls = s1.rcalls := by simp [fObs, rcAfter, hs1r]
          rw [this]
          have : scAfter (fObs p [(idx, v)]) sc = sc := by simp [fObs, scAfter]
          rw [this, i1]
        · rw [rcAfter_append]
          have : rcAfter (fObs p [(idx, v)]) s.rcalls = s1.rcalls := by simp [fObs, rcAfter, hs1r]
          rw [this, i2]
        · rw [scAfter_append]
          have : scAfter (fObs p [(idx, v)]) sc = sc := by simp [fObs, scAfter]
          rw [this, i3]
      · exact ⟨head, by simp [fObs, rcAfter, hs1r], by simp [fObs, scAfter]⟩
      · exact ⟨head, by simp [fObs, rcAfter, hs1r], by simp [fObs, scAfter]⟩

theorem sendLoop_annot (c : Cfg) (fs : List SFilter) (idx : Nat) (s : FState) (rc : Nat → Nat)
    (hfs : c.send.drop idx = fs) :
    annotGo c ((fsObs (sendLoop fs idx s).2).map Obs.raw) rc s.scalls = fsObs (sendLoop fs idx s).2 ∧
    scAfter (fsObs (sendLoop fs idx s).2) s.scalls = (sendLoop fs idx s).1.scalls ∧
    rcAfter (fsObs (sendLoop fs idx s).2) rc = rc := by
  induction fs generalizing idx s with
  | nil => exact ⟨rfl, rfl, rfl⟩
  | cons f rest ih =>
    obtain ⟨hget, hrest⟩ := getD_of_drop c.send idx f rest ⟨[]⟩ hfs
    simp only [sendLoop]
    generalize hv : f.statusAt (s.scalls idx) = st
    have a1 : ∀ (e : HEffect) (t : FState), (applyHandler e .BeforeRoute t).scalls = t.scalls := by
      intro e t; cases e <;> simp [applyHandler, cleanStream] <;> split <;> rfl
    generalize hs1 : applyHandler (senderHandler st) .BeforeRoute { s with scalls := bump s.scalls idx } = s1
    have hs1r : s1.scalls = bump s.scalls idx := by rw [← hs1, a1]
    have hget' : c.send[idx]?.getD ⟨[]⟩ = f := by simpa [List.getD] using hget
    have head : annotGo c ((fsObs [(idx, st)]).map Obs.raw) rc s.scalls = fsObs [(idx, st)] := by
      simp [fsObs, Obs.raw, annotGo, hget', hv]
    split
    · simp only []
      obtain ⟨i1, i2, i3⟩ := ih (idx + 1) s1 hrest
      have hcons : fsObs ((idx, st) :: (sendLoop rest (idx + 1) s1).2) =
          fsObs [(idx, st)] ++ fsObs (sendLoop rest (idx + 1) s1).2 := by simp [fsObs]
      rw [hcons]
      refine ⟨?_, ?_, ?_⟩
      · rw [annotGo_append, head]
        have : scAfter (fsObs [(idx, st)]) s.scalls = s1.scalls := by simp [fsObs, scAfter, hs1r]
        rw [this]
        have : rcAfter (fsObs [(idx, st)]) rc = rc := by simp [fsObs, rcAfter]
        rw [this, i1]
      · rw [scAfter_append]
        have : scAfter (fsObs [(idx, st)]) s.scalls = s1.scalls := by simp [fsObs, scAfter, hs1r]
        rw [this, i2]
      · rw [rcAfter_append]
        have : rcAfter (fsObs [(idx, st)]) rc = rc := by simp [fsObs, rcAfter]
        rw [this, i3]
    · exact ⟨head, by simp [fsObs, scAfter, hs1r], by simp [fsObs, rcAfter]⟩
    · exact ⟨head, by simp [fsObs, scAfter, hs1r], by simp [fsObs, rcAfter]⟩

/-! ### the annotation invariant -/

structure Ainv (c : Cfg) (s : St) : Prop where
  ann : annotGo c ((flat s.trace).map Obs.raw) (fun _ => 0) (fun _ => 0) = flat s.trace
  rc : rcAfter (flat s.trace) (fun _ => 0) = s.rcalls
  sc : scAfter (flat s.trace) (fun _ => 0) = s.scalls

theorem plain_obs (c : Cfg) (evs : List Ev) (h : ∀ e ∈ evs, isRpass e = false ∧ isSpass e = false) (rc sc : Nat → Nat) :
    annotGo c ((flat evs).map Obs.raw) rc sc = flat evs ∧ rcAfter (flat evs) rc = rc ∧ scAfter (flat evs) sc = sc := by
  induction evs with
  | nil => exact ⟨rfl, rfl, rfl⟩
  | cons e r ih =>
    obtain ⟨i1, i2, i3⟩ := ih (fun x hx => h x (by simp [hx]))
    have hflat : flat (e :: r) = flatEv e ++ flat r := by simp [flat]
    obtain ⟨h1, h2⟩ := h e (by simp)
    have he : annotGo c ((flatEv e).map Obs.raw) rc sc = flatEv e ∧ rcAfter (flatEv e) rc = rc ∧ scAfter (flatEv e) sc = sc := by
      cases e with
      | rpass p st invs => cases h1
      | spass st invs => cases h2
      | up rf => cases rf <;> exact ⟨rfl, rfl, rfl⟩
      | dh a b => exact ⟨rfl, rfl, rfl⟩
      | dd a => exact ⟨rfl, rfl, rfl⟩
      | dt => exact ⟨rfl, rfl, rfl⟩
      | unmodelled p => exact ⟨rfl, rfl, rfl⟩
    rw [hflat]
    refine ⟨?_, ?_, ?_⟩
    · rw [annotGo_append, he.1, he.2.1, he.2.2, i1]
    · rw [rcAfter_append, he.2.1, i2]
    · rw [scAfter_append, he.2.2, i3]

theorem step_Ainv (c : Cfg) (s : St) (h : Ainv c s) : Ainv c (step c s) := by
  rcases step_shape3 c s with ⟨⟨evs, ht, hev⟩, hr, hs⟩ | ⟨p, ht, hr, hs⟩ | ⟨ht, hr, hs⟩
  · obtain ⟨p1, p2, p3⟩ := plain_obs c evs hev s.rcalls s.scalls
    refine ⟨?_, ?_, ?_⟩
    · rw [ht, flat_append, annotGo_append, h.ann, h.rc, h.sc, p1]
    · rw [ht, flat_append, rcAfter_append, h.rc, p2, hr]
    · rw [ht, flat_append, scAfter_append, h.sc, p3, hs]
  · obtain ⟨p1, p2, p3⟩ := recvLoop_annot c p (c.recv.drop (startOf s.toFState p)) (startOf s.toFState p) s.toFState s.scalls rfl
    have hfl : flatEv (.rpass p (startOf s.toFState p) (runRecv c.recv p s.toFState).2) = fObs p (runRecv c.recv p s.toFState).2 := rfl
    refine ⟨?_, ?_, ?_⟩
    · rw [ht, flat_snoc, annotGo_append, h.ann, h.rc, h.sc, hfl]
      exact congrArg _ p1
    · rw [ht, flat_snoc, rcAfter_append, h.rc, hfl, hr]; exact p2
    · rw [ht, flat_snoc, scAfter_append, h.sc, hfl, hs]; exact p3
  · obtain ⟨p1, p2, p3⟩ := sendLoop_annot c (c.send.drop s.toFState.scursor) s.toFState.scursor s.toFState s.rcalls rfl
    have hfl : flatEv (.spass s.scursor (runSend c.send s.toFState).2) = fsObs (runSend c.send s.toFState).2 := rfl
    refine ⟨?_, ?_, ?_⟩
    · rw [ht, flat_snoc, annotGo_append, h.ann, h.rc, h.sc, hfl]
      exact congrArg _ p1
    · rw [ht, flat_snoc, rcAfter_append, h.rc, hfl, hr]; exact p3
    · rw [ht, flat_snoc, scAfter_append, h.sc, hfl, hs]; exact p2

theorem run_Ainv (c : Cfg) (n : Nat) (s : St) (h : Ainv c s) : Ainv c (run c n s) := by
  induction n generalizing s with
  | zero => exact h
  | succ n ih => exact ih _ (step_Ainv c s h)

/-- the verdict annotation recomputed from the scripts reproduces the model's tokens -/
theorem annot_flat (c : Cfg) (n : Nat) : annot c ((flat (run c n init).trace).map Obs.raw) = flat (run c n init).trace :=
  (run_Ainv c n init ⟨rfl, rfl, rfl⟩).ann

theorem annot_flat_final (c : Cfg) : annot c ((flat (final c).trace).map Obs.raw) = flat (final c).trace := by
  rw [show (final c).trace = (run c fuel init).trace from rfl]; exact annot_flat c fuel

/-! ### the model never leaves the modelled fragment -/

def isUnm : Ev → Bool
  | .unmodelled _ => true
  | _ => false

/-- the step appended no `unmodelled` marker and did not block -/
def Clean (s r : St) : Prop :=
  (∃ evs, r.trace = s.trace ++ evs ∧ ∀ e ∈ evs, isUnm e = false) ∧ r.blocked = s.blocked

theorem afterPE_blocked (c : Cfg) (g : St) : (afterPE c g).trace = g.trace ∧ (afterPE c g).blocked = g.blocked := by
  obtain ⟨h1, _, _, _, _, _, h7⟩ := afterPE_frame c g
  exact ⟨h1, h7⟩

theorem Clean.via (c : Cfg) {s g : St} (h : Clean s g) : Clean s (afterPE c g) := by
  obtain ⟨h1, h2⟩ := afterPE_blocked c g
  exact ⟨by rw [h1]; exact h.1, by rw [h2]; exact h.2⟩

theorem Clean.same {s g : St} (ht : g.trace = s.trace) (hb : g.blocked = s.blocked) : Clean s g :=
  ⟨⟨[], by simp [ht], by simp⟩, hb⟩

theorem Clean.emit1 {s g : St} (e : Ev) (ht : g.trace = s.trace ++ [e]) (h1 : isUnm e = false) (hb : g.blocked = s.blocked) :
    Clean s g := ⟨⟨[e], ht, by simp [h1]⟩, hb⟩

/-- from a state satisfying the phase invariant, a `case` never takes one of the model's escape branches -/
theorem phaseCase_clean (c : Cfg) (s : St) (hd : PhaseData c s.view s.phase) : Clean s (phaseCase c s) := by
  have same : Clean s s := Clean.same rfl rfl
  have stay : ∀ n, Clean s { s with phase := n } := fun n => Clean.same rfl rfl
  have hcom := hd.1
  rcases phase_cases s.phase with h | h | h | h | h | h | h | h | h | h | h | h | h | h | h | h | h | h
  · rw [pc0 c s h]; exact stay _
  · rw [pc1 c s h]; exact Clean.via c (Clean.emit1 _ (filterPass_trace c _ s) rfl (by simp [filterPass, emit, liftF]))
  · rw [pc2 c s h]; exact Clean.via c (Clean.same rfl rfl)
  · rw [pc3 c s h]; exact Clean.via c (Clean.emit1 _ (filterPass_trace c _ s) rfl (by simp [filterPass, emit, liftF]))
  · rw [pc4 c s h]
    apply Clean.via
    unfold chooseHost; simp only []
    split
    · exact Clean.same rfl rfl
    · exact Clean.same rfl rfl
    · split <;> exact Clean.same rfl rfl
  · rw [pc5 c s h]; exact Clean.via c (Clean.emit1 _ (filterPass_trace c _ s) rfl (by simp [filterPass, emit, liftF]))
  · rw [pc6 c s h]
    have hup : s.upReq = true := (PhaseData_56_of c _ _ (Or.inr h) hd).2
    rw [if_pos hup]
    apply Clean.via
    unfold sendUpstream
    split
    · exact same
    · split
      · exact Clean.emit1 (.up true) rfl rfl rfl
      · exact Clean.emit1 (.up false) rfl rfl rfl
  · rw [pc7 c s h]; split
    · exact Clean.via c same
    · exact stay _
  · rw [pc8 c s h]; split
    · exact Clean.via c same
    · exact stay _
  · rw [pc9 c s h]; split
    · exact Clean.via c (Clean.same rfl rfl)
    · exact stay _
  · exact (PhaseData_10_of c _ (by rw [← h]; exact hd)).elim
  · rw [pc11 c s h]
    obtain ⟨hf, _⟩ := PhaseData_11_of c _ (by rw [← h]; exact hd)
    have hresp : s.resp = none := hf.resp
    have hupr : s.upRespReceived = false := hf.upResp
    have hrst : s.upstreamReset = false := hf.upstreamReset
    have hcl : s.cleaned = false := hcom.cleaned
    have hpd : s.procDone = false := hcom.procDone
    have hdel : Clean s (deliver c s) ∧ ((deliver c s).halted = true → s.halted = true) := by
      unfold deliver
      split
      · rw [if_neg (by rw [hpd, hrst, hupr]; simp)]; exact ⟨Clean.same rfl rfl, fun h => h⟩
      · exact ⟨Clean.same rfl rfl, fun h => h⟩
      · rw [if_neg (by rw [hresp, hcl, hupr]; simp)]; exact ⟨Clean.same rfl rfl, fun h => h⟩
    split
    · exact hdel.1
    · exact Clean.via c hdel.1
  · rw [pc12 c s h]
    exact Clean.via c (Clean.emit1 (.spass s.scursor (runSend c.send s.toFState).2) (by simp [sendPassE, sendPass, emit, liftF]) rfl
      (by simp [sendPassE, sendPass, emit, liftF]))
  · rw [pc13 c s h]; split
    · split
      · obtain ⟨h1, _, _, _, _, _, h7⟩ := afterPEd_true_frame c s
        exact Clean.same h1 h7
      · apply Clean.via
        unfold respHeaders; split
        · exact same
        · split
          · exact Clean.emit1 _ rfl rfl rfl
          · exact Clean.emit1 _ rfl rfl rfl
    · exact stay _
  · rw [pc14 c s h]; split
    · split
      · apply Clean.via
        unfold respData; split
        · exact same
        · split
          · exact Clean.emit1 _ rfl rfl rfl
          · exact Clean.emit1 _ rfl rfl rfl
      · exact stay _
    · exact stay _
  · rw [pc15 c s h]; split
    · split
      · apply Clean.via
        unfold respTrailers; split
        · exact same
        · exact Clean.emit1 _ rfl rfl rfl
      · exact stay _
    · exact stay _
  · exact (PhaseData_ge16_of c _ _ (by omega) hd).elim
  · exact (PhaseData_ge16_of c _ _ (by omega) hd).elim

structure Uinv (s : St) : Prop where
  nounm : ∀ e ∈ s.trace, isUnm e = false
  noblock : s.blocked = false

theorem step_Uinv (c : Cfg) (s : St) (hg : Ginv c s) (hu : Uinv s) : Uinv (step c s) := by
  unfold step
  split
  · exact hu
  · rename_i hnh
    have hnh : s.halted = false := by simpa using hnh
    split
    · -- [proxy8] what follows the exhausted task loop
      obtain ⟨⟨ft, _, _, _, _, _, fb⟩, _⟩ := finishStart_form c s hg hnh
      exact ⟨by rw [ft]; exact hu.nounm, by rw [fb]; exact hu.noblock⟩
    split
    · exact ⟨by rw [ret_trace]; exact hu.nounm, by
        have : (ret s End).blocked = s.blocked := ret_blocked s End
        rw [this]; exact hu.noblock⟩
    · obtain ⟨hd, _⟩ := hg.live hnh
      obtain ⟨⟨evs, ht, hev⟩, hb⟩ := phaseCase_clean c { s with inner := s.inner + 1 } hd
      refine ⟨?_, by rw [hb]; exact hu.noblock⟩
      intro e he
      rw [ht] at he
      rcases List.mem_append.mp he with h | h
      · exact hu.nounm e h
      · exact hev e h

theorem run_GU (c : Cfg) (n : Nat) (s : St) (hg : Ginv c s) (hu : Uinv s) : Uinv (run c n s) := by
  induction n generalizing s with
  | zero => exact hu
  | succ n ih => exact ih _ (step_Ginv c s hg) (step_Uinv c s hg hu)

theorem model_closed (c : Cfg) (n : Nat) :
    (∀ e ∈ (run c n init).trace, ∀ p, e ≠ Ev.unmodelled p) ∧ (run c n init).blocked = false := by
  obtain ⟨h1, h2⟩ := run_GU c n init (init_Ginv c) ⟨(fun e he => by cases he), rfl⟩
  refine ⟨fun e he p hp => ?_, h2⟩
  subst hp
  have := h1 _ he
  cases this

end MosnVerif.Model.FilterSpec
