import MosnVerif.Lemmas.CheckedGo
import MosnVerif.Model.CheckedWire
import MosnVerif.Model.Match
/-!
[c08p10] ONE matcher semantics for C07 and C08: for every registered protocol matcher and EVERY byte string, the
regenerated checked-access program (Gen/C08Matchers, behind the stream factory's result mapping) answers exactly what
the hand-written matcher model of C07 (Model/Match.lean) answers — never `oob`.  Hence every C07 theorem about
automatic protocol selection is a theorem about the regenerated code (`genMatcherOf_eq`, `genScopeOf_eq`).
-/
namespace MosnVerif.Lemmas.CheckedMatchEq
open MosnVerif.Model.CheckedGo MosnVerif.Model.CheckedWire MosnVerif.Gen.C08Matchers
open MosnVerif.Model MosnVerif.Model.FrameBytes MosnVerif.Gen.FrameConsts
set_option linter.unusedSimpArgs false

/-- the hand model's verdict as an `api.MatchResult` of the regenerated programs -/
def toMR : Match.MR → MR
  | .again => .again
  | .success => .success
  | .failed => .failed

theorem take_succ_drop (b : List UInt8) : ∀ (i : Nat), i < b.length → (b.take (i + 1)).drop i = [b.getD i 0] := by
  induction b with
  | nil => intro i h; simp at h
  | cons x r ih =>
    intro i h
    cases i with
    | zero => simp
    | succ k =>
      simp only [List.take_succ_cons, List.drop_succ_cons, List.getD_cons_succ]
      exact ih k (by simpa using h)

theorem u8_eq (b : List UInt8) (i : Nat) (h : i < b.length) : u8 b i = (b.getD i 0).toNat := by
  simp [u8, be, take_succ_drop b i h, FrameBytes.beNat]

theorem byteAt_eq (b : List UInt8) (i : Nat) (h : i < b.length) : byteAt b (i : Int) = (u8 b i : Int) := by
  simp [byteAt, u8_eq b i h]

theorem cmpBytes_eq_zero : ∀ (a b : List UInt8), cmpBytes a b = 0 ↔ a = b := by
  intro a
  induction a with
  | nil => intro b; cases b <;> simp [cmpBytes]
  | cons x xs ih =>
    intro b
    cases b with
    | nil => simp [cmpBytes]
    | cons y ys =>
      simp only [cmpBytes]
      by_cases h1 : x < y
      · simp [h1]; intro h; subst h; exact absurd h1 (by simp)
      · by_cases h2 : y < x
        · simp [h1, h2]; intro h; subst h; exact absurd h2 (by simp)
        · have : x = y := by
            have := UInt8.le_antisymm (UInt8.not_lt.mp h2) (UInt8.not_lt.mp h1)
            exact this
          subst this
          simp [h1, ih]

theorem nats_inj : ∀ (a b : List UInt8), Match.nats a = Match.nats b ↔ a = b := by
  intro a
  induction a with
  | nil => intro b; cases b <;> simp [Match.nats]
  | cons x xs ih =>
    intro b
    cases b with
    | nil => simp [Match.nats]
    | cons y ys =>
      simp only [Match.nats, List.map_cons, List.cons.injEq] at ih ⊢
      rw [ih ys]
      constructor
      · rintro ⟨h1, h2⟩; exact ⟨UInt8.toNat_inj.mp h1, h2⟩
      · rintro ⟨h1, h2⟩; exact ⟨by rw [h1], h2⟩

theorem bolt_eq (b : List UInt8) : viaFactory bolt_matcher b = .ok (toMR (Match.boltMatch b)) := by
  unfold viaFactory bolt_matcher bolt_boltMatcher Match.boltMatch Match.codeMatch
  cases b with
  | nil => simp [len, Chk.bind, toMR, errToMR, xfactory_result]
  | cons x r =>
    have h0 : (0:Nat) < (x :: r).length := by simp
    have hb : byteAt (x :: r) 0 = (u8 (x :: r) 0 : Int) := byteAt_eq (x :: r) 0 h0
    have hl : ¬ (len (x :: r) = 0) := by (simp [len]; try omega)
    have hl2 : (0:Int) < len (x :: r) := by (simp [len]; try omega)
    simp only [hl, decide_false, idx, hl2, Chk.bind, hb, bolt_ProtocolCode]
    simp
    by_cases hx : u8 (x :: r) 0 = 1
    · simp [hx, toMR, errToMR, xfactory_result]
    · have : ¬ ((u8 (x :: r) 0 : Int) = 1) := by omega
      simp [hx, this, toMR, errToMR, xfactory_result]

theorem boltv2_eq (b : List UInt8) : viaFactory boltv2_matcher b = .ok (toMR (Match.boltv2Match b)) := by
  unfold viaFactory boltv2_matcher boltv2_boltv2Matcher Match.boltv2Match Match.codeMatch
  cases b with
  | nil => simp [len, Chk.bind, toMR, errToMR, xfactory_result]
  | cons x r =>
    have h0 : (0:Nat) < (x :: r).length := by simp
    have hb : byteAt (x :: r) 0 = (u8 (x :: r) 0 : Int) := byteAt_eq (x :: r) 0 h0
    have hl : ¬ (len (x :: r) = 0) := by (simp [len]; try omega)
    have hl2 : (0:Int) < len (x :: r) := by (simp [len]; try omega)
    simp only [hl, decide_false, idx, hl2, Chk.bind, hb, boltv2_ProtocolCode]
    simp
    by_cases hx : u8 (x :: r) 0 = 2
    · simp [hx, toMR, errToMR, xfactory_result]
    · have : ¬ ((u8 (x :: r) 0 : Int) = 2) := by omega
      simp [hx, this, toMR, errToMR, xfactory_result]

/-- `bytes.Compare(data[lo:hi], tag) == 0` of the code against `nats (…) = tag` of the model -/
theorem magic_iff (b : List UInt8) (lo hi : Int) (tag : List UInt8) :
    bytesCompare (sub b lo hi) tag = 0 ↔ Match.nats ((b.take hi.toNat).drop lo.toNat) = Match.nats tag := by
  simp only [bytesCompare, sub, cmpBytes_eq_zero, nats_inj]

theorem dubbo_eq (b : List UInt8) : viaFactory dubbo_matcher b = .ok (toMR (Match.dubboMatch b)) := by
  have hiff := magic_iff b 0 2 MosnVerif.Gen.C08Matchers.dubbo_MagicTag
  have ht : Match.nats MosnVerif.Gen.C08Matchers.dubbo_MagicTag = MosnVerif.Gen.FrameConsts.dubbo_MagicTag := by decide
  rw [ht] at hiff
  simp only [show (2:Int).toNat = 2 from rfl, show (0:Int).toNat = 0 from rfl, List.drop_zero] at hiff
  unfold viaFactory dubbo_matcher dubbo_dubboMatcher Match.dubboMatch
  by_cases h : b.length < 16
  · have : len b < 16 := by simp [len]; omega
    simp [h, this, Chk.bind, toMR, errToMR, xfactory_result, dubbo_HeaderLen]
  · have h1 : ¬ len b < 16 := by simp [len]; omega
    have h2 : (2:Int) ≤ len b := by simp [len] at h1 ⊢; omega
    by_cases hx : Match.nats (List.take 2 b) = MosnVerif.Gen.FrameConsts.dubbo_MagicTag
    · have hc := hiff.mpr hx
      simp [h, h1, slc, h2, Chk.bind, hc, hx, toMR, errToMR, xfactory_result, dubbo_HeaderLen, dubbo_FlagIdx, dubbo_MagicIdx]
    · have hc : ¬ bytesCompare (sub b 0 2) MosnVerif.Gen.C08Matchers.dubbo_MagicTag = 0 := fun h => hx (hiff.mp h)
      simp [h, h1, slc, h2, Chk.bind, hc, hx, toMR, errToMR, xfactory_result, dubbo_HeaderLen, dubbo_FlagIdx, dubbo_MagicIdx]

theorem thrift_eq (b : List UInt8) : viaFactory thrift_matcher b = .ok (toMR (Match.thriftMatch b)) := by
  have hiff := magic_iff b 4 6 MosnVerif.Gen.C08Matchers.thrift_MagicTag
  have ht : Match.nats MosnVerif.Gen.C08Matchers.thrift_MagicTag = MosnVerif.Gen.FrameConsts.thrift_MagicTag := by decide
  rw [ht] at hiff
  simp only [show (6:Int).toNat = 6 from rfl, show (4:Int).toNat = 4 from rfl] at hiff
  unfold viaFactory thrift_matcher thrift_thriftMatcher Match.thriftMatch
  by_cases h : b.length < 6
  · have : len b < 6 := by simp [len]; omega
    simp [h, this, Chk.bind, toMR, errToMR, xfactory_result, thrift_MessageLenSize, thrift_MagicLen]
  · have h1 : ¬ len b < 6 := by simp [len]; omega
    have h2 : (6:Int) ≤ len b := by simp [len] at h1 ⊢; omega
    by_cases hx : Match.nats (List.drop 4 (List.take 6 b)) = MosnVerif.Gen.FrameConsts.thrift_MagicTag
    · have hc := hiff.mpr hx
      simp [h, h1, slc, h2, Chk.bind, hc, hx, toMR, errToMR, xfactory_result, thrift_MessageLenSize, thrift_MagicLen]
    · have hc : ¬ bytesCompare (sub b 4 6) MosnVerif.Gen.C08Matchers.thrift_MagicTag = 0 := fun h => hx (hiff.mp h)
      simp [h, h1, slc, h2, Chk.bind, hc, hx, toMR, errToMR, xfactory_result, thrift_MessageLenSize, thrift_MagicLen]

theorem sub_zero (b : List UInt8) (n : Nat) : sub b 0 (n : Int) = b.take n := by simp [sub]

theorem preface_nats : Match.nats http2_ClientPreface = http2_preface := by decide

theorem http2_eq (b : List UInt8) : mapErr (http2_matcher b) = .ok (toMR (Match.http2Match b)) := by
  have hp : len http2_ClientPreface = 24 := by decide
  have hpl : http2_preface.length = 24 := by decide
  have hcl : http2_ClientPreface.length = 24 := by decide
  by_cases h : b.length ≥ 24
  · have h1 : len b ≥ 24 := by simp [len]; omega
    have hs1 : sub b 0 24 = b.take 24 := sub_zero b 24
    have hs2 : sub http2_ClientPreface 0 24 = http2_ClientPreface := by
      rw [show (24:Int) = ((24:Nat):Int) from rfl, sub_zero]; exact List.take_of_length_le (by omega)
    have hiff : (b.take 24 = http2_ClientPreface) ↔ (Match.nats (b.take 24) = http2_preface.take 24) := by
      rw [List.take_of_length_le (l := http2_preface) (by omega), ← preface_nats, nats_inj]
    have h2 : (24:Int) ≤ len b := h1
    by_cases hx : Match.nats (b.take 24) = http2_preface.take 24
    · have hm : Match.http2Match b = .success := by
        unfold Match.http2Match; simp only [hpl]; rw [if_pos h, if_pos hx]
      have := hiff.mpr hx
      rw [hm]
      unfold mapErr http2_matcher http2_StreamConnFactory_ProtocolMatch
      simp [h1, h2, slc, hp, Chk.bind, hs1, hs2, bytesEqual, this, toMR, errToMR]
    · have hm : Match.http2Match b = .failed := by
        unfold Match.http2Match; simp only [hpl]; rw [if_pos h, if_neg hx]
      have : ¬ b.take 24 = http2_ClientPreface := fun e => hx (hiff.mp e)
      rw [hm]
      unfold mapErr http2_matcher http2_StreamConnFactory_ProtocolMatch
      simp [h1, h2, slc, hp, Chk.bind, hs1, hs2, bytesEqual, this, toMR, errToMR]
  · have h1 : ¬ len b ≥ 24 := by simp [len]; omega
    have hlt : b.length < 24 := by omega
    have hs1 : sub b 0 (len b) = b := by
      show sub b 0 ((b.length : Nat) : Int) = b
      rw [sub_zero]; exact List.take_of_length_le (Nat.le_refl _)
    have hs2 : sub http2_ClientPreface 0 (len b) = http2_ClientPreface.take b.length := sub_zero _ _
    have hiff : (b = http2_ClientPreface.take b.length) ↔ (Match.nats (b.take b.length) = http2_preface.take b.length) := by
      rw [List.take_of_length_le (l := b) (Nat.le_refl _), ← preface_nats]
      have : (Match.nats http2_ClientPreface).take b.length = Match.nats (http2_ClientPreface.take b.length) := by
        simp [Match.nats, List.map_take]
      rw [this, nats_inj]
    have h3 : len b ≤ 24 := by simp [len]; omega
    have h4 : (0:Int) ≤ len b := len_nonneg b
    by_cases hx : Match.nats (b.take b.length) = http2_preface.take b.length
    · have hm : Match.http2Match b = .again := by
        unfold Match.http2Match; simp only [hpl]; rw [if_neg h, if_pos hx]
      have := hiff.mpr hx
      rw [hm]
      unfold mapErr http2_matcher http2_StreamConnFactory_ProtocolMatch
      simp [h1, h3, h4, slc, hp, Chk.bind, hs1, hs2, bytesEqual, ← this, toMR, errToMR]
    · have hm : Match.http2Match b = .failed := by
        unfold Match.http2Match; simp only [hpl]; rw [if_neg h, if_neg hx]
      have : ¬ b = http2_ClientPreface.take b.length := fun e => hx (hiff.mp e)
      rw [hm]
      unfold mapErr http2_matcher http2_StreamConnFactory_ProtocolMatch
      simp [h1, h3, h4, slc, hp, Chk.bind, hs1, hs2, bytesEqual, this, toMR, errToMR]

theorem beNat_same (s : List UInt8) : CheckedGo.beNat s = FrameBytes.beNat s := rfl

/-- TarsGo `TarsRequest` against the model's `tarsRequest` -/
theorem tarsRequest_eq (b : List UInt8) : tars_TarsRequest b = .ok (match Match.tarsRequest b with
    | .less => (0, 0) | .error => (0, 2) | .full => ((be b 0 4 : Nat), 1)) := by
  unfold tars_TarsRequest Match.tarsRequest
  simp only [tars_lenFieldSize, tars_minPackageLength, tars_maxPackageLength]
  by_cases h : b.length < 4
  · have : len b < 4 := by simp [len]; omega
    simp [h, this]
  · have h1 : ¬ len b < 4 := by simp [len]; omega
    have h2 : (4:Int) ≤ len b := by simp [len] at h1 ⊢; omega
    have hs : sub b 0 4 = b.take 4 := sub_zero b 4
    have hl : ((4:Nat):Int) ≤ len (b.take 4) := by simp [len]; omega
    have hv : beVal 4 (b.take 4) = (be b 0 4 : Nat) := by
      simp [beVal, be, beNat_same, List.take_take]
    simp only [h, h1, decide_false, slc, h2, Chk.bind, hs, beU]
    simp only [Int.reduceLE, true_and, if_true, Bool.false_eq_true, if_false]
    rw [if_pos hl, hv]
    simp only []
    by_cases ha : be b 0 4 < 4 ∨ be b 0 4 > 10485760
    · have : (decide (((be b 0 4 : Nat):Int) < 4) || decide (((be b 0 4 : Nat):Int) > 10485760)) = true := by
        simp only [Bool.or_eq_true, decide_eq_true_eq]; omega
      simp [ha, this]
    · have : (decide (((be b 0 4 : Nat):Int) < 4) || decide (((be b 0 4 : Nat):Int) > 10485760)) = false := by
        simp only [Bool.or_eq_false_iff, decide_eq_false_iff_not]; omega
      simp only [ha, this, if_false, Bool.false_eq_true]
      by_cases hb : b.length < be b 0 4
      · have : len b < ((be b 0 4 : Nat):Int) := by simp [len]; omega
        simp [hb, this]
      · have : ¬ len b < ((be b 0 4 : Nat):Int) := by simp [len]; omega
        simp [hb, this]

theorem tars_eq (b : List UInt8) : viaFactory tars_matcher b = .ok (toMR (Match.tarsMatch b)) := by
  unfold viaFactory tars_matcher tars_tarsMatcher Match.tarsMatch
  simp only [tars_matchMinLen, tars_IVersionHeaderIdx, tars_iVersionDataIdx, tars_versionOk]
  by_cases h : b.length < 6
  · have : len b < 6 := by simp [len]; omega
    simp [h, this, Chk.bind, toMR, errToMR, xfactory_result]
  · have h1 : ¬ len b < 6 := by simp [len]; omega
    have h4 : (4:Int) < len b := by simp [len] at h1 ⊢; omega
    have h5 : (5:Int) < len b := by simp [len] at h1 ⊢; omega
    have hb4 : byteAt b 4 = (u8 b 4 : Int) := byteAt_eq b 4 (by omega)
    have hb5 : byteAt b 5 = (u8 b 5 : Int) := byteAt_eq b 5 (by omega)
    simp only [h, h1, decide_false, idx, h4, h5, Chk.bind, hb4, hb5, tarsRequest_eq]
    simp only [Int.reduceLE, true_and, if_true, Bool.false_eq_true, if_false]
    by_cases v4 : u8 b 4 = 16
    · have v4' : ((u8 b 4 : Nat) : Int) = 16 := by omega
      by_cases v1 : u8 b 5 = 1
      · have v1' : ((u8 b 5 : Nat) : Int) = 1 := by omega
        cases hr : Match.tarsRequest b <;> simp [v4, v4', v1, v1', hr, toMR, errToMR, xfactory_result]
      · have v1' : ¬ ((u8 b 5 : Nat) : Int) = 1 := by omega
        by_cases v3 : u8 b 5 = 3
        · have v3' : ((u8 b 5 : Nat) : Int) = 3 := by omega
          cases hr : Match.tarsRequest b <;> simp [v4, v4', v1, v1', v3, v3', hr, toMR, errToMR, xfactory_result]
        · have v3' : ¬ ((u8 b 5 : Nat) : Int) = 3 := by omega
          simp [v4, v4', v1, v1', v3, v3', toMR, errToMR, xfactory_result]
    · have v4' : ¬ ((u8 b 4 : Nat) : Int) = 16 := by omega
      simp [v4, v4', toMR, errToMR, xfactory_result]

theorem methods_nats : http_methods = http1_httpMethod.map Match.nats := by decide

theorem contains_nats (l : List (List UInt8)) (t : List UInt8) :
    (l.map Match.nats).contains (Match.nats t) = l.contains t := by
  induction l with
  | nil => rfl
  | cons x r ih =>
    simp only [List.map_cons, List.contains_cons, ih]
    congr 1
    rw [Bool.eq_iff_iff]
    simp only [beq_iff_eq]
    constructor
    · intro h; exact ((nats_inj t x).mp h)
    · intro h; rw [h]

/-- `P` somewhere in `[i, i+n)` -/
def anyFrom (P : Nat → Bool) : Nat → Nat → Bool
  | 0, _ => false
  | n + 1, i => P i || anyFrom P n (i + 1)

theorem anyFrom_iff (P : Nat → Bool) : ∀ (n i : Nat), anyFrom P n i = true ↔ ∃ j, i ≤ j ∧ j < i + n ∧ P j = true := by
  intro n
  induction n with
  | zero => intro i; simp [anyFrom]; intro j h1 h2; omega
  | succ k ih =>
    intro i
    simp only [anyFrom, Bool.or_eq_true, ih]
    constructor
    · rintro (h | ⟨j, h1, h2, h3⟩)
      · exact ⟨i, Nat.le_refl _, by omega, h⟩
      · exact ⟨j, by omega, by omega, h3⟩
    · rintro ⟨j, h1, h2, h3⟩
      by_cases hj : j = i
      · subst hj; exact Or.inl h3
      · exact Or.inr ⟨j, by omega, by omega, h3⟩

theorem range_any_iff (P : Nat → Bool) (lo n : Nat) :
    (List.range (lo + n)).any (fun j => decide (lo ≤ j) && P j) = anyFrom P n lo := by
  rw [Bool.eq_iff_iff, anyFrom_iff, List.any_eq_true]
  simp only [List.mem_range, Bool.and_eq_true, decide_eq_true_eq]
  constructor
  · rintro ⟨j, h1, h2, h3⟩; exact ⟨j, h2, h1, h3⟩
  · rintro ⟨j, h1, h2, h3⟩; exact ⟨j, h2, h1, h3⟩

/-- the body of the method-search loop of the HTTP/1 `ProtocolMatch` -/
def h1body (b : List UInt8) : Int → (Unit → Chk Err) → Chk Err :=
  fun i cn => (slc b 0 i).bind fun t => if mapHas http1_httpMethod t = true then Chk.ok Err.nil else cn ()

theorem h1body_eq (b : List UInt8) (i : Nat) (hi : i ≤ b.length) (cn : Unit → Chk Err) :
    h1body b (i : Int) cn = if http1_httpMethod.contains (b.take i) = true then Chk.ok Err.nil else cn () := by
  have h1 : (0:Int) ≤ (i:Int) := by omega
  have h2 : (i:Int) ≤ len b := by simp [len]; omega
  simp only [h1body, slc, h1, h2, Int.le_refl, and_self, if_true, Chk.bind, sub_zero, mapHas]
  rfl

theorem go_search (b : List UInt8) (after : Unit → Chk Err) : ∀ (n i : Nat), i + n ≤ b.length + 1 →
    forRange.go (h1body b) after n (i : Int) =
    if anyFrom (fun j => http1_httpMethod.contains (b.take j)) n i = true then Chk.ok Err.nil else after () := by
  intro n
  induction n with
  | zero => intro i _; simp [forRange.go, anyFrom]
  | succ k ih =>
    intro i hi
    rw [forRange.go, h1body_eq b i (by omega)]
    have hc : ((i:Int) + 1) = ((i + 1 : Nat) : Int) := by omega
    rw [hc, ih (i + 1) (by omega)]
    simp only [anyFrom, Bool.or_eq_true]
    by_cases hx : http1_httpMethod.contains (b.take i) = true
    · rw [if_pos hx, if_pos (Or.inl hx)]
    · rw [if_neg hx]
      by_cases hy : anyFrom (fun j => http1_httpMethod.contains (b.take j)) k (i + 1) = true
      · rw [if_pos hy, if_pos (Or.inr hy)]
      · rw [if_neg hy, if_neg (not_or.mpr ⟨hx, hy⟩)]

theorem http1_eq (b : List UInt8) : mapErr (http1_matcher b) = .ok (toMR (Match.http1Match b)) := by
  unfold mapErr http1_matcher http1_StreamConnFactory_ProtocolMatch Match.http1Match
  simp only [http_minMethodLen, http_maxMethodLen]
  by_cases h : b.length < 3
  · have : len b < 3 := by simp [len]; omega
    simp [h, this, Chk.bind, toMR, errToMR]
  · have h1 : ¬ len b < 3 := by simp [len]; omega
    simp only [h, h1, decide_false, if_false, Bool.false_eq_true]
    have key : ∀ size : Nat, 3 ≤ size → size ≤ b.length →
        (forRange 3 ((size : Int) + 1) (h1body b)
            (fun _ => if decide ((size : Int) < 7) = true then Chk.ok Err.again else Chk.ok Err.failed)).bind
          (fun e => Chk.ok (errToMR e)) =
        Chk.ok (toMR (if (List.range (size + 1)).any (fun i => decide (3 ≤ i) && http_methods.contains (Match.nats (b.take i))) = true
          then Match.MR.success else if size < 7 then Match.MR.again else Match.MR.failed)) := by
      intro size h3 hs
      unfold forRange
      have hn : ((size : Int) + 1 - 3).toNat = size + 1 - 3 := by omega
      rw [hn, show (3:Int) = ((3:Nat):Int) from rfl, go_search b _ (size + 1 - 3) 3 (by omega)]
      have hr := range_any_iff (fun j => http1_httpMethod.contains (b.take j)) 3 (size + 1 - 3)
      rw [show 3 + (size + 1 - 3) = size + 1 from by omega] at hr
      have hm : ∀ i, http_methods.contains (Match.nats (b.take i)) = http1_httpMethod.contains (b.take i) := by
        intro i; rw [methods_nats, contains_nats]
      simp only [hm, hr]
      by_cases ha : anyFrom (fun j => http1_httpMethod.contains (b.take j)) (size + 1 - 3) 3 = true
      · rw [if_pos ha, if_pos ha]; rfl
      · rw [if_neg ha, if_neg ha]
        by_cases h7 : size < 7
        · have : decide ((size:Int) < 7) = true := by simp only [decide_eq_true_eq]; omega
          rw [if_pos this, if_pos h7]; rfl
        · have : ¬ decide ((size:Int) < 7) = true := by simp only [decide_eq_true_eq]; omega
          rw [if_neg this, if_neg h7]; rfl
    by_cases h7 : b.length > 7
    · have h7' : len b > 7 := by simp [len]; omega
      have := key 7 (by omega) (by omega)
      simp only [h7, h7', decide_true, if_true]
      exact this
    · have h7' : ¬ len b > 7 := by simp [len]; omega
      have := key b.length (by omega) (Nat.le_refl _)
      simp only [h7, h7', decide_false, if_false, Bool.false_eq_true]
      exact this

def fromMR : MR → Match.MR
  | .again => .again
  | .success => .success
  | .failed => .failed

theorem fromMR_toMR (r : Match.MR) : fromMR (toMR r) = r := by cases r <;> rfl

/-- the value of a checked computation that is known not to panic (`failed` stands in for the impossible `oob`) -/
def valueOf : Chk MR → MR
  | .ok r => r
  | .oob => .failed

/-- the REGENERATED matcher of a protocol as a total function into C07's result type -/
def genMatcherOf (name : String) : Option (List UInt8 → Match.MR) :=
  (matcherOf name).map (fun g b => fromMR (valueOf (g b)))

/-- the scope of a listener over the REGENERATED matchers (`Match.scopeOf` over `genMatcherOf`) -/
def genScopeOf (names : List String) : List (String × (List UInt8 → Match.MR)) :=
  names.filterMap (fun n => (genMatcherOf n).map (fun m => (n, m)))

/-- **the regenerated matchers ARE the matcher model of C07**, for every name and every byte string -/
theorem gen_eq (name : String) (g : List UInt8 → Chk MR) (m : List UInt8 → Match.MR)
    (hg : matcherOf name = some g) (hm : Match.matcherOf name = some m) (b : List UInt8) : g b = .ok (toMR (m b)) := by
  unfold matcherOf at hg
  unfold Match.matcherOf at hm
  split at hg <;> simp only [Option.some.injEq, reduceCtorEq] at hg hm <;> subst hg <;> subst hm
  · exact bolt_eq b
  · exact boltv2_eq b
  · exact dubbo_eq b
  · exact thrift_eq b
  · exact tars_eq b
  · exact http1_eq b
  · exact http2_eq b

theorem genMatcherOf_eq (name : String) : genMatcherOf name = Match.matcherOf name := by
  cases hg : matcherOf name with
  | none =>
    unfold genMatcherOf; rw [hg]
    unfold matcherOf at hg
    unfold Match.matcherOf
    split at hg <;> simp only [reduceCtorEq] at hg
    rename_i h1 h2 h3 h4 h5 h6 h7
    split <;> first | rfl | (exfalso; first | exact h1 rfl | exact h2 rfl | exact h3 rfl | exact h4 rfl | exact h5 rfl | exact h6 rfl | exact h7 rfl)
  | some g =>
    cases hm : Match.matcherOf name with
    | none =>
      exfalso
      unfold matcherOf at hg
      unfold Match.matcherOf at hm
      split at hg <;> simp only [reduceCtorEq] at hg hm
    | some m =>
      unfold genMatcherOf; rw [hg]
      simp only [Option.map_some, Option.some.injEq]
      funext b
      rw [gen_eq name g m hg hm b]
      exact fromMR_toMR _

theorem genScopeOf_eq (names : List String) : genScopeOf names = Match.scopeOf names := by
  unfold genScopeOf Match.scopeOf
  simp only [genMatcherOf_eq]

end MosnVerif.Lemmas.CheckedMatchEq