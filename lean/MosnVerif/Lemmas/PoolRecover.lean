import MosnVerif.Model.PoolRecover
/-! helper lemmas of C08 `panic_contained` -/
namespace MosnVerif.Lemmas.PoolRecover
open MosnVerif.Model.PoolRecover MosnVerif.Gen.C08Recover

theorem selectOutcomes_mem (s : PoolState) (sel : List (String × String)) (x : String)
    (h : x ∈ selectOutcomes s sel) : ∃ c ∈ sel, c.2 = x := by
  unfold selectOutcomes at h
  simp only at h
  split at h
  · obtain ⟨c, hc, rfl⟩ := List.mem_map.mp h
    exact ⟨c, (List.mem_filter.mp hc).1, rfl⟩
  · obtain ⟨c, hc, rfl⟩ := List.mem_map.mp h
    exact ⟨c, (List.mem_filter.mp hc).1, rfl⟩

/-- whatever the pool looks like when each select runs and whichever ready clause Go picks: if every action of the
table recovers, the goroutine the task ends up in recovers -/
theorem outcomes_survive (st : Nat → PoolState) :
    ∀ (sels : Selects) (i : Nat), allSurvive sels = true → ∀ a ∈ outcomes st i sels, survives a = true := by
  intro sels
  induction sels with
  | nil =>
    intro i _ a ha
    simp only [outcomes, List.mem_singleton] at ha
    subst ha
    simp [survives]
  | cons sel rest ih =>
    intro i hall a ha
    simp only [allSurvive, List.all_cons, Bool.and_eq_true] at hall
    obtain ⟨hsel, hrest⟩ := hall
    simp only [outcomes, List.mem_flatMap] at ha
    obtain ⟨x, hx, hax⟩ := ha
    obtain ⟨c, hc, rfl⟩ := selectOutcomes_mem _ _ _ hx
    have hcs := List.all_eq_true.mp hsel c hc
    by_cases hn : (c.2 == "none") = true
    · rw [if_pos hn] at hax
      exact ih (i + 1) (by simpa [allSurvive] using hrest) a hax
    · rw [if_neg hn] at hax
      simp only [List.mem_singleton] at hax
      subst hax
      simp only [Bool.or_eq_true] at hcs
      cases hcs with
      | inl h => exact absurd h hn
      | inr h => exact h

end MosnVerif.Lemmas.PoolRecover
