import MosnVerif.Model.FramingS
/-! segmentation independence for state-carrying decoders (core Lean only) -/
namespace MosnVerif.Model.FramingS
open MosnVerif.Model.Framing

variable {F σ : Type}

theorem sdrain_fuel (d : σ → Bytes → Step (F × σ)) (hs : SStable d) :
    ∀ (f1 f2 : Nat) (s : σ) (b : Bytes), b.length < f1 → b.length < f2 → sdrain d f1 s b = sdrain d f2 s b := by
  intro f1
  induction f1 with
  | zero => intro f2 s b h; omega
  | succ k ih =>
    intro f2 s b h1 h2
    cases f2 with
    | zero => omega
    | succ k2 =>
      unfold sdrain
      cases hstep : d s b with
      | needMore => rfl
      | error => rfl
      | frame fs n =>
        obtain ⟨f, s'⟩ := fs
        have ⟨hn0, hnl⟩ := hs.pos s b (f, s') n hstep
        have hl : (b.drop n).length < k := by simp [List.length_drop]; omega
        have hl2 : (b.drop n).length < k2 := by simp [List.length_drop]; omega
        simp only [ih k2 s' (b.drop n) hl hl2]

def sdrainAll (d : σ → Bytes → Step (F × σ)) (s : σ) (b : Bytes) : List F × Bytes × Bool × σ :=
  sdrain d (b.length + 1) s b

theorem sdrainAll_needMore (d : σ → Bytes → Step (F × σ)) (s : σ) (b : Bytes) (h : d s b = .needMore) :
    sdrainAll d s b = ([], b, false, s) := by
  simp [sdrainAll, sdrain, h]

theorem sdrainAll_error (d : σ → Bytes → Step (F × σ)) (s : σ) (b : Bytes) (h : d s b = .error) :
    sdrainAll d s b = ([], b, true, s) := by
  simp [sdrainAll, sdrain, h]

theorem sdrainAll_frame (d : σ → Bytes → Step (F × σ)) (hs : SStable d) (s s' : σ) (b : Bytes) (f : F) (n : Nat)
    (h : d s b = .frame (f, s') n) :
    sdrainAll d s b = (f :: (sdrainAll d s' (b.drop n)).1, (sdrainAll d s' (b.drop n)).2.1,
      (sdrainAll d s' (b.drop n)).2.2.1, (sdrainAll d s' (b.drop n)).2.2.2) := by
  have ⟨hn0, hnl⟩ := hs.pos s b (f, s') n h
  have hl : (b.drop n).length < b.length := by simp [List.length_drop]; omega
  have := sdrain_fuel d hs b.length ((b.drop n).length + 1) s' (b.drop n) hl (by omega)
  unfold sdrainAll
  rw [sdrain]
  simp only [h, this]

theorem sdrainAll_append (d : σ → Bytes → Step (F × σ)) (hs : SStable d) :
    ∀ (k : Nat) (s : σ) (b e : Bytes), b.length ≤ k →
      sdrainAll d s (b ++ e) =
        if (sdrainAll d s b).2.2.1 then ((sdrainAll d s b).1, (sdrainAll d s b).2.1 ++ e, true, (sdrainAll d s b).2.2.2)
        else ((sdrainAll d s b).1 ++ (sdrainAll d (sdrainAll d s b).2.2.2 ((sdrainAll d s b).2.1 ++ e)).1,
              (sdrainAll d (sdrainAll d s b).2.2.2 ((sdrainAll d s b).2.1 ++ e)).2.1,
              (sdrainAll d (sdrainAll d s b).2.2.2 ((sdrainAll d s b).2.1 ++ e)).2.2.1,
              (sdrainAll d (sdrainAll d s b).2.2.2 ((sdrainAll d s b).2.1 ++ e)).2.2.2) := by
  intro k
  induction k with
  | zero =>
    intro s b e hb
    have : b = [] := by cases b <;> simp_all
    subst this
    cases hstep : d s [] with
    | needMore => simp [sdrainAll_needMore d s [] hstep]
    | error =>
      have := hs.errExt s [] e hstep
      simp only [List.nil_append] at this
      simp [sdrainAll_error d s [] hstep, sdrainAll_error d s e this]
    | frame fs n =>
      have := hs.pos s [] fs n hstep
      simp at this; omega
  | succ k ih =>
    intro s b e hb
    cases hstep : d s b with
    | needMore => simp [sdrainAll_needMore d s b hstep]
    | error =>
      rw [sdrainAll_error d s b hstep, sdrainAll_error d s (b ++ e) (hs.errExt s b e hstep)]
      simp
    | frame fs n =>
      obtain ⟨f, s'⟩ := fs
      have ⟨hn0, hnl⟩ := hs.pos s b (f, s') n hstep
      have hext := hs.ext s b (f, s') n e hstep
      have hdrop : (b ++ e).drop n = b.drop n ++ e := List.drop_append_of_le_length hnl
      have hl : (b.drop n).length ≤ k := by simp [List.length_drop]; omega
      rw [sdrainAll_frame d hs s s' (b ++ e) f n hext, hdrop, ih s' (b.drop n) e hl,
        sdrainAll_frame d hs s s' b f n hstep]
      by_cases hf : (sdrainAll d s' (b.drop n)).2.2.1 <;> simp [hf]

theorem sfeed_eq (d : σ → Bytes → Step (F × σ)) (c : SConn F σ) (x : Bytes) :
    sfeed d c x = if c.failed then { c with buf := c.buf ++ x } else
      { buf := (sdrainAll d c.st (c.buf ++ x)).2.1, out := c.out ++ (sdrainAll d c.st (c.buf ++ x)).1,
        failed := (sdrainAll d c.st (c.buf ++ x)).2.2.1, st := (sdrainAll d c.st (c.buf ++ x)).2.2.2 } := rfl

theorem sfeed_sfeed (d : σ → Bytes → Step (F × σ)) (hs : SStable d) (c : SConn F σ) (x y : Bytes) :
    sfeed d (sfeed d c x) y = sfeed d c (x ++ y) := by
  by_cases hc : c.failed
  · simp [sfeed_eq, hc]
  · have hx := sdrainAll_append d hs (c.buf ++ x).length c.st (c.buf ++ x) y (Nat.le_refl _)
    rw [sfeed_eq d c x, sfeed_eq d c (x ++ y)]
    simp only [hc, Bool.false_eq_true, ↓reduceIte]
    rw [← List.append_assoc, hx, sfeed_eq]
    by_cases hf : (sdrainAll d c.st (c.buf ++ x)).2.2.1
    · simp [hf]
    · simp [hf]

theorem foldl_sfeed (d : σ → Bytes → Step (F × σ)) (hs : SStable d) :
    ∀ (xs : List Bytes) (c : SConn F σ) (x : Bytes),
      xs.foldl (sfeed d) (sfeed d c x) = sfeed d c (x ++ xs.flatten) := by
  intro xs
  induction xs with
  | nil => intro c x; simp
  | cons y ys ih =>
    intro c x
    simp only [List.foldl_cons, List.flatten_cons]
    rw [sfeed_sfeed d hs, ih, List.append_assoc]

/-- a decoder that asks for more data on the empty buffer (every real one does) -/
theorem srun_eq_sfeed (d : σ → Bytes → Step (F × σ)) (hs : SStable d) (s0 : σ) (h0 : d s0 [] = .needMore)
    (chunks : List Bytes) :
    srun d s0 chunks = sfeed d { buf := [], out := [], failed := false, st := s0 } chunks.flatten := by
  cases chunks with
  | nil => simp [srun, sfeed_eq, sdrainAll_needMore d s0 [] h0]
  | cons x xs => simp only [srun, List.foldl_cons, List.flatten_cons]; exact foldl_sfeed d hs xs _ x

end MosnVerif.Model.FramingS
