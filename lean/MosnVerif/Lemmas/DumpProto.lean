import MosnVerif.Model.DumpProto
/-!
C12, dump protocol: the invariant "file behind the effective config ⇒ a request is pending" for every program with the
discipline `disc` / `setOk`, every number of mutators and every schedule; and the quiet round that makes the file current.
-/
namespace MosnVerif.Model.DumpProto
open MosnVerif.Gen.DumpProto

/-- a request is pending: the flag is raised, or some mutator that has written the config has not yet seen / set the flag -/
def cover (c : Conf) : Prop := c.flag = 1 ∨ ∃ t p, c.m t = .run p ∧ setOk p = true

/-- what the dumper's obligation state means -/
def obInv : Ob → Conf → Prop
  | .clean, c => (c.file = c.live ∨ cover c) ∧ (∀ x, c.d.content = some x → x = c.live ∨ cover c)
  | .owe, _ => True
  | .holding, c => ∃ x, c.d.content = some x ∧ (x = c.live ∨ cover c)

structure Inv (c : Conf) : Prop where
  flagBin : c.flag = 0 ∨ c.flag = 1
  muts : ∀ t p, c.m t = .run p → setOk p = true ∨ noClear p = true
  progOk : disc .clean false c.prog = true
  setpOk : setOk c.setp = true
  dump : ∃ a, disc a c.d.content.isSome c.d.rest = true ∧ obInv a c

theorem obInv_of_cover_clean {c : Conf} (h : cover c) : obInv .clean c := ⟨Or.inr h, fun _ _ => Or.inr h⟩

/-- `obInv` only grows with `cover` when file, live and the held snapshot stay -/
theorem obInv_mono {a : Ob} {c c' : Conf} (hf : c'.file = c.file) (hl : c'.live = c.live) (hc : c'.d.content = c.d.content)
    (hcov : cover c → cover c') (h : obInv a c) : obInv a c' := by
  cases a with
  | clean =>
    obtain ⟨h1, h2⟩ := h
    refine ⟨?_, ?_⟩
    · rcases h1 with h1 | h1
      · left; rw [hf, hl]; exact h1
      · right; exact hcov h1
    · intro x hx
      rw [hc] at hx
      rcases h2 x hx with h2 | h2
      · left; rw [hl]; exact h2
      · right; exact hcov h2
  | owe => trivial
  | holding =>
    obtain ⟨x, hx, h2⟩ := h
    refine ⟨x, by rw [hc]; exact hx, ?_⟩
    rcases h2 with h2 | h2
    · left; rw [hl]; exact h2
    · right; exact hcov h2

/-- with a pending request every obligation state is fine, provided a held snapshot is still held -/
theorem obInv_of_cover {a : Ob} {c c' : Conf} (hc : c'.d.content = c.d.content) (hcov : cover c') (h : obInv a c) : obInv a c' := by
  cases a with
  | clean => exact obInv_of_cover_clean hcov
  | owe => trivial
  | holding =>
    obtain ⟨x, hx, _⟩ := h
    exact ⟨x, by rw [hc]; exact hx, Or.inr hcov⟩

theorem disc_done {a : Ob} {h : Bool} (hd : disc a h .done = true) : a = .clean := by
  simpa [disc] using hd

theorem disc_cas {a : Ob} {h : Bool} {o n : Int} {t f : Prog} (hd : disc a h (.cas o n t f) = true) :
    (o = 1 ∧ n = 0 ∧ disc .owe h t = true ∧ disc a h f = true) ∨
    (o = 0 ∧ n = 1 ∧ disc .clean h t = true ∧ disc .clean h f = true) := by
  unfold disc at hd
  split at hd
  · rename_i hc
    simp only [Bool.and_eq_true, beq_iff_eq] at hc hd
    exact Or.inl ⟨hc.1, hc.2, hd.1, hd.2⟩
  · split at hd
    · rename_i hc
      simp only [Bool.and_eq_true, beq_iff_eq] at hc hd
      exact Or.inr ⟨hc.1, hc.2, hd.1, hd.2⟩
    · cases hd

theorem disc_store {a : Ob} {h : Bool} {v : Int} {k : Prog} (hd : disc a h (.store v k) = true) :
    (v = 1 ∧ disc .clean h k = true) ∨ (v = 0 ∧ disc .owe h k = true) := by
  unfold disc at hd
  split at hd
  · rename_i hc; exact Or.inl ⟨by simpa using hc, hd⟩
  · split at hd
    · rename_i hc; exact Or.inr ⟨by simpa using hc, hd⟩
    · cases hd

theorem inv_init (prog setp : Prog) (hp : disc .clean false prog = true) (hs : setOk setp = true) : Inv (initConf prog setp) where
  flagBin := Or.inl rfl
  muts := by intro t p h; simp [initConf] at h
  progOk := hp
  setpOk := hs
  dump := ⟨.clean, by simp [initConf, disc], ⟨Or.inl rfl, by intro x hx; simp [initConf] at hx⟩⟩

theorem inv_stepDump {c : Conf} (hI : Inv c) (w : Bool) : Inv (stepDump c w) := by
  obtain ⟨a, hd, ho⟩ := hI.dump
  unfold stepDump
  split
  · -- between rounds: the next round starts
    rename_i hr
    rw [hr] at hd
    have := disc_done hd; subst this
    exact ⟨hI.flagBin, hI.muts, hI.progOk, hI.setpOk, .clean, hI.progOk, ho.1, by intro x hx; simp at hx⟩
  · -- cas
    rename_i o n t f hr
    rw [hr] at hd
    rcases disc_cas hd with ⟨rfl, rfl, ht, hf⟩ | ⟨rfl, rfl, ht, hf⟩
    · split
      · exact ⟨Or.inl rfl, hI.muts, hI.progOk, hI.setpOk, .owe, ht, trivial⟩
      · exact ⟨hI.flagBin, hI.muts, hI.progOk, hI.setpOk, a, hf, obInv_mono (c := c) rfl rfl rfl id ho⟩
    · split
      · exact ⟨Or.inr rfl, hI.muts, hI.progOk, hI.setpOk, .clean, ht, obInv_of_cover_clean (Or.inl rfl)⟩
      · rename_i hne
        have h1 : c.flag = 1 := by rcases hI.flagBin with h | h; exact absurd h hne; exact h
        exact ⟨hI.flagBin, hI.muts, hI.progOk, hI.setpOk, .clean, hf, obInv_of_cover_clean (Or.inl h1)⟩
  · -- load
    rename_i v t f hr
    rw [hr] at hd
    simp only [disc, Bool.and_eq_true] at hd
    refine ⟨hI.flagBin, hI.muts, hI.progOk, hI.setpOk, a, ?_, obInv_mono (c := c) rfl rfl rfl id ho⟩
    show disc a c.d.content.isSome (if c.flag = v then t else f) = true
    split
    · exact hd.1
    · exact hd.2
  · -- store
    rename_i v k hr
    rw [hr] at hd
    rcases disc_store hd with ⟨rfl, hk⟩ | ⟨rfl, hk⟩
    · exact ⟨Or.inr rfl, hI.muts, hI.progOk, hI.setpOk, .clean, hk, obInv_of_cover_clean (Or.inl rfl)⟩
    · exact ⟨Or.inl rfl, hI.muts, hI.progOk, hI.setpOk, .owe, hk, trivial⟩
  · -- snapshot
    rename_i k hr
    rw [hr] at hd
    simp only [disc] at hd
    refine ⟨hI.flagBin, hI.muts, hI.progOk, hI.setpOk, (if a == .owe then .holding else a), hd, ?_⟩
    cases a with
    | clean => exact ⟨ho.1, by intro x hx; simp at hx; exact Or.inl hx.symm⟩
    | owe => exact ⟨c.live, rfl, Or.inl rfl⟩
    | holding => exact ⟨c.live, rfl, Or.inl rfl⟩
  · -- write
    rename_i t f hr
    rw [hr] at hd
    simp only [disc, Bool.and_eq_true] at hd
    obtain ⟨⟨hh, ht⟩, hf⟩ := hd
    split
    · refine ⟨hI.flagBin, hI.muts, hI.progOk, hI.setpOk, (if a == .holding then .clean else a), ht, ?_⟩
      cases a with
      | clean =>
        obtain ⟨x, hx⟩ := Option.isSome_iff_exists.mp hh
        refine ⟨?_, ho.2⟩
        show (c.d.content.getD c.file) = c.live ∨ _
        rw [hx]; exact ho.2 x hx
      | owe => trivial
      | holding =>
        obtain ⟨x, hx, h2⟩ := ho
        refine ⟨?_, ?_⟩
        · show (c.d.content.getD c.file) = c.live ∨ _
          rw [hx]; exact h2
        · intro y hy
          have : y = x := by
            have hy' : c.d.content = some y := hy
            rw [hx] at hy'; exact (Option.some.inj hy').symm
          subst this; exact h2
    · refine ⟨hI.flagBin, hI.muts, hI.progOk, hI.setpOk, (if a == .holding then .owe else a), hf, ?_⟩
      cases a with
      | clean => exact ho
      | owe => trivial
      | holding => trivial

theorem setM_same (m : Nat → MState) (t : Nat) (v : MState) : setM m t v t = v := by simp [setM]
theorem setM_other (m : Nat → MState) (t u : Nat) (v : MState) (h : u ≠ t) : setM m t v u = m u := by simp [setM, h]

/-- mutator `t` moves on inside its request: the flag stays or becomes 1, its new state is again a good request state, and if
it was the pending witness then afterwards the flag is 1 or it still is one. -/
theorem mut_move {c : Conf} (hI : Inv c) (t : Nat) (p : Prog) (hm : c.m t = .run p) (s' : MState) (fl' : Int)
    (hfl : fl' = c.flag ∨ fl' = 1)
    (hs' : ∀ q, s' = .run q → (setOk q = true ∨ noClear q = true))
    (hcov : setOk p = true → fl' = 1 ∨ ∃ q, s' = .run q ∧ setOk q = true) :
    Inv { c with flag := fl', m := setM c.m t s' } := by
  obtain ⟨a, hd, ho⟩ := hI.dump
  refine ⟨?_, ?_, hI.progOk, hI.setpOk, a, hd, obInv_mono (c := c) rfl rfl rfl ?_ ho⟩
  · rcases hfl with h | h
    · rw [h]; exact hI.flagBin
    · exact Or.inr h
  · intro u q hu
    by_cases hut : u = t
    · subst hut
      have : s' = .run q := by simpa [setM_same] using hu
      exact hs' q this
    · have : c.m u = .run q := by simpa [setM_other _ _ _ _ hut] using hu
      exact hI.muts u q this
  · intro hc
    rcases hc with h1 | ⟨u, q, hu, hq⟩
    · left
      rcases hfl with h | h
      · show fl' = 1; rw [h]; exact h1
      · exact h
    · by_cases hut : u = t
      · subst hut
        have : q = p := by rw [hm] at hu; exact (MState.run.inj hu).symm
        subst this
        rcases hcov hq with h | ⟨q', hs, hq'⟩
        · exact Or.inl h
        · exact Or.inr ⟨u, q', by show setM c.m u s' u = _; rw [setM_same, hs], hq'⟩
      · exact Or.inr ⟨u, q, by show setM c.m t s' u = _; rw [setM_other _ _ _ _ hut]; exact hu, hq⟩

theorem noClear_of_request {p : Prog} (h : setOk p = true ∨ noClear p = true) :
    match p with
    | .cas _ n x y => n = 1 ∧ noClear x = true ∧ noClear y = true
    | .store v k => v = 1 ∧ noClear k = true
    | .snapshot _ => False
    | .write _ _ => False
    | _ => True := by
  cases p with
  | cas o n x y =>
    rcases h with h | h
    · simp only [setOk, Bool.and_eq_true, beq_iff_eq] at h; exact ⟨h.1.1.2, h.1.2, h.2⟩
    · simp only [noClear, Bool.and_eq_true, beq_iff_eq] at h; exact ⟨h.1.1, h.1.2, h.2⟩
  | store v k =>
    rcases h with h | h
    · simp only [setOk, Bool.and_eq_true, beq_iff_eq] at h; exact h
    · simp only [noClear, Bool.and_eq_true, beq_iff_eq] at h; exact h
  | snapshot k => rcases h with h | h <;> simp [setOk, noClear] at h
  | write x y => rcases h with h | h <;> simp [setOk, noClear] at h
  | load v x y => trivial
  | done => trivial

theorem inv_stepMut {c : Conf} (hI : Inv c) (t : Nat) : Inv (stepMut c t) := by
  unfold stepMut
  split
  · -- idle: write the effective config, the request starts
    rename_i hm
    obtain ⟨a, hd, ho⟩ := hI.dump
    have hcov : cover { c with live := c.live + 1, m := setM c.m t (.run c.setp) } :=
      Or.inr ⟨t, c.setp, setM_same _ _ _, hI.setpOk⟩
    refine ⟨hI.flagBin, ?_, hI.progOk, hI.setpOk, a, hd, obInv_of_cover (c := c) rfl hcov ho⟩
    intro u q hu
    by_cases hut : u = t
    · subst hut
      have : MState.run c.setp = .run q := by simpa [setM_same] using hu
      rw [← MState.run.inj this]; exact Or.inl hI.setpOk
    · have : c.m u = .run q := by simpa [setM_other _ _ _ _ hut] using hu
      exact hI.muts u q this
  · -- the request is finished
    rename_i hm
    exact mut_move hI t .done hm .idle c.flag (Or.inl rfl) (by intro q h; cases h) (by intro h; simp [setOk] at h)
  · -- cas
    rename_i o n x y hm
    have hreq := hI.muts t _ hm
    obtain ⟨hn, hx, hy⟩ := noClear_of_request hreq
    subst hn
    split
    · exact mut_move hI t _ hm (.run x) 1 (Or.inr rfl) (by intro q h; cases h; exact Or.inr hx) (fun _ => Or.inl rfl)
    · rename_i hne
      refine mut_move hI t _ hm (.run y) c.flag (Or.inl rfl) (by intro q h; cases h; exact Or.inr hy) ?_
      intro hs
      simp only [setOk, Bool.and_eq_true, beq_iff_eq] at hs
      have ho : o = 0 := hs.1.1.1
      subst ho
      rcases hI.flagBin with h | h
      · exact absurd h hne
      · exact Or.inl h
  · -- load
    rename_i v x y hm
    have hreq := hI.muts t _ hm
    refine mut_move hI t _ hm (.run (if c.flag = v then x else y)) c.flag (Or.inl rfl) ?_ ?_
    · intro q h
      cases h
      rcases hreq with h | h
      · unfold setOk at h
        split at h
        · simp only [Bool.and_eq_true] at h
          split
          · exact Or.inr h.1
          · exact Or.inl h.2
        · split at h
          · simp only [Bool.and_eq_true] at h
            split
            · exact Or.inl h.1
            · exact Or.inr h.2
          · cases h
      · simp only [noClear, Bool.and_eq_true] at h
        split
        · exact Or.inr h.1
        · exact Or.inr h.2
    · intro hs
      unfold setOk at hs
      split at hs
      · rename_i hv
        have hv : v = 1 := by simpa using hv
        subst hv
        simp only [Bool.and_eq_true] at hs
        by_cases hf : c.flag = 1
        · exact Or.inl hf
        · exact Or.inr ⟨y, by simp [hf], hs.2⟩
      · split at hs
        · rename_i hv
          have hv : v = 0 := by simpa using hv
          subst hv
          simp only [Bool.and_eq_true] at hs
          by_cases hf : c.flag = 0
          · exact Or.inr ⟨x, by simp [hf], hs.1⟩
          · rcases hI.flagBin with h | h
            · exact absurd h hf
            · exact Or.inl h
        · cases hs
  · -- store
    rename_i v k hm
    have hreq := hI.muts t _ hm
    obtain ⟨hv, hk⟩ := noClear_of_request hreq
    subst hv
    exact mut_move hI t _ hm (.run k) 1 (Or.inr rfl) (by intro q h; cases h; exact Or.inr hk) (fun _ => Or.inl rfl)
  · rename_i k hm
    exact (noClear_of_request (hI.muts t _ hm)).elim
  · rename_i x y hm
    exact (noClear_of_request (hI.muts t _ hm)).elim

theorem inv_step {c : Conf} (hI : Inv c) (e : Ev) : Inv (step c e) := by
  cases e with
  | dump w => exact inv_stepDump hI w
  | upd t => exact inv_stepMut hI t

theorem inv_run {c : Conf} (hI : Inv c) (sched : List Ev) : Inv (run c sched) := by
  induction sched generalizing c with
  | nil => exact hI
  | cons e r ih => exact ih (inv_step hI e)

theorem step_progs (c : Conf) (e : Ev) : (step c e).prog = c.prog ∧ (step c e).setp = c.setp := by
  cases e with
  | dump w =>
    simp only [step, stepDump]
    split <;> (try split) <;> exact ⟨rfl, rfl⟩
  | upd t =>
    simp only [step, stepMut]
    split <;> (try split) <;> exact ⟨rfl, rfl⟩

theorem run_progs (c : Conf) (sched : List Ev) : (run c sched).prog = c.prog ∧ (run c sched).setp = c.setp := by
  induction sched generalizing c with
  | nil => exact ⟨rfl, rfl⟩
  | cons e r ih =>
    obtain ⟨h1, h2⟩ := ih (step c e)
    obtain ⟨g1, g2⟩ := step_progs c e
    exact ⟨h1.trans g1, h2.trans g2⟩

/-- between two rounds, with no mutator inside a request: a file that is behind has a raised flag -/
theorem behind_flag {c : Conf} (hI : Inv c) (hd : c.d.rest = .done) (hm : ∀ t, c.m t = .idle) :
    c.file = c.live ∨ c.flag = 1 := by
  obtain ⟨a, ha, ho⟩ := hI.dump
  rw [hd] at ha
  have := disc_done ha; subst this
  rcases ho.1 with h | h
  · exact Or.inl h
  · rcases h with h | ⟨t, p, ht, _⟩
    · exact Or.inr h
    · rw [hm t] at ht; cases ht


/-- what a quiet continuation of a round does, stated on the concrete machine -/
def QuietSpec (p : Prog) (c c' : Conf) : Prop :=
  c'.d.rest = .done ∧ c'.live = c.live ∧ c'.m = c.m ∧ c'.prog = c.prog ∧ c'.setp = c.setp ∧
  c'.flag = (quiet p c.flag ((c.file == c.live)) c.d.content.isSome).1 ∧
  (c'.file == c'.live) = (quiet p c.flag ((c.file == c.live)) c.d.content.isSome).2

theorem run_cons (c : Conf) (e : Ev) (r : List Ev) : run c (e :: r) = run (step c e) r := rfl

theorem quiet_run (p : Prog) : ∀ (c : Conf), c.d.rest = p → (c.d.content = none ∨ c.d.content = some c.live) →
    QuietSpec p c (run c (List.replicate (quietLen p c.flag) (.dump true))) := by
  induction p with
  | done =>
    intro c hr _
    simp [quietLen, run, QuietSpec, quiet, hr]
  | cas o n t f iht ihf =>
    intro c hr hc
    simp only [quietLen, List.replicate_succ, run_cons, step, stepDump, hr]
    by_cases hfo : c.flag = o
    · simp only [hfo, if_true]
      have := iht { c with flag := n, d := { c.d with rest := t } } rfl hc
      simpa only [QuietSpec, quiet, hfo, if_true] using this
    · simp only [hfo, if_false]
      have := ihf { c with d := { c.d with rest := f } } rfl hc
      simpa only [QuietSpec, quiet, hfo, if_false] using this
  | load v t f iht ihf =>
    intro c hr hc
    simp only [quietLen, List.replicate_succ, run_cons, step, stepDump, hr]
    by_cases hfo : c.flag = v
    · simp only [hfo, if_true]
      have := iht { c with d := { c.d with rest := t } } rfl hc
      simpa only [QuietSpec, quiet, hfo, if_true] using this
    · simp only [hfo, if_false]
      have := ihf { c with d := { c.d with rest := f } } rfl hc
      simpa only [QuietSpec, quiet, hfo, if_false] using this
  | store v k ih =>
    intro c hr hc
    simp only [quietLen, List.replicate_succ, run_cons, step, stepDump, hr]
    have := ih { c with flag := v, d := { c.d with rest := k } } rfl hc
    simpa only [QuietSpec, quiet] using this
  | snapshot k ih =>
    intro c hr hc
    simp only [quietLen, List.replicate_succ, run_cons, step, stepDump, hr]
    have := ih { c with d := ⟨k, some c.live⟩ } rfl (Or.inr rfl)
    simpa only [QuietSpec, quiet, Option.isSome_some] using this
  | write t f iht _ =>
    intro c hr hc
    simp only [quietLen, List.replicate_succ, run_cons, step, stepDump, hr, if_true]
    rcases hc with hc | hc
    · have := iht { c with file := c.d.content.getD c.file, d := { c.d with rest := t } } rfl (Or.inl hc)
      simpa only [QuietSpec, quiet, hc, Option.getD_none, Option.isSome_none, Bool.false_or] using this
    · have := iht { c with file := c.d.content.getD c.file, d := { c.d with rest := t } } rfl (Or.inr hc)
      simpa only [QuietSpec, quiet, hc, Option.getD_some, Option.isSome_some, Bool.true_or, beq_self_eq_true] using this

/-- after any reachable state in which the dumper is between two rounds and no mutator is inside a request: one more round
without a further update and with a successful write leaves the file current. -/
theorem quiet_round_current {c : Conf} (hI : Inv c) (hq : quietOk c.prog = true) (hd : c.d.rest = .done)
    (hm : ∀ t, c.m t = .idle) :
    (run c (.dump true :: List.replicate (quietLen c.prog c.flag) (.dump true))).file =
      (run c (.dump true :: List.replicate (quietLen c.prog c.flag) (.dump true))).live ∧
    (run c (.dump true :: List.replicate (quietLen c.prog c.flag) (.dump true))).d.rest = .done ∧
    (run c (.dump true :: List.replicate (quietLen c.prog c.flag) (.dump true))).live = c.live := by
  have hstart : step c (.dump true) = { c with d := ⟨c.prog, none⟩ } := by
    simp only [step, stepDump, hd]
  rw [run_cons, hstart]
  obtain ⟨h1, h2, _, _, _, _, h7⟩ := quiet_run c.prog { c with d := ⟨c.prog, none⟩ } rfl (Or.inl rfl)
  refine ⟨?_, h1, h2⟩
  simp only [quietOk, Bool.and_eq_true] at hq
  obtain ⟨⟨q1, q2⟩, q3⟩ := hq
  have hcur : ((run { c with d := ⟨c.prog, none⟩ } (List.replicate (quietLen c.prog c.flag) (.dump true))).file ==
      (run { c with d := ⟨c.prog, none⟩ } (List.replicate (quietLen c.prog c.flag) (.dump true))).live) = true := by
    rw [h7]
    show (quiet c.prog c.flag (c.file == c.live) false).2 = true
    rcases behind_flag hI hd hm with hf | hf
    · have : (c.file == c.live) = true := by simp [hf]
      rw [this]
      rcases hI.flagBin with h0 | h1'
      · rw [h0]; exact q3
      · rw [h1']; exact q2
    · rw [hf]
      cases hb : (c.file == c.live)
      · exact q1
      · exact q2
  exact eq_of_beq hcur

end MosnVerif.Model.DumpProto
