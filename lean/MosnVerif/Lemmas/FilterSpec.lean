import MosnVerif.Model.FilterSpec
import MosnVerif.Lemmas.FilterReply
/-! the executable predicate `spec` holds of every model trace -/
set_option linter.unusedSimpArgs false
namespace MosnVerif.Model.FilterSpec
open MosnVerif.Gen.FilterPhase MosnVerif.Model.FilterChain MosnVerif.Model.FilterMachine

/-! ### projections of the flat token list -/

theorem flat_snoc (t : List Ev) (e : Ev) : flat (t ++ [e]) = flat t ++ flatEv e := by
  simp [flat, List.flatMap_append]

theorem flat_append (t u : List Ev) : flat (t ++ u) = flat t ++ flat u := by
  simp [flat, List.flatMap_append]

theorem recvObs_append (l l' : List Obs) : recvObs (l ++ l') = recvObs l ++ recvObs l' := by
  induction l with
  | nil => rfl
  | cons o r ih => cases o <;> simp [recvObs, ih]

theorem sendObs_append (l l' : List Obs) : sendObs (l ++ l') = sendObs l ++ sendObs l' := by
  induction l with
  | nil => rfl
  | cons o r ih => cases o <;> simp [sendObs, ih]

/-- the invocations of a receiver pass as (index, phase, verdict) triples -/
def triples (p : RPhase) (invs : List Inv) : List (Nat × RPhase × Verdict) := invs.map (fun iv => (iv.1, p, iv.2))

theorem recvObs_map_f (p : RPhase) (invs : List Inv) :
    recvObs (invs.map (fun iv => Obs.f iv.1 p iv.2)) = triples p invs := by
  induction invs with
  | nil => rfl
  | cons a r ih => simp [recvObs, triples] at *; exact ih

theorem recvObs_flatEv (e : Ev) :
    recvObs (flatEv e) = match e with | .rpass p _ invs => triples p invs | _ => [] := by
  cases e with
  | rpass p st invs => exact recvObs_map_f p invs
  | spass st invs =>
    simp only [flatEv]
    induction invs with
    | nil => rfl
    | cons a r ih => simpa [recvObs] using ih
  | up r => cases r <;> rfl
  | dh s e => rfl
  | dd e => rfl
  | dt => rfl
  | unmodelled p => rfl

theorem recvObs_flatEv_other (e : Ev) (h : isRpass e = false) : recvObs (flatEv e) = [] := by
  rw [recvObs_flatEv]; cases e <;> simp [isRpass] at h <;> rfl

theorem recvObs_flat_noPass (evs : List Ev) (h : ∀ e ∈ evs, isRpass e = false) : recvObs (flat evs) = [] := by
  induction evs with
  | nil => rfl
  | cons e r ih =>
    show recvObs (flat ([e] ++ r)) = []
    rw [flat_append, recvObs_append, ih (fun x hx => h x (by simp [hx]))]
    have : flat [e] = flatEv e := by simp [flat]
    rw [this, recvObs_flatEv_other e (h e (by simp))]; rfl

/-! ### order / once / resume on the flat list -/

def pairOK (a b : Nat × RPhase × Verdict) : Bool :=
  (a.2.2.status != .termination) &&
  (if a.2.1 == b.2.1 then (if accepted a.2.1 a.2.2.status then b.1 == a.1 else continues a.2.2.status && a.1 < b.1)
   else RPhase.ord a.2.1 < RPhase.ord b.2.1)

theorem orderOK_cons2 (a b : Nat × RPhase × Verdict) (r : List (Nat × RPhase × Verdict)) :
    orderOK (a :: b :: r) = (pairOK a b && orderOK (b :: r)) := by
  obtain ⟨i, p, v⟩ := a
  obtain ⟨j, q, w⟩ := b
  simp [orderOK, pairOK]

theorem orderOK_append (l l' : List (Nat × RPhase × Verdict)) :
    orderOK (l ++ l') = (orderOK l && orderOK l' &&
      (match l.getLast?, l'.head? with | some a, some b => pairOK a b | _, _ => true)) := by
  induction l with
  | nil => cases l' <;> simp [orderOK]
  | cons a r ih =>
    cases r with
    | nil =>
      cases l' with
      | nil => simp [orderOK]
      | cons b r' =>
        simp only [List.singleton_append, orderOK_cons2, List.getLast?_singleton, List.head?_cons]
        simp [orderOK, Bool.and_comm]
    | cons b r' =>
      have : (a :: b :: r') ++ l' = a :: b :: (r' ++ l') := rfl
      rw [this, orderOK_cons2, orderOK_cons2]
      have ih' : orderOK (b :: (r' ++ l')) = _ := ih
      rw [ih', List.getLast?_cons_cons]
      simp only [Bool.and_assoc]

/-- inside one pass: consecutive invocations have increasing indices, and every one but the last continued -/
theorem recvLoop_orderOK (p : RPhase) (fs : List RFilter) (idx : Nat) (s : FState) :
    orderOK (triples p (recvLoop p fs idx s).2) = true := by
  induction fs generalizing idx s with
  | nil => rfl
  | cons f rest ih =>
    simp only [recvLoop]
    split
    · exact ih _ _
    · generalize hv : f.verdictAt (s.rcalls idx) = v
      split
      · rename_i hsw
        simp only []
        generalize hs1 : applyHandler (receiverHandler v.status) p (applyAct { s with rcalls := bump s.rcalls idx } v.act) = s1
        have hasc := recvLoop_asc p rest (idx + 1) s1
        have hih := ih (idx + 1) s1
        cases hl : (recvLoop p rest (idx + 1) s1).2 with
        | nil => rfl
        | cons b r' =>
          rw [hl] at hasc hih
          simp only [triples, List.map_cons] at hih ⊢
          rw [orderOK_cons2, hih, Bool.and_true]
          have hlt : idx < b.1 := by have := hasc.1; omega
          have hst : v.status = .Continue ∨ v.status = .unknown := by
            cases hx : v.status <;> rw [hx] at hsw <;> simp [recvSwitch] at hsw <;> simp
          rcases hst with h | h <;> simp [pairOK, h, accepted, continues, hlt]
      · rfl
      · rfl

/-! ### where the worker goes after a `case` -/

theorem afterPE_phase (c : Cfg) (g : St) (ha : g.again = InitPhase) :
    (afterPE c g).halted = true ∨ (afterPE c g).phase = g.phase + 1 ∨ (afterPE c g).phase = Oneway ∨
      (afterPE c g).phase = UpFilter := by
  by_cases hc : g.cleaned = true
  · rw [afterPE_cleaned c g hc]; exact Or.inl (ret_End_halted g)
  · have hc : g.cleaned = false := by simpa using hc
    by_cases hr : g.upstreamReset = true
    · rw [afterPE_reset c g hc hr]
      split
      · exact Or.inr (Or.inr (Or.inl (ret_phase _ _)))
      · split
        · split
          · split
            · exact Or.inr (Or.inr (Or.inr (ret_phase _ _)))
            · exact Or.inr (Or.inl rfl)
          · exact Or.inl (ret_Retry_halted _)
        · split
          · exact Or.inr (Or.inr (Or.inr (ret_phase _ _)))
          · exact Or.inr (Or.inl rfl)
    · have hr : g.upstreamReset = false := by simpa using hr
      by_cases hd : g.direct = true
      · rw [afterPE_direct c g hc hr hd]
        split
        · exact Or.inr (Or.inr (Or.inl (ret_phase _ _)))
        · split
          · exact Or.inr (Or.inr (Or.inr (ret_phase _ _)))
          · exact Or.inr (Or.inl rfl)
      · have hd : g.direct = false := by simpa using hd
        rw [afterPE_plain c g hc hr hd, if_neg (by simp [ha])]
        split
        · exact Or.inl (ret_End_halted g)
        · exact Or.inr (Or.inl rfl)

/-- after a `case` that runs no receiver filters the worker is at the next phase, or at/after Oneway, or done -/
theorem phaseCase_phase (c : Cfg) (s : St) (ha : s.again = InitPhase) (hnf : recvPhaseOf s.phase = none) :
    (phaseCase c s).halted = true ∨ (phaseCase c s).phase = s.phase + 1 ∨ Oneway ≤ (phaseCase c s).phase := by
  have via : ∀ g : St, g.again = s.again → g.phase = s.phase →
      (afterPE c g).halted = true ∨ (afterPE c g).phase = s.phase + 1 ∨ Oneway ≤ (afterPE c g).phase := by
    intro g h1 h2
    rcases afterPE_phase c g (by rw [h1, ha]) with h | h | h | h
    · exact Or.inl h
    · exact Or.inr (Or.inl (by rw [h, h2]))
    · exact Or.inr (Or.inr (by rw [h]; exact Nat.le_refl _))
    · exact Or.inr (Or.inr (by rw [h]; decide))
  have stay : ({ s with phase := s.phase + 1 } : St).halted = true ∨ ({ s with phase := s.phase + 1 } : St).phase = s.phase + 1 ∨
      Oneway ≤ ({ s with phase := s.phase + 1 } : St).phase := Or.inr (Or.inl rfl)
  rcases phase_cases s.phase with h | h | h | h | h | h | h | h | h | h | h | h | h | h | h | h | h | h
  · rw [pc0 c s h]; exact stay
  · rw [h] at hnf; cases hnf
  · rw [pc2 c s h]; exact via _ rfl rfl
  · rw [h] at hnf; cases hnf
  · rw [pc4 c s h]
    apply via
    · unfold chooseHost; simp only []; split <;> (try split) <;> rfl
    · unfold chooseHost; simp only []; split <;> (try split) <;> rfl
  · rw [h] at hnf; cases hnf
  · rw [pc6 c s h]; split
    · apply via
      · unfold sendUpstream; split <;> (try split) <;> rfl
      · unfold sendUpstream; split <;> (try split) <;> rfl
    · exact Or.inl rfl
  · rw [pc7 c s h]; split
    · exact via s rfl rfl
    · exact stay
  · rw [pc8 c s h]; split
    · exact via s rfl rfl
    · exact stay
  · rw [pc9 c s h]; split
    · exact via _ rfl rfl
    · exact Or.inr (Or.inr (by show (9 : Nat) ≤ 11; omega))
  · rw [pc10 c s h]; exact Or.inl rfl
  · rw [pc11 c s h]; split
    · rename_i hh; exact Or.inl hh
    · exact via _ (deliver_again c s) (deliver_phase c s)
  · rw [pc12 c s h]; exact via _ (sendPassE_again c s) (sendPassE_phase c s)
  · rw [pc13 c s h]; split
    · split
      · rw [afterPEd_true c (setRetry s) (by simp [setRetry, liftF])]
        split
        · exact Or.inl (ret_End_halted _)
        · split
          · split
            · exact Or.inr (Or.inr (by rw [ret_phase]; exact Nat.le_refl _))
            · split
              · exact Or.inr (Or.inr (by rw [ret_phase]; decide))
              · exact Or.inr (Or.inl rfl)
          · exact Or.inl (ret_Retry_halted _)
      · exact via _ (respHeaders_again s _) (respHeaders_phase s _)
    · exact stay
  · rw [pc14 c s h]; split
    · split
      · exact via _ (respData_again s _) (respData_phase s _)
      · exact stay
    · exact stay
  · rw [pc15 c s h]; split
    · split
      · exact via _ (respTrailers_again s) (respTrailers_phase s)
      · exact stay
    · exact stay
  · rw [pc16 c s h]; exact Or.inl (ret_End_halted s)
  · rw [pc17 c s h]; exact Or.inl rfl

theorem phaseCase_filter (c : Cfg) (s : St) (p : RPhase) (h : recvPhaseOf s.phase = some p) :
    phaseCase c s = afterPE c (filterPass c p s) := by
  have := recvPhaseOf_eq h
  cases p
  · exact pc1 c s this
  · exact pc3 c s this
  · exact pc5 c s this

/-- after a receiver-filter `case` started with nothing pending -/
theorem filter_outcome (c : Cfg) (p : RPhase) (s : St) (hr : s.upstreamReset = false) (hpd : s.procDone = false)
    (hph : s.phase ≠ UpFilter) :
    (afterPE c (filterPass c p s)).cursor = (filterPass c p s).cursor ∧
    ((filterPass c p s).cleaned = true → (afterPE c (filterPass c p s)).halted = true) ∧
    ((afterPE c (filterPass c p s)).halted = true ∨ Oneway ≤ (afterPE c (filterPass c p s)).phase ∨
      ((filterPass c p s).again = InitPhase ∧ (afterPE c (filterPass c p s)).phase = s.phase + 1) ∨
      ((filterPass c p s).again ≠ InitPhase ∧ (afterPE c (filterPass c p s)).phase = (filterPass c p s).again)) := by
  generalize hg : filterPass c p s = g
  have gR : g.upstreamReset = false := by rw [← hg, filterPass_upstreamReset]; exact hr
  have gD : g.procDone = false := by rw [← hg, filterPass_procDone]; exact hpd
  have gP : g.phase = s.phase := by rw [← hg, filterPass_phase]
  refine ⟨(afterPE_trace_cursor c g).2.1, fun hc => by rw [afterPE_cleaned c g hc]; exact ret_End_halted g, ?_⟩
  by_cases hc : g.cleaned = true
  · rw [afterPE_cleaned c g hc]; exact Or.inl (ret_End_halted g)
  · have hc : g.cleaned = false := by simpa using hc
    by_cases hd : g.direct = true
    · rw [afterPE_direct c g hc gR hd]
      split
      · exact Or.inr (Or.inl (by rw [ret_phase]; exact Nat.le_refl _))
      · rw [if_pos (by rw [gP]; exact hph)]
        exact Or.inr (Or.inl (by rw [ret_phase]; decide))
    · have hd : g.direct = false := by simpa using hd
      rw [afterPE_plain c g hc gR hd]
      split
      · rename_i ha
        exact Or.inr (Or.inr (Or.inr ⟨ha, ret_phase _ _⟩))
      · rename_i ha
        have ha : g.again = InitPhase := by simpa using ha
        rw [if_neg (by rw [gD]; simp)]
        exact Or.inr (Or.inr (Or.inl ⟨ha, by show g.phase + 1 = s.phase + 1; rw [gP]⟩))

/-- a pass started at a filter of its own phase invokes that filter first -/
theorem runRecv_first (chain : List RFilter) (p : RPhase) (s : FState) (f : RFilter)
    (hf : chain[startOf s p]? = some f) (hp : f.phase = p) :
    ∃ v rest, (runRecv chain p s).2 = (startOf s p, v) :: rest := by
  unfold runRecv
  generalize startOf s p = st at hf ⊢
  have hlt : st < chain.length := by
    rcases Nat.lt_or_ge st chain.length with h | h
    · exact h
    · rw [List.getElem?_eq_none h] at hf; cases hf
  have hd : chain.drop st = f :: chain.drop (st + 1) := by
    rw [List.getElem?_eq_getElem hlt] at hf
    cases hf
    exact List.drop_eq_getElem_cons hlt
  rw [hd]
  simp only [recvLoop, hp, ne_eq, not_true_eq_false, if_false]
  split
  · exact ⟨_, _, rfl⟩
  · exact ⟨_, _, rfl⟩
  · exact ⟨_, _, rfl⟩

/-- a kept cursor together with its phase makes the next pass of that phase start there -/
theorem startOf_resume (s : FState) (p : RPhase) (h : s.cursor ≠ 0 → s.cphase = p) : startOf s p = s.cursor := by
  rw [startOf_eq]
  by_cases h0 : s.cursor = 0
  · simp [h0]
  · rw [if_neg]; intro ⟨_, hne⟩; exact hne (h h0).symm

theorem pn_lt_ord {p q : RPhase} (h : pn p < pn q) : RPhase.ord p < RPhase.ord q := by
  cases p <;> cases q <;> simp [pn, RPhase.ord, DownFilter, DownFilterAfterRoute, DownFilterAfterChooseHost] at h ⊢

theorem pn_inj {p q : RPhase} (h : pn p = pn q) : p = q := by
  cases p <;> cases q <;> simp [pn, DownFilter, DownFilterAfterRoute, DownFilterAfterChooseHost] at h ⊢

theorem pn_le5 (p : RPhase) : pn p ≤ 5 := by cases p <;> simp [pn, DownFilter, DownFilterAfterRoute, DownFilterAfterChooseHost]

theorem pn_odd (p q : RPhase) (h1 : pn q ≤ pn p) (h2 : pn p ≤ pn q + 1) : pn p = pn q := by
  cases p <;> cases q <;> simp [pn, DownFilter, DownFilterAfterRoute, DownFilterAfterChooseHost] at h1 h2 ⊢

/-! ### the order invariant -/

/-- how the last receiver invocation so far constrains where the worker is -/
def Link (s : St) (a : Nat × RPhase × Verdict) : Prop :=
  s.halted = true ∨ (a.2.2.status ≠ .termination ∧
    (pn a.2.1 < s.phase ∨
     (accepted a.2.1 a.2.2.status = true ∧ s.cursor = a.1 ∧ (s.cursor ≠ 0 → s.cphase = a.2.1) ∧
       pn a.2.1 ≤ s.phase + 1 ∧ s.phase ≤ pn a.2.1)))

structure Oinv (c : Cfg) (s : St) : Prop where
  ord : orderOK (recvObs (flat s.trace)) = true
  link : ∀ a, (recvObs (flat s.trace)).getLast? = some a → Link s a
  reg : ∀ a ∈ recvObs (flat s.trace), ∃ f, c.recv[a.1]? = some f ∧ f.phase = a.2.1

theorem triples_getLast (p : RPhase) (l : List Inv) :
    (triples p l).getLast? = l.getLast?.map (fun iv => (iv.1, p, iv.2)) := by
  simp [triples, List.getLast?_map]

theorem step_Oinv (c : Cfg) (s : St) (hg : Ginv c s) (ho : Oinv c s) : Oinv c (step c s) := by
  unfold step
  split
  · exact ho
  · rename_i hnh
    have hnh : s.halted = false := by simpa using hnh
    split
    · -- [proxy8] what follows the exhausted task loop: no filter runs, the worker stays or goes on to Oneway / UpFilter
      obtain ⟨⟨ft, fc, _, fp, _, _, _⟩, hph⟩ := finishStart_form c s hg hnh
      refine ⟨by rw [ft]; exact ho.ord, fun a ha => ?_, by rw [ft]; exact ho.reg⟩
      rw [ft] at ha
      rcases ho.link a ha with hl | ⟨hl1, hl2⟩
      · rw [hnh] at hl; cases hl
      · rcases hph with h | ⟨_, h⟩ | h
        · exact Or.inl h
        · refine Or.inr ⟨hl1, ?_⟩
          rw [h, fc, fp]; exact hl2
        · exact Or.inr ⟨hl1, Or.inl (by have := pn_le5 a.2.1; omega)⟩
    split
    · -- the loop of `receive` ran out: the task returns
      refine ⟨by rw [ret_trace]; exact ho.ord, fun a ha => Or.inl (ret_End_halted s), by rw [ret_trace]; exact ho.reg⟩
    · obtain ⟨hd, _⟩ := hg.live hnh
      have hcom := hd.1
      generalize hs1 : ({ s with inner := s.inner + 1 } : St) = s1
      have e_tr : s1.trace = s.trace := by subst hs1; rfl
      have e_ph : s1.phase = s.phase := by subst hs1; rfl
      have e_cu : s1.cursor = s.cursor := by subst hs1; rfl
      have e_cp : s1.cphase = s.cphase := by subst hs1; rfl
      have e_f : s1.toFState = s.toFState := by subst hs1; rfl
      have e_again : s1.again = InitPhase := by
        have : s1.again = s.again := by subst hs1; rfl
        rw [this]; exact hcom.again
      have e_pd : s1.procDone = false := by
        have : s1.procDone = s.procDone := by subst hs1; rfl
        rw [this]; exact hcom.procDone
      cases hrp : recvPhaseOf s1.phase with
      | none =>
        -- no receiver filters in this `case`
        obtain ⟨⟨evs, ht, hev⟩, hcur, _, hcph⟩ : NoPass s1 (phaseCase c s1) := by
          rcases phaseCase_shape c s1 with h | ⟨p, hp, _⟩
          · exact h
          · rw [hrp] at hp; cases hp
        have hT : recvObs (flat (phaseCase c s1).trace) = recvObs (flat s.trace) := by
          rw [ht, flat_append, recvObs_append, recvObs_flat_noPass evs hev, e_tr]; simp
        refine ⟨by rw [hT]; exact ho.ord, ?_, by rw [hT]; exact ho.reg⟩
        intro a ha
        rw [hT] at ha
        rcases ho.link a ha with h | ⟨hnt, h⟩
        · rw [hnh] at h; cases h
        · rcases phaseCase_phase c s1 e_again hrp with h' | h' | h'
          · exact Or.inl h'
          · refine Or.inr ⟨hnt, ?_⟩
            rcases h with h | ⟨hacc, hcu, hcp, h1, h2⟩
            · exact Or.inl (by rw [h', e_ph]; omega)
            · -- on the way back to the phase of the requesting filter
              have hne : s.phase ≠ pn a.2.1 := by
                intro he
                rw [e_ph, he, recvPhaseOf_pn] at hrp; cases hrp
              exact Or.inr ⟨hacc, by rw [hcur, e_cu]; exact hcu, by rw [hcur, hcph, e_cu, e_cp]; exact hcp,
                by rw [h', e_ph]; omega, by rw [h', e_ph]; omega⟩
          · refine Or.inr ⟨hnt, Or.inl ?_⟩
            have := pn_le5 a.2.1
            have h9 : 9 ≤ (phaseCase c s1).phase := h'
            omega
      | some q =>
        -- a receiver pass of phase q from the current cursor
        have hphq : s.phase = pn q := by rw [← e_ph]; exact recvPhaseOf_eq hrp
        have hfront : FrontOK s.view := by
          have h5 := pn_le5 q
          rcases Nat.lt_or_ge s.phase 5 with h | h
          · exact PhaseData_front_of c _ _ (by omega) hd
          · exact (PhaseData_56_of c _ _ (by omega) hd).1
        rw [phaseCase_filter c s1 q hrp]
        have hr1 : s1.upstreamReset = false := by
          have : s1.upstreamReset = s.upstreamReset := by subst hs1; rfl
          rw [this]; exact hfront.upstreamReset
        obtain ⟨o1, o2, o3⟩ := filter_outcome c q s1 hr1 e_pd (by rw [e_ph, hphq]; have := pn_le5 q; show pn q ≠ 12; omega)
        generalize hgq : filterPass c q s1 = g at o1 o2 o3
        generalize hrr : afterPE c g = r at o1 o2 o3
        have gF : g.toFState = (runRecv c.recv q s.toFState).1 := by rw [← hgq, filterPass_toFState, e_f]
        have rT : r.trace = s.trace ++ [.rpass q (startOf s.toFState q) (runRecv c.recv q s.toFState).2] := by
          rw [← hrr, (afterPE_trace_cursor c g).1, ← hgq, filterPass_trace, e_tr, e_f]
        generalize hl : (runRecv c.recv q s.toFState).2 = l at rT
        have hT : recvObs (flat r.trace) = recvObs (flat s.trace) ++ triples q l := by
          rw [rT, flat_snoc, recvObs_append, recvObs_flatEv]
        have hlast := recvLoop_last q (c.recv.drop (startOf s.toFState q)) (startOf s.toFState q) s.toFState hcom.again
        have hmem := runRecv_mem c.recv q s.toFState
        rw [hl] at hmem
        have hreg : ∀ a ∈ recvObs (flat r.trace), ∃ f, c.recv[a.1]? = some f ∧ f.phase = a.2.1 := by
          intro a ha
          rw [hT] at ha
          rcases List.mem_append.mp ha with ha | ha
          · exact ho.reg a ha
          · simp only [triples, List.mem_map] at ha
            obtain ⟨iv, hiv, rfl⟩ := ha
            obtain ⟨f, hf, hp, _⟩ := hmem iv hiv
            exact ⟨f, hf, hp⟩
        have hord_l : orderOK (triples q l) = true := by
          rw [← hl]; exact recvLoop_orderOK q _ _ _
        -- the link between the previous last invocation and the first of this pass
        have hpair : ∀ a, (recvObs (flat s.trace)).getLast? = some a → ∀ b, (triples q l).head? = some b → pairOK a b = true := by
          intro a ha b hb
          rcases ho.link a ha with h | ⟨hnt, h⟩
          · rw [hnh] at h; cases h
          · have hb1 : b.2.1 = q := by
              cases l with
              | nil => simp [triples] at hb
              | cons x r' => simp [triples] at hb; rw [← hb]
            rcases h with h | ⟨hacc, hcu, hcp, h1, h2⟩
            · -- the previous pass was of an earlier phase
              have hlt : pn a.2.1 < pn q := by rw [← hphq]; exact h
              have hne : (a.2.1 == b.2.1) = false := by
                rw [hb1]; cases hx : a.2.1 == q
                · rfl
                · have : a.2.1 = q := by simpa using hx
                  rw [this] at hlt; omega
              simp only [pairOK, hne, Bool.false_eq_true, if_false]
              rw [hb1]
              simp [hnt, pn_lt_ord hlt]
            · -- re-run of the same phase: this pass starts at the requesting filter
              have hpq : a.2.1 = q := pn_inj (pn_odd a.2.1 q (by rw [← hphq]; exact h2) (by rw [← hphq]; exact h1))
              obtain ⟨f, hf, hfp⟩ := ho.reg a (List.mem_of_getLast? ha)
              have hst : startOf s.toFState q = a.1 := by
                rw [startOf_resume s.toFState q (by rw [← hpq]; exact hcp)]; exact hcu
              have hfirst := runRecv_first c.recv q s.toFState f (by rw [hst]; exact hf) (by rw [hfp, hpq])
              obtain ⟨v, rest, hvr⟩ := hfirst
              rw [hl] at hvr
              rw [hvr] at hb
              simp [triples] at hb
              rw [← hb]
              rw [hpq] at hacc
              simp [pairOK, hpq, hacc, hnt, hst]
        have hord : orderOK (recvObs (flat r.trace)) = true := by
          rw [hT, orderOK_append, ho.ord, hord_l]
          simp only [Bool.and_self, Bool.true_and]
          cases h1 : (recvObs (flat s.trace)).getLast? with
          | none => rfl
          | some a =>
            cases h2 : (triples q l).head? with
            | none => rfl
            | some b => exact hpair a h1 b h2
        refine ⟨hord, ?_, hreg⟩
        -- the new link
        intro a ha
        rw [hT] at ha
        cases l with
        | nil =>
          -- an empty pass: the previous last invocation stays the last
          simp only [triples, List.map_nil, List.append_nil] at ha
          have gA : g.again = InitPhase := by
            cases hx : decide (g.again = InitPhase) with
            | true => simpa using hx
            | false =>
              have hne : g.again ≠ InitPhase := by simpa using hx
              have : (runRecv c.recv q s.toFState).1.again ≠ InitPhase := by rw [← gF]; exact hne
              obtain ⟨iv, hlv, _⟩ := hlast.1 this
              have : (runRecv c.recv q s.toFState).2.getLast? = some iv := hlv
              rw [hl] at this; cases this
          rcases ho.link a ha with h | ⟨hnt, h⟩
          · rw [hnh] at h; cases h
          · rcases o3 with h' | h' | ⟨_, h'⟩ | ⟨hne, _⟩
            · exact Or.inl h'
            · refine Or.inr ⟨hnt, Or.inl ?_⟩
              have := pn_le5 a.2.1
              have h9 : 9 ≤ r.phase := h'
              omega
            · rcases h with h | ⟨hacc, hcu, hcp, h1, h2⟩
              · exact Or.inr ⟨hnt, Or.inl (by rw [h', e_ph]; omega)⟩
              · -- impossible: the pass would have invoked the requesting filter
                have hpq : a.2.1 = q := pn_inj (pn_odd a.2.1 q (by rw [← hphq]; exact h2) (by rw [← hphq]; exact h1))
                obtain ⟨f, hf, hfp⟩ := ho.reg a (List.mem_of_getLast? ha)
                have hst : startOf s.toFState q = a.1 := by
                  rw [startOf_resume s.toFState q (by rw [← hpq]; exact hcp)]; exact hcu
                obtain ⟨v, rest, hvr⟩ := runRecv_first c.recv q s.toFState f (by rw [hst]; exact hf) (by rw [hfp, hpq])
                rw [hl] at hvr; cases hvr
            · exact absurd gA hne
        | cons x l' =>
          have hlast_new : (recvObs (flat s.trace) ++ triples q (x :: l')).getLast? = (triples q (x :: l')).getLast? := by
            rw [List.getLast?_append]
            cases hx : (triples q (x :: l')).getLast? with
            | none => simp [triples] at hx
            | some y => rfl
          rw [hlast_new, triples_getLast] at ha
          cases hlv : (x :: l').getLast? with
          | none => simp at hlv
          | some iv =>
            rw [hlv] at ha
            simp at ha
            subst ha
            by_cases hterm : iv.2.status = .termination
            · -- a termination cleans the stream: the task returns
              have : (runRecv c.recv q s.toFState).1.cleaned = true :=
                hlast.2 iv (by show (runRecv c.recv q s.toFState).2.getLast? = some iv; rw [hl]; exact hlv) hterm
              exact Or.inl (o2 (by show g.toFState.cleaned = true; rw [gF]; exact this))
            · rcases o3 with h' | h' | ⟨_, h'⟩ | ⟨hne, h'⟩
              · exact Or.inl h'
              · refine Or.inr ⟨hterm, Or.inl ?_⟩
                have := pn_le5 q
                have h9 : 9 ≤ r.phase := h'
                show pn q < r.phase
                omega
              · exact Or.inr ⟨hterm, Or.inl (by show pn q < r.phase; rw [h', e_ph, hphq]; omega)⟩
              · have : (runRecv c.recv q s.toFState).1.again ≠ InitPhase := by rw [← gF]; exact hne
                obtain ⟨iv', hlv', hacc, hag, hcur⟩ := hlast.1 this
                have e : iv' = iv := by
                  have h1 : (runRecv c.recv q s.toFState).2.getLast? = some iv' := hlv'
                  rw [hl, hlv] at h1; cases h1; rfl
                subst e
                have rcp : r.cphase = g.cphase := by rw [← hrr]; exact (afterPE_trace_cursor c g).2.2.2
                refine Or.inr ⟨hterm, Or.inr ⟨hacc, ?_, ?_, ?_, ?_⟩⟩
                · show r.toFState.cursor = iv'.1
                  have : r.cursor = g.cursor := o1
                  rw [show r.toFState.cursor = r.cursor from rfl, this]
                  show g.toFState.cursor = iv'.1
                  rw [gF]; exact hcur
                · intro hne
                  rw [rcp]
                  show g.toFState.cphase = q
                  rw [gF]
                  apply recvLoop_cphase
                  have : r.cursor = g.cursor := o1
                  rw [this] at hne
                  have hne' : g.toFState.cursor ≠ 0 := hne
                  rw [gF] at hne'
                  exact hne'
                · show pn q ≤ r.phase + 1
                  rw [h']; show pn q ≤ g.toFState.again + 1; rw [gF]
                  have : (runRecv c.recv q s.toFState).1.again + 1 = pn q := hag
                  omega
                · show r.phase ≤ pn q
                  rw [h']; show g.toFState.again ≤ pn q; rw [gF]
                  have : (runRecv c.recv q s.toFState).1.again + 1 = pn q := hag
                  omega

theorem init_Oinv (c : Cfg) : Oinv c init :=
  ⟨rfl, (fun a h => by cases h), (fun a h => by cases h)⟩

theorem run_GO (c : Cfg) (n : Nat) (s : St) (hg : Ginv c s) (ho : Oinv c s) : Ginv c (run c n s) ∧ Oinv c (run c n s) := by
  induction n generalizing s with
  | zero => exact ⟨hg, ho⟩
  | succ n ih => exact ih _ (step_Ginv c s hg) (step_Oinv c s hg ho)

/-! ### no receiver filter after the response side started -/

def nrs : List Ev → Bool
  | [] => true
  | e :: r => (if isBack e then r.all (fun x => !isRpass x) else true) && nrs r

theorem nrs_noPass (evs : List Ev) (h : ∀ e ∈ evs, isRpass e = false) : nrs evs = true := by
  induction evs with
  | nil => rfl
  | cons e r ih =>
    have hr : ∀ x ∈ r, isRpass x = false := fun x hx => h x (by simp [hx])
    simp only [nrs, ih hr, Bool.and_true]
    split
    · simp only [List.all_eq_true]; intro x hx; simp [hr x hx]
    · rfl

theorem nrs_append_noPass (t evs : List Ev) (ht : nrs t = true) (h : ∀ e ∈ evs, isRpass e = false) :
    nrs (t ++ evs) = true := by
  induction t with
  | nil => exact nrs_noPass evs h
  | cons e r ih =>
    simp only [nrs, Bool.and_eq_true] at ht
    simp only [List.cons_append, nrs, ih ht.2, Bool.and_true]
    split
    · rename_i hb
      have := ht.1; rw [if_pos hb] at this
      simp only [List.all_eq_true] at this ⊢
      intro x hx
      rcases List.mem_append.mp hx with hx | hx
      · exact this x hx
      · simp [h x hx]
    · rfl

theorem nrs_append_noBack (t evs : List Ev) (ht : backPart t = []) (h : nrs evs = true) : nrs (t ++ evs) = true := by
  induction t with
  | nil => exact h
  | cons e r ih =>
    have he : isBack e = false := by
      cases hb : isBack e
      · rfl
      · simp [backPart, List.filter_cons, hb] at ht
    have hr : backPart r = [] := by simpa [backPart, List.filter_cons, he] using ht
    simp [nrs, he, ih hr]

theorem step_nrs (c : Cfg) (s : St) (hg : Ginv c s) (h : nrs s.trace = true) : nrs (step c s).trace = true := by
  rcases step_shape c s with ⟨⟨evs, ht, hev⟩, _, _⟩ | ⟨p, hp, ht, _, _⟩
  · rw [ht]; exact nrs_append_noPass _ _ h hev
  · rw [ht]
    cases hh : s.halted
    · obtain ⟨hd, _⟩ := hg.live hh
      have hph := recvPhaseOf_eq hp
      have h5 := pn_le5 p
      have hfront : FrontOK s.view := by
        rcases Nat.lt_or_ge s.phase 5 with h' | h'
        · exact PhaseData_front_of c _ _ (by omega) hd
        · exact (PhaseData_56_of c _ _ (by omega) hd).1
      exact nrs_append_noBack _ _ hfront.noback (by simp [nrs, isBack])
    · -- a halted machine makes no pass
      have : step c s = s := by simp [step, hh]
      rw [this] at ht
      have := congrArg List.length ht
      simp at this

theorem run_nrs (c : Cfg) (n : Nat) (s : St) (hg : Ginv c s) (h : nrs s.trace = true) : nrs (run c n s).trace = true := by
  induction n generalizing s with
  | zero => exact h
  | succ n ih => exact ih _ (step_Ginv c s hg) (step_nrs c s hg h)

theorem recvObs_fs (l : List SInv) : recvObs (l.map (fun iv => Obs.fs iv.1 iv.2)) = [] := by
  induction l with
  | nil => rfl
  | cons a r ih => simpa [recvObs] using ih

theorem noRecvAfterSend_f (p : RPhase) (invs : List Inv) (rest : List Obs) :
    noRecvAfterSend (invs.map (fun iv => Obs.f iv.1 p iv.2) ++ rest) = noRecvAfterSend rest := by
  induction invs with
  | nil => rfl
  | cons a r ih => simpa [noRecvAfterSend] using ih

theorem noRecvAfterSend_fs (invs : List SInv) (rest : List Obs) (h1 : recvObs rest = []) (h2 : noRecvAfterSend rest = true) :
    noRecvAfterSend (invs.map (fun iv => Obs.fs iv.1 iv.2) ++ rest) = true := by
  induction invs with
  | nil => exact h2
  | cons a r ih =>
    simp only [List.map_cons, List.cons_append, noRecvAfterSend, ih, Bool.and_true]
    rw [recvObs_append, recvObs_fs, h1]; rfl

theorem noRecvAfterSend_of_nrs (t : List Ev) (h : nrs t = true) : noRecvAfterSend (flat t) = true := by
  induction t with
  | nil => rfl
  | cons e r ih =>
    simp only [nrs, Bool.and_eq_true] at h
    have ihr := ih h.2
    have hflat : flat (e :: r) = flatEv e ++ flat r := by simp [flat]
    rw [hflat]
    have hrest : isBack e = true → recvObs (flat r) = [] := by
      intro hb
      have := h.1; rw [if_pos hb] at this
      simp only [List.all_eq_true] at this
      exact recvObs_flat_noPass r (fun x hx => by simpa using this x hx)
    cases e with
    | rpass p st invs => simp only [flatEv]; rw [noRecvAfterSend_f]; exact ihr
    | spass st invs => simp only [flatEv]; exact noRecvAfterSend_fs invs _ (hrest rfl) ihr
    | up rf => cases rf <;> simpa [flatEv, noRecvAfterSend] using ihr
    | dh sv eos => simp [flatEv, noRecvAfterSend, hrest rfl, ihr]
    | dd eos => simpa [flatEv, noRecvAfterSend] using ihr
    | dt => simpa [flatEv, noRecvAfterSend] using ihr
    | unmodelled p => simpa [flatEv] using ihr

/-! ### denied / forwarded / answered / terminated on the flat list -/

theorem recvObs_flat_verdicts (t : List Ev) : (recvObs (flat t)).map (fun x => x.2.2) = recvVerdicts t := by
  induction t with
  | nil => rfl
  | cons e r ih =>
    have hflat : flat (e :: r) = flatEv e ++ flat r := by simp [flat]
    rw [hflat, recvObs_append, List.map_append, ih, recvObs_flatEv]
    cases e <;> simp [recvVerdicts, triples]

theorem denied_flat {t : List Ev} (h : denied (flat t) = true) : DenyIn t := by
  simp only [denied, List.any_eq_true] at h
  obtain ⟨a, ha, hd⟩ := h
  have : a.2.2 ∈ recvVerdicts t := by
    rw [← recvObs_flat_verdicts]; exact List.mem_map_of_mem ha
  exact deny_of_verdict this hd

theorem forwarded_flat {t : List Ev} (h : forwarded (flat t) = true) : ¬ NoUp t := by
  intro hn
  simp only [forwarded, List.any_eq_true] at h
  obtain ⟨o, ho, hx⟩ := h
  simp only [flat, List.mem_flatMap] at ho
  obtain ⟨e, he, hoe⟩ := ho
  have hup := hn e he
  cases e with
  | up r => cases hup
  | rpass p st invs => simp [flatEv] at hoe; obtain ⟨_, _, _, rfl⟩ := hoe; simp at hx
  | spass st invs => simp [flatEv] at hoe; obtain ⟨_, _, _, rfl⟩ := hoe; simp at hx
  | dh a b => simp [flatEv] at hoe; subst hoe; simp at hx
  | dd a => simp [flatEv] at hoe; subst hoe; simp at hx
  | dt => simp [flatEv] at hoe; subst hoe; simp at hx
  | unmodelled p => simp [flatEv] at hoe

theorem answered_flat {t : List Ev} (h : answered (flat t) = true) : answeredIn t := by
  simp only [answered, List.any_eq_true] at h
  obtain ⟨a, ha, hd⟩ := h
  exact ⟨a.2.2, by rw [← recvObs_flat_verdicts]; exact List.mem_map_of_mem ha, hd⟩

theorem sendObs_flatEv (e : Ev) : sendObs (flatEv e) = match e with | .spass _ invs => invs | _ => [] := by
  cases e with
  | spass st invs =>
    simp only [flatEv]
    induction invs with
    | nil => rfl
    | cons a r ih => simp [sendObs, ih]
  | rpass p st invs =>
    simp only [flatEv]
    induction invs with
    | nil => rfl
    | cons a r ih => simpa [sendObs] using ih
  | up r => cases r <;> rfl
  | dh s e => rfl
  | dd e => rfl
  | dt => rfl
  | unmodelled p => rfl

theorem not_terminated_flat {t : List Ev} (h : terminated (flat t) = false) : ¬ terminatedIn t := by
  simp only [terminated, Bool.or_eq_false_iff] at h
  obtain ⟨h1, h2⟩ := h
  rintro (⟨v, hv, ht⟩ | ⟨st, invs, hm, iv, hiv, ht⟩)
  · rw [← recvObs_flat_verdicts] at hv
    obtain ⟨a, ha, rfl⟩ := List.mem_map.mp hv
    have : (recvObs (flat t)).any (fun x => x.2.2.status == .termination) = true := by
      simp only [List.any_eq_true]; exact ⟨a, ha, by simp [ht]⟩
    simp only [List.any_eq_false] at h1
    have := h1 a ha
    simp [ht] at this
  · have hmem : iv ∈ sendObs (flat t) := by
      have hsplit := List.append_of_mem hm
      obtain ⟨pre, post, rfl⟩ := hsplit
      rw [flat_append, sendObs_append]
      have : flat (Ev.spass st invs :: post) = flatEv (Ev.spass st invs) ++ flat post := by simp [flat]
      rw [this, sendObs_append, sendObs_flatEv]
      exact List.mem_append_right _ (List.mem_append_left _ hiv)
    simp only [List.any_eq_false] at h2
    have := h2 iv hmem
    simp [ht] at this

/-! ### the response side on the flat list -/

def nonBackObs : Obs → Bool
  | .f _ _ _ => true
  | .un => true
  | .uf => true
  | _ => false

theorem flatEv_nonBack (e : Ev) (h : isBack e = false) : ∀ o ∈ flatEv e, nonBackObs o = true := by
  intro o ho
  cases e with
  | rpass p st invs => simp [flatEv] at ho; obtain ⟨_, _, _, rfl⟩ := ho; rfl
  | up r => cases r <;> simp [flatEv] at ho <;> subst ho <;> rfl
  | unmodelled p => simp [flatEv] at ho
  | spass st invs => cases h
  | dh a b => cases h
  | dd a => cases h
  | dt => cases h

theorem sendObs_skip (l rest : List Obs) (h : ∀ o ∈ l, nonBackObs o = true) : sendObs (l ++ rest) = sendObs rest := by
  induction l with
  | nil => rfl
  | cons o r ih =>
    have ho := h o (by simp)
    have := ih (fun x hx => h x (by simp [hx]))
    cases o <;> simp [nonBackObs] at ho <;> simpa [sendObs] using this

theorem replyObs_skip (l rest : List Obs) (h : ∀ o ∈ l, nonBackObs o = true) : replyObs (l ++ rest) = replyObs rest := by
  induction l with
  | nil => rfl
  | cons o r ih =>
    have ho := h o (by simp)
    have := ih (fun x hx => h x (by simp [hx]))
    cases o <;> simp [nonBackObs] at ho <;> simpa [replyObs] using this

theorem sendBeforeReply_skip (l rest : List Obs) (h : ∀ o ∈ l, nonBackObs o = true) :
    sendBeforeReply (l ++ rest) = sendBeforeReply rest := by
  induction l with
  | nil => rfl
  | cons o r ih =>
    have ho := h o (by simp)
    have := ih (fun x hx => h x (by simp [hx]))
    cases o <;> simp [nonBackObs] at ho <;> simpa [sendBeforeReply] using this

theorem count_skip (p : Obs → Bool) (hp : ∀ o, nonBackObs o = true → p o = false) (l rest : List Obs)
    (h : ∀ o ∈ l, nonBackObs o = true) : count p (l ++ rest) = count p rest := by
  induction l with
  | nil => rfl
  | cons o r ih =>
    have ho := h o (by simp)
    have := ih (fun x hx => h x (by simp [hx]))
    simp only [count, List.cons_append, List.filter_cons, hp o ho, Bool.false_eq_true, if_false] at this ⊢
    exact this

theorem replyObs_fs_prefix (invs : List SInv) (rest : List Obs) :
    replyObs (invs.map (fun iv => Obs.fs iv.1 iv.2) ++ rest) = replyObs rest := by
  induction invs with
  | nil => rfl
  | cons a r ih => simpa [replyObs] using ih

theorem sendBeforeReply_fs_prefix (invs : List SInv) (rest : List Obs) :
    sendBeforeReply (invs.map (fun iv => Obs.fs iv.1 iv.2) ++ rest) = sendBeforeReply rest := by
  induction invs with
  | nil => rfl
  | cons a r ih => simpa [sendBeforeReply] using ih

/-- the response-side projections of the flat list only see the response-side events -/
theorem back_proj (t : List Ev) :
    sendObs (flat t) = sendObs (flat (backPart t)) ∧ replyObs (flat t) = replyObs (flat (backPart t)) ∧
    sendBeforeReply (flat t) = sendBeforeReply (flat (backPart t)) ∧
    count isDh (flat t) = count isDh (flat (backPart t)) ∧ count isDd (flat t) = count isDd (flat (backPart t)) ∧
    count isDt (flat t) = count isDt (flat (backPart t)) := by
  induction t with
  | nil => exact ⟨rfl, rfl, rfl, rfl, rfl, rfl⟩
  | cons e r ih =>
    obtain ⟨i1, i2, i3, i4, i5, i6⟩ := ih
    have hflat : flat (e :: r) = flatEv e ++ flat r := by simp [flat]
    cases hb : isBack e
    · have hbp : backPart (e :: r) = backPart r := by simp [backPart, List.filter_cons, hb]
      have hnb := flatEv_nonBack e hb
      rw [hflat, hbp]
      refine ⟨by rw [sendObs_skip _ _ hnb, i1], by rw [replyObs_skip _ _ hnb, i2],
        by rw [sendBeforeReply_skip _ _ hnb, i3], ?_, ?_, ?_⟩
      · rw [count_skip isDh (fun o ho => by cases o <;> simp [nonBackObs] at ho <;> rfl) _ _ hnb, i4]
      · rw [count_skip isDd (fun o ho => by cases o <;> simp [nonBackObs] at ho <;> rfl) _ _ hnb, i5]
      · rw [count_skip isDt (fun o ho => by cases o <;> simp [nonBackObs] at ho <;> rfl) _ _ hnb, i6]
    · have hbp : backPart (e :: r) = e :: backPart r := by simp [backPart, List.filter_cons, hb]
      have hflat' : flat (e :: backPart r) = flatEv e ++ flat (backPart r) := by simp [flat]
      rw [hflat, hbp, hflat']
      refine ⟨by rw [sendObs_append, sendObs_append, i1], ?_, ?_, ?_, ?_, ?_⟩
      · cases e <;> simp [isBack] at hb <;> simp [flatEv, replyObs, i2, replyObs_fs_prefix]
      · cases e <;> simp [isBack] at hb <;> simp [flatEv, sendBeforeReply, i3, i1, sendBeforeReply_fs_prefix]
      · simp only [count, List.filter_append, List.length_append] at i4 ⊢; rw [i4]
      · simp only [count, List.filter_append, List.length_append] at i5 ⊢; rw [i5]
      · simp only [count, List.filter_append, List.length_append] at i6 ⊢; rw [i6]

theorem replyShape_cases (rest : List Ev) (h : replyShape rest = true) :
    rest = [] ∨ (∃ a b, rest = [.dh a b]) ∨ (∃ a b d, rest = [.dh a b, .dd d]) ∨ (∃ a b, rest = [.dh a b, .dt]) ∨
      (∃ a b d, rest = [.dh a b, .dd d, .dt]) := by
  unfold replyShape at h
  split at h
  · exact Or.inl rfl
  · exact Or.inr (Or.inl ⟨_, _, rfl⟩)
  · exact Or.inr (Or.inr (Or.inl ⟨_, _, _, rfl⟩))
  · exact Or.inr (Or.inr (Or.inr (Or.inl ⟨_, _, rfl⟩)))
  · exact Or.inr (Or.inr (Or.inr (Or.inr ⟨_, _, _, rfl⟩)))
  · cases h

theorem sendObs_fs_map (invs : List SInv) (rest : List Obs) :
    sendObs (invs.map (fun iv => Obs.fs iv.1 iv.2) ++ rest) = invs ++ sendObs rest := by
  induction invs with
  | nil => rfl
  | cons a r ih => simp [sendObs, ih]

theorem count_fs_map (p : Obs → Bool) (hp : ∀ i st, p (.fs i st) = false) (invs : List SInv) (rest : List Obs) :
    count p (invs.map (fun iv => Obs.fs iv.1 iv.2) ++ rest) = count p rest := by
  induction invs with
  | nil => rfl
  | cons a r ih =>
    simp only [count, List.map_cons, List.cons_append, List.filter_cons, hp, Bool.false_eq_true, if_false] at ih ⊢
    exact ih

/-- **sender-once on the flat list** -/
theorem sendOK_of_SpOK (c : Cfg) (t : List Ev) (h : SpOK c t) : sendOK c (flat t) = true := by
  obtain ⟨p1, _, p3, p4, p5, p6⟩ := back_proj t
  unfold sendOK
  rw [p1, p3, p4, p5, p6]
  rcases h with h | ⟨rest, h, hs⟩
  · rw [h]; rfl
  · rw [h]
    have hflat : flat (Ev.spass 0 (sendRun c.send 0) :: rest) =
        (sendRun c.send 0).map (fun iv => Obs.fs iv.1 iv.2) ++ flat rest := by simp [flat, flatEv]
    rw [hflat, sendObs_fs_map, sendBeforeReply_fs_prefix,
      count_fs_map isDh (fun _ _ => rfl), count_fs_map isDd (fun _ _ => rfl), count_fs_map isDt (fun _ _ => rfl)]
    rcases replyShape_cases rest hs with rfl | ⟨a, b, rfl⟩ | ⟨a, b, d, rfl⟩ | ⟨a, b, rfl⟩ | ⟨a, b, d, rfl⟩ <;>
      simp [flat, flatEv, sendObs, sendBeforeReply, count, isDh, isDd, isDt, List.filter_cons]

theorem phasesOK_of_reg (c : Cfg) (l : List (Nat × RPhase × Verdict))
    (h : ∀ a ∈ l, ∃ f, c.recv[a.1]? = some f ∧ f.phase = a.2.1) : phasesOK c l = true := by
  simp only [phasesOK, List.all_eq_true]
  intro a ha
  obtain ⟨f, hf, hp⟩ := h a ha
  obtain ⟨i, p, v⟩ := a
  simp only at hf hp ⊢
  rw [hf]; simp [hp]

theorem replyOf_trailers (l : List Verdict) (acc : Option Resp × Option Nat)
    (h : ∀ r, acc.1 = some r → r.trailers = false) : ∀ r, (replyOf l acc).1 = some r → r.trailers = false := by
  induction l generalizing acc with
  | nil => exact h
  | cons v rest ih =>
    obtain ⟨resp, code⟩ := acc
    simp only [replyOf]
    apply ih
    cases v.act with
    | none => exact h
    | hijack k b => intro r hr; simp at hr; rw [← hr]
    | direct => intro r hr; simp at hr; rw [← hr]
    | terminate k =>
      simp only
      split
      · exact h
      · intro r hr; simp at hr; rw [← hr]

/-- **single reply on the flat list** -/
theorem singleReplyOK_of (c : Cfg) (t : List Ev)
    (h : answeredIn t → ¬ terminatedIn t → c.env.oneway = false →
      ∃ r code, replyOf (recvVerdicts t) (none, none) = (some r, code) ∧
        backPart t = .spass 0 (sendRun c.send 0) :: replyEvs r code) :
    singleReplyOK c (flat t) = true := by
  unfold singleReplyOK
  split
  · rename_i hc
    simp only [Bool.and_eq_true, Bool.not_eq_true', Bool.not_eq_eq_eq_not, Bool.not_true] at hc
    obtain ⟨⟨ha, hnt⟩, hno⟩ := hc
    obtain ⟨r, code, hr, hb⟩ := h (answered_flat ha) (not_terminated_flat hnt) (by simpa using hno)
    rw [recvObs_flat_verdicts, hr]
    simp only
    obtain ⟨p1, p2, _⟩ := back_proj t
    rw [p1, p2, hb]
    have htr : r.trailers = false := replyOf_trailers (recvVerdicts t) (none, none) (fun _ h => by cases h) r (by rw [hr])
    have hflat : flat (Ev.spass 0 (sendRun c.send 0) :: replyEvs r code) =
        (sendRun c.send 0).map (fun iv => Obs.fs iv.1 iv.2) ++ flat (replyEvs r code) := by simp [flat, flatEv]
    rw [hflat, sendObs_fs_map, replyObs_fs_prefix]
    obtain ⟨d, tr⟩ := r
    simp only at htr
    subst htr
    cases d <;> simp [replyEvs, flat, flatEv, replyObs, sendObs]
  · rfl

end MosnVerif.Model.FilterSpec
