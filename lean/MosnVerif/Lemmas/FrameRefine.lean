import MosnVerif.Lemmas.FrameChk
/-! the checked-access decoders (C08) classify every buffer exactly as the `frameStep`s of C07 do -/
namespace MosnVerif.Model.FrameChk
open MosnVerif.Model.Framing MosnVerif.Model.FrameBytes MosnVerif.Model.KVBlock MosnVerif.Model.FrameSteps
open MosnVerif.Gen.FrameLen MosnVerif.Gen.FrameConsts

theorem be_take (b : Bytes) (n lo hi : Nat) (h : hi ≤ n) : be (b.take n) lo hi = be b lo hi := by
  simp [be, List.take_take, Nat.min_eq_left h]

theorem fld_take (b : Bytes) (n : Nat) (r : Nat × Nat) (h : r.2 ≤ n) : fld (b.take n) r = fld b r :=
  be_take b n r.1 r.2 h

theorem u8_take (b : Bytes) (n i : Nat) (h : i < n) : u8 (b.take n) i = u8 b i := be_take b n i (i + 1) h

theorem out_alloc (n : Nat) (r : Res) : (alloc n r).out = r.out := rfl

theorem hdrLen_ge (id : LayId) : 20 ≤ (layoutOf id).hdrLen := by
  cases id <;> simp only [layoutOf] <;> frame_consts_defs <;> omega

theorem v1rules_take (b : Bytes) (n : Nat) (id : LayId) (h : v1rules b = .lay id) (hn : (layoutOf id).hdrLen ≤ n)
    (hb : n ≤ b.length) : v1rules (b.take n) = .lay id := by
  have h20 := hdrLen_ge id
  unfold v1rules at h ⊢
  have e1 : bolt_enough b.length = true := by frame_len_defs; simp; omega
  have e2 : bolt_enough (b.take n).length = true := by
    rw [List.length_take, Nat.min_eq_left hb]; frame_len_defs; simp; omega
  have hi : bolt_cmdTypeIdx < n := by frame_len_defs; omega
  rw [e1] at h
  rw [e2, u8_take b n _ hi]
  exact h

theorem v2rules_take (b : Bytes) (n : Nat) (id : LayId) (h : v2rules b = .lay id) (hn : (layoutOf id).hdrLen ≤ n)
    (hb : n ≤ b.length) : v2rules (b.take n) = .lay id := by
  unfold v2rules at h ⊢
  -- v2rules only answers v2 layouts, whose header is ≥ 22 bytes
  have hid : 22 ≤ (layoutOf id).hdrLen := by
    by_cases he : boltv2_enough b.length
    · simp only [he, Bool.not_true, Bool.false_eq_true, ↓reduceIte] at h
      split at h <;> simp at h <;> subst h <;> simp only [layoutOf] <;> frame_consts_defs <;> omega
    · simp [he] at h
  have e1 : boltv2_enough b.length = true := by frame_len_defs; simp; omega
  have e2 : boltv2_enough (b.take n).length = true := by
    rw [List.length_take, Nat.min_eq_left hb]; frame_len_defs; simp; omega
  have hi : boltv2_cmdTypeIdx < n := by frame_len_defs; omega
  rw [e1] at h
  rw [e2, u8_take b n _ hi]
  exact h

theorem boltSel_take : ∀ (k : Nat) (v2 : Bool) (b : Bytes) (n : Nat) (id : LayId), boltSel k v2 b = .lay id →
    (layoutOf id).hdrLen ≤ n → n ≤ b.length → boltSel k v2 (b.take n) = .lay id := by
  intro k
  induction k with
  | zero => intro v2 b n id h; simp [boltSel] at h
  | succ k ih =>
    intro v2 b n id h hn hb
    have h20 := hdrLen_ge id
    have hl : (b.take n).length = n := by rw [List.length_take, Nat.min_eq_left hb]
    cases v2
    · unfold boltSel at h ⊢
      have hi : bolt_codeIdx < n := by frame_len_defs; omega
      have ne1 : bolt_nonEmpty b.length = true := by frame_len_defs; simp; omega
      have ne2 : bolt_nonEmpty (b.take n).length = true := by rw [hl]; frame_len_defs; simp; omega
      rw [ne1] at h
      rw [ne2, u8_take b n _ hi]
      split
      · rename_i hc; rw [if_pos hc] at h; exact ih true b n id h hn hb
      · rename_i hc; rw [if_neg hc] at h; exact v1rules_take b n id h hn hb
    · unfold boltSel at h ⊢
      have hi : boltv2_codeIdx < n := by frame_len_defs; omega
      have ne1 : boltv2_nonEmpty b.length = true := by frame_len_defs; simp; omega
      have ne2 : boltv2_nonEmpty (b.take n).length = true := by rw [hl]; frame_len_defs; simp; omega
      rw [ne1] at h
      rw [ne2, u8_take b n _ hi]
      split
      · rename_i hc; rw [if_pos hc] at h; exact ih false b n id h hn hb
      · rename_i hc; rw [if_neg hc] at h; exact v2rules_take b n id h hn hb

/-- what `chkLayout` computes, with every checked access discharged -/
theorem chkLayout_out (L : Layout) (hL : LayoutOk2 L) (b : Bytes) :
    (chkLayout L b).out =
      if L.short1 b.length then .needMore else
      let n := L.flen (fld b L.cl) (fld b L.hl) (fld b L.ctl)
      if L.short2 b.length n then .needMore else
      if fld b L.hl > 0 then
        (match safe (boltBlock L (b.take n)) with
         | .ok _ => .frame (L.drain n)
         | .err => .error (L.drain n)
         | .oob => .oob)
      else .frame (L.drain n) := by
  unfold chkLayout
  by_cases h1 : L.short1 b.length
  · simp only [h1, ↓reduceIte]; rfl
  · have h1' : L.short1 b.length = false := by simpa using h1
    have ⟨a1, a2, a3, a4⟩ := hL.f2 _ h1'
    simp only [h1, Bool.false_eq_true, ↓reduceIte]
    rw [rdBE_ok b L.cl _ hL.f1.1 a1, rdBE_ok b L.hl _ hL.f1.2.1 a2, rdBE_ok b L.ctl _ hL.f1.2.2 a3]
    by_cases h2 : L.short2 b.length (L.flen (fld b L.cl) (fld b L.hl) (fld b L.ctl))
    · simp only [h2, ↓reduceIte]; rfl
    · have h2' := hL.f3 _ _ (by simpa using h2)
      simp only [h2, Bool.false_eq_true, ↓reduceIte]
      have hfl := hL.f4 (fld b L.cl) (fld b L.hl) (fld b L.ctl)
      generalize hN : L.flen (fld b L.cl) (fld b L.hl) (fld b L.ctl) = N at h2' hfl ⊢
      have hclN : L.hl.2 ≤ N ∧ L.cl.2 ≤ N := by have := hL.f9; omega
      rw [need_ok b _ _ a4, out_alloc, slice_ok b 0 N _ (by omega) h2']
      have hraw : ((b.take N).drop 0) = b.take N := by simp
      rw [hraw]
      have hrl : (b.take N).length = N := by rw [List.length_take, Nat.min_eq_left h2']
      have hpos := hL.f8
      rw [slice_ok (b.take N) 0 L.hdrLen _ (by omega) (by omega)]
      simp only [hL.f5, hL.f6]
      have wrapC : ∀ r : Res, (if fld b L.cl > 0 then slice (b.take N) L.hdrLen (L.hdrLen + fld b L.cl) (fun _ => r) else r) = r := by
        intro r; split
        · rw [slice_ok _ _ _ _ (by omega) (by omega)]
        · rfl
      have wrapD : ∀ r : Res, (if fld b L.ctl > 0 then slice (b.take N) (L.hdrLen + fld b L.cl + fld b L.hl) (b.take N).length (fun _ => r) else r) = r := by
        intro r; split
        · rw [slice_ok _ _ _ _ (by omega) (by omega)]
        · rfl
      rw [wrapC, wrapD]
      by_cases hh : fld b L.hl > 0
      · simp only [hh, ↓reduceIte]
        rw [slice_ok _ _ _ _ (by omega) (by omega)]
        have hblk : boltBlock L (b.take N) =
            ((b.take N).take (L.hdrLen + fld b L.cl + fld b L.hl)).drop (L.hdrLen + fld b L.cl) := by
          unfold boltBlock
          simp only [hL.f5, hL.f6, fld_take b N L.cl hclN.2, fld_take b N L.hl hclN.1]
        rw [hblk]
        cases safe (((b.take N).take (L.hdrLen + fld b L.cl + fld b L.hl)).drop (L.hdrLen + fld b L.cl)) <;> rfl
      · simp only [hh, ↓reduceIte]; rfl

/-- **bolt / boltv2**: the checked decoder and the `frameStep` of C07 agree on every buffer -/
theorem chkBolt_refines (v2 : Bool) (b : Bytes) :
    (chkBolt v2 b).out.toStep b = envelope (boltHdr v2) (boltOk v2) b := by
  unfold chkBolt envelope boltHdr
  rw [chkSel_eq]
  cases hs : boltSel selFuel v2 b with
  | needMore => rfl
  | error => rfl
  | lay id =>
    have hL := layoutOk2 id
    simp only
    rw [chkLayout_out _ hL b]
    unfold layoutHdr
    by_cases h1 : (layoutOf id).short1 b.length
    · simp only [h1, ↓reduceIte]; rfl
    · have h1' : (layoutOf id).short1 b.length = false := by simpa using h1
      have ⟨a1, a2, a3, a4⟩ := hL.f2 _ h1'
      simp only [h1, Bool.false_eq_true, ↓reduceIte]
      by_cases h2 : (layoutOf id).short2 b.length ((layoutOf id).flen (fld b (layoutOf id).cl) (fld b (layoutOf id).hl) (fld b (layoutOf id).ctl))
      · simp only [h2, ↓reduceIte]; rfl
      · have h2' := hL.f3 _ _ (by simpa using h2)
        simp only [h2, Bool.false_eq_true, ↓reduceIte]
        have hfl := hL.f4 (fld b (layoutOf id).cl) (fld b (layoutOf id).hl) (fld b (layoutOf id).ctl)
        generalize hN : (layoutOf id).flen (fld b (layoutOf id).cl) (fld b (layoutOf id).hl) (fld b (layoutOf id).ctl) = N at h2' hfl ⊢
        rw [hL.f7]
        have hsel : boltSel selFuel v2 (b.take N) = .lay id := boltSel_take selFuel v2 b N id hs (by omega) h2'
        unfold boltOk
        rw [hsel]
        simp only
        have hft : fld (b.take N) (layoutOf id).hl = fld b (layoutOf id).hl := fld_take b N _ (by have := hL.f9; omega)
        simp only [hft]
        by_cases hh : fld b (layoutOf id).hl > 0
        · simp only [hh, ↓reduceIte]
          cases hk : safe (boltBlock (layoutOf id) (b.take N)) with
          | ok p => simp [Out.toStep, isOk]
          | err => simp [Out.toStep, isOk]
          | oob => exact absurd hk (safe_no_oob _)
        · simp only [hh, ↓reduceIte]; rfl

theorem chkDubbo_refines (oracle : Bytes → Bool) (b : Bytes) :
    (chkDubbo oracle b).out.toStep b = frameStep_dubbo oracle b := by
  unfold chkDubbo frameStep_dubbo envelope dubboHdr
  by_cases h1 : dubbo_enough1 b.length
  · have hl : 16 ≤ b.length := by frame_len_defs; simpa using h1
    simp only [h1, Bool.not_true, Bool.false_eq_true, ↓reduceIte]
    rw [rdBE_ok b dubbo_payLoadLen _ (by frame_len_defs; omega) (by frame_len_defs; omega)]
    by_cases h2 : dubbo_enough2 b.length (fld b dubbo_payLoadLen)
    · simp only [h2, Bool.not_true, Bool.false_eq_true, ↓reduceIte]
      rw [need_ok b _ _ (by frame_consts_defs; omega),
        rdBE_ok b dubbo_dataLen _ (by frame_len_defs; omega) (by frame_len_defs; omega)]
      have hsame : fld b dubbo_dataLen = fld b dubbo_payLoadLen := by frame_len_defs
      have hn : dubbo_frameLen (fld b dubbo_dataLen) ≤ b.length := by
        rw [hsame]; frame_len_defs; simp at h2; omega
      have hN : 16 ≤ dubbo_frameLen (fld b dubbo_dataLen) := by frame_len_defs; omega
      have hd : ∀ N, dubbo_drain N = N := by intro N; frame_len_defs
      generalize dubbo_frameLen (fld b dubbo_dataLen) = N at hn hN ⊢
      rw [out_alloc, slice_ok b 0 N _ (by omega) hn]
      have hraw : ((b.take N).drop 0) = b.take N := by simp
      have hrl : (b.take N).length = N := by rw [List.length_take, Nat.min_eq_left hn]
      rw [hraw, slice_ok (b.take N) _ _ _ (by frame_consts_defs; omega) (by omega), hd]
      unfold dubboOk
      by_cases hu : dubboUsesOracle (b.take N)
      · simp only [hu, ↓reduceIte]
        by_cases ho : oracle (b.take N) <;> simp [ho, Out.toStep, Res.frame, Res.error]
      · simp [hu, Out.toStep, Res.frame]
    · simp only [h2, Bool.not_false, ↓reduceIte]; rfl
  · simp only [h1, Bool.not_false, ↓reduceIte]; rfl

theorem chkTars_refines (oracle : Bytes → Bool) (b : Bytes) :
    (chkTars oracle b).out.toStep b = frameStep_tars oracle b := by
  unfold chkTars frameStep_tars envelope tarsHdr
  by_cases h1 : b.length < tars_lenFieldSize
  · simp only [h1, ↓reduceIte]; rfl
  · simp only [h1, ↓reduceIte]
    rw [rdBE_ok b _ _ (by simp) (by simp; omega)]
    have hf : fld b (0, tars_lenFieldSize) = be b 0 tars_lenFieldSize := rfl
    rw [hf]
    generalize be b 0 tars_lenFieldSize = n
    by_cases h2 : n < tars_minPackageLength ∨ n > tars_maxPackageLength
    · simp only [h2, ↓reduceIte]
      split <;> rfl
    · simp only [h2, ↓reduceIte]
      by_cases h3 : b.length < n
      · simp only [h3, ↓reduceIte]; rfl
      · simp only [h3, ↓reduceIte]
        rw [slice_ok b _ _ _ (by frame_consts_defs; omega) (by omega), out_alloc, slice_ok b 0 n _ (by omega) (by omega)]
        have hraw : ((b.take n).drop 0) = b.take n := by simp
        rw [hraw]
        by_cases ho : oracle (b.take n) <;> simp [ho, Out.toStep, Res.frame, Res.error]

theorem chkThrift_refines (oracle : Bytes → Bool) (b : Bytes) :
    (chkThrift oracle b).out.toStep b = frameStep_thrift oracle b := by
  unfold chkThrift frameStep_thrift envelope thriftHdr
  by_cases h1 : thrift_enough1 b.length
  · have hl : 6 ≤ b.length := by frame_len_defs; simpa using h1
    simp only [h1, Bool.not_true, Bool.false_eq_true, ↓reduceIte]
    rw [rdBE_ok b thrift_sizeField _ (by frame_len_defs; omega) (by frame_len_defs; omega)]
    by_cases h2 : thrift_enough2 b.length (fld b thrift_sizeField)
    · simp only [h2, Bool.not_true, Bool.false_eq_true, ↓reduceIte]
      rw [rdBE_ok b thrift_messageLen _ (by frame_len_defs; omega) (by frame_len_defs; omega)]
      have hsame : fld b thrift_messageLen = fld b thrift_sizeField := by frame_len_defs
      have hn : fld b thrift_messageLen + 4 ≤ b.length := by
        rw [hsame]; frame_len_defs; simp at h2; omega
      have hfl : ∀ m, thrift_drain (thrift_frameLength m) = m + 4 := by intro m; frame_len_defs
      have hlo : thrift_bodyLo = 4 := by frame_len_defs
      have hhi : ∀ m, thrift_bodyHi m = 4 + m := by intro m; frame_len_defs; try omega
      have hfr : ∀ m, thrift_frameLength m = m + 4 := by intro m; frame_len_defs
      have hml : thrift_messageLen.2 ≤ 4 := by frame_len_defs; omega
      generalize hm : fld b thrift_messageLen = m at hn ⊢
      rw [hfl, hlo, hhi, hfr]
      -- the body as the abstract decoder sees it (from the frame bytes) is the body the checked decoder slices
      have hbody : thriftBody (b.take (m + 4)) = (b.take (4 + m)).drop 4 := by
        unfold thriftBody
        rw [fld_take b (m + 4) _ (by omega), hm, hlo, hhi, List.take_take]
        simp [Nat.add_comm]
      have hblen : ((b.take (4 + m)).drop 4).length = m := by
        rw [slice_len b 4 (4 + m) (by omega)]; omega
      rw [slice_ok b 4 (4 + m) _ (by omega) (by omega)]
      generalize hbd : (b.take (4 + m)).drop 4 = body at hbody hblen ⊢
      unfold thriftOk thriftBoundsOk
      rw [hbody]
      simp only [hblen]
      have hidx : thrift_HeaderIdx = 9 ∧ thrift_MagicLen = 2 ∧ thrift_MessageLenIdx = 2 ∧ thrift_MessageLenSize = 4 ∧
          thrift_headerLength = (6, 8) := by frame_consts_defs; frame_len_defs; simp
      obtain ⟨e1, e2, e3, e4, e5⟩ := hidx
      rw [e1, e2, e3, e4, e5]
      by_cases h9 : 9 ≤ m
      · rw [slice_ok body 0 2 _ (by omega) (by omega), rdBE_ok body (2, 2 + 4) _ (by simp) (by simp; omega),
          rdBE_ok body (6, 8) _ (by simp) (by simp; omega), slice_ok b 0 (m + 4) _ (by omega) (by omega)]
        have hraw : ((b.take (m + 4)).drop 0) = b.take (m + 4) := by simp
        rw [hraw]
        by_cases hh : fld body (6, 8) ≤ m
        · rw [slice_ok body _ _ _ (by omega) (by omega), slice_ok body 9 _ _ (by omega) (by omega)]
          by_cases ho : oracle (b.take (m + 4)) <;>
            simp [ho, h9, hh, recovered, Out.toStep, Res.frame, Res.error]
        · have : (slice body (fld body (6, 8)) m fun _ =>
              slice body 9 m fun _ =>
                if oracle (b.take (m + 4)) = true then Res.frame (m + 4) else Res.error 0) = Res.oob := by
            simp only [slice]; rw [if_neg (by omega)]
          rw [this]
          simp [recovered, Res.oob, Out.toStep, h9, hh]
      · -- fewer than 9 body bytes: some slice below fails, the panic is recovered: a decode error
        have hE : ∀ r : Res, r.out = .oob → (recovered r).out.toStep b = Step.error := by
          intro r hr; simp [recovered, hr, Out.toStep]
        rw [hE]
        · simp [h9]
        · simp only [slice, rdBE, Res.oob]
          repeat' split
          all_goals first | rfl | omega
    · simp only [h2, Bool.not_false, ↓reduceIte]; rfl
  · simp only [h1, Bool.not_false, ↓reduceIte]; rfl

end MosnVerif.Model.FrameChk
