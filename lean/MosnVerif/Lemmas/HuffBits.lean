import MosnVerif.Model.HuffTree
/-!
Bit strings of numbers (`Model.Huffman.bitsOf`, most significant bit first): append / take / drop / prefix / all-ones
in terms of `/ 2^n` and `% 2^n`.
-/
namespace MosnVerif.Lemmas.HuffBits
open MosnVerif.Model.Huffman

theorem bitsOf_zero (v : Nat) : bitsOf v 0 = [] := rfl

theorem bit_eq (v n : Nat) : ((v >>> n) % 2 == 1) = v.testBit n := by
  rw [Nat.testBit_eq_decide_div_mod_eq, Nat.shiftRight_eq_div_pow]
  cases h : decide (v / 2 ^ n % 2 = 1) <;> simp_all

theorem bitsOf_succ (v n : Nat) : bitsOf v (n + 1) = v.testBit n :: bitsOf v n := by
  unfold bitsOf
  rw [List.range_succ_eq_map, List.map_cons, List.map_map]
  congr 1
  · rw [← bit_eq]; simp
  · apply List.map_congr_left
    intro k _
    simp only [Function.comp]
    have : n + 1 - 1 - (k + 1) = n - 1 - k := by omega
    rw [show Nat.succ k = k + 1 from rfl, this]

@[simp] theorem length_bitsOf (v n : Nat) : (bitsOf v n).length = n := by simp [bitsOf]

theorem bitsOf_congr (a b n : Nat) (h : a % 2 ^ n = b % 2 ^ n) : bitsOf a n = bitsOf b n := by
  induction n with
  | zero => rfl
  | succ n ih =>
    rw [bitsOf_succ, bitsOf_succ]
    have h1 : a % 2 ^ n = b % 2 ^ n := by
      have := congrArg (· % 2 ^ n) h
      simp only [Nat.pow_succ] at this
      rwa [Nat.mod_mul_right_mod, Nat.mod_mul_right_mod] at this
    rw [ih h1]
    congr 1
    have ha := Nat.testBit_mod_two_pow a (n + 1) n
    have hb := Nat.testBit_mod_two_pow b (n + 1) n
    simp only [Nat.lt_succ_self, decide_true, Bool.true_and] at ha hb
    rw [← ha, ← hb, h]

theorem bitsOf_mod (v n m : Nat) (h : n ≤ m) : bitsOf (v % 2 ^ m) n = bitsOf v n := by
  apply bitsOf_congr
  rw [Nat.mod_mod_of_dvd _ (Nat.pow_dvd_pow 2 h)]

/-- the high `m` and the low `n` bits -/
theorem bitsOf_add (v m n : Nat) : bitsOf v (m + n) = bitsOf (v / 2 ^ n) m ++ bitsOf v n := by
  induction m with
  | zero => simp [bitsOf_zero]
  | succ m ih =>
    rw [show m + 1 + n = (m + n) + 1 by omega, bitsOf_succ, bitsOf_succ, ih, List.cons_append]
    congr 1
    rw [Nat.testBit_div_two_pow, Nat.add_comm]

theorem bitsOf_mul_add (a b m n : Nat) (hb : b < 2 ^ n) : bitsOf (a * 2 ^ n + b) (m + n) = bitsOf a m ++ bitsOf b n := by
  rw [bitsOf_add]
  congr 1
  · rw [Nat.add_comm, Nat.add_mul_div_right _ _ (Nat.two_pow_pos n), Nat.div_eq_of_lt hb, Nat.zero_add]
  · apply bitsOf_congr
    rw [Nat.add_comm, Nat.add_mul_mod_self_right]

theorem take_bitsOf (v m n : Nat) : (bitsOf v (m + n)).take m = bitsOf (v / 2 ^ n) m := by
  rw [bitsOf_add, List.take_left' (length_bitsOf _ _)]

theorem drop_bitsOf (v m n : Nat) : (bitsOf v (m + n)).drop m = bitsOf v n := by
  rw [bitsOf_add, List.drop_left' (length_bitsOf _ _)]

/-- bits back to the number -/
def val (l : List Bool) : Nat := l.foldl (fun a b => 2 * a + (if b then 1 else 0)) 0

theorem val_foldl (l : List Bool) (a : Nat) :
    l.foldl (fun a b => 2 * a + (if b then 1 else 0)) a = a * 2 ^ l.length + val l := by
  induction l generalizing a with
  | nil => simp [val]
  | cons b r ih =>
    simp only [List.foldl_cons, List.length_cons, val]
    rw [ih, ih (2 * 0 + _)]
    rw [Nat.pow_succ]
    simp only [Nat.add_mul, Nat.mul_assoc, Nat.mul_comm]
    omega

theorem val_cons (b : Bool) (l : List Bool) : val (b :: l) = (if b then 1 else 0) * 2 ^ l.length + val l := by
  simp only [val, List.foldl_cons]
  rw [val_foldl]
  simp [val]

theorem val_lt (l : List Bool) : val l < 2 ^ l.length := by
  induction l with
  | nil => simp [val]
  | cons b r ih =>
    rw [val_cons, List.length_cons, Nat.pow_succ]
    split <;> omega

theorem testBit_high (b : Bool) (x n : Nat) (hx : x < 2 ^ n) : ((if b then 1 else 0) * 2 ^ n + x).testBit n = b := by
  rw [Nat.testBit_eq_decide_div_mod_eq, Nat.add_comm, Nat.add_mul_div_right _ _ (Nat.two_pow_pos n), Nat.div_eq_of_lt hx]
  cases b <;> simp

theorem bitsOf_val (l : List Bool) : bitsOf (val l) l.length = l := by
  induction l with
  | nil => rfl
  | cons b r ih =>
    rw [List.length_cons, bitsOf_succ, val_cons, testBit_high b _ _ (val_lt r)]
    congr 1
    have : bitsOf ((if b = true then 1 else 0) * 2 ^ r.length + val r) r.length = bitsOf (val r) r.length := by
      apply bitsOf_congr
      rw [Nat.add_comm, Nat.add_mul_mod_self_right]
    rw [this, ih]

theorem val_bitsOf (v n : Nat) : val (bitsOf v n) = v % 2 ^ n := by
  induction n with
  | zero => simp [bitsOf_zero, val, Nat.mod_one]
  | succ n ih =>
    rw [bitsOf_succ, val_cons, length_bitsOf, ih]
    have h := Nat.mod_pow_succ (x := v) (b := 2) (k := n)
    rw [h, Nat.testBit_eq_decide_div_mod_eq]
    by_cases c : v / 2 ^ n % 2 = 1
    · simp [c, Nat.mul_comm, Nat.add_comm]
    · have : v / 2 ^ n % 2 = 0 := by omega
      simp [this]

theorem bitsOf_inj (a b n : Nat) (h : bitsOf a n = bitsOf b n) : a % 2 ^ n = b % 2 ^ n := by
  rw [← val_bitsOf, ← val_bitsOf, h]

/-- every bit string is the bit string of its value -/
theorem eq_bitsOf (l : List Bool) : l = bitsOf (val l) l.length := (bitsOf_val l).symm

theorem bitsOf_all_true (v n : Nat) : (bitsOf v n).all id = true ↔ v % 2 ^ n = 2 ^ n - 1 := by
  induction n with
  | zero => simp [bitsOf_zero, Nat.mod_one]
  | succ n ih =>
    rw [bitsOf_succ, List.all_cons, Bool.and_eq_true, ih, Nat.mod_pow_succ, Nat.testBit_eq_decide_div_mod_eq]
    have hp := Nat.two_pow_pos n
    have hl := Nat.mod_lt v hp
    simp only [id, decide_eq_true_eq, Nat.pow_succ]
    constructor
    · rintro ⟨h1, h2⟩; rw [h1, h2]; omega
    · intro h
      have : v / 2 ^ n % 2 < 2 := Nat.mod_lt _ (by decide)
      have h3 : v / 2 ^ n % 2 = 1 := by
        by_cases c : v / 2 ^ n % 2 = 1
        · exact c
        · have : v / 2 ^ n % 2 = 0 := by omega
          rw [this] at h; omega
      rw [h3] at h
      exact ⟨h3, by omega⟩

theorem bitsOf_replicate_true (n : Nat) : bitsOf (2 ^ n - 1) n = List.replicate n true := by
  have h : (bitsOf (2 ^ n - 1) n).all id = true := by
    rw [bitsOf_all_true]
    exact Nat.mod_eq_of_lt (by have := Nat.two_pow_pos n; omega)
  apply List.eq_replicate_iff.2
  refine ⟨length_bitsOf _ _, fun b hb => ?_⟩
  have := List.all_eq_true.1 h b hb
  simpa using this

theorem bitsOf_zero_val (n : Nat) : bitsOf 0 n = List.replicate n false := by
  induction n with
  | zero => rfl
  | succ n ih => rw [bitsOf_succ, ih]; simp [List.replicate_succ]

/-- `a` (of `m` bits) is a prefix of `b` (of `m + n` bits) iff the high bits of `b` are `a` -/
theorem prefix_iff (a b m n : Nat) : bitsOf a m <+: bitsOf b (m + n) ↔ a % 2 ^ m = b / 2 ^ n % 2 ^ m := by
  rw [bitsOf_add]
  constructor
  · intro h
    have h2 : bitsOf a m = bitsOf (b / 2 ^ n) m := by
      have := List.prefix_iff_eq_take.1 h
      rw [length_bitsOf, List.take_left' (length_bitsOf _ _)] at this
      exact this
    exact bitsOf_inj _ _ _ h2
  · intro h
    rw [bitsOf_congr _ _ _ h]
    exact List.prefix_append _ _

end MosnVerif.Lemmas.HuffBits
