import MosnVerif.Model.SubsetSlice
import MosnVerif.Lemmas.Subset
/-!
Lemmas for the slice-level model of the pre-index builder's cartesian product (C15): an extension of the received
combination slice that never mutates an existing backing array (`FreshExt`) makes the product independent of aliasing,
for every capacity policy; the regenerated statements `Gen.SubsetSlice.comboExtend` are such an extension.  Core Lean only.
-/
namespace MosnVerif.Model.SubsetSlice
open MosnVerif MosnVerif.Model.Subset

/-! ### A. stores, liveness of a slice, growth of the store -/

/-- the slice's elements all exist in its backing array (nil slices are live in every store) -/
def Live (st : Store) (s : Slice) : Prop := s.len ≤ (arrayOf st s.arr).length

theorem arrayOf_append_lt (st e : Store) (a : Nat) (h : a < st.length) : arrayOf (st ++ e) a = arrayOf st a := by
  unfold arrayOf
  rw [List.getElem?_append_left h]

theorem arrayOf_ge (st : Store) (a : Nat) (h : st.length ≤ a) : arrayOf st a = [] := by
  unfold arrayOf
  rw [List.getElem?_eq_none h]; rfl

theorem read_append (st e : Store) (s : Slice) (h : Live st s) : read (st ++ e) s = read st s := by
  unfold read
  rcases Nat.lt_or_ge s.arr st.length with hlt | hge
  · rw [arrayOf_append_lt st e _ hlt]
  · have h0 : s.len = 0 := by
      unfold Live at h; rw [arrayOf_ge st _ hge] at h; simpa using h
    rw [h0]; simp

theorem live_append (st e : Store) (s : Slice) (h : Live st s) : Live (st ++ e) s := by
  unfold Live at *
  rcases Nat.lt_or_ge s.arr st.length with hlt | hge
  · rw [arrayOf_append_lt st e _ hlt]; exact h
  · rw [arrayOf_ge st _ hge] at h
    have : s.len = 0 := by simpa using h
    omega

theorem read_length (st : Store) (s : Slice) (h : Live st s) : (read st s).length = s.len := by
  unfold read Live at *
  rw [List.length_take]; omega

theorem live_of_read_length (st : Store) (s : Slice) (h : (read st s).length = s.len) : Live st s := by
  unfold read at h; unfold Live
  rw [List.length_take] at h; omega

theorem live_nil (st : Store) : Live st Slice.nil := Nat.zero_le _

theorem read_nil (st : Store) : read st Slice.nil = [] := by simp [read, Slice.nil]

/-! ### B. extensions that never touch an existing array -/

/-- the extension of a live slice only ADDS arrays to the store, and hands on a slice denoting `prefix ++ [pair]` -/
def FreshExt (stmts : List Gen.SubsetSlice.Stmt) (res : Nat) : Prop :=
  ∀ (grow : Grow) (src : Slice) (pair : KV) (st : Store), Live st src →
    ∃ ext, (extendWith stmts res grow src pair st).2 = st ++ ext ∧
      (extendWith stmts res grow src pair st).1.len = src.len + 1 ∧
      read (st ++ ext) (extendWith stmts res grow src pair st).1 = read st src ++ [pair]

/-- what one iteration of the loop over the values contributes, on immutable lists (`Model.Subset.combosGo`) -/
def pureIter (ix : Index) (shuf : List Val → List Val) (n idx : Nat) (k : Key) (ks : List Key) (p : Path) (v : Val) :
    List Path :=
  if Gen.Subset.comboMore idx n then combosGo ix shuf n (idx + 1) ks (p ++ [(k, v)]) else [p ++ [(k, v)]]

theorem combosGo_cons (ix : Index) (shuf : List Val → List Val) (n idx : Nat) (k : Key) (ks : List Key) (p : Path) :
    combosGo ix shuf n idx (k :: ks) p =
      (shuf (((List.lookup k ix).getD []).map (·.1))).flatMap (pureIter ix shuf n idx k ks p) := rfl

/-- the loop body of `combosSlGo` -/
def iterSl (stmts : List Gen.SubsetSlice.Stmt) (res : Nat) (grow : Grow) (ix : Index) (shuf : List Val → List Val)
    (n idx : Nat) (k : Key) (ks : List Key) (kvs : Slice) (acc : List Slice × Store) (v : Val) : List Slice × Store :=
  let e := extendWith stmts res grow kvs (k, v) acc.2
  if Gen.Subset.comboMore idx n then
    let r := combosSlGo stmts res grow ix shuf n (idx + 1) ks e.1 e.2
    (acc.1 ++ r.1, r.2)
  else (acc.1 ++ [e.1], e.2)

theorem combosSlGo_cons (stmts : List Gen.SubsetSlice.Stmt) (res : Nat) (grow : Grow) (ix : Index)
    (shuf : List Val → List Val) (n idx : Nat) (k : Key) (ks : List Key) (kvs : Slice) (st : Store) :
    combosSlGo stmts res grow ix shuf n idx (k :: ks) kvs st =
      (shuf (((List.lookup k ix).getD []).map (·.1))).foldl (iterSl stmts res grow ix shuf n idx k ks kvs) ([], st) := rfl

/-- the invariant of the product: the store only grows, every finished slice is live, and reading the finished slices
gives the list-level product -/
def GoodRun (st : Store) (out : List Slice × Store) (want : List Path) : Prop :=
  ∃ ext, out.2 = st ++ ext ∧ (∀ r ∈ out.1, Live out.2 r) ∧ out.1.map (read out.2) = want

theorem map_read_append (st e : Store) (l : List Slice) (h : ∀ r ∈ l, Live st r) :
    l.map (read (st ++ e)) = l.map (read st) := by
  apply List.map_congr_left
  intro r hr
  exact read_append st e r (h r hr)

/-- the loop over the values, given the claim for the recursive calls -/
theorem loop_fresh (stmts : List Gen.SubsetSlice.Stmt) (res : Nat) (hF : FreshExt stmts res) (grow : Grow)
    (ix : Index) (shuf : List Val → List Val) (n idx : Nat) (k : Key) (ks : List Key) (kvs : Slice)
    (ih : ∀ (s : Slice) (st : Store), Live st s →
      GoodRun st (combosSlGo stmts res grow ix shuf n (idx + 1) ks s st) (combosGo ix shuf n (idx + 1) ks (read st s)))
    (vs : List Val) :
    ∀ (acc : List Slice × Store) (p : Path), Live acc.2 kvs → read acc.2 kvs = p → (∀ r ∈ acc.1, Live acc.2 r) →
      GoodRun acc.2 (vs.foldl (iterSl stmts res grow ix shuf n idx k ks kvs) acc)
        (acc.1.map (read acc.2) ++ vs.flatMap (pureIter ix shuf n idx k ks p)) := by
  induction vs with
  | nil =>
    intro acc p _ _ hacc
    exact ⟨[], by simp, by simpa using hacc, by simp⟩
  | cons v vs ihv =>
    intro acc p hlive hread hacc
    rw [List.foldl_cons]
    -- one iteration
    have hstep : GoodRun acc.2 (iterSl stmts res grow ix shuf n idx k ks kvs acc v)
        (acc.1.map (read acc.2) ++ pureIter ix shuf n idx k ks p v) := by
      obtain ⟨x, hx1, hx2, hx3⟩ := hF grow kvs (k, v) acc.2 hlive
      have hlen : (read acc.2 kvs).length = kvs.len := read_length _ _ hlive
      have hliveE : Live (extendWith stmts res grow kvs (k, v) acc.2).2 (extendWith stmts res grow kvs (k, v) acc.2).1 := by
        apply live_of_read_length
        rw [hx1, hx3, hx2]; simp [hlen]
      unfold iterSl pureIter
      by_cases hm : Gen.Subset.comboMore idx n = true
      · simp only [hm, if_true]
        obtain ⟨y, hy1, hy2, hy3⟩ := ih _ _ hliveE
        refine ⟨x ++ y, ?_, ?_, ?_⟩
        · rw [hy1, hx1, List.append_assoc]
        · intro r hr
          rcases List.mem_append.mp hr with hr | hr
          · rw [hy1, hx1, List.append_assoc]; exact live_append _ _ _ (hacc r hr)
          · exact hy2 r hr
        · rw [List.map_append, hy3]
          congr 1
          · rw [hy1, hx1, List.append_assoc]; exact map_read_append _ _ _ hacc
          · rw [hx1, hx3, hread]
      · simp only [hm, Bool.false_eq_true, if_false]
        refine ⟨x, hx1, ?_, ?_⟩
        · intro r hr
          rcases List.mem_append.mp hr with hr | hr
          · rw [hx1]; exact live_append _ _ _ (hacc r hr)
          · rw [List.mem_singleton.mp hr]; exact hliveE
        · rw [List.map_append, List.map_singleton]
          congr 1
          · rw [hx1]; exact map_read_append _ _ _ hacc
          · rw [hx1, hx3, hread]
    obtain ⟨x, hx1, hx2, hx3⟩ := hstep
    have hlive' : Live (iterSl stmts res grow ix shuf n idx k ks kvs acc v).2 kvs := by
      rw [hx1]; exact live_append _ _ _ hlive
    have hread' : read (iterSl stmts res grow ix shuf n idx k ks kvs acc v).2 kvs = p := by
      rw [hx1, read_append _ _ _ hlive]; exact hread
    obtain ⟨y, hy1, hy2, hy3⟩ := ihv _ p hlive' hread' hx2
    refine ⟨x ++ y, ?_, hy2, ?_⟩
    · rw [hy1, hx1, List.append_assoc]
    · rw [hy3, hx3, List.flatMap_cons, List.append_assoc]

/-- **the product with a fresh extension**: for every capacity policy, every live received slice and every store -/
theorem combosSlGo_fresh (stmts : List Gen.SubsetSlice.Stmt) (res : Nat) (hF : FreshExt stmts res) (grow : Grow)
    (ix : Index) (shuf : List Val → List Val) (n : Nat) (ks : List Key) :
    ∀ (idx : Nat) (kvs : Slice) (st : Store), Live st kvs →
      GoodRun st (combosSlGo stmts res grow ix shuf n idx ks kvs st) (combosGo ix shuf n idx ks (read st kvs)) := by
  induction ks with
  | nil =>
    intro idx kvs st _
    exact ⟨[], by simp [combosSlGo], by simp [combosSlGo], by simp [combosSlGo, combosGo]⟩
  | cons k ks ih =>
    intro idx kvs st hlive
    rw [combosSlGo_cons, combosGo_cons]
    have := loop_fresh stmts res hF grow ix shuf n idx k ks kvs (fun s st' hs => ih (idx + 1) s st' hs)
      (shuf (((List.lookup k ix).getD []).map (·.1))) ([], st) (read st kvs) hlive rfl (by simp)
    simpa using this

theorem combosWith_fresh (stmts : List Gen.SubsetSlice.Stmt) (res : Nat) (hF : FreshExt stmts res) (grow : Grow)
    (ix : Index) (shuf : List Val → List Val) (keys : List Key) :
    combosWith stmts res grow ix shuf keys = combos ix shuf keys := by
  unfold combosWith combos
  by_cases he : Gen.Subset.comboEmpty keys.length = true
  · simp [he]
  · simp only [he, Bool.false_eq_true, if_false]
    obtain ⟨_, _, _, h3⟩ := combosSlGo_fresh stmts res hF grow ix shuf keys.length keys 0 Slice.nil [] (live_nil _)
    rw [h3, read_nil]

/-! ### C. the regenerated statements are a fresh extension -/

theorem set_append_last (st : Store) (a b : List KV) : (st ++ [a]).set st.length b = st ++ [b] := by
  induction st with
  | nil => rfl
  | cons x st ih => simp [ih]

theorem arrayOf_append_last (st : Store) (a : List KV) : arrayOf (st ++ [a]) st.length = a := by
  unfold arrayOf
  simp

/-- `newkvs := make(T, len(kvs), len(kvs)+1); copy(newkvs, kvs); newkvs = append(newkvs, pair)` allocates one array,
writes only into it, and hands on exactly `kvs ++ [pair]` with no spare capacity. -/
theorem comboExtend_run (grow : Grow) (src : Slice) (pair : KV) (st : Store) (h : Live st src) :
    extendWith Gen.SubsetSlice.comboExtend Gen.SubsetSlice.comboResult grow src pair st =
      (⟨st.length, src.len + 1, src.len + 1⟩, st ++ [read st src ++ [pair]]) := by
  have hlen : (read st src).length = src.len := read_length st src h
  have hread1 : ∀ a, read (st ++ [a]) src = read st src := fun a => read_append st [a] src h
  have hmax : max src.len (src.len + 1) = src.len + 1 := by omega
  simp only [extendWith, Gen.SubsetSlice.comboExtend, Gen.SubsetSlice.comboResult, List.foldl_cons, List.foldl_nil,
    step, evalI, evalS, initEnv, setVar, if_true, hmax, Nat.zero_ne_one, Nat.one_ne_zero, if_false, appendSl,
    Nat.le_refl, List.length_singleton]
  simp only [hread1, arrayOf_append_last, set_append_last, hlen, Nat.min_self]
  have hdrop : (List.replicate (src.len + 1) zeroKV).drop src.len = [zeroKV] := by
    rw [List.drop_replicate]; simp
  have htake : (read st src).take src.len = read st src := by
    rw [← hlen]; exact List.take_length
  rw [hdrop, htake]
  have htake2 : (read st src ++ [zeroKV]).take src.len = read st src := by
    rw [← hlen]; simp
  have hdrop2 : (read st src ++ [zeroKV]).drop (src.len + 1) = [] := by
    rw [← hlen]; simp
  rw [htake2, hdrop2]
  simp

theorem comboExtend_fresh : FreshExt Gen.SubsetSlice.comboExtend Gen.SubsetSlice.comboResult := by
  intro grow src pair st h
  refine ⟨[read st src ++ [pair]], ?_, ?_, ?_⟩
  · rw [comboExtend_run grow src pair st h]
  · rw [comboExtend_run grow src pair st h]
  · rw [comboExtend_run grow src pair st h]
    have hlen : (read st src).length = src.len := read_length st src h
    show (arrayOf (st ++ [read st src ++ [pair]]) st.length).take (src.len + 1) = _
    rw [arrayOf_append_last]
    have hl : src.len + 1 = (read st src ++ [pair]).length := by simp [hlen]
    rw [hl]; exact List.take_length

/-- **the regenerated product is the list-level product**, for every capacity policy -/
theorem combosSl_eq (grow : Grow) (ix : Index) (shuf : List Val → List Val) (keys : List Key) :
    combosSl grow ix shuf keys = combos ix shuf keys :=
  combosWith_fresh _ _ comboExtend_fresh grow ix shuf keys

/-! ### D. the list-level product is the declarative cartesian product -/

/-- the cartesian product of per-key value lists, key by key (declarative reference) -/
def cartesian : List (Key × List Val) → List Path
  | [] => [[]]
  | (k, vs) :: r => vs.flatMap (fun v => (cartesian r).map ((k, v) :: ·))

theorem combosGo_cartesian (ix : Index) (shuf : List Val → List Val) (n : Nat) (ks : List Key) :
    ∀ (idx : Nat) (pre : Path), idx + ks.length = n → ks ≠ [] →
      combosGo ix shuf n idx ks pre = (cartesian (ks.map (fun k => (k, shuf (vals ix k))))).map (pre ++ ·) := by
  induction ks with
  | nil => intro _ _ _ h; exact absurd rfl h
  | cons k ks ih =>
    intro idx pre hn _
    rw [combosGo_cons]
    simp only [List.map_cons, cartesian, List.map_flatMap, List.map_map]
    show (shuf (vals ix k)).flatMap _ = (shuf (vals ix k)).flatMap _
    congr 1
    funext v
    unfold pureIter Gen.Subset.comboMore
    cases ks with
    | nil =>
      have hnot : ¬ ((idx : Int) + 1 < (n : Int)) := by simp at hn; omega
      simp [hnot, cartesian]
    | cons k2 ks2 =>
      have hlt : (idx : Int) + 1 < (n : Int) := by simp at hn; omega
      simp only [hlt, decide_true, if_true]
      rw [ih (idx + 1) (pre ++ [(k, v)]) (by simp at hn ⊢; omega) (by simp)]
      apply List.map_congr_left
      intro q _
      simp

theorem combos_cartesian (ix : Index) (shuf : List Val → List Val) (keys : List Key) :
    combos ix shuf keys = if keys = [] then [] else cartesian (keys.map (fun k => (k, shuf (vals ix k)))) := by
  unfold combos Gen.Subset.comboEmpty
  cases keys with
  | nil => simp
  | cons k ks =>
    have hne : ¬ (((k :: ks).length : Int) = 0) := by simp; omega
    simp only [hne, decide_false, Bool.false_eq_true, if_false, reduceCtorEq]
    rw [combosGo_cartesian ix shuf _ (k :: ks) 0 [] (by simp) (by simp)]
    simp

/-! ### E. the balancer of the slice-level builder -/

theorem buildPreS_eq (grow : Grow) (ix : Index) (shuf : List Val → List Val) (hosts : List Host) (sels : List (List Key)) :
    buildPreS grow ix shuf hosts sels = buildPre ix shuf hosts sels := by
  unfold buildPreS buildPre
  congr 1
  funext root sel
  rw [combosSl_eq]

/-- the pre-index balancer built from the raw configuration, with the combination prefix as a Go slice
(`grow`: capacity policy of `append`, `shuf`: Go's map iteration order) -/
def lbPS (grow : Grow) (shuf : List Val → List Val) (hosts : List Host) (raw : List (List Key)) (policy : Nat)
    (dflt : Path) : LB :=
  newPreS grow shuf hosts (policy : Int) dflt (generateSubsetKeys raw)

theorem lbPS_eq (grow : Grow) (shuf : List Val → List Val) (hosts : List Host) (raw : List (List Key)) (policy : Nat)
    (dflt : Path) : lbPS grow shuf hosts raw policy dflt = lbP shuf hosts raw policy dflt := by
  unfold lbPS lbP newPreS newPre
  simp only [buildPreS_eq]

end MosnVerif.Model.SubsetSlice
