import MosnVerif.Model.ClusterPub
/-! Publication order in the cluster manager: under every schedule a lookup sees a host set that was supplied. -/
namespace MosnVerif.Model.ClusterPub
open MosnVerif.Gen.ClusterPub

/-- the cluster object at `a` carries a host set that exists (never the unfilled one). -/
def Good (m : Mgr) (a : Nat) : Prop := ∃ v, m.cl a = some v ∧ v ∈ m.supplied

def UOk (m : Mgr) (u : UT) : Prop :=
  (∀ a, u.nc = some a → a < m.next) ∧ (∀ b, u.oc = some b → b < m.next ∧ Good m b) ∧
  (∀ v, u.ns = some v → v ∈ m.supplied) ∧
  ∃ k : Chk, okFrom k u.todo = true ∧ (k.hasNc = true → u.nc.isSome = true) ∧
    (k.ncFilled = true → ∃ a, u.nc = some a ∧ Good m a) ∧
    (k.hasOc = true → u.oc.isSome = true) ∧ (k.built = true → u.ns.isSome = true)

def ThreadOk (m : Mgr) : Thread → Prop
  | .rd .start => True
  | .rd (.gotCluster a) => a < m.next ∧ Good m a
  | .rd (.done r) => ∃ v, r = some v ∧ v ∈ m.supplied
  | .upd u => UOk m u

def MapOk (m : Mgr) : Prop := m.map < m.next ∧ Good m m.map

structure Inv (c : Conf) : Prop where
  map : MapOk c.m
  thr : ∀ t, ThreadOk c.m (c.threads t)

/-- the manager only grows: allocated clusters stay allocated, filled clusters stay filled, host sets stay. -/
def Ext (m m' : Mgr) : Prop :=
  m.next ≤ m'.next ∧ (∀ a, a < m.next → Good m a → Good m' a) ∧ (∀ v, v ∈ m.supplied → v ∈ m'.supplied)

theorem ext_refl (m : Mgr) : Ext m m := ⟨Nat.le_refl _, fun _ _ h => h, fun _ h => h⟩

theorem ext_write (m : Mgr) (t : Nat) (x : Option Nat) (hx : ∃ v, x = some v ∧ v ∈ m.supplied) :
    Ext m { m with cl := setCl m.cl t x } := by
  refine ⟨Nat.le_refl _, ?_, fun _ h => h⟩
  intro a _ hg
  by_cases h : a = t
  · obtain ⟨v, rfl, hv⟩ := hx
    exact ⟨v, by simp [setCl, h], hv⟩
  · obtain ⟨v, h1, h2⟩ := hg
    exact ⟨v, by simp [setCl, h, h1], h2⟩

theorem good_write (m : Mgr) (t v : Nat) (hv : v ∈ m.supplied) : Good { m with cl := setCl m.cl t (some v) } t :=
  ⟨v, by simp [setCl], hv⟩

theorem ext_alloc (m : Mgr) : Ext m { m with cl := setCl m.cl m.next none, next := m.next + 1 } := by
  refine ⟨Nat.le_succ _, ?_, fun _ h => h⟩
  intro a ha hg
  obtain ⟨v, h1, h2⟩ := hg
  have : a ≠ m.next := by omega
  exact ⟨v, by simp [setCl, this, h1], h2⟩

theorem ext_supply (m : Mgr) (v : Nat) : Ext m { m with supplied := m.supplied ++ [v] } := by
  refine ⟨Nat.le_refl _, ?_, fun _ h => List.mem_append_left _ h⟩
  intro a _ hg
  obtain ⟨w, h1, h2⟩ := hg
  exact ⟨w, h1, List.mem_append_left _ h2⟩

theorem ext_map (m : Mgr) (a : Nat) : Ext m { m with map := a } :=
  ⟨Nat.le_refl _, fun _ _ h => h, fun _ h => h⟩

theorem uok_mono {m m' : Mgr} (e : Ext m m') {u : UT} (h : UOk m u) : UOk m' u := by
  obtain ⟨h1, h2, h3, k, hk, k1, k2, k3, k4⟩ := h
  refine ⟨fun a ha => Nat.lt_of_lt_of_le (h1 a ha) e.1, ?_, fun v hv => e.2.2 v (h3 v hv), k, hk, k1, ?_, k3, k4⟩
  · intro b hb
    exact ⟨Nat.lt_of_lt_of_le (h2 b hb).1 e.1, e.2.1 b (h2 b hb).1 (h2 b hb).2⟩
  · intro hf
    obtain ⟨a, ha, hg⟩ := k2 hf
    exact ⟨a, ha, e.2.1 a (h1 a ha) hg⟩

theorem threadOk_mono {m m' : Mgr} (e : Ext m m') {th : Thread} (h : ThreadOk m th) : ThreadOk m' th := by
  cases th with
  | upd u => exact uok_mono e h
  | rd st =>
    cases st with
    | start => trivial
    | gotCluster a => exact ⟨Nat.lt_of_lt_of_le h.1 e.1, e.2.1 a h.1 h.2⟩
    | done r =>
      obtain ⟨v, h1, h2⟩ := h
      exact ⟨v, h1, e.2.2 v h2⟩

theorem mapOk_mono {m m' : Mgr} (e : Ext m m') (hm : m'.map = m.map) (h : MapOk m) : MapOk m' := by
  unfold MapOk
  rw [hm]
  exact ⟨Nat.lt_of_lt_of_le h.1 e.1, e.2.1 _ h.1 h.2⟩

/-- one step of an updater keeps everything. -/
theorem stepUpd_ok (m : Mgr) (u : UT) (a : CStep) (r : List CStep) (hm : MapOk m) (hu : UOk m u)
    (ht : u.todo = a :: r) :
    Ext m (stepUpd m u a r).1 ∧ MapOk (stepUpd m u a r).1 ∧ UOk (stepUpd m u a r).1 (stepUpd m u a r).2 := by
  have hu0 := hu
  obtain ⟨h1, h2, h3, k, hk, k1, k2, k3, k4⟩ := hu
  rw [ht] at hk
  cases a with
  | newCluster =>
    have e := ext_alloc m
    refine ⟨e, mapOk_mono e rfl hm, ?_⟩
    simp only [okFrom] at hk
    refine ⟨?_, ?_, ?_, _, hk, ?_, ?_, ?_, ?_⟩
    · intro a ha; simp only [stepUpd, Option.some.injEq] at ha; simp only [stepUpd]; omega
    · intro b hb
      exact ⟨Nat.lt_of_lt_of_le (h2 b hb).1 e.1, e.2.1 b (h2 b hb).1 (h2 b hb).2⟩
    · intro v hv; exact h3 v hv
    · intro _; rfl
    · intro hf; simp at hf
    · exact k3
    · exact k4
  | loadOld =>
    simp only [okFrom] at hk
    refine ⟨ext_refl m, hm, h1, ?_, h3, _, hk, k1, k2, fun _ => rfl, k4⟩
    intro b hb
    simp only [stepUpd, Option.some.injEq] at hb
    subst hb; exact hm
  | loadCur =>
    simp only [okFrom] at hk
    refine ⟨ext_refl m, hm, h1, ?_, h3, _, hk, k1, k2, fun _ => rfl, k4⟩
    intro b hb
    simp only [stepUpd, Option.some.injEq] at hb
    subst hb; exact hm
  | inherit =>
    simp only [okFrom, Bool.and_eq_true] at hk
    obtain ⟨⟨hn, ho⟩, hr⟩ := hk
    obtain ⟨n, hn'⟩ := Option.isSome_iff_exists.mp (k1 hn)
    obtain ⟨o, ho'⟩ := Option.isSome_iff_exists.mp (k3 ho)
    obtain ⟨w, hw1, hw2⟩ := (h2 o ho').2
    have e : Ext m { m with cl := setCl m.cl n (m.cl o) } := ext_write m n _ ⟨w, hw1, hw2⟩
    have hs : stepUpd m u .inherit r = ({ m with cl := setCl m.cl n (m.cl o) }, { u with todo := r }) := by
      simp only [stepUpd, hn', ho']
    rw [hs]
    refine ⟨e, mapOk_mono e rfl hm, ?_⟩
    have base := uok_mono e hu0
    obtain ⟨b1, b2, b3, _⟩ := base
    refine ⟨b1, b2, b3, _, hr, k1, ?_, k3, k4⟩
    intro _
    refine ⟨n, hn', ?_⟩
    rw [hw1]
    exact good_write m n w hw2
  | build =>
    simp only [okFrom] at hk
    have e := ext_supply m u.v
    refine ⟨e, mapOk_mono e rfl hm, ?_⟩
    refine ⟨fun a ha => h1 a ha, ?_, ?_, _, hk, k1, ?_, k3, fun _ => rfl⟩
    · intro b hb
      exact ⟨(h2 b hb).1, e.2.1 b (h2 b hb).1 (h2 b hb).2⟩
    · intro v hv
      simp only [stepUpd, Option.some.injEq] at hv
      subst hv
      simp [stepUpd]
    · intro hf
      obtain ⟨a, ha, hg⟩ := k2 hf
      exact ⟨a, ha, e.2.1 a (h1 a ha) hg⟩
  | publish =>
    simp only [okFrom, Bool.and_eq_true] at hk
    obtain ⟨hb, hrest⟩ := hk
    obtain ⟨w, hw⟩ := Option.isSome_iff_exists.mp (k4 hb)
    have hws := h3 w hw
    cases htg : target u with
    | none =>
      have hs : stepUpd m u .publish r = (m, { u with todo := r }) := by simp only [stepUpd, htg]
      rw [hs]
      refine ⟨ext_refl m, hm, h1, h2, h3, ?_⟩
      cases hnc : k.hasNc with
      | true =>
        have := k1 hnc
        obtain ⟨n, hn'⟩ := Option.isSome_iff_exists.mp this
        simp [target, hn'] at htg
      | false =>
        simp only [hnc, Bool.false_eq_true, if_false, Bool.and_eq_true] at hrest
        exact ⟨k, hrest.2, k1, k2, k3, k4⟩
    | some t =>
      have e : Ext m { m with cl := setCl m.cl t u.ns } := ext_write m t _ ⟨w, hw, hws⟩
      have hs : stepUpd m u .publish r = ({ m with cl := setCl m.cl t u.ns }, { u with todo := r }) := by
        simp only [stepUpd, htg]
      rw [hs]
      refine ⟨e, mapOk_mono e rfl hm, ?_⟩
      have base := uok_mono e hu0
      obtain ⟨b1, b2, b3, k', _, _, _, _, _⟩ := base
      refine ⟨b1, b2, b3, ?_⟩
      cases hnc : k.hasNc with
      | true =>
        simp only [hnc, if_true] at hrest
        obtain ⟨n, hn'⟩ := Option.isSome_iff_exists.mp (k1 hnc)
        have : t = n := by simp [target, hn'] at htg; exact htg.symm
        subst this
        refine ⟨_, hrest, fun _ => k1 hnc, ?_, k3, k4⟩
        intro _
        refine ⟨t, hn', ?_⟩
        rw [hw]
        exact good_write m t w hws
      | false =>
        simp only [hnc, Bool.false_eq_true, if_false, Bool.and_eq_true] at hrest
        refine ⟨k, hrest.2, k1, ?_, k3, k4⟩
        intro hf
        obtain ⟨a, ha, hg⟩ := k2 hf
        exact ⟨a, ha, e.2.1 a (h1 a ha) hg⟩
  | storeNew =>
    simp only [okFrom, Bool.and_eq_true] at hk
    obtain ⟨⟨hn, hf⟩, hr⟩ := hk
    obtain ⟨n, hn', hg⟩ := k2 hf
    have hs : stepUpd m u .storeNew r = ({ m with map := n }, { u with todo := r }) := by simp only [stepUpd, hn']
    rw [hs]
    refine ⟨ext_map m n, ⟨h1 n hn', hg⟩, h1, h2, h3, k, hr, k1, k2, k3, k4⟩
  | other =>
    simp only [okFrom] at hk
    exact ⟨ext_refl m, hm, h1, h2, h3, k, hk, k1, k2, k3, k4⟩
  | publishUnbuilt => simp [okFrom] at hk
  | touchAfter => simp [okFrom] at hk
  | clusterHandler => simp [okFrom] at hk
  | hostHandler => simp [okFrom] at hk

theorem setThread_same (th : Nat → Thread) (t : Nat) (v : Thread) : setThread th t v t = v := by simp [setThread]
theorem setThread_other (th : Nat → Thread) (t u : Nat) (v : Thread) (h : u ≠ t) : setThread th t v u = th u := by
  simp [setThread, h]

theorem thr_update {c : Conf} (I : Inv c) (m' : Mgr) (e : Ext c.m m') (t : Nat) (v : Thread) (hv : ThreadOk m' v) :
    ∀ u, ThreadOk m' (setThread c.threads t v u) := by
  intro u
  by_cases hu : u = t
  · subst hu; rw [setThread_same]; exact hv
  · rw [setThread_other _ _ _ _ hu]; exact threadOk_mono e (I.thr u)

theorem inv_step (c : Conf) (t : Nat) (I : Inv c) : Inv (step c t) := by
  unfold step
  have ht := I.thr t
  split
  · exact ⟨I.map, thr_update I c.m (ext_refl _) t _ I.map⟩
  · rename_i a heq
    rw [heq] at ht
    obtain ⟨v, h1, h2⟩ := ht.2
    exact ⟨I.map, thr_update I c.m (ext_refl _) t _ ⟨v, h1, h2⟩⟩
  · exact I
  · rename_i u heq
    rw [heq] at ht
    split
    · exact I
    · rename_i a r htodo
      obtain ⟨e, hm, hu⟩ := stepUpd_ok c.m u a r I.map ht htodo
      exact ⟨hm, thr_update I _ e t _ hu⟩

theorem inv_run (sched : List Nat) (c : Conf) (I : Inv c) : Inv (run c sched) := by
  induction sched generalizing c with
  | nil => exact I
  | cons t r ih => exact ih _ (inv_step c t I)

theorem inv_init (prog : List CStep) (h : orderOk prog = true) (n : Nat) : Inv (initConf prog n) := by
  refine ⟨⟨by simp [initConf], 0, by simp [initConf], by simp [initConf]⟩, ?_⟩
  intro t
  simp only [initConf]
  split
  · exact ⟨by simp, by simp, by simp, {}, h, by simp, by simp, by simp, by simp⟩
  · trivial

/-- ghost list of host sets: the initial one and the numbers of the updaters. -/
def SupBound (n : Nat) (c : Conf) : Prop :=
  (∀ x ∈ c.m.supplied, x ≤ n) ∧ ∀ t, match c.threads t with
    | .upd u => u.v ≤ n
    | .rd _ => True

theorem stepUpd_supplied (m : Mgr) (u : UT) (a : CStep) (r : List CStep) :
    (stepUpd m u a r).2.v = u.v ∧ ∀ x ∈ (stepUpd m u a r).1.supplied, x ∈ m.supplied ∨ x = u.v := by
  cases a <;> simp only [stepUpd] <;> (try split) <;> simp_all

theorem supBound_step (n : Nat) (c : Conf) (t : Nat) (B : SupBound n c) : SupBound n (step c t) := by
  obtain ⟨b1, b2⟩ := B
  have keep : ∀ (v : Thread), (match v with | .upd w => w.v ≤ n | .rd _ => True) →
      ∀ u, match setThread c.threads t v u with | .upd w => w.v ≤ n | .rd _ => True := by
    intro v hv u
    by_cases hu : u = t
    · subst hu; rw [setThread_same]; exact hv
    · rw [setThread_other _ _ _ _ hu]; exact b2 u
  unfold step
  have ht := b2 t
  split
  · exact ⟨b1, keep _ trivial⟩
  · exact ⟨b1, keep _ trivial⟩
  · exact ⟨b1, b2⟩
  · rename_i u heq
    rw [heq] at ht
    split
    · exact ⟨b1, b2⟩
    · rename_i a r _
      have hs := stepUpd_supplied c.m u a r
      refine ⟨?_, keep _ (by simp only [hs.1]; exact ht)⟩
      intro x hx
      rcases hs.2 x hx with h | h
      · exact b1 x h
      · subst h; exact ht

theorem supBound_run (n : Nat) (sched : List Nat) (c : Conf) (B : SupBound n c) : SupBound n (run c sched) := by
  induction sched generalizing c with
  | nil => exact B
  | cons t r ih => exact ih _ (supBound_step n c t B)

theorem supBound_init (prog : List CStep) (n : Nat) : SupBound n (initConf prog n) := by
  refine ⟨by simp [initConf], ?_⟩
  intro t
  simp only [initConf]
  by_cases h : 1 ≤ t ∧ t ≤ n
  · simp only [h, and_self, if_true]
  · simp only [h, if_false]

end MosnVerif.Model.ClusterPub
