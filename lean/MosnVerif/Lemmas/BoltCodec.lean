import MosnVerif.Lemmas.Bolt
/-! generic theorems about `decodeKind` / `encodeKind` for any kind satisfying `KindOK` (core only) -/
namespace MosnVerif.Model.Bolt
open MosnVerif.Model MosnVerif.Model.Bytes

/-- everything `decodeKind` fixes about a frame it returns -/
theorem decodeKind_frame {K : Kind} {ow : Bool} {b : Bytes} {f : Frame} {n : Nat}
    (h : decodeKind K ow b = .frame f n) :
    K.hdrLen ≤ b.length ∧
    n = K.frameLen (getBE b K.cls.1 K.cls.2) (getBE b K.hdr.1 K.hdr.2) (getBE b K.cnt.1 K.cnt.2) ∧
    n ≤ b.length ∧ f.raw = some (b.take n) ∧ f.hdrChanged = false ∧ f.contentChanged = false ∧
    f.kind = K.id ∧ f.fx = K.decodeMeta b ow ∧
    f.classLen = getBE b K.cls.1 K.cls.2 ∧ f.headerLen = getBE b K.hdr.1 K.hdr.2 ∧ f.contentLen = getBE b K.cnt.1 K.cnt.2 := by
  unfold decodeKind at h
  split at h
  · cases h
  · rename_i h1
    simp only at h
    split at h
    · cases h
    · rename_i h2
      split at h
      · split at h
        · injection h with hf hn
          subst hf; subst hn
          exact ⟨by omega, rfl, by omega, rfl, rfl, rfl, rfl, rfl, rfl, rfl, rfl⟩
        · cases h
        · cases h
      · injection h with hf hn
        subst hf; subst hn
        exact ⟨by omega, rfl, by omega, rfl, rfl, rfl, rfl, rfl, rfl, rfl, rfl⟩

/-- **fast path**: an unmodified decoded frame re-encodes to the received bytes with the id window overwritten -/
theorem encodeKind_fast {K : Kind} (hK : KindOK K) {ow : Bool} {b : Bytes} {f : Frame} {n : Nat}
    (h : decodeKind K ow b = .frame f n) (i : Nat) :
    encodeKind K (setId f i) = some (patch (b.take n) K.idIdx (be 4 i)) := by
  obtain ⟨_, _, _, hraw, hc1, hc2, _⟩ := decodeKind_frame h
  unfold encodeKind setId
  simp only [hraw, hc1, hc2, encodeFast, hK.idWidth_eq]
  simp [be_mod 4 i]

theorem slice_mid (a b c : Bytes) : slice (a ++ b ++ c) a.length (a.length + b.length) = b := by
  simp [slice, List.take_append, List.drop_append]

theorem encodeLen_eq_zero (kvs : List BoltHeader.KV) (h : BoltHeader.encodeLen kvs = 0) : kvs = [] := by
  cases kvs with
  | nil => rfl
  | cons kv r => obtain ⟨k, v⟩ := kv; simp [BoltHeader.encodeLen] at h

theorem lengthsFit_iff (c h n : Nat) :
    Gen.C01Bolt.lengthsFit (c : Int) (h : Int) (n : Int) = true ↔ c ≤ 65535 ∧ h ≤ 65535 ∧ n ≤ 4294967295 := by
  simp only [Gen.C01Bolt.lengthsFit, Bool.and_eq_true, decide_eq_true_eq]
  omega

/-- what the slow path writes when it does not refuse -/
theorem encodeSlow_some (K : Kind) (f : Frame) (hrep : Ref.representable f = true) :
    encodeSlow K f = some (K.encodeMeta f.fx f.cls.length (BoltHeader.encodeLen f.kvs) f.content.length
      ++ f.cls ++ BoltHeader.encode f.kvs ++ f.content) := by
  simp only [Ref.representable, Bool.and_eq_true, decide_eq_true_eq] at hrep
  have hfit := (lengthsFit_iff f.cls.length (BoltHeader.encodeLen f.kvs) f.content.length).mpr ⟨hrep.1.1, hrep.1.2, hrep.2⟩
  unfold encodeSlow
  simp only [hfit, if_true]
  have h1 : (if f.kvs.isEmpty then 0 else BoltHeader.encodeLen f.kvs) = BoltHeader.encodeLen f.kvs := by
    cases hk : f.kvs with
    | nil => simp [BoltHeader.encodeLen]
    | cons _ _ => simp
  rw [h1]
  have h2 : (if f.cls.length > 0 then f.cls else []) = f.cls := by
    cases hc : f.cls <;> simp
  have h3 : (if BoltHeader.encodeLen f.kvs > 0 then BoltHeader.encode f.kvs else []) = BoltHeader.encode f.kvs := by
    by_cases hz : BoltHeader.encodeLen f.kvs > 0
    · simp [hz]
    · have : f.kvs = [] := encodeLen_eq_zero _ (by omega)
      simp [this, BoltHeader.encode, BoltHeader.encodeLen]
  have h4 : (if f.content.length > 0 then f.content else []) = f.content := by
    cases hc : f.content <;> simp
  rw [h2, h3, h4]

/-- **refusal**: a message whose class / header block / content does not fit the length fields is not encoded -/
theorem encodeSlow_none (K : Kind) (f : Frame) (hrep : Ref.representable f = false) : encodeSlow K f = none := by
  have hnot : ¬ (Gen.C01Bolt.lengthsFit (f.cls.length : Int) (BoltHeader.encodeLen f.kvs : Int) (f.content.length : Int) = true) := by
    intro hfit
    have := (lengthsFit_iff _ _ _).mp hfit
    simp [Ref.representable, this.1, this.2.1, this.2.2] at hrep
  unfold encodeSlow
  simp only [hnot, if_false]
  rfl

/-- **slow path round trip**: the re-encoded frame decodes to exactly the fields, class, pairs and body it was built
from, the three length fields are the section lengths, and the decoder consumes the whole output -/
theorem slow_roundtrip_kind {K : Kind} (hK : KindOK K) (f : Frame) (ow : Bool) (hw : metaWF K.id f.fx ow)
    (hrep : Ref.representable f = true) :
    ∃ out, encodeSlow K f = some out ∧
      decodeKind K ow out = .frame
        { kind := K.id, fx := f.fx, classLen := f.cls.length, headerLen := BoltHeader.encodeLen f.kvs,
          contentLen := f.content.length, cls := f.cls, kvs := f.kvs, content := f.content,
          raw := some out, hdrChanged := false, contentChanged := false } out.length := by
  refine ⟨_, encodeSlow_some K f hrep, ?_⟩
  simp only [Ref.representable, Bool.and_eq_true, decide_eq_true_eq] at hrep
  obtain ⟨⟨hc, hh⟩, hn⟩ := hrep
  generalize hM : K.encodeMeta f.fx f.cls.length (BoltHeader.encodeLen f.kvs) f.content.length = M
  have hMl : M.length = K.hdrLen := by rw [← hM]; exact hK.meta_len _ _ _ _
  have hassoc : M ++ f.cls ++ BoltHeader.encode f.kvs ++ f.content = M ++ (f.cls ++ BoltHeader.encode f.kvs ++ f.content) := by
    simp [List.append_assoc]
  have hHl := BoltHeader.encode_length f.kvs
  have hlen : (M ++ f.cls ++ BoltHeader.encode f.kvs ++ f.content).length
      = K.hdrLen + f.cls.length + BoltHeader.encodeLen f.kvs + f.content.length := by
    simp [hMl, hHl]; omega
  have rc : getBE (M ++ f.cls ++ BoltHeader.encode f.kvs ++ f.content) K.cls.1 K.cls.2 = f.cls.length := by
    rw [hassoc, ← hM]; exact hK.cls_rd _ _ _ _ _ (by omega)
  have rh : getBE (M ++ f.cls ++ BoltHeader.encode f.kvs ++ f.content) K.hdr.1 K.hdr.2 = BoltHeader.encodeLen f.kvs := by
    rw [hassoc, ← hM]; exact hK.hdr_rd _ _ _ _ _ (by omega)
  have rn : getBE (M ++ f.cls ++ BoltHeader.encode f.kvs ++ f.content) K.cnt.1 K.cnt.2 = f.content.length := by
    rw [hassoc, ← hM]; exact hK.cnt_rd _ _ _ _ _ (by omega)
  have rm : K.decodeMeta (M ++ f.cls ++ BoltHeader.encode f.kvs ++ f.content) ow = f.fx := by
    rw [hassoc, ← hM]; exact hK.meta_rt _ _ _ _ _ _ hw
  have n1 : ¬ (K.hdrLen + f.cls.length + BoltHeader.encodeLen f.kvs + f.content.length < K.hdrLen) := by omega
  have n2 : ¬ (K.hdrLen + f.cls.length + BoltHeader.encodeLen f.kvs + f.content.length
      < K.hdrLen + f.cls.length + BoltHeader.encodeLen f.kvs + f.content.length) := by omega
  have htake : (M ++ f.cls ++ BoltHeader.encode f.kvs ++ f.content).take
      (K.hdrLen + f.cls.length + BoltHeader.encodeLen f.kvs + f.content.length)
      = M ++ f.cls ++ BoltHeader.encode f.kvs ++ f.content := by
    rw [← hlen]; exact List.take_length
  -- the three sections read back
  have scls : slice (M ++ f.cls ++ BoltHeader.encode f.kvs ++ f.content) K.hdrLen (K.hdrLen + f.cls.length) = f.cls := by
    have := slice_mid M f.cls (BoltHeader.encode f.kvs ++ f.content)
    rw [hMl] at this
    simpa [List.append_assoc] using this
  have shdr : slice (M ++ f.cls ++ BoltHeader.encode f.kvs ++ f.content) (K.hdrLen + f.cls.length)
      (K.hdrLen + f.cls.length + BoltHeader.encodeLen f.kvs) = BoltHeader.encode f.kvs := by
    have := slice_mid (M ++ f.cls) (BoltHeader.encode f.kvs) f.content
    rw [List.length_append, hMl, hHl] at this
    exact this
  have scnt : (M ++ f.cls ++ BoltHeader.encode f.kvs ++ f.content).drop
      (K.hdrLen + f.cls.length + BoltHeader.encodeLen f.kvs) = f.content := by
    have : (M ++ f.cls ++ BoltHeader.encode f.kvs).length = K.hdrLen + f.cls.length + BoltHeader.encodeLen f.kvs := by
      simp [hMl, hHl]; omega
    rw [← this]; simp
  have ecls : (if f.cls.length > 0 then f.cls else []) = f.cls := by cases hcc : f.cls <;> simp
  have ecnt : (if f.content.length > 0 then f.content else []) = f.content := by cases hcc : f.content <;> simp
  unfold decodeKind
  simp only [rc, rh, rn, rm, hK.frameLen_eq, hK.headerIndex_eq, hK.contentIndex_eq, hlen, n1, n2, if_false, htake,
    scls, shdr, scnt, ecls, ecnt]
  by_cases hz : BoltHeader.encodeLen f.kvs > 0
  · simp only [hz, if_true]
    rw [BoltHeader.decode_encode f.kvs (BoltHeader.wf_of_encodeLen f.kvs hh)]
  · have hk : f.kvs = [] := encodeLen_eq_zero _ (by omega)
    simp only [hz, if_false]
    rw [hk]

/-! ### protocol level: the dispatch of the two codecs -/

def isV2 : Codec → Bool | .bolt => false | .boltv2 => true

theorem decode_of_classify (c : Codec) (b : Bytes) (K : Kind) (ow : Bool)
    (h : Ref.classify (isV2 c) b = some (K, ow)) : decode c b = decodeKind K ow b := by
  cases c
  · simp only [Ref.classify, isV2, decode, V1.decodeCore, V2.decodeCore, Gen.C01BoltV2.ProtocolCode,
      Gen.C01Bolt.LessLen, Gen.C01BoltV2.LessLen, Gen.C01Bolt.CmdTypeRequest, Gen.C01Bolt.CmdTypeRequestOneway,
      Gen.C01Bolt.CmdTypeResponse, v1req_eq, v1resp_eq, v2req_eq, v2resp_eq] at h ⊢
    by_cases h0 : b.length > 0 ∧ byteAt b 0 = 2
    · simp only [h0, and_self, if_true, decide_true, Bool.false_eq_true, if_false] at h ⊢
      repeat' split at h
      all_goals (cases h <;> simp [*])
    · simp only [h0, if_false, decide_false, Bool.false_eq_true] at h ⊢
      repeat' split at h
      all_goals (cases h <;> simp [*])
  · simp only [Ref.classify, isV2, decode, V1.decodeCore, V2.decodeCore, Gen.C01Bolt.ProtocolCode,
      Gen.C01Bolt.LessLen, Gen.C01BoltV2.LessLen, Gen.C01Bolt.CmdTypeRequest, Gen.C01Bolt.CmdTypeRequestOneway,
      Gen.C01Bolt.CmdTypeResponse, v1req_eq, v1resp_eq, v2req_eq, v2resp_eq] at h ⊢
    by_cases h0 : b.length > 0 ∧ byteAt b 0 = 1
    · simp only [h0, and_self, if_true, decide_true, Bool.not_true, Bool.false_eq_true, if_false] at h ⊢
      repeat' split at h
      all_goals (cases h <;> simp [*])
    · simp only [h0, if_false, if_true, decide_false, Bool.not_false, Bool.false_eq_true] at h ⊢
      repeat' split at h
      all_goals (cases h <;> simp [*])

theorem decode_not_frame_of_classify_none (c : Codec) (b : Bytes) (h : Ref.classify (isV2 c) b = none) (f : Frame) (n : Nat) :
    decode c b ≠ .frame f n := by
  cases c
  · simp only [Ref.classify, isV2, decode, V1.decodeCore, V2.decodeCore, Gen.C01BoltV2.ProtocolCode,
      Gen.C01Bolt.LessLen, Gen.C01BoltV2.LessLen, Gen.C01Bolt.CmdTypeRequest, Gen.C01Bolt.CmdTypeRequestOneway,
      Gen.C01Bolt.CmdTypeResponse, v1req_eq, v1resp_eq, v2req_eq, v2resp_eq] at h ⊢
    by_cases h0 : b.length > 0 ∧ byteAt b 0 = 2
    · simp only [h0, and_self, if_true, decide_true, Bool.false_eq_true, if_false] at h ⊢
      repeat' split at h
      all_goals (first | (cases h; done) | simp [*])
    · simp only [h0, if_false, decide_false, Bool.false_eq_true] at h ⊢
      repeat' split at h
      all_goals (first | (cases h; done) | simp [*])
  · simp only [Ref.classify, isV2, decode, V1.decodeCore, V2.decodeCore, Gen.C01Bolt.ProtocolCode,
      Gen.C01Bolt.LessLen, Gen.C01BoltV2.LessLen, Gen.C01Bolt.CmdTypeRequest, Gen.C01Bolt.CmdTypeRequestOneway,
      Gen.C01Bolt.CmdTypeResponse, v1req_eq, v1resp_eq, v2req_eq, v2resp_eq] at h ⊢
    by_cases h0 : b.length > 0 ∧ byteAt b 0 = 1
    · simp only [h0, and_self, if_true, decide_true, Bool.not_true, Bool.false_eq_true, if_false] at h ⊢
      repeat' split at h
      all_goals (first | (cases h; done) | simp [*])
    · simp only [h0, if_false, if_true, decide_false, Bool.not_false] at h ⊢
      repeat' split at h
      all_goals (first | (cases h; done) | simp [*])

/-- the model's protocol-level decode accepts exactly what the reference parser accepts, with the same result -/
theorem decode_frame_iff_parse (c : Codec) (b : Bytes) (f : Frame) (n : Nat) :
    decode c b = .frame f n ↔ Ref.parse (isV2 c) b = some (f, n) := by
  unfold Ref.parse
  cases hcl : Ref.classify (isV2 c) b with
  | none =>
    simp only [reduceCtorEq, iff_false]
    exact decode_not_frame_of_classify_none c b hcl f n
  | some p =>
    obtain ⟨K, ow⟩ := p
    rw [decode_of_classify c b K ow hcl]
    simp only
    cases hd : decodeKind K ow b <;> simp

end MosnVerif.Model.Bolt
