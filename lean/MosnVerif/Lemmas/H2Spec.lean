import MosnVerif.Lemmas.H2Fwd
/-! The model's output satisfies the executable reference predicate of the HTTP/2 → HTTP/2 request direction
(`specReqH2core`: every clause of `specReqH2` but the content-length one). -/
namespace MosnVerif.Lemmas.H2Spec
open MosnVerif.Model.H2Msg MosnVerif.Gen MosnVerif.Lemmas.H2Msg MosnVerif.Lemmas.H2Fwd

def KeysLower (m : HMap) : Prop := ∀ k ∈ m.map (·.1), lower k = k

theorem keysLower_add (m : HMap) (k v : Bytes) (h : KeysLower m) (hk : lower k = k) : KeysLower (m.add k v) := by
  unfold KeysLower at *
  rw [keys_add]
  split
  · exact h
  · intro x hx
    rw [List.mem_append] at hx
    cases hx with
    | inl hx => exact h x hx
    | inr hx => simp at hx; rw [hx]; exact hk

theorem keysLower_ofFields (fs : List Field) : KeysLower (ofFields fs) := by
  unfold ofFields
  suffices h : ∀ m, KeysLower m → KeysLower (fs.foldl (fun m f => m.add (lower f.1) f.2) m) from h [] (by simp [KeysLower])
  induction fs with
  | nil => intro m hm; exact hm
  | cons f r ih => intro m hm; exact ih _ (keysLower_add m _ _ hm (lower_idem f.1))

theorem keysLower_of_sublist (m m' : HMap) (hs : (m'.map (·.1)).Sublist (m.map (·.1))) (h : KeysLower m) : KeysLower m' :=
  fun k hk => h k (hs.subset hk)

theorem keysLower_filter (m : HMap) (p : Bytes × List Bytes → Bool) (h : KeysLower m) : KeysLower (m.filter p) :=
  keysLower_of_sublist m _ (List.filter_sublist.map _) h

theorem keysLower_joinCookies (m : HMap) (h : KeysLower m) : KeysLower (joinCookies m) := by
  unfold joinCookies; split
  · unfold KeysLower; rw [keys_setVals]; exact h
  · exact h

theorem keysLower_srvHdr (w : Wire) : KeysLower (srvDecode w).hdr := by
  rw [srvDecode_hdr]
  exact keysLower_filter _ _ (keysLower_joinCookies _ (keysLower_ofFields _))

theorem keys_filterMap_sublist (m : HMap) (g : Bytes × List Bytes → Option (Bytes × List Bytes))
    (hg : ∀ e e', g e = some e' → e'.1 = e.1) : ((m.filterMap g).map (·.1)).Sublist (m.map (·.1)) := by
  induction m with
  | nil => simp
  | cons e r ih =>
    simp only [List.filterMap_cons]
    cases hge : g e with
    | none => simp only [List.map_cons]; exact ih.cons _
    | some e' =>
      simp only [List.map_cons, hg _ _ hge]
      exact ih.cons_cons _

theorem name_mem_keys (m : HMap) (f : Field) (hf : f ∈ toFields m) : f.1 ∈ m.map (·.1) := by
  unfold toFields at hf
  rw [List.mem_flatMap] at hf
  obtain ⟨e, he, hfe⟩ := hf
  rw [List.mem_map] at hfe
  obtain ⟨v, _, rfl⟩ := hfe
  exact List.mem_map_of_mem he

theorem lower_nCL : lower nCL = nCL := by decide

/-- names on the HTTP/2 wire are lower case -/
theorem req_names_lower (O : Oracles) (remote : Bytes) (win : List Nat) (w : Wire) (f : Field)
    (hf : f ∈ (fwdReqH2 O remote win w).fields) : lower f.1 = f.1 := by
  unfold fwdReqH2 cliEncode at hf
  simp only [List.mem_append] at hf
  cases hf with
  | inl h =>
    unfold reqFieldsOf at h
    have := name_mem_keys _ f h
    exact keysLower_of_sublist _ _ (keys_filterMap_sublist _ _ reqEntry_key) (keysLower_srvHdr w) _ this
  | inr h => rw [mem_clField _ _ h]; exact lower_nCL

theorem valuesOf_eq_valuesAt (fs : List Field) (hl : ∀ f ∈ fs, lower f.1 = f.1) (n : Bytes) :
    valuesOf n fs = valuesAt n fs := by
  unfold valuesOf valuesAt
  congr 1
  apply List.filter_congr
  intro f hf
  rw [hl f hf]

theorem joinWith_single (sep x : Bytes) : joinWith sep [x] = x := rfl

theorem valuesOf_nil_of_no_name (fs : List Field) (n : Bytes) (h : ∀ f ∈ fs, lower f.1 ≠ n) : valuesOf n fs = [] := by
  unfold valuesOf
  rw [List.filter_eq_nil_iff.mpr]
  · rfl
  · intro f hf; simpa using h f hf

/-- a request without names the encoder treats specially -/
def PlainNames (fs : List Field) : Prop :=
  ∀ f ∈ fs, lower f.1 ∉ C01H2Map.reqOwnFields ∧ lower f.1 ∉ C01H2Map.reqConnSpecific ∧ lower f.1 ≠ nUA ∧ lower f.1 ≠ nTrailer

theorem sameValues_req (O : Oracles) (remote : Bytes) (win : List Nat) (w : Wire) (hp : PlainNames w.fields) (n : Bytes)
    (hex : n ∉ h2Exempt) : sameValues n w.fields (fwdReqH2 O remote win w).fields = true := by
  have hl := req_names_lower O remote win w
  have hcl : n ≠ nCL := by intro h; apply hex; simp [h2Exempt, h]
  have htr : n ≠ nTrailer := by intro h; apply hex; simp [h2Exempt, h]
  unfold sameValues
  by_cases hck : n = nCookie
  · subst hck
    simp only [if_true, valuesOf_eq_valuesAt _ hl, req_cookie_crumbs]
    split
    · simp [joinWith_single]
    · simp
  · simp only [hck, if_false, valuesOf_eq_valuesAt _ hl]
    by_cases hs : n ∉ C01H2Map.reqOwnFields ∧ n ∉ C01H2Map.reqConnSpecific ∧ n ≠ nUA
    · rw [req_fields_preserved O remote win w n hs.1 hs.2.1 hs.2.2 hck htr hcl]; simp
    · have hnone : valuesOf n w.fields = [] := by
        apply valuesOf_nil_of_no_name
        intro f hf hfn
        have := hp f hf
        rw [hfn] at this
        exact hs ⟨this.1, this.2.1, this.2.2.1⟩
      have hgot : valuesAt n (fwdReqH2 O remote win w).fields = [] := by
        apply List.eq_nil_iff_forall_not_mem.mpr
        intro v hv
        have := req_no_invented_field O remote win w n v hcl hck hv
        rw [hnone] at this; cases this
      rw [hnone, hgot]; simp

theorem fieldsPreserved_of (exempt : List Bytes) (sent got : List Field)
    (h : ∀ n, n ∉ exempt → sameValues n sent got = true) : fieldsPreserved exempt sent got = true := by
  unfold fieldsPreserved
  rw [List.all_eq_true]
  intro n _
  by_cases he : n ∈ exempt
  · simp [he]
  · simp [h n he]

theorem trailer_names_lower (t : Option (List Field)) (f : Field)
    (hf : f ∈ (trailerBlock true (some (decodeTrailers true true t))).getD []) : lower f.1 = f.1 := by
  cases t with
  | none => simp [trailerBlock, decodeTrailers, toFields] at hf
  | some fs =>
    simp only [trailerBlock, decodeTrailers, collectFields_true, if_true, endStreamAsModelled_true, Bool.true_and] at hf
    split at hf
    · exact keysLower_ofFields fs _ (name_mem_keys _ f (by simpa using hf))
    · simp at hf

theorem trailersSame_of (s g : Option (List Field)) (h : ∀ n, valuesOf n (s.getD []) = valuesOf n (g.getD [])) :
    trailersSame s g = true := by
  unfold trailersSame
  simp only [List.all_eq_true, decide_eq_true_eq]
  intro n _
  exact h n

/-- **the model's output satisfies the reference predicate** (HTTP/2 → HTTP/2 request; every clause of `specReqH2` except the
content-length one, see `h2_spec_holds_on_model_partial` in Props): for every request with an authority, a path net/url prints
back unchanged, field names outside the encoder's special ones (own, connection-specific, user-agent, trailer announcement;
cookie crumbs, repeated fields, empty values, any case are allowed) and a consistent END_STREAM placement — any body, any
framing, any trailers, any window schedule. -/
theorem spec_holds_on_model (O : Oracles) (remote : Bytes) (win : List Nat) (w : Wire)
    (hesc : O.escaped (splitTarget (pseudoGet w.pseudo nPath)).1 = some (splitTarget (pseudoGet w.pseudo nPath)).1)
    (hauth : pseudoGet w.pseudo nAuthority ≠ [])
    (hp : PlainNames w.fields)
    (hend : w.endOnHeaders = true → w.chunks = [] ∧ w.trailers = none) :
    specReqH2core w (fwdReqH2 O remote win w) = true := by
  have hps := req_pseudo_roundtrip O remote win w hesc
  simp only at hps
  obtain ⟨hm, hpath, hsch, hau⟩ := hps
  have hlen : (fwdReqH2 O remote win w).pseudo.length = 4 := by rw [fwdReqH2_pseudo]; rfl
  have hfp := fieldsPreserved_of h2Exempt w.fields _ (sameValues_req O remote win w hp)
  have hlow : (fwdReqH2 O remote win w).fields.all (fun f => isLowerName f.1) = true := by
    rw [List.all_eq_true]; intro f hf
    simp [isLowerName, req_names_lower O remote win w f hf]
  have hbody := req_body_preserved O remote win w (fun h => (hend h).1)
  have htr : trailersSame w.trailers (fwdReqH2 O remote win w).trailers = true := by
    apply trailersSame_of
    intro n
    cases he : w.endOnHeaders with
    | false =>
      have hn := req_trailers_preserved O remote win w n he
      have hl : ∀ f ∈ (fwdReqH2 O remote win w).trailers.getD [], lower f.1 = f.1 := by
        intro f hf
        unfold fwdReqH2 cliEncode srvDecode at hf
        simp only [he, Bool.false_and, cliSendsTrailers_true, srvPassesTrailers_true, reqTrailerKeepsAll_true] at hf
        exact trailer_names_lower w.trailers f hf
      rw [valuesOf_eq_valuesAt _ hl, hn]
    | true =>
      have h2 := (hend he).2
      have : (fwdReqH2 O remote win w).trailers = none := by
        unfold fwdReqH2 cliEncode srvDecode
        simp [he, srvHeaderOnly_true, trailerBlock]
      rw [this, h2]
  unfold specReqH2core
  simp [hm, hpath, hsch, hau, hauth, hlen, hfp, hlow, hbody, htr]

end MosnVerif.Lemmas.H2Spec
