import MosnVerif.Model.Route
import MosnVerif.Lemmas.RouteHdr
/-!
Lemmas for C04 (core Lean only).

A. the regenerated `findHighestPriorityIndex` is (definitionally) its let-free form and equals the cascade `findIdx`.
B. `NewRouters` maintains a characterisation of the three tables by the list of configured domains (`Inv`).
C. scanning a list sorted by the regenerated `Less` finds the longest matching suffix.
D. rule matching refines the declarative `Spec.ruleHolds`.
-/
namespace MosnVerif.Model.Route
open MosnVerif.Gen.Route

/-- the loop of priorities 3 and 4 with the let-bindings of the regenerated code unfolded -/
def scanK (host : Str) (l : List Wild) (done : Int) : Int :=
  forRange l (fun w next =>
    if decide (w.hostLen ≥ strLen host) then next
    else if decide (w.host = strFrom host (strLen host - w.hostLen)) then w.index else next) done

def findIdxK (ri : Tables) (host port : Str) : Int :=
  let dflt := ri.defaultVirtualHostIndex
  let wild :=
    if decide (mapLen ri.portWildcardVirtualHost > 0) then
      (let o := mapGet ri.portWildcardVirtualHost port
       let rest :=
         (let o2 := mapGet ri.portWildcardVirtualHost star
          if o2.isSome then scanK host (o2.getD default) dflt else dflt)
       if o.isSome then scanK host (o.getD default) rest else rest)
    else dflt
  if decide (mapLen ri.virtualHostPortsMap > 0) then
    (let o := mapGet ri.virtualHostPortsMap host
     if o.isSome then
       (let o1 := mapGet (o.getD default) port
        if o1.isSome then o1.getD default
        else
          let o2 := mapGet (o.getD default) star
          if o2.isSome then o2.getD default else wild)
     else wild)
  else wild

theorem gen_eq_K (ri : Tables) (host port : Str) : findHighestPriorityIndex ri host port = findIdxK ri host port := rfl


/-- a wildcard entry matches the host: strictly shorter and equal to the host's tail of that length -/
def wildHit (host : Str) (w : Wild) : Bool :=
  decide (w.hostLen < strLen host) && decide (w.host = strFrom host (strLen host - w.hostLen))

def scan (host : Str) (l : List Wild) : Option Int := (l.find? (wildHit host)).map (·.index)

def exactGet (t : Tables) (h p : Str) : Option Int :=
  (mapGet t.virtualHostPortsMap h).bind (fun m => mapGet m p)

def wildGet (t : Tables) (p : Str) : List Wild := (mapGet t.portWildcardVirtualHost p).getD []

/-- `findHighestPriorityIndex` as a cascade of four optional hits and the default -/
def findIdx (t : Tables) (host port : Str) : Int :=
  ((exactGet t host port).or ((exactGet t host star).or
    ((scan host (wildGet t port)).or (scan host (wildGet t star))))).getD t.defaultVirtualHostIndex

theorem scanK_eq (host : Str) (l : List Wild) (done : Int) : scanK host l done = (scan host l).getD done := by
  induction l with
  | nil => rfl
  | cons w r ih =>
    simp only [scanK, forRange, List.foldr_cons] at ih ⊢
    simp only [scan, List.find?_cons, wildHit]
    by_cases h1 : w.hostLen ≥ strLen host
    · have : ¬ (w.hostLen < strLen host) := by omega
      simp only [h1, this, decide_true, decide_false, if_true, Bool.false_and]
      exact ih
    · have h2 : w.hostLen < strLen host := by omega
      simp only [h1, h2, decide_true, decide_false, Bool.true_and, if_false, Bool.false_eq_true]
      by_cases h3 : w.host = strFrom host (strLen host - w.hostLen)
      · simp [h3]
      · simp only [h3, decide_false, Bool.false_eq_true, if_false]
        exact ih

theorem mapGet_of_len_zero {ν : Type} (m : List (Str × ν)) (k : Str) (h : ¬ (mapLen m > 0)) : mapGet m k = none := by
  cases m with
  | nil => rfl
  | cons a r => exact absurd (by simp [mapLen]) h

theorem findIdxK_eq (t : Tables) (host port : Str) : findIdxK t host port = findIdx t host port := by
  have hw : (if decide (mapLen t.portWildcardVirtualHost > 0) then
      (let o := mapGet t.portWildcardVirtualHost port
       let rest :=
         (let o2 := mapGet t.portWildcardVirtualHost star
          if o2.isSome then scanK host (o2.getD default) t.defaultVirtualHostIndex else t.defaultVirtualHostIndex)
       if o.isSome then scanK host (o.getD default) rest else rest)
    else t.defaultVirtualHostIndex)
    = ((scan host (wildGet t port)).or (scan host (wildGet t star))).getD t.defaultVirtualHostIndex := by
    by_cases hl : mapLen t.portWildcardVirtualHost > 0
    · simp only [hl, decide_true, if_true, wildGet, scanK_eq]
      cases h1 : mapGet t.portWildcardVirtualHost port <;> cases h2 : mapGet t.portWildcardVirtualHost star <;>
        simp [scan, Option.or] <;> (try cases List.find? (wildHit host) _ <;> simp)
    · simp only [hl, decide_false, Bool.false_eq_true, if_false, wildGet, mapGet_of_len_zero _ _ hl]
      simp [scan]
  unfold findIdxK
  simp only [hw]
  by_cases hl : mapLen t.virtualHostPortsMap > 0
  · simp only [hl, decide_true, if_true, findIdx, exactGet]
    cases h0 : mapGet t.virtualHostPortsMap host with
    | none => simp
    | some m =>
      cases h1 : mapGet m port <;> cases h2 : mapGet m star <;> simp [h1, h2]
  · simp only [hl, decide_false, Bool.false_eq_true, if_false, findIdx, exactGet, mapGet_of_len_zero _ _ hl]
    simp

theorem gen_findIdx (t : Tables) (host port : Str) : findHighestPriorityIndex t host port = findIdx t host port :=
  (gen_eq_K t host port).trans (findIdxK_eq t host port)

set_option linter.unusedVariables false

/-! ## A2. the regenerated loops in closed form -/

/-- the body of the loop of the regenerated `variableMatch`, with `after` = the code following the loop (also the
target of `break`) -/
def varBody (rx : RxOracle) (ctx : Str → Option Str) (after : Bool → Str → Str → Bool) :
    VarItem → Bool × Str × Str → (Bool × Str × Str → Bool) → Bool :=
  fun v s3 next2 =>
    let (result, walkVarName, lastMode) := s3
    let walkVarName := v.name
    let curStepRes := false
    let opt4 := (ctx v.name)
    let actual := opt4.getD default
    let k5 := (fun (result : Bool) (walkVarName : Str) (lastMode : Str) (curStepRes : Bool) =>
      let k6 := (fun (result : Bool) (walkVarName : Str) (lastMode : Str) (curStepRes : Bool) =>
        let k7 := (fun (result : Bool) (walkVarName : Str) (lastMode : Str) (curStepRes : Bool) =>
          let k8 := (fun (result : Bool) (walkVarName : Str) (lastMode : Str) (curStepRes : Bool) =>
            let lastMode := v.model
            next2 (result, walkVarName, lastMode))
          if result then (
            if (decide (v.model = modelOr)) then (
              after result walkVarName lastMode)
            else (
              k8 result walkVarName lastMode curStepRes))
          else (
            k8 result walkVarName lastMode curStepRes))
        if (decide (lastMode = modelAnd)) then (
          let result := (result && curStepRes)
          k7 result walkVarName lastMode curStepRes)
        else (
          let result := curStepRes
          k7 result walkVarName lastMode curStepRes))
      if (Option.isSome v.regexPattern) then (
        let curStepRes := (rxMatch rx v.regexPattern actual)
        k6 result walkVarName lastMode curStepRes)
      else (
        k6 result walkVarName lastMode curStepRes))
    if (Option.isSome v.value) then (
      let curStepRes := (decide ((Option.getD v.value default) = actual))
      k5 result walkVarName lastMode curStepRes)
    else (
      k5 result walkVarName lastMode curStepRes)

def varAfter : Bool → Str → Str → Bool := fun result _ _ => if result then true else false

/-- the regenerated function is the stateful loop over `varBody` (definitional) -/
theorem variableMatch_unfold (rx : RxOracle) (ctx : Str → Option Str) (items : List VarItem) :
    variableMatch rx ctx items =
      forRangeS items (varBody rx ctx varAfter) (true, [], modelAnd) (fun s => varAfter s.1 s.2.1 s.2.2) := rfl

theorem varLoop_step (rx : RxOracle) (ctx : Str → Option Str) (v : VarItem) (K : Bool × Str × Str → Bool)
    (f : Bool → Str → Bool) (hK : ∀ b w m, K (b, w, m) = f b m) (result : Bool) (w lastMode : Str) :
    varBody rx ctx varAfter v (result, w, lastMode) K =
      (let actual := (ctx v.name).getD []
       let cur := match v.value with
         | some x => decide (x = actual)
         | none => false
       let cur := match v.regexPattern with
         | some id => rx id actual
         | none => cur
       let result := if lastMode = modelAnd then result && cur else cur
       if result && decide (v.model = modelOr) then result else f result v.model) := by
  obtain ⟨name, value, rp, model⟩ := v
  have hd : (default : Str) = [] := rfl
  cases value <;> cases rp <;> by_cases hm : lastMode = modelAnd <;> by_cases ho : model = modelOr <;>
    simp [varBody, varAfter, hK, hm, ho, rxMatch, hd]

theorem gen_variableMatch_aux (rx : RxOracle) (ctx : Str → Option Str) : ∀ (items : List VarItem)
    (result : Bool) (w lastMode : Str),
    forRangeS items (varBody rx ctx varAfter) (result, w, lastMode) (fun s => varAfter s.1 s.2.1 s.2.2)
      = varLoop rx ctx items result lastMode
  | [], result, w, lastMode => by cases result <;> simp [forRangeS, varLoop, varAfter]
  | v :: r, result, w, lastMode => by
    have ih := gen_variableMatch_aux rx ctx r
    show varBody rx ctx varAfter v (result, w, lastMode)
      (fun s' => forRangeS r (varBody rx ctx varAfter) s' (fun s => varAfter s.1 s.2.1 s.2.2)) = _
    rw [varLoop_step rx ctx v _ (fun b m => varLoop rx ctx r b m) (fun b w m => ih b w m)]
    rfl

/-- **the regenerated `VariableRouteRuleImpl.Match` is the closed-form loop** -/
theorem gen_variableMatch (rx : RxOracle) (ctx : Str → Option Str) (items : List VarItem) :
    variableMatch rx ctx items = varLoop rx ctx items true modelAnd := by
  rw [variableMatch_unfold]; exact gen_variableMatch_aux rx ctx items true [] modelAnd


theorem gen_getRoute {ρ : Type} (m : ρ → Option ρ) (l : List ρ) : getRouteFromEntries m l = l.findSome? m := by
  unfold getRouteFromEntries
  induction l with
  | nil => rfl
  | cons a r ih =>
    simp only [forRange, List.foldr_cons, List.findSome?_cons] at ih ⊢
    cases h : m a with
    | none => simpa using ih
    | some x => simp

theorem gen_getAll_aux {ρ : Type} (m : ρ → Option ρ) : ∀ (l : List ρ) (acc : List ρ),
    forRangeS l (fun route s3 next2 =>
      let routes := s3
      let r := (m route)
      if (Option.isSome r) then (
        let routes := (routes ++ r.toList)
        next2 routes)
      else (
        next2 routes)) acc (fun s3 => s3) = acc ++ l.filterMap m
  | [], acc => by simp [forRangeS]
  | a :: r, acc => by
    simp only [forRangeS, List.filterMap_cons]
    cases h : m a with
    | none => simpa using gen_getAll_aux m r acc
    | some x =>
      simp only [Option.isSome_some, if_true, Option.toList_some]
      rw [gen_getAll_aux m r (acc ++ [x])]
      simp

theorem gen_getAll {ρ : Type} (m : ρ → Option ρ) (l : List ρ) : getAllRoutesFromEntries m l = l.filterMap m := by
  have := gen_getAll_aux m l []
  have hd : (default : List ρ) = [] := rfl
  simpa [getAllRoutesFromEntries, hd] using this

/-- positions (from `n`) of the elements satisfying `q` -/
def idxs {α : Type} (q : α → Bool) : List α → Nat → List Nat
  | [], _ => []
  | a :: r, n => (if q a then [n] else []) ++ idxs q r (n + 1)

theorem zipIdx_filterMap {α : Type} (q : α → Bool) : ∀ (l : List α) (n : Nat),
    ((l.zipIdx n).filterMap (fun p => if q p.1 then some p else none)).map (·.2) = idxs q l n
  | [], _ => rfl
  | a :: r, n => by
    simp only [List.zipIdx_cons, List.filterMap_cons, idxs]
    cases q a <;> simp [zipIdx_filterMap q r (n + 1)]

theorem zipIdx_findSome {α : Type} (q : α → Bool) : ∀ (l : List α) (n : Nat),
    ((l.zipIdx n).findSome? (fun p => if q p.1 then some p else none)).map (·.2) = (l.findIdx? q).map (· + n)
  | [], _ => rfl
  | a :: r, n => by
    simp only [List.zipIdx_cons, List.findSome?_cons, List.findIdx?_cons]
    cases h : q a
    · simp only [Bool.false_eq_true, if_false]
      rw [zipIdx_findSome q r (n + 1)]
      cases r.findIdx? q <;> simp; omega
    · simp

theorem range'_filter_idxs {α : Type} (q : α → Bool) : ∀ (l : List α) (n : Nat),
    (List.range' n l.length).filter (fun i => (l[i - n]?).any q) = idxs q l n
  | [], _ => rfl
  | a :: r, n => by
    simp only [List.length_cons, List.range'_succ, List.filter_cons, Nat.sub_self, List.getElem?_cons_zero,
      Option.any_some, idxs]
    have : (List.range' (n + 1) r.length).filter (fun i => ((a :: r)[i - n]?).any q) = idxs q r (n + 1) := by
      rw [← range'_filter_idxs q r (n + 1)]
      apply List.filter_congr
      intro i hi
      have hge : n + 1 ≤ i := (List.mem_range'_1.mp hi).1
      have : i - n = (i - (n + 1)) + 1 := by omega
      rw [this, List.getElem?_cons_succ]
    rw [this]
    cases q a <;> simp

/-- `GetRouteFromEntries` (regenerated loop) returns the first matching rule -/
theorem selectRoute_eq (rx : RxOracle) (req : Req) (rules : List Rule) :
    selectRoute rx req rules = rules.findIdx? (matchRule rx req) := by
  unfold selectRoute
  rw [gen_getRoute]
  have := zipIdx_findSome (matchRule rx req) rules 0
  simp only [Nat.add_zero, Option.map_id'] at this
  exact this

/-- `GetAllRoutesFromEntries` (regenerated loop) returns the positions of all matching rules, in order -/
theorem allRoutes_eq (rx : RxOracle) (req : Req) (rules : List Rule) :
    allRoutes rx req rules = (List.range rules.length).filter (fun i => (rules[i]?).any (matchRule rx req)) := by
  unfold allRoutes
  rw [gen_getAll]
  have h1 := zipIdx_filterMap (matchRule rx req) rules 0
  have h2 := range'_filter_idxs (matchRule rx req) rules 0
  simp only [Nat.sub_zero] at h2
  rw [List.range_eq_range', h2, ← h1]
  rfl

/-- **the regenerated `findVirtualHost` in closed form** -/
theorem gen_findVirtualHost (t : Tables) (ctx : Str → Option Str) :
    Gen.Route.findVirtualHost splitGraceful t ctx = findVirtualHost t (ctx varHost) := by
  unfold Gen.Route.findVirtualHost findVirtualHost
  have hd : (default : Str) = [] := rfl
  by_cases h1 : t.virtualHostPortsMap.length = 0 <;> by_cases h2 : t.portWildcardVirtualHost.length = 0 <;>
    by_cases h3 : t.defaultVirtualHostIndex = -1 <;>
    cases hc : ctx varHost with
    | none => simp [mapLen, h1, h2, h3, hd]
    | some h =>
      by_cases h0 : h = []
      · simp [mapLen, h1, h2, h3, h0]
      · cases hs : splitGraceful (lower h) with
        | none => simp [mapLen, h1, h2, h3, h0, hs]
        | some hp =>
          simp [mapLen, h1, h2, h3, h0, hs]
          try (intro hh; exact hh.symm)


open Spec

/-! ## B. maps -/

theorem mapGet_mapSet_same {ν : Type} (m : List (Str × ν)) (k : Str) (v : ν) : mapGet (mapSet m k v) k = some v := by
  induction m with
  | nil => simp [mapSet, mapGet]
  | cons a r ih =>
    obtain ⟨k', v'⟩ := a
    by_cases h : k' = k <;> simp [mapSet, mapGet, h, ih]

theorem mapGet_mapSet_ne {ν : Type} (m : List (Str × ν)) (k k' : Str) (v : ν) (hne : k ≠ k') :
    mapGet (mapSet m k v) k' = mapGet m k' := by
  induction m with
  | nil => simp [mapSet, mapGet, hne]
  | cons a r ih =>
    obtain ⟨k0, v0⟩ := a
    by_cases h : k0 = k
    · subst h; simp [mapSet, mapGet, hne]
    · by_cases h' : k0 = k'
      · subst h'; simp [mapSet, mapGet, h]
      · simp [mapSet, mapGet, h, h', ih]

theorem mapSet_ne_nil {ν : Type} (m : List (Str × ν)) (k : Str) (v : ν) : mapSet m k v ≠ [] := by
  cases m with
  | nil => simp [mapSet]
  | cons a r => obtain ⟨k', v'⟩ := a; by_cases h : k' = k <;> simp [mapSet, h]

theorem mapGet_map {α β : Type} (m : List (Str × α)) (f : α → β) (k : Str) :
    mapGet (m.map (fun kv => (kv.1, f kv.2))) k = (mapGet m k).map f := by
  induction m with
  | nil => rfl
  | cons a r ih => obtain ⟨k', v'⟩ := a; by_cases h : k' = k <;> simp [mapGet, h, ih]


/-! ## B. `generateHostWithPortConfig` by cases -/

def toWild (e : Entry) : Wild := ⟨(e.host.length : Int) - 1, e.host.drop 1, e.idx⟩

/-- what a successful `addEntry` did -/
inductive AddCase (t : Tables) (host port : Str) (index : Int) (t' : Tables) : Prop
  | dflt (hh : host = star) (hp : port = star ∨ port = []) (hd : t.defaultVirtualHostIndex = -1)
      (ht : t' = { t with defaultVirtualHostIndex := index })
  | exact (hnd : ¬ (host = star ∧ (port = star ∨ port = []))) (hc : host.contains '*' = false)
      (hfree : exactGet t host port = none)
      (ht : t' = { t with virtualHostPortsMap := mapSet t.virtualHostPortsMap host (mapSet ((mapGet t.virtualHostPortsMap host).getD []) port index) })
  | wild (hnd : ¬ (host = star ∧ (port = star ∨ port = []))) (hh : host.head? = some '*')
      (hfree : ∀ x ∈ wildGet t port, x.host ≠ host.drop 1)
      (ht : t' = { t with portWildcardVirtualHost := mapSet t.portWildcardVirtualHost port (wildGet t port ++ [⟨(host.length : Int) - 1, host.drop 1, index⟩]) })

theorem addEntry_cases {t t' : Tables} {host port : Str} {index : Int}
    (h : addEntry t host port index = .ok t') : AddCase t host port index t' := by
  unfold addEntry at h
  split at h
  · cases h
  · split at h
    · rename_i hd
      split at h
      · cases h
      · rename_i hdi
        injection h with h
        exact .dflt hd.1 hd.2 (by simpa using hdi) h.symm
    · rename_i hnd
      split at h
      · rename_i hc
        have hc' : host.contains '*' = false := by simpa using hc
        split at h
        · rename_i hm
          injection h with h
          refine .exact hnd hc' (by simp [exactGet, hm]) ?_
          rw [← h, hm]; rfl
        · rename_i m hm
          split at h
          · cases h
          · rename_i hp
            injection h with h
            refine .exact hnd hc' (by simp [exactGet, hm, hp]) ?_
            rw [← h, hm]; rfl
      · split at h
        · rename_i hh
          split at h
          · rename_i hm
            injection h with h
            refine .wild hnd hh (by simp [wildGet, hm]) ?_
            rw [← h]; simp [wildGet, hm]
          · rename_i l hm
            dsimp only at h
            split at h
            · cases h
            · rename_i hany
              injection h with h
              refine .wild hnd hh ?_ ?_
              · intro x hx
                simp only [wildGet, hm, Option.getD_some] at hx
                intro hxe
                exact hany (by simp only [List.any_eq_true, decide_eq_true_eq]; exact ⟨x, hx, hxe⟩)
              · rw [← h]; simp [wildGet, hm]
        · cases h


/-! ## B. the invariant of the domain loop -/

/-- the tables characterised by the list of configured domains entered so far -/
structure Inv (es : List Entry) (t : Tables) : Prop where
  dflt : t.defaultVirtualHostIndex = ((es.find? Entry.isDefault).map (·.idx)).getD (-1)
  exact : ∀ h p, exactGet t h p =
    (es.find? (fun e => e.isExact && decide (e.host = h) && decide (e.port = p))).map (·.idx)
  wild : ∀ p, wildGet t p = (es.filter (fun e => e.isWild && decide (e.port = p))).map toWild
  nodup : ∀ p, ((es.filter (fun e => e.isWild && decide (e.port = p))).map Entry.suffix).Nodup
  exactNil : t.virtualHostPortsMap = [] ↔ ∀ e ∈ es, e.isExact = false
  wildNil : t.portWildcardVirtualHost = [] ↔ ∀ e ∈ es, e.isWild = false
  nonneg : ∀ e ∈ es, 0 ≤ e.idx

theorem Inv.empty : Inv [] emptyTables := by
  constructor <;> simp [emptyTables, exactGet, wildGet, mapGet]

theorem head_star_contains {host : Str} (h : host.head? = some '*') : host.contains '*' = true := by
  cases host with
  | nil => simp at h
  | cons c r => simp at h; simp [h]

theorem find?_snoc {α : Type} (l : List α) (x : α) (q : α → Bool) :
    (l ++ [x]).find? q = (l.find? q).or (if q x then some x else none) := by
  simp [List.find?_append, List.find?_cons]
  cases q x <;> simp

theorem filter_snoc {α : Type} (l : List α) (x : α) (q : α → Bool) :
    (l ++ [x]).filter q = l.filter q ++ (if q x then [x] else []) := by
  simp [List.filter_append, List.filter_cons]

theorem forall_snoc_false {α : Type} (l : List α) (x : α) (f : α → Bool) (hx : f x = false) :
    (∀ y ∈ l ++ [x], f y = false) ↔ (∀ y ∈ l, f y = false) := by
  constructor
  · intro h y hy; exact h y (List.mem_append_left _ hy)
  · intro h y hy
    rcases List.mem_append.mp hy with hy | hy
    · exact h y hy
    · rw [List.mem_singleton.mp hy]; exact hx

theorem not_forall_snoc_true {α : Type} (l : List α) (x : α) (f : α → Bool) (hx : f x = true) :
    ¬ (∀ y ∈ l ++ [x], f y = false) := by
  intro h
  have := h x (List.mem_append_right _ (List.mem_singleton.mpr rfl))
  rw [hx] at this; cases this

theorem mapGet_getD_nil {ν : Type} (m : List (Str × List (Str × ν))) (h p : Str) :
    mapGet ((mapGet m h).getD []) p = (mapGet m h).bind (fun x => mapGet x p) := by
  cases mapGet m h <;> simp [mapGet]

theorem isDefault_false_of {e : Entry} (hnd : ¬ (e.host = star ∧ (e.port = star ∨ e.port = []))) :
    e.isDefault = false := by
  cases hd : e.isDefault with
  | false => rfl
  | true =>
    exfalso; apply hnd
    simp only [Entry.isDefault, Bool.and_eq_true, Bool.or_eq_true, decide_eq_true_eq] at hd
    exact hd

theorem Inv.step {es : List Entry} {t t' : Tables} (hi : Inv es t) (e : Entry) (hidx : 0 ≤ e.idx)
    (h : addEntry t e.host e.port e.idx = .ok t') : Inv (es ++ [e]) t' := by
  have hc := addEntry_cases h
  cases hc with
  | dflt hh hp hd ht =>
    have hdef : e.isDefault = true := by
      simp only [Entry.isDefault, hh, star, decide_true, Bool.true_and]
      rcases hp with hp | hp <;> simp [hp, star]
    have hex : e.isExact = false := by simp [Entry.isExact, hdef]
    have hwi : e.isWild = false := by simp [Entry.isWild, hdef]
    have hnone : es.find? Entry.isDefault = none := by
      cases hf : es.find? Entry.isDefault with
      | none => rfl
      | some e0 =>
        have := hi.dflt
        rw [hf, hd] at this
        have h0 := hi.nonneg e0 (List.mem_of_find?_eq_some hf)
        simp at this; omega
    subst ht
    constructor
    · simp [hnone, hdef]
    · intro h p; simp only [find?_snoc, hex, Bool.false_and, Bool.false_eq_true, if_false, Option.or_none]
      exact hi.exact h p
    · intro p; simp only [filter_snoc, hwi, Bool.false_and, Bool.false_eq_true, if_false, List.append_nil]
      exact hi.wild p
    · intro p; simp only [filter_snoc, hwi, Bool.false_and, Bool.false_eq_true, if_false, List.append_nil]
      exact hi.nodup p
    · simp only [List.mem_append, List.mem_singleton]
      rw [hi.exactNil]
      constructor
      · intro hall x hx; rcases hx with hx | hx
        · exact hall x hx
        · subst hx; exact hex
      · intro hall x hx; exact hall x (Or.inl hx)
    · simp only [List.mem_append, List.mem_singleton]
      rw [hi.wildNil]
      constructor
      · intro hall x hx; rcases hx with hx | hx
        · exact hall x hx
        · subst hx; exact hwi
      · intro hall x hx; exact hall x (Or.inl hx)
    · intro x hx; simp only [List.mem_append, List.mem_singleton] at hx
      rcases hx with hx | hx
      · exact hi.nonneg x hx
      · subst hx; exact hidx
  | exact hnd hc hfree ht =>
    have hdef : e.isDefault = false := isDefault_false_of hnd
    have hex : e.isExact = true := by rw [Entry.isExact, hdef, hc]; rfl
    have hwi : e.isWild = false := by
      cases hw : e.isWild with
      | false => rfl
      | true =>
        simp only [Entry.isWild, hdef, Bool.not_false, Bool.true_and, decide_eq_true_eq] at hw
        rw [head_star_contains hw] at hc; cases hc
    subst ht
    constructor
    · simp only [find?_snoc, hdef, Bool.false_eq_true, if_false, Option.or_none]; exact hi.dflt
    · intro h p
      simp only [exactGet, find?_snoc]
      by_cases hh : e.host = h
      · subst hh
        simp only [mapGet_mapSet_same, Option.bind_some]
        by_cases hp : e.port = p
        · subst hp
          have hnone : es.find? (fun x => x.isExact && decide (x.host = e.host) && decide (x.port = e.port)) = none := by
            have := hi.exact e.host e.port
            rw [hfree] at this
            cases hf : es.find? (fun x => x.isExact && decide (x.host = e.host) && decide (x.port = e.port)) with
            | none => rfl
            | some y => rw [hf] at this; simp at this
          simp [mapGet_mapSet_same, hnone, hex]
        · rw [mapGet_mapSet_ne _ _ _ _ hp, mapGet_getD_nil]
          simp only [hp, decide_false, Bool.and_false, Bool.false_eq_true, if_false, Option.or_none]
          exact hi.exact e.host p
      · have hq : (e.isExact && decide (e.host = h) && decide (e.port = p)) = false := by simp [hh]
        rw [mapGet_mapSet_ne _ _ _ _ hh, hq]
        simp only [Bool.false_eq_true, if_false, Option.or_none]
        exact hi.exact h p
    · intro p; simp only [filter_snoc, hwi, Bool.false_and, Bool.false_eq_true, if_false, List.append_nil]
      exact hi.wild p
    · intro p; simp only [filter_snoc, hwi, Bool.false_and, Bool.false_eq_true, if_false, List.append_nil]
      exact hi.nodup p
    · constructor
      · intro h0; exact absurd h0 (mapSet_ne_nil _ _ _)
      · intro hall; exact absurd hall (not_forall_snoc_true _ _ _ hex)
    · rw [forall_snoc_false _ _ _ hwi]; exact hi.wildNil
    · intro x hx; simp only [List.mem_append, List.mem_singleton] at hx
      rcases hx with hx | hx
      · exact hi.nonneg x hx
      · subst hx; exact hidx
  | wild hnd hh hfree ht =>
    have hdef : e.isDefault = false := isDefault_false_of hnd
    have hwi : e.isWild = true := by simp [Entry.isWild, hdef, hh]
    have hex : e.isExact = false := by rw [Entry.isExact, hdef, head_star_contains hh]; rfl
    subst ht
    constructor
    · simp only [find?_snoc, hdef, Bool.false_eq_true, if_false, Option.or_none]; exact hi.dflt
    · intro h p; simp only [find?_snoc, hex, Bool.false_and, Bool.false_eq_true, if_false, Option.or_none]
      exact hi.exact h p
    · intro p
      simp only [wildGet, filter_snoc]
      by_cases hp : e.port = p
      · subst hp
        simp only [mapGet_mapSet_same, Option.getD_some, hwi, decide_true, Bool.and_self, if_true,
          List.map_append, List.map_cons, List.map_nil]
        have := hi.wild e.port
        simp only [wildGet] at this
        rw [this]; rfl
      · have hq : (e.isWild && decide (e.port = p)) = false := by simp [hp]
        rw [mapGet_mapSet_ne _ _ _ _ hp, hq]
        simp only [Bool.false_eq_true, if_false, List.append_nil]
        exact hi.wild p
    · intro p
      simp only [filter_snoc]
      by_cases hp : e.port = p
      · subst hp
        simp only [hwi, decide_true, Bool.and_self, if_true, List.map_append, List.map_cons, List.map_nil]
        rw [List.nodup_append]
        refine ⟨hi.nodup e.port, by simp, ?_⟩
        intro a ha b hb
        simp only [List.mem_singleton] at hb
        subst hb
        obtain ⟨f, hf, rfl⟩ := List.mem_map.mp ha
        have hfw : toWild f ∈ wildGet t e.port := by
          rw [hi.wild e.port]; exact List.mem_map.mpr ⟨f, hf, rfl⟩
        exact hfree _ hfw
      · have hq : (e.isWild && decide (e.port = p)) = false := by simp [hp]
        rw [hq]
        simp only [Bool.false_eq_true, if_false, List.append_nil]
        exact hi.nodup p
    · rw [forall_snoc_false _ _ _ hex]; exact hi.exactNil
    · constructor
      · intro h0; exact absurd h0 (mapSet_ne_nil _ _ _)
      · intro hall; exact absurd hall (not_forall_snoc_true _ _ _ hwi)
    · intro x hx; simp only [List.mem_append, List.mem_singleton] at hx
      rcases hx with hx | hx
      · exact hi.nonneg x hx
      · subst hx; exact hidx


theorem addDomains_inv (i : Int) (hi0 : 0 ≤ i) : ∀ (ds : List Str) (es : List Entry) (t t' : Tables),
    Inv es t → addDomains i ds t = .ok t' →
    Inv (es ++ ds.filterMap (fun d => (splitGraceful (lower d)).map (fun hp => (⟨i, hp.1, hp.2⟩ : Entry)))) t'
  | [], es, t, t', hi, h => by
    simp only [addDomains] at h; injection h with h; subst h; simpa using hi
  | d :: ds, es, t, t', hi, h => by
    simp only [addDomains] at h
    split at h
    · cases h
    · rename_i hh pp hs
      split at h
      · cases h
      · rename_i t1 ha
        have h1 : Inv (es ++ [⟨i, hh, pp⟩]) t1 := Inv.step hi ⟨i, hh, pp⟩ hi0 ha
        have := addDomains_inv i hi0 ds _ t1 t' h1 h
        simpa [List.filterMap_cons, hs, List.append_assoc] using this

theorem buildVhosts_inv : ∀ (vs : List VHostCfg) (i : Int) (es : List Entry) (t t' : Tables),
    0 ≤ i → Inv es t → buildVhosts vs i t = .ok t' → Inv (es ++ entriesFrom vs i) t'
  | [], i, es, t, t', _, hi, h => by
    simp only [buildVhosts] at h; injection h with h; subst h; simpa [entriesFrom] using hi
  | vh :: r, i, es, t, t', hi0, hi, h => by
    simp only [buildVhosts] at h
    split at h
    · cases h
    · split at h
      · cases h
      · rename_i t1 ha
        have h1 := addDomains_inv i hi0 vh.domains es t t1 hi ha
        have := buildVhosts_inv r (i + 1) _ t1 t' (by omega) h1 h
        simpa [entriesFrom, List.append_assoc] using this

/-- a successful `NewRouters`: the unsorted tables satisfy the invariant for all configured domains -/
theorem build_ok {srt : List Wild → List Wild} {cfg : Config} {t : Tables} (h : build srt cfg = .ok t) :
    ∃ t0, Inv (entries cfg) t0 ∧ t = sortTables srt t0 := by
  unfold build at h
  split at h
  · cases h
  · split at h
    · cases h
    · rename_i t0 hb
      injection h with h
      exact ⟨t0, by simpa [entries] using buildVhosts_inv cfg 0 [] emptyTables t0 (by omega) Inv.empty hb, h.symm⟩



/-! ## C. a list sorted by the regenerated `Less` is scanned longest-suffix-first -/

theorem best_none {α : Type} (key : α → Nat) (l : List α) : best key l = none ↔ l = [] := by
  cases l with
  | nil => simp [best]
  | cons x r =>
    simp only [best]
    cases best key r with
    | none => simp
    | some y => by_cases h : key x ≥ key y <;> simp [h]

theorem best_spec {α : Type} (key : α → Nat) : ∀ (l : List α) (x : α), best key l = some x →
    x ∈ l ∧ ∀ y ∈ l, key y ≤ key x
  | [], x, h => by simp [best] at h
  | a :: r, x, h => by
    simp only [best] at h
    cases hb : best key r with
    | none =>
      rw [hb] at h
      have hr : r = [] := (best_none key r).mp hb
      injection h with h; subst h; subst hr
      simp
    | some y =>
      rw [hb] at h
      have ⟨hy, hmax⟩ := best_spec key r y hb
      by_cases hge : key a ≥ key y
      · simp only [hge, if_true] at h
        injection h with h; subst h
        refine ⟨by simp, ?_⟩
        intro z hz
        rcases List.mem_cons.mp hz with hz | hz
        · subst hz; exact Nat.le_refl _
        · exact Nat.le_trans (hmax z hz) hge
      · simp only [hge, if_false] at h
        injection h with h; subst h
        refine ⟨List.mem_cons_of_mem _ hy, ?_⟩
        intro z hz
        rcases List.mem_cons.mp hz with hz | hz
        · subst hz; omega
        · exact hmax z hz

theorem eq_of_nodup_map {α β : Type} (f : α → β) : ∀ (l : List α), (l.map f).Nodup →
    ∀ x y, x ∈ l → y ∈ l → f x = f y → x = y
  | [], _, x, _, hx, _, _ => by cases hx
  | a :: r, hnd, x, y, hx, hy, hxy => by
    simp only [List.map_cons, List.nodup_cons, List.mem_map, not_exists, not_and] at hnd
    rcases List.mem_cons.mp hx with hx' | hx'
    · rcases List.mem_cons.mp hy with hy' | hy'
      · rw [hx', hy']
      · rw [hx'] at hxy; exact absurd hxy.symm (hnd.1 y hy')
    · rcases List.mem_cons.mp hy with hy' | hy'
      · rw [hy'] at hxy; exact absurd hxy (hnd.1 x hx')
      · exact eq_of_nodup_map f r hnd.2 x y hx' hy' hxy

theorem toWild_hostLen (f : Entry) (hne : f.host ≠ []) : (toWild f).hostLen = (f.suffix.length : Int) := by
  simp only [toWild, Entry.suffix, List.length_drop]
  have : 1 ≤ f.host.length := by
    cases hh : f.host with
    | nil => exact absurd hh hne
    | cons a r => simp
  omega

theorem wildHit_toWild (h : Str) (f : Entry) (hne : f.host ≠ []) : wildHit h (toWild f) = f.wildMatches h := by
  have hl := toWild_hostLen f hne
  simp only [wildHit, Entry.wildMatches, hl, strLen, strFrom]
  by_cases hlt : f.suffix.length < h.length
  · have h1 : ((f.suffix.length : Int) < (h.length : Int)) := by omega
    have h2 : ((h.length : Int) - (f.suffix.length : Int)).toNat = h.length - f.suffix.length := by omega
    simp only [hlt, h1, decide_true, Bool.true_and, h2]
    have hhost : (toWild f).host = f.suffix := rfl
    rw [hhost]
    rw [Bool.eq_iff_iff]
    simp only [decide_eq_true_eq, List.isSuffixOf_iff_suffix]
    exact List.suffix_iff_eq_drop.symm
  · have h1 : ¬ ((f.suffix.length : Int) < (h.length : Int)) := by omega
    simp [hlt, h1]

/-- two wildcard domains matching the same host with equally long suffixes have the same suffix -/
theorem suffix_eq_of_matches (h : Str) (a b : Entry) (ha : a.wildMatches h = true) (hb : b.wildMatches h = true)
    (hlen : a.suffix.length = b.suffix.length) : a.suffix = b.suffix := by
  simp only [Entry.wildMatches, Bool.and_eq_true, decide_eq_true_eq, List.isSuffixOf_iff_suffix] at ha hb
  rw [List.suffix_iff_eq_drop.mp ha.2, List.suffix_iff_eq_drop.mp hb.2, hlen]

theorem scan_sorted (h : Str) (F : List Entry) (hne : ∀ f ∈ F, f.host ≠ [])
    (hnd : (F.map Entry.suffix).Nodup) (L' : List Wild) (hperm : L'.Perm (F.map toWild))
    (hsorted : L'.Pairwise (fun a b => less b a = false)) :
    scan h L' = (best (fun e => e.suffix.length) (F.filter (fun e => e.wildMatches h))).map (·.idx) := by
  -- the matching part of the sorted list is a permutation of the matching entries
  have hfil : (F.map toWild).filter (wildHit h) = (F.filter (fun e => e.wildMatches h)).map toWild := by
    rw [List.filter_map]
    congr 1
    apply List.filter_congr
    intro f hf
    exact wildHit_toWild h f (hne f hf)
  have hperm2 : (L'.filter (wildHit h)).Perm ((F.filter (fun e => e.wildMatches h)).map toWild) := by
    rw [← hfil]; exact hperm.filter _
  have hsorted2 := hsorted.filter (wildHit h)
  simp only [scan, ← List.head?_filter]
  generalize hM : F.filter (fun e => e.wildMatches h) = M at hperm2
  have hMsub : ∀ f ∈ M, f ∈ F ∧ f.wildMatches h = true := by
    intro f hf; rw [← hM] at hf; simpa [List.mem_filter] using hf
  cases hL : L'.filter (wildHit h) with
  | nil =>
    rw [hL] at hperm2
    have : M.map toWild = [] := List.Perm.eq_nil hperm2.symm
    have hM0 : M = [] := by simpa using this
    simp [hM0, best]
  | cons x rest =>
    rw [hL] at hperm2 hsorted2
    have hx : x ∈ M.map toWild := hperm2.mem_iff.mp (by simp)
    obtain ⟨f0, hf0, rfl⟩ := List.mem_map.mp hx
    have hMne : M ≠ [] := by intro h0; rw [h0] at hf0; cases hf0
    cases hb : best (fun e : Entry => e.suffix.length) M with
    | none => exact absurd ((best_none _ _).mp hb) hMne
    | some b =>
      have ⟨hbM, hbmax⟩ := best_spec _ M b hb
      simp only [List.head?_cons, Option.map_some]
      -- b is maximal among M, f0 is first in the sorted list: equal suffix lengths
      have h1 : f0.suffix.length ≤ b.suffix.length := hbmax f0 hf0
      have h2 : b.suffix.length ≤ f0.suffix.length := by
        have hbL : toWild b ∈ toWild f0 :: rest := hperm2.mem_iff.mpr (List.mem_map.mpr ⟨b, hbM, rfl⟩)
        rcases List.mem_cons.mp hbL with hbL | hbL
        · have := congrArg Wild.hostLen hbL
          rw [toWild_hostLen b (hne b (hMsub b hbM).1), toWild_hostLen f0 (hne f0 (hMsub f0 hf0).1)] at this
          omega
        · have hrel := (List.pairwise_cons.mp hsorted2).1 (toWild b) hbL
          simp only [less, decide_eq_false_iff_not] at hrel
          rw [toWild_hostLen b (hne b (hMsub b hbM).1), toWild_hostLen f0 (hne f0 (hMsub f0 hf0).1)] at hrel
          omega
      have hsuf : f0.suffix = b.suffix :=
        suffix_eq_of_matches h f0 b (hMsub f0 hf0).2 (hMsub b hbM).2 (by omega)
      have : f0 = b := eq_of_nodup_map Entry.suffix F hnd f0 b (hMsub f0 hf0).1 (hMsub b hbM).1 hsuf
      rw [this]; rfl


/-! ## the sorted tables -/

theorem sort_nil {srt : List Wild → List Wild} (hs : IsSorter srt) : srt [] = [] :=
  List.Perm.eq_nil (hs.perm [])

theorem wildGet_sort {srt : List Wild → List Wild} (hs : IsSorter srt) (t : Tables) (p : Str) :
    wildGet (sortTables srt t) p = srt (wildGet t p) := by
  simp only [wildGet, sortTables, mapGet_map]
  cases mapGet t.portWildcardVirtualHost p with
  | none => simp [sort_nil hs]
  | some l => simp

theorem or_getD {α : Type} (o d : Option α) (x : α) : (o.or d).getD x = o.getD (d.getD x) := by
  cases o <;> simp

theorem isWild_host_ne {e : Entry} (h : e.isWild = true) : e.host ≠ [] := by
  simp only [Entry.isWild, Bool.and_eq_true, decide_eq_true_eq] at h
  intro h0; rw [h0] at h; simp at h

/-- priorities 3 / 4 on the sorted tables are the declarative "longest matching suffix" -/
theorem scan_refines {srt : List Wild → List Wild} (hs : IsSorter srt) {es : List Entry} {t0 : Tables}
    (hinv : Inv es t0) (h p : Str) :
    scan h (wildGet (sortTables srt t0) p) =
      (best (fun e => e.suffix.length) (es.filter (fun e => e.isWild && e.wildMatches h && decide (e.port = p)))).map (·.idx) := by
  rw [wildGet_sort hs, hinv.wild p]
  have := scan_sorted h (es.filter (fun e => e.isWild && decide (e.port = p)))
    (by intro f hf; exact isWild_host_ne (by simp only [List.mem_filter, Bool.and_eq_true] at hf; exact hf.2.1))
    (hinv.nodup p) _ (hs.perm _) (hs.sorted _)
  rw [this, List.filter_filter]
  congr 2
  apply List.filter_congr
  intro e _
  cases e.isWild <;> cases e.wildMatches h <;> cases decide (e.port = p) <;> rfl

/-- the lookup on the built tables is the documented cascade -/
theorem findIdx_refines {srt : List Wild → List Wild} (hs : IsSorter srt) {es : List Entry} {t0 : Tables}
    (hinv : Inv es t0) (h p : Str) :
    findIdx (sortTables srt t0) h p =
      (((es.find? (fun e => e.isExact && decide (e.host = h) && decide (e.port = p))).map (·.idx)).or
       (((es.find? (fun e => e.isExact && decide (e.host = h) && decide (e.port = ['*']))).map (·.idx)).or
        (((best (fun e => e.suffix.length) (es.filter (fun e => e.isWild && e.wildMatches h && decide (e.port = p)))).map (·.idx)).or
         ((best (fun e => e.suffix.length) (es.filter (fun e => e.isWild && e.wildMatches h && decide (e.port = ['*'])))).map (·.idx))))).getD
        (((es.find? Entry.isDefault).map (·.idx)).getD (-1)) := by
  have hx : ∀ q, exactGet (sortTables srt t0) h q = exactGet t0 h q := fun _ => rfl
  have hd : (sortTables srt t0).defaultVirtualHostIndex = t0.defaultVirtualHostIndex := rfl
  simp only [findIdx, hx, hd, hinv.exact, hinv.dflt, scan_refines hs hinv, star]

theorem vhost_refines_core {srt : List Wild → List Wild} (hs : IsSorter srt) {cfg : Config} {t : Tables}
    (hb : build srt cfg = .ok t) (hv : Option Str) : findVirtualHost t hv = Spec.vhost cfg hv := by
  obtain ⟨t0, hinv, rfl⟩ := build_ok hb
  have hd : (sortTables srt t0).defaultVirtualHostIndex = ((entries cfg).find? Entry.isDefault |>.map (·.idx)).getD (-1) :=
    hinv.dflt
  unfold findVirtualHost
  split
  · -- only a default virtual host is configured
    rename_i hfast
    have he : ∀ e ∈ entries cfg, e.isExact = false := by
      apply hinv.exactNil.mp
      have : (sortTables srt t0).virtualHostPortsMap = t0.virtualHostPortsMap := rfl
      rw [this] at hfast
      exact List.eq_nil_of_length_eq_zero hfast.1
    have hw : ∀ e ∈ entries cfg, e.isWild = false := by
      apply hinv.wildNil.mp
      have h2 := hfast.2.1
      simp only [sortTables, List.length_map] at h2
      exact List.eq_nil_of_length_eq_zero h2
    have hf1 : ∀ q : Entry → Bool, (entries cfg).find? (fun e => e.isExact && q e) = none := by
      intro q; rw [List.find?_eq_none]; intro e hmem; simp [he e hmem]
    have hf2 : ∀ q : Entry → Bool, (entries cfg).filter (fun e => e.isWild && q e) = [] := by
      intro q; rw [List.filter_eq_nil_iff]; intro e hmem; simp [hw e hmem]
    rw [hd]
    simp only [Spec.vhost]
    cases reqHost hv with
    | none => simp
    | some hp =>
      obtain ⟨h, p⟩ := hp
      have a1 := hf1 (fun e => decide (e.host = h) && decide (e.port = p))
      have a2 := hf1 (fun e => decide (e.host = h) && decide (e.port = ['*']))
      have a3 := hf2 (fun e => e.wildMatches h && decide (e.port = p))
      have a4 := hf2 (fun e => e.wildMatches h && decide (e.port = ['*']))
      simp only [← Bool.and_assoc] at a1 a2 a3 a4
      simp [a1, a2, a3, a4, best]
  · cases hv with
    | none => rw [hd]; simp [Spec.vhost, reqHost]
    | some h =>
      by_cases h0 : h = []
      · subst h0; rw [hd]; simp [Spec.vhost, reqHost]
      · simp only [h0, if_false]
        cases hsp : splitGraceful (lower h) with
        | none => rw [hd]; simp [Spec.vhost, reqHost, h0, hsp]
        | some hp =>
          obtain ⟨host, port⟩ := hp
          simp only [gen_findIdx, findIdx_refines hs hinv, Spec.vhost, reqHost, h0, if_false, hsp, or_getD]


/-! ## the executable sorter of the driver satisfies the `sort.Sort` contract -/

theorem insertWild_perm (x : Wild) : ∀ l : List Wild, (insertWild x l).Perm (x :: l)
  | [] => by simp [insertWild]
  | y :: r => by
    simp only [insertWild]
    split
    · exact ((insertWild_perm x r).cons y).trans (List.Perm.swap x y r)
    · exact List.Perm.refl _

theorem less_false_iff (a b : Wild) : less b a = false ↔ b.hostLen ≤ a.hostLen := by
  simp only [less, decide_eq_false_iff_not]; omega

theorem insertWild_sorted (x : Wild) : ∀ l : List Wild, l.Pairwise (fun a b => less b a = false) →
    (insertWild x l).Pairwise (fun a b => less b a = false)
  | [], _ => by simp [insertWild]
  | y :: r, h => by
    have ⟨hy, hr⟩ := List.pairwise_cons.mp h
    simp only [insertWild]
    split
    · rename_i hl
      refine List.pairwise_cons.mpr ⟨?_, insertWild_sorted x r hr⟩
      intro z hz
      rcases List.mem_cons.mp ((insertWild_perm x r).mem_iff.mp hz) with hz | hz
      · subst hz
        rw [less_false_iff]
        simp only [less, decide_eq_true_eq] at hl
        omega
      · exact hy z hz
    · rename_i hl
      refine List.pairwise_cons.mpr ⟨?_, h⟩
      have hxy : y.hostLen ≤ x.hostLen := by
        simp only [less, decide_eq_true_eq] at hl; omega
      intro z hz
      rw [less_false_iff]
      rcases List.mem_cons.mp hz with hz | hz
      · subst hz; exact hxy
      · have := (less_false_iff y z).mp (hy z hz); omega

theorem isort_isSorter : IsSorter isort where
  perm := by
    intro l
    induction l with
    | nil => exact List.Perm.refl _
    | cons x r ih => exact (insertWild_perm x (isort r)).trans (ih.cons x)
  sorted := by
    intro l
    induction l with
    | nil => simp [isort]
    | cons x r ih => exact insertWild_sorted x (isort r) ih


/-! ## D. the regenerated matchers in closed form -/

theorem stringMatch_eq (rx : RxOracle) (sm : StringMatch) (s : Str) :
    stringMatch rx sm s = if sm.IsRegex then rxMatch rx sm.RegexPattern s else decide (s = sm.Value) := by
  unfold stringMatch
  cases hr : sm.IsRegex <;> cases hp : sm.RegexPattern <;> simp [rxMatch]

/-- one header matcher against the header map -/
def kvHolds (rx : RxOracle) (hdr : Str → Option Str) (kv : KeyValueData) : Bool :=
  match hdr kv.Name with
  | some v => stringMatch rx kv.Value v
  | none => false

theorem commonMatches_eq (rx : RxOracle) (hdr : Str → Option Str) (m : List KeyValueData) :
    commonMatches rx hdr m = m.all (kvHolds rx hdr) := by
  unfold commonMatches
  induction m with
  | nil => rfl
  | cons kv r ih =>
    simp only [forRange, List.foldr_cons, List.all_cons, kvHolds] at ih ⊢
    cases hh : hdr kv.Name with
    | none => simp
    | some v =>
      cases hs : stringMatch rx kv.Value v
      · simp [hs]
      · simp only [Option.isSome_some, Bool.not_true, Bool.false_eq_true, if_false, Option.getD_some, hs,
          Bool.true_and]
        exact ih

theorem httpMatches_eq (rx : RxOracle) (ctx hdr : Str → Option Str) (m : HttpHeaderMatcher) :
    httpMatches rx ctx hdr m = (m.variables.all (fun kv => decide (ctx kv.1 = some kv.2)) && commonMatches rx hdr m.headers) := by
  unfold httpMatches
  generalize m.variables = vs
  induction vs with
  | nil => simp [forRange]
  | cons kv r ih =>
    simp only [forRange, List.foldr_cons, List.all_cons] at ih ⊢
    cases hc : ctx kv.1 with
    | none => simp
    | some v =>
      by_cases hv : v = kv.2
      · subst hv
        simp only [Option.isSome_some, if_true, Option.isSome_none, Bool.false_eq_true, if_false, Option.getD_some,
          ne_eq, not_true_eq_false, decide_false, decide_true, Bool.true_and]
        exact ih
      · simp [hv]

/-- the request path, if the variable is set and non-empty -/
def ctxPath (ctx : Str → Option Str) : Option Str :=
  match ctx varPath with
  | some p => if p = [] then none else some p
  | none => none

theorem pathMatch_eq (rx : RxOracle) (pq : Str → List (Str × Str)) (ctx hdr : Str → Option Str) (hm : HttpHeaderMatcher) (path : Str) :
    pathMatch rx pq ctx hdr ⟨(), hm, none⟩ path =
      (httpMatches rx ctx hdr hm && match ctxPath ctx with | some p => equalFold p path | none => false) := by
  unfold pathMatch ctxPath
  rw [matchRoute_none]
  cases httpMatches rx ctx hdr hm <;> cases hc : ctx varPath with
  | none => simp
  | some p => by_cases hp : p = [] <;> simp [hp]

theorem prefixMatch_eq (rx : RxOracle) (pq : Str → List (Str × Str)) (ctx hdr : Str → Option Str) (hm : HttpHeaderMatcher) (pre : Str) :
    prefixMatch rx pq ctx hdr ⟨(), hm, none⟩ pre =
      (httpMatches rx ctx hdr hm && match ctxPath ctx with | some p => hasPrefix p pre | none => false) := by
  unfold prefixMatch ctxPath
  rw [matchRoute_none]
  cases httpMatches rx ctx hdr hm <;> cases hc : ctx varPath with
  | none => simp
  | some p => by_cases hp : p = [] <;> simp [hp]

theorem regexMatch_eq (rx : RxOracle) (pq : Str → List (Str × Str)) (ctx hdr : Str → Option Str) (hm : HttpHeaderMatcher) (id : RegexId) :
    regexMatch rx pq ctx hdr ⟨(), hm, none⟩ id =
      (httpMatches rx ctx hdr hm && match ctxPath ctx with | some p => rx id p | none => false) := by
  unfold regexMatch ctxPath
  rw [matchRoute_none]
  cases httpMatches rx ctx hdr hm <;> cases hc : ctx varPath with
  | none => simp
  | some p => by_cases hp : p = [] <;> simp [hp]

theorem rpcMatch_eq (rx : RxOracle) (hdr : Str → Option Str) (fast : Str) (hm : List KeyValueData) :
    rpcMatch rx hdr fast hm =
      if fast = [] then commonMatches rx hdr hm
      else match hdr rpcRouteMatchKey with
        | some v => decide (v ≠ []) && (decide (v = fast) || decide (fast = ['.', '*']))
        | none => false := by
  unfold rpcMatch
  by_cases hf : fast = []
  · simp [hf]
  · cases hh : hdr rpcRouteMatchKey with
    | none =>
      have hd : (default : Str) = [] := rfl
      simp [hf, hd]
    | some v => by_cases hv : v = [] <;> simp [hf, hv]


/-! ## D. `NewRouteBase` / `Match` refine the declarative rule semantics -/

theorem kv_all_eq (rx : RxOracle) (req : Req) : ∀ l : List HeaderCfg,
    (l.filterMap newKV).all (kvHolds rx req.hdr) = l.all (headerHolds rx req)
  | [] => rfl
  | h :: r => by
    have ih := kv_all_eq rx req r
    simp only [List.filterMap_cons, List.all_cons, newKV, headerHolds, ← hdr_spec]
    by_cases hr : h.regex
    · by_cases hk : h.rx.ok
      · simp only [hr, hk, if_true, List.all_cons, kvHolds, stringMatch_eq, rxMatch, ih]
        rfl
      · simp only [hr, hk, if_true, Bool.false_eq_true, if_false, Bool.true_and, ih]
    · simp only [hr, Bool.false_eq_true, if_false, List.all_cons, kvHolds, stringMatch_eq, ih]
      cases hh : req.hdr h.name with
      | none => simp
      | some v => simp

/-- **the RPC-style matcher** (`CreateCommonHeaderMatcher` + `commonHeaderMatcherImpl.Matches`): the conjunction of the
configured header matchers, each name matched the way the request's header map matches names -/
theorem createCommon_all' (rx : RxOracle) (req : Req) (hs : List HeaderCfg) :
    commonMatches rx req.hdr (hs.filterMap newKV) = hs.all (headerHolds rx req) := by
  rw [commonMatches_eq, kv_all_eq]

theorem createCommon_all (rx : RxOracle) (req : Req) (hs : List HeaderCfg) :
    commonMatches rx req.hdr (createCommonHeaderMatcher hs) = hs.all (headerHolds rx req) := by
  rw [gen_createCommon, createCommon_all']

/-- **the HTTP matcher** (`CreateHTTPHeaderMatcher` + `httpHeaderMatcherImpl.Matches`) -/
theorem http_refines (rx : RxOracle) (req : Req) (hs : List HeaderCfg) :
    httpMatches rx req.var req.hdr (createHTTPHeaderMatcher hs) = httpHeadersHold rx req hs := by
  rw [gen_createHttp, httpMatches_eq, commonMatches_eq]
  simp only [kv_all_eq]
  unfold httpHeadersHold
  cases methodOf hs with
  | none => simp only [varsOf, List.all_nil, Bool.true_and]; rfl
  | some m => simp only [varsOf, List.all_cons, List.all_nil, Bool.and_true]; rfl

theorem ctxPath_eq (req : Req) : ctxPath req.var = reqPath req := rfl

theorem varLoop_or (rx : RxOracle) (ctx : Str → Option Str) (v : VarItem) (r : List VarItem) (x : Bool) :
    varLoop rx ctx (v :: r) x modelOr = varLoop rx ctx (v :: r) true modelAnd := by
  have hne : ¬ (modelOr = modelAnd) := by decide
  simp only [varLoop, hne, if_false, if_true, Bool.true_and]

theorem parseVarItem_spec {v : VarCfg} {it : VarItem} (h : parseVarItem v = some it) :
    it.name = v.name ∧ it.value = (if v.value = [] then none else some v.value) ∧
    it.regexPattern = v.regex.map (·.id) ∧
    (it.model = modelAnd ∨ it.model = modelOr) ∧ (decide (it.model = modelOr) = isOr v) := by
  unfold parseVarItem at h
  simp only [] at h
  split at h
  · rename_i p m hp hmo
    injection h with h
    subst h
    refine ⟨rfl, rfl, ?_, ?_, ?_⟩
    · cases hr : v.regex with
      | none => simp [hr] at hp; simp [hp]
      | some r =>
        simp only [hr] at hp
        split at hp
        · injection hp with hp; simp [← hp]
        · cases hp
    · by_cases h0 : v.model = []
      · simp [h0] at hmo; left; exact hmo.symm
      · simp only [h0, if_false] at hmo
        split at hmo
        · rename_i hor
          injection hmo with hmo
          rcases hor with hor | hor
          · left; rw [← hmo]; exact hor
          · right; rw [← hmo]; exact hor
        · cases hmo
    · by_cases h0 : v.model = []
      · simp [h0] at hmo
        simp only [isOr, h0, lower, List.map_nil, ← hmo]
        decide
      · simp only [h0, if_false] at hmo
        split at hmo
        · injection hmo with hmo
          simp only [isOr, ← hmo]; rfl
        · cases hmo
  · cases h

/-- the value the loop body computes for one item -/
def curOf (rx : RxOracle) (ctx : Str → Option Str) (it : VarItem) : Bool :=
  match it.regexPattern with
  | some id => rx id ((ctx it.name).getD [])
  | none => match it.value with
    | some x => decide (x = (ctx it.name).getD [])
    | none => false

theorem varLoop_cons (rx : RxOracle) (ctx : Str → Option Str) (it : VarItem) (its : List VarItem) (acc : Bool) :
    varLoop rx ctx (it :: its) acc modelAnd =
      if (acc && curOf rx ctx it) && decide (it.model = modelOr) then acc && curOf rx ctx it
      else varLoop rx ctx its (acc && curOf rx ctx it) it.model := by
  obtain ⟨name, value, rp, model⟩ := it
  simp only [varLoop, curOf, if_true]
  cases value <;> cases rp <;> rfl

theorem cur_eq (rx : RxOracle) (req : Req) {v : VarCfg} {it : VarItem} (h : parseVarItem v = some it) :
    curOf rx req.var it = varItemHolds rx req v := by
  obtain ⟨hn, hv, hr, _, _⟩ := parseVarItem_spec h
  simp only [curOf, hn, hv, hr, varItemHolds]
  cases v.regex with
  | some r => rfl
  | none =>
    by_cases h0 : v.value = [] <;> simp [h0]

theorem mapM_cons_some {v : VarCfg} {r : List VarCfg} {items : List VarItem}
    (h : (v :: r).mapM parseVarItem = some items) :
    ∃ it its, parseVarItem v = some it ∧ r.mapM parseVarItem = some its ∧ items = it :: its := by
  rw [List.mapM_cons] at h
  cases hv : parseVarItem v with
  | none => rw [hv] at h; simp at h
  | some it =>
    cases hr : r.mapM parseVarItem with
    | none => rw [hv, hr] at h; simp at h
    | some its =>
      rw [hv, hr] at h; simp at h
      exact ⟨it, its, rfl, rfl, h.symm⟩

theorem varLoop_refines (rx : RxOracle) (req : Req) : ∀ (vs : List VarCfg) (items : List VarItem) (acc : Bool),
    vs.mapM parseVarItem = some items → varLoop rx req.var items acc modelAnd = varsHold rx req vs acc
  | [], items, acc, h => by
    simp at h; subst h; rfl
  | v :: r, items, acc, h => by
    obtain ⟨it, its, hv, hr, rfl⟩ := mapM_cons_some h
    obtain ⟨_, _, _, hmod, hor⟩ := parseVarItem_spec hv
    have ih := varLoop_refines rx req r its
    rw [varLoop_cons, cur_eq rx req hv]
    simp only [varsHold, ← hor]
    rcases hmod with hm | hm
    · have hne : decide (modelAnd = modelOr) = false := by decide
      simp only [hm, hne, Bool.and_false, Bool.false_eq_true, if_false]
      exact ih _ hr
    · simp only [hm, decide_true, Bool.and_true, if_true]
      cases hres : (acc && varItemHolds rx req v)
      · simp only [Bool.false_eq_true, if_false, Bool.false_or]
        cases r with
        | nil => simp at hr; subst hr; simp [varLoop]
        | cons v2 r2 =>
          obtain ⟨i2, is2, _, _, rfl⟩ := mapM_cons_some hr
          rw [varLoop_or]
          simp only [ne_eq, reduceCtorEq, not_false_eq_true, decide_true, Bool.true_and]
          exact ih true hr
      · simp


theorem dsl_all (req : Req) : ∀ ds : List DslCfg,
    ((ds.filterMap (fun d => if !d.empty && d.ok then some d.id else none)).all (fun i => req.dsl i == some true))
      = ds.all (fun d => d.empty || !d.ok || req.dsl d.id == some true)
  | [] => rfl
  | d :: r => by
    have ih := dsl_all req r
    rw [List.filterMap_cons, List.all_cons, ← ih]
    cases hde : d.empty <;> cases hdo : d.ok <;> rfl

/-- **a built rule matches exactly when all matchers of the configured route hold** -/
theorem rule_refines (rx : RxOracle) (req : Req) {m : MatchCfg} {rule : Rule} (h : mkRule m = .ok rule) :
    matchRule rx req rule = ruleHolds rx req m := by
  unfold mkRule at h
  unfold ruleHolds
  split at h
  · rename_i hp
    injection h with h; subst h
    rw [if_pos hp]
    simp only [matchRule, gen_newBaseHTTP, prefixMatch_eq, http_refines, ctxPath_eq, hasPrefix]
    exact Bool.and_comm _ _
  · rename_i hp
    rw [if_neg hp]
    split at h
    · rename_i hpa
      injection h with h; subst h
      rw [if_pos hpa]
      simp only [matchRule, gen_newBaseHTTP, pathMatch_eq, http_refines, ctxPath_eq, equalFold]
      exact Bool.and_comm _ _
    · rename_i hpa
      rw [if_neg hpa]
      split at h
      · rename_i r hre
        split at h
        · injection h with h; subst h
          simp only [matchRule, gen_newBaseHTTP, regexMatch_eq, http_refines, ctxPath_eq]
          exact Bool.and_comm _ _
        · cases h
      · rename_i hre
        split at h
        · rename_i hvs
          rw [if_pos hvs]
          split at h
          · rename_i items hmap
            injection h with h; subst h
            simp only [matchRule, gen_variableMatch]
            exact varLoop_refines rx req m.variables items true hmap
          · cases h
        · rename_i hvs
          rw [if_neg hvs]
          split at h
          · rename_i hdsl
            rw [if_pos hdsl]
            injection h with h; subst h
            simp only [matchRule]
            exact dsl_all req m.dsl
          rename_i hdsl
          rw [if_neg hdsl]
          injection h with h; subst h
          simp only [matchRule, gen_createRpc, fastOf, rpcMatch_eq]
          have hkey : rpcRouteMatchKey = ['s', 'e', 'r', 'v', 'i', 'c', 'e'] := rfl
          cases hh : m.headers with
          | nil => simp [commonMatches_eq]
          | cons a r =>
            cases r with
            | cons b r2 => simp [createCommon_all']
            | nil =>
              simp only []
              by_cases hn : a.name = rpcRouteMatchKey
              · have hn' : a.name = ['s', 'e', 'r', 'v', 'i', 'c', 'e'] := hn.trans hkey
                by_cases hr : a.regex = false
                · have hf : (if a.name = rpcRouteMatchKey ∧ a.regex = false then a.value else []) = a.value :=
                    if_pos ⟨hn, hr⟩
                  simp only [hf]
                  by_cases hv : a.value = []
                  · have hc : ¬ (a.name = ['s', 'e', 'r', 'v', 'i', 'c', 'e'] ∧ a.regex = false ∧ a.value ≠ []) := by
                      simp [hv]
                    rw [if_neg hc, if_pos hv, createCommon_all']
                    simp
                  · have hc : (a.name = ['s', 'e', 'r', 'v', 'i', 'c', 'e'] ∧ a.regex = false ∧ a.value ≠ []) :=
                      ⟨hn', hr, hv⟩
                    rw [if_pos hc, if_neg hv, hkey, hn', hdr_spec]
                    cases hdrValue req ['s', 'e', 'r', 'v', 'i', 'c', 'e'] <;> simp
                · have hf : (if a.name = rpcRouteMatchKey ∧ a.regex = false then a.value else []) = [] :=
                    if_neg (fun hc2 => hr hc2.2)
                  simp only [hf]
                  have hc : ¬ (a.name = ['s', 'e', 'r', 'v', 'i', 'c', 'e'] ∧ a.regex = false ∧ a.value ≠ []) := by
                    intro hc; exact hr hc.2.1
                  rw [if_neg hc, if_pos trivial, createCommon_all']
                  simp
              · have hc : ¬ (a.name = ['s', 'e', 'r', 'v', 'i', 'c', 'e'] ∧ a.regex = false ∧ a.value ≠ []) := by
                  intro hc; exact hn (hc.1.trans hkey.symm)
                rw [if_neg hc]
                simp [hn, createCommon_all']

/-- rule lists built by `NewVirtualHostImpl` match pointwise like the configured routes -/
theorem mkRules_findIdx (rx : RxOracle) (req : Req) : ∀ (ms : List MatchCfg) (rules : List Rule),
    mkRules ms = .ok rules → rules.length = ms.length ∧
      ∀ i : Nat, (rules[i]?).map (matchRule rx req) = (ms[i]?).map (ruleHolds rx req)
  | [], rules, h => by
    simp only [mkRules] at h; injection h with h; subst h; simp
  | m :: r, rules, h => by
    simp only [mkRules] at h
    split at h
    · cases h
    · rename_i x hx
      split at h
      · cases h
      · rename_i xs hxs
        injection h with h; subst h
        have ⟨hl, hi⟩ := mkRules_findIdx rx req r xs hxs
        refine ⟨by simp [hl], ?_⟩
        intro i
        cases i with
        | zero => simp [rule_refines rx req hx]
        | succ k => simpa using hi k

theorem findIdx?_congr {α β : Type} (p : α → Bool) (q : β → Bool) : ∀ (l : List α) (l' : List β),
    l.length = l'.length → (∀ i : Nat, (l[i]?).map p = (l'[i]?).map q) → l.findIdx? p = l'.findIdx? q
  | [], [], _, _ => rfl
  | [], _ :: _, hl, _ => by simp at hl
  | _ :: _, [], hl, _ => by simp at hl
  | a :: r, b :: r', hl, h => by
    have h0 := h 0
    simp only [List.getElem?_cons_zero, Option.map_some, Option.some.injEq] at h0
    have ih := findIdx?_congr p q r r' (by simpa using hl) (fun i => by simpa using h (i + 1))
    simp only [List.findIdx?_cons, h0, ih]

/-- `GetRouteFromEntries` on the built rules = first configured route whose matchers all hold -/
theorem select_refines (rx : RxOracle) (req : Req) {ms : List MatchCfg} {rules : List Rule}
    (h : mkRules ms = .ok rules) : selectRoute rx req rules = Spec.route rx req ms := by
  have ⟨hl, hi⟩ := mkRules_findIdx rx req ms rules h
  rw [selectRoute_eq]
  exact findIdx?_congr _ _ rules ms hl hi


/-! ## end to end -/

theorem buildVhosts_rules : ∀ (vs : List VHostCfg) (i : Int) (t t' : Tables),
    buildVhosts vs i t = .ok t' → ∀ vh ∈ vs, ∃ rs, mkRules vh.routers = .ok rs
  | [], _, _, _, _, vh, hvh => by cases hvh
  | v :: r, i, t, t', h, vh, hvh => by
    simp only [buildVhosts] at h
    split at h
    · cases h
    · rename_i rs hrs
      split at h
      · cases h
      · rename_i t1 _
        rcases List.mem_cons.mp hvh with hvh | hvh
        · subst hvh; exact ⟨rs, hrs⟩
        · exact buildVhosts_rules r (i + 1) t1 t' h vh hvh

theorem build_rules {srt : List Wild → List Wild} {cfg : Config} {t : Tables} (h : build srt cfg = .ok t) :
    ∀ vh ∈ cfg, ∃ rs, mkRules vh.routers = .ok rs := by
  unfold build at h
  split at h
  · cases h
  · split at h
    · cases h
    · rename_i t0 hb
      exact buildVhosts_rules cfg 0 emptyTables t0 hb

theorem allRoutes_refines (rx : RxOracle) (req : Req) {ms : List MatchCfg} {rules : List Rule}
    (h : mkRules ms = .ok rules) : allRoutes rx req rules = Spec.routesAll rx req ms := by
  have ⟨hl, hi⟩ := mkRules_findIdx rx req ms rules h
  rw [allRoutes_eq]
  unfold Spec.routesAll
  rw [hl]
  apply List.filter_congr
  intro i _
  have := hi i
  cases h1 : rules[i]? <;> cases h2 : ms[i]? <;> simp [h1, h2] at this ⊢
  exact this

/-- **the whole lookup refines the documented behaviour** -/
theorem answer_refines {srt : List Wild → List Wild} (hs : IsSorter srt) {cfg : Config} {t : Tables}
    (hb : build srt cfg = .ok t) (rx : RxOracle) (req : Req) :
    answer rx t cfg req = Spec.answer rx cfg req := by
  have hv := vhost_refines_core hs hb (req.var ['x', '-', 'm', 'o', 's', 'n', '-', 'h', 'o', 's', 't'])
  unfold answer Spec.answer
  have hvar : varHost = ['x', '-', 'm', 'o', 's', 'n', '-', 'h', 'o', 's', 't'] := rfl
  simp only [findVirtualHostG, gen_findVirtualHost, hvar, hv]
  split
  · rfl
  · generalize Spec.vhost cfg (req.var ['x', '-', 'm', 'o', 's', 'n', '-', 'h', 'o', 's', 't']) = vh
    unfold rulesOf
    cases hc : cfg[vh.toNat]? with
    | none => simp [selectRoute_eq, allRoutes_eq, Spec.route, Spec.routesAll]
    | some v =>
      obtain ⟨rs, hrs⟩ := build_rules hb v (List.mem_of_getElem? hc)
      simp only [hrs, select_refines rx req hrs, allRoutes_refines rx req hrs]


theorem find?_range_eq_findIdx? {α : Type} (p : α → Bool) : ∀ l : List α,
    (List.range l.length).find? (fun i => (l[i]?).any p) = l.findIdx? p
  | [] => rfl
  | a :: l => by
    rw [List.length_cons, List.range_succ_eq_map, List.find?_cons, List.findIdx?_cons]
    simp only [List.getElem?_cons_zero, Option.any_some]
    have hc : ((fun i => ((a :: l)[i]?).any p) ∘ Nat.succ) = (fun i => (l[i]?).any p) := by
      funext i; simp
    cases hp : p a
    · simp only [List.find?_map, hc, find?_range_eq_findIdx? p l, Bool.false_eq_true, if_false]
    · simp

theorem allRoutes_head (rx : RxOracle) (req : Req) (rules : List Rule) :
    (allRoutes rx req rules).head? = selectRoute rx req rules := by
  rw [allRoutes_eq, selectRoute_eq, List.head?_filter]
  exact find?_range_eq_findIdx? (matchRule rx req) rules


/-! ## well-formedness and case-insensitivity of the declarative precedence -/

theorem entriesFrom_idx : ∀ (vs : List VHostCfg) (k : Int) (e : Entry), e ∈ entriesFrom vs k →
    k ≤ e.idx ∧ e.idx < k + vs.length
  | [], _, e, h => by simp [entriesFrom] at h
  | v :: r, k, e, h => by
    simp only [entriesFrom, List.mem_append, List.mem_filterMap] at h
    rcases h with ⟨d, _, hd⟩ | h
    · cases hs : splitGraceful (lower d) with
      | none => rw [hs] at hd; simp at hd
      | some hp =>
        rw [hs] at hd; simp at hd
        subst hd; simp; omega
    · have := entriesFrom_idx r (k + 1) e h
      simp only [List.length_cons]; omega

theorem best_mem' {α : Type} (key : α → Nat) (l : List α) (x : α) (h : best key l = some x) : x ∈ l :=
  (best_spec key l x h).1

/-- the precedence always names a configured virtual host, or −1 -/
theorem vhost_index_valid (cfg : Config) (hv : Option Str) :
    Spec.vhost cfg hv = -1 ∨ (0 ≤ Spec.vhost cfg hv ∧ Spec.vhost cfg hv < cfg.length) := by
  have hmem : ∀ e ∈ entries cfg, 0 ≤ e.idx ∧ e.idx < cfg.length := by
    intro e he; have := entriesFrom_idx cfg 0 e he; omega
  have hfind : ∀ (q : Entry → Bool) i, ((entries cfg).find? q).map (·.idx) = some i → 0 ≤ i ∧ i < cfg.length := by
    intro q i h
    cases hf : (entries cfg).find? q with
    | none => rw [hf] at h; cases h
    | some e => rw [hf] at h; injection h with h; rw [← h]; exact hmem e (List.mem_of_find?_eq_some hf)
  have hbest : ∀ (q : Entry → Bool) i,
      (best (fun e => e.suffix.length) ((entries cfg).filter q)).map (·.idx) = some i → 0 ≤ i ∧ i < cfg.length := by
    intro q i h
    cases hf : best (fun e : Entry => e.suffix.length) ((entries cfg).filter q) with
    | none => rw [hf] at h; cases h
    | some e =>
      rw [hf] at h; injection h with h; rw [← h]
      exact hmem e ((List.mem_filter.mp (best_mem' _ _ _ hf)).1)
  have chain : ∀ (a b c d e : Option Int), (∀ i, a = some i → 0 ≤ i ∧ i < cfg.length) →
      (∀ i, b = some i → 0 ≤ i ∧ i < cfg.length) → (∀ i, c = some i → 0 ≤ i ∧ i < cfg.length) →
      (∀ i, d = some i → 0 ≤ i ∧ i < cfg.length) → (∀ i, e = some i → 0 ≤ i ∧ i < cfg.length) →
      (((a.or (b.or (c.or d))).or e).getD (-1) = -1 ∨
        (0 ≤ ((a.or (b.or (c.or d))).or e).getD (-1) ∧ ((a.or (b.or (c.or d))).or e).getD (-1) < cfg.length)) := by
    intro a b c d e ha hb hc hd he
    cases a with
    | some i => right; simpa using ha i rfl
    | none =>
      cases b with
      | some i => right; simpa using hb i rfl
      | none =>
        cases c with
        | some i => right; simpa using hc i rfl
        | none =>
          cases d with
          | some i => right; simpa using hd i rfl
          | none =>
            cases e with
            | some i => right; simpa using he i rfl
            | none => left; rfl
  unfold Spec.vhost
  cases hr : reqHost hv with
  | none =>
    simp only []
    have := chain none none none none _ (by simp) (by simp) (by simp) (by simp) (hfind Entry.isDefault)
    simpa using this
  | some hp =>
    obtain ⟨h, p⟩ := hp
    simp only []
    exact chain _ _ _ _ _ (hfind _) (hfind _) (hbest _) (hbest _) (hfind Entry.isDefault)

theorem lower_eq_nil (h : Str) : lower h = [] ↔ h = [] := by simp [lower]

/-- **case-insensitivity**: two Host values that differ only in letter case select the same virtual host -/
theorem vhost_case_insensitive_core (cfg : Config) (h h' : Str) (heq : lower h = lower h') :
    Spec.vhost cfg (some h) = Spec.vhost cfg (some h') := by
  have hnil : (h = []) ↔ (h' = []) := by rw [← lower_eq_nil h, ← lower_eq_nil h', heq]
  unfold Spec.vhost reqHost
  by_cases h0 : h = []
  · have h0' := hnil.mp h0; simp [h0, h0']
  · have h0' : ¬ h' = [] := fun c => h0 (hnil.mpr c)
    simp only [h0, h0', if_false, heq]

end MosnVerif.Model.Route
