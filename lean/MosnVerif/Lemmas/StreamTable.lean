import MosnVerif.Model.StreamTable
/-! C02 helper lemmas: the association list refines a finite map; the table invariant along every run;
closed forms of the id generators. Core Lean only. -/
namespace MosnVerif.Model.StreamTable
open MosnVerif.Gen.StreamIds

/-! ### the table is a finite map -/
theorem lookup_nil (k : Int) : lookup [] k = none := rfl

theorem lookup_cons (e : Int × Nat) (t : Table) (k : Int) :
    lookup (e :: t) k = if e.1 = k then some e.2 else lookup t k := by
  unfold lookup
  by_cases h : e.1 = k <;> simp [h]

theorem lookup_erase (t : Table) (k k' : Int) : lookup (erase t k) k' = if k' = k then none else lookup t k' := by
  induction t with
  | nil => simp [erase, lookup_nil]
  | cons e r ih =>
    unfold erase at ih ⊢
    simp only [List.filter_cons]
    by_cases hek : e.1 = k
    · have h1 : (!(e.1 == k)) = false := by simp [hek]
      simp only [h1, Bool.false_eq_true, if_false]
      rw [ih, lookup_cons]
      by_cases hk' : k' = k
      · simp [hk']
      · have : e.1 ≠ k' := by rw [hek]; exact fun e => hk' e.symm
        simp [hk', this]
    · have h1 : (!(e.1 == k)) = true := by simp [hek]
      simp only [h1, if_true]
      rw [lookup_cons, lookup_cons, ih]
      by_cases hk' : k' = k
      · simp [hk', hek]
      · simp [hk']

/-- **refinement**: insert and erase on the association list are function update on `lookup`. -/
theorem lookup_insert (t : Table) (k : Int) (v : Nat) (k' : Int) :
    lookup (insert t k v) k' = if k' = k then some v else lookup t k' := by
  unfold insert
  rw [lookup_cons, lookup_erase]
  by_cases h : k' = k
  · simp [h]
  · have : k ≠ k' := fun e => h e.symm
    simp [h, this]

theorem mem_erase (t : Table) (k : Int) (e : Int × Nat) : e ∈ erase t k ↔ e ∈ t ∧ e.1 ≠ k := by
  simp [erase, List.mem_filter]

theorem lookup_mem (t : Table) (k : Int) (w : Nat) (h : lookup t k = some w) : (k, w) ∈ t := by
  induction t with
  | nil => simp [lookup_nil] at h
  | cons e r ih =>
    rw [lookup_cons] at h
    by_cases hek : e.1 = k
    · simp [hek] at h; simp; left; cases e; simp_all
    · simp [hek] at h; simp; right; exact ih h

theorem keys_erase_nodup (t : Table) (k : Int) (h : (t.map (·.1)).Nodup) : ((erase t k).map (·.1)).Nodup :=
  List.Nodup.sublist (List.Sublist.map _ List.filter_sublist) h

theorem keys_erase_not_mem (t : Table) (k : Int) : k ∉ (erase t k).map (·.1) := by
  intro h
  obtain ⟨e, he, hk⟩ := List.mem_map.mp h
  exact ((mem_erase t k e).mp he).2 hk

theorem keys_insert_nodup (t : Table) (k : Int) (v : Nat) (h : (t.map (·.1)).Nodup) :
    ((insert t k v).map (·.1)).Nodup := by
  unfold insert
  rw [List.map_cons, List.nodup_cons]
  exact ⟨keys_erase_not_mem t k, keys_erase_nodup t k h⟩

/-! ### invariant of the table -/
structure TInv (s : Conn) : Prop where
  keys : (s.table.map (·.1)).Nodup
  entry : ∀ e, e ∈ s.table → e.2 < s.nW ∧ (s.waiter e.2).id = e.1 ∧ (s.waiter e.2).got = []
  got : ∀ w, w < s.nW → (s.waiter w).got.length ≤ 1 ∧ ∀ g, g ∈ (s.waiter w).got → g.1 = (s.waiter w).id

theorem tinv_init (p : Proto) (b : Int) : TInv (init p b) :=
  ⟨by simp [init], by simp [init], by simp [init]⟩

theorem baseReset_fields (s : Conn) (w : Nat) :
    (baseReset s w).table = s.table ∧ (baseReset s w).nW = s.nW ∧ (baseReset s w).proto = s.proto ∧
    (baseReset s w).base = s.base ∧
    ∀ k, ((baseReset s w).waiter k).id = (s.waiter k).id ∧ ((baseReset s w).waiter k).got = (s.waiter k).got := by
  unfold baseReset
  split
  · refine ⟨rfl, rfl, rfl, rfl, ?_⟩
    intro k; simp only [Conn.updW]; split
    · rename_i h; subst h; exact ⟨rfl, rfl⟩
    · exact ⟨rfl, rfl⟩
  · exact ⟨rfl, rfl, rfl, rfl, fun _ => ⟨rfl, rfl⟩⟩

theorem resetAll_fields (l : List (Int × Nat)) (s : Conn) :
    (resetAll s l).table = s.table ∧ (resetAll s l).nW = s.nW ∧ (resetAll s l).proto = s.proto ∧
    (resetAll s l).base = s.base ∧
    ∀ k, ((resetAll s l).waiter k).id = (s.waiter k).id ∧ ((resetAll s l).waiter k).got = (s.waiter k).got := by
  induction l generalizing s with
  | nil => exact ⟨rfl, rfl, rfl, rfl, fun _ => ⟨rfl, rfl⟩⟩
  | cons e r ih =>
    obtain ⟨k0, w⟩ := e
    simp only [resetAll]
    have h1 := ih (baseReset (s.updW w (fun x => { x with connReset := true })) w)
    have h2 := baseReset_fields (s.updW w (fun x => { x with connReset := true })) w
    refine ⟨h1.1.trans h2.1, h1.2.1.trans h2.2.1, h1.2.2.1.trans h2.2.2.1, h1.2.2.2.1.trans h2.2.2.2.1, ?_⟩
    intro k
    have a := h1.2.2.2.2 k
    have b := h2.2.2.2.2 k
    have c : ((s.updW w (fun x => { x with connReset := true })).waiter k).id = (s.waiter k).id ∧
             ((s.updW w (fun x => { x with connReset := true })).waiter k).got = (s.waiter k).got := by
      simp only [Conn.updW]; split
      · rename_i h; subst h; exact ⟨rfl, rfl⟩
      · exact ⟨rfl, rfl⟩
    exact ⟨a.1.trans (b.1.trans c.1), a.2.trans (b.2.trans c.2)⟩

theorem tinv_of_fields (s s' : Conn) (h : TInv s) (ht : s'.table = s.table) (hn : s'.nW = s.nW)
    (hw : ∀ k, (s'.waiter k).id = (s.waiter k).id ∧ (s'.waiter k).got = (s.waiter k).got) : TInv s' := by
  refine ⟨by rw [ht]; exact h.keys, ?_, ?_⟩
  · intro e he; rw [ht] at he; have := h.entry e he
    rw [hn, (hw e.2).1, (hw e.2).2]; exact this
  · intro w hw'; rw [hn] at hw'; have := h.got w hw'
    rw [(hw w).1, (hw w).2]; exact this

/-- a new stream object with a freshly generated id (not yet in the table) -/
def allocated (s : Conn) (oneway : Bool) : Conn :=
  { s with base := (gen s.proto s.base).1, nW := s.nW + 1,
           waiter := fun k => if k = s.nW then { id := (gen s.proto s.base).2, registered := !oneway } else s.waiter k }

theorem step_newStream (s : Conn) (oneway : Bool) :
    step s (.newStream oneway) =
      if registers (!oneway) then { allocated s oneway with table := insert s.table (gen s.proto s.base).2 s.nW }
      else allocated s oneway := rfl

theorem tinv_step (s : Conn) (h : TInv s) (op : Op) : TInv (step s op) := by
  cases op with
  | newStream oneway =>
    rw [step_newStream]
    have hbase : TInv (allocated s oneway) := by
      refine ⟨h.keys, ?_, ?_⟩
      · intro e he
        have ⟨h1, h2, h3⟩ := h.entry e he
        have hne : e.2 ≠ s.nW := Nat.ne_of_lt h1
        simp only [allocated, hne, if_false]
        exact ⟨by omega, h2, h3⟩
      · intro w hw
        simp only [allocated] at hw ⊢
        by_cases hwn : w = s.nW
        · simp [hwn]
        · simp only [hwn, if_false]; exact h.got w (by omega)
    split
    · refine ⟨keys_insert_nodup _ _ _ h.keys, ?_, hbase.got⟩
      intro e he
      simp only [insert, List.mem_cons] at he
      rcases he with he | he
      · subst he; simp [allocated]
      · exact hbase.entry e ((mem_erase _ _ _).mp he).1
    · exact hbase
  | reply id tok =>
    simp only [step]
    cases hl : lookup s.table id with
    | none => exact h
    | some w =>
      simp only []
      have hm := lookup_mem _ _ _ hl
      have ⟨hw1, hw2, hw3⟩ := h.entry (id, w) hm
      refine ⟨keys_erase_nodup _ _ h.keys, ?_, ?_⟩
      · intro e he
        have ⟨he1, he2⟩ := (mem_erase _ _ _).mp he
        have ⟨h1, h2, h3⟩ := h.entry e he1
        have hne : e.2 ≠ w := by
          intro heq; apply he2; rw [← h2, heq]; exact hw2
        simp only [Conn.updW, hne, if_false]
        exact ⟨h1, h2, h3⟩
      · intro k hk
        simp only [Conn.updW]
        by_cases hkw : k = w
        · subst hkw
          simp only [if_true]
          simp only [] at hw2 hw3
          rw [hw3]
          refine ⟨by simp, ?_⟩
          intro g hg; simp at hg; subst hg; exact hw2.symm
        · simp only [hkw, if_false]; exact h.got k hk
  | resetStream w =>
    simp only [step]
    split
    · have hs1 : TInv (if resetDeletes clientStream (s.waiter w).connReset = true then
          { s with table := erase s.table (s.waiter w).id } else s) := by
        split
        · refine ⟨keys_erase_nodup _ _ h.keys, ?_, h.got⟩
          intro e he; exact h.entry e ((mem_erase _ _ _).mp he).1
        · exact h
      have hf := baseReset_fields (if resetDeletes clientStream (s.waiter w).connReset = true then
          { s with table := erase s.table (s.waiter w).id } else s) w
      exact tinv_of_fields _ _ hs1 hf.1 hf.2.1 hf.2.2.2.2
    · exact h
  | connReset =>
    simp only [step]
    have hf := resetAll_fields s.table s
    exact tinv_of_fields _ _ h hf.1 hf.2.1 hf.2.2.2.2
  | setBase v => exact ⟨h.keys, h.entry, h.got⟩

theorem tinv_run (s : Conn) (h : TInv s) (ops : List Op) : TInv (run s ops) := by
  induction ops generalizing s with
  | nil => exact h
  | cons op r ih => exact ih _ (tinv_step s h op)


/-! ### the id generators: closed forms, distinctness below one period, collision at exactly one period -/
/-- counter after `n` allocations -/
def baseAfter (p : Proto) (b : Int) : Nat → Int
  | 0 => b
  | n + 1 => (gen p (baseAfter p b n)).1
/-- id handed out by the (n+1)-th allocation -/
def idAt (p : Proto) (b : Int) (n : Nat) : Int := (gen p (baseAfter p b n)).2

theorem gen_fst (p : Proto) (b : Int) : (gen p b).1 = (b + 1) % 18446744073709551616 := by
  cases p <;> rfl

theorem baseAfter_eq (p : Proto) (b : Int) (hb : 0 ≤ b ∧ b < 18446744073709551616) (n : Nat) :
    baseAfter p b n = (b + n) % 18446744073709551616 := by
  induction n with
  | zero => simp only [baseAfter]; omega
  | succ n ih => simp only [baseAfter, gen_fst, ih]; omega

theorem idAt_bolt (b : Int) (hb : 0 ≤ b ∧ b < 18446744073709551616) (n : Nat) :
    idAt .bolt b n = (b + n + 1) % 4294967296 := by
  simp only [idAt, gen, genBolt, addU64, u64, u32, baseAfter_eq .bolt b hb n]; omega

theorem idAt_boltv2 (b : Int) (hb : 0 ≤ b ∧ b < 18446744073709551616) (n : Nat) :
    idAt .boltv2 b n = (b + n + 1) % 4294967296 := by
  simp only [idAt, gen, genBoltV2, addU64, u64, u32, baseAfter_eq .boltv2 b hb n]; omega

theorem idAt_dubbo (b : Int) (hb : 0 ≤ b ∧ b < 18446744073709551616) (n : Nat) :
    idAt .dubbo b n = (b + n + 1) % 18446744073709551616 := by
  simp only [idAt, gen, genDubbo, addU64, u64, baseAfter_eq .dubbo b hb n]; omega

theorem idAt_thrift (b : Int) (hb : 0 ≤ b ∧ b < 18446744073709551616) (n : Nat) :
    idAt .thrift b n = (b + n + 1) % 18446744073709551616 := by
  simp only [idAt, gen, genThrift, addU64, u64, baseAfter_eq .thrift b hb n]; omega

theorem idAt_tars (b : Int) (hb : 0 ≤ b ∧ b < 18446744073709551616) (n : Nat) :
    idAt .tars b n = (if (b + n + 1) % 4294967296 < 2147483648 then (b + n + 1) % 4294967296
                      else (b + n + 1) % 4294967296 + 18446744069414584320) := by
  simp only [idAt, gen, genTars, addU64, u64, i32, baseAfter_eq .tars b hb n]
  split <;> split <;> omega

/-- period of the id generator of a protocol -/
def period : Proto → Nat
  | .bolt | .boltv2 | .tars => 4294967296
  | .dubbo | .thrift => 18446744073709551616

theorem idAt_distinct (p : Proto) (b : Int) (hb : 0 ≤ b ∧ b < 18446744073709551616) (i j : Nat)
    (hij : i < j) (hd : j - i < period p) : idAt p b i ≠ idAt p b j := by
  cases p
  · rw [idAt_bolt b hb, idAt_bolt b hb]; simp only [period] at hd; omega
  · rw [idAt_boltv2 b hb, idAt_boltv2 b hb]; simp only [period] at hd; omega
  · rw [idAt_dubbo b hb, idAt_dubbo b hb]; simp only [period] at hd; omega
  · rw [idAt_thrift b hb, idAt_thrift b hb]; simp only [period] at hd; omega
  · rw [idAt_tars b hb, idAt_tars b hb]; simp only [period] at hd; split <;> split <;> omega

theorem idAt_wrap (p : Proto) (b : Int) (hb : 0 ≤ b ∧ b < 18446744073709551616) (n : Nat) :
    idAt p b (n + period p) = idAt p b n := by
  cases p
  · rw [idAt_bolt b hb, idAt_bolt b hb]; simp only [period]; omega
  · rw [idAt_boltv2 b hb, idAt_boltv2 b hb]; simp only [period]; omega
  · rw [idAt_dubbo b hb, idAt_dubbo b hb]; simp only [period]; omega
  · rw [idAt_thrift b hb, idAt_thrift b hb]; simp only [period]; omega
  · have hp : period .tars = 4294967296 := rfl
    rw [hp, idAt_tars b hb, idAt_tars b hb]
    have e : (b + ((n + 4294967296 : Nat) : Int) + 1) % 4294967296 = (b + (n : Int) + 1) % 4294967296 := by omega
    simp only [e]

theorem u64_range (v : Int) : 0 ≤ u64 v ∧ u64 v < 18446744073709551616 := by
  unfold u64; omega

/-! ### ids along a run (no `setBase`): the w-th stream object carries the id of the w-th allocation -/
def Op.isSetBase : Op → Bool
  | .setBase _ => true
  | _ => false

structure IdInv (s : Conn) (p : Proto) (b0 : Int) : Prop where
  proto : s.proto = p
  base : s.base = baseAfter p b0 s.nW
  ids : ∀ w, w < s.nW → (s.waiter w).id = idAt p b0 w

theorem idinv_of_fields (s s' : Conn) (p : Proto) (b0 : Int) (h : IdInv s p b0) (hp : s'.proto = s.proto)
    (hb : s'.base = s.base) (hn : s'.nW = s.nW) (hw : ∀ k, (s'.waiter k).id = (s.waiter k).id) : IdInv s' p b0 :=
  ⟨hp.trans h.proto, by rw [hb, hn]; exact h.base, fun w hw' => by rw [hw w]; exact h.ids w (hn ▸ hw')⟩

theorem idinv_step (s : Conn) (p : Proto) (b0 : Int) (h : IdInv s p b0) (op : Op) (hop : op.isSetBase = false) :
    IdInv (step s op) p b0 := by
  cases op with
  | newStream oneway =>
    rw [step_newStream]
    have hal : IdInv (allocated s oneway) p b0 := by
      refine ⟨h.proto, ?_, ?_⟩
      · simp only [allocated, baseAfter]; rw [h.proto, h.base]
      · intro w hw
        simp only [allocated] at hw ⊢
        by_cases hwn : w = s.nW
        · subst hwn; simp only [if_true, idAt]; rw [h.proto, h.base]
        · simp only [hwn, if_false]; exact h.ids w (by omega)
    split
    · exact ⟨hal.proto, hal.base, hal.ids⟩
    · exact hal
  | reply id tok =>
    simp only [step]
    cases hl : lookup s.table id with
    | none => exact h
    | some w =>
      refine idinv_of_fields s _ p b0 h rfl rfl rfl ?_
      intro k; simp only [Conn.updW]; split
      · rename_i hk; subst hk; rfl
      · rfl
  | resetStream w =>
    simp only [step]
    split
    · have hf := baseReset_fields (if resetDeletes clientStream (s.waiter w).connReset = true then
          { s with table := erase s.table (s.waiter w).id } else s) w
      refine idinv_of_fields s _ p b0 h ?_ ?_ ?_ ?_
      · rw [hf.2.2.1]; split <;> rfl
      · rw [hf.2.2.2.1]; split <;> rfl
      · rw [hf.2.1]; split <;> rfl
      · intro k; rw [(hf.2.2.2.2 k).1]; split <;> rfl
    · exact h
  | connReset =>
    have hf := resetAll_fields s.table s
    exact idinv_of_fields s _ p b0 h hf.2.2.1 hf.2.2.2.1 hf.2.1 (fun k => (hf.2.2.2.2 k).1)
  | setBase v => simp [Op.isSetBase] at hop

theorem idinv_run (s : Conn) (p : Proto) (b0 : Int) (h : IdInv s p b0) (ops : List Op)
    (hops : ∀ op, op ∈ ops → op.isSetBase = false) : IdInv (run s ops) p b0 := by
  induction ops generalizing s with
  | nil => exact h
  | cons op r ih =>
    exact ih _ (idinv_step s p b0 h op (hops op (by simp))) (fun o ho => hops o (by simp [ho]))

/-! ### ping-pong use: a new stream only when nothing is in flight -/
def PP (s : Conn) : Prop := s.table = [] ∨ ∃ id, s.table = [(id, s.nW - 1)] ∧ 0 < s.nW

/-- the op list never opens a stream while another is registered (what the ping-pong pool guarantees, C09) -/
def Exclusive (s : Conn) : List Op → Prop
  | [] => True
  | .newStream o :: r => s.table = [] ∧ Exclusive (step s (.newStream o)) r
  | op :: r => Exclusive (step s op) r

theorem erase_sub_nil (t : Table) (k : Int) (h : t = []) : erase t k = [] := by subst h; rfl

theorem pp_step (s : Conn) (h : PP s) (op : Op) (hex : ∀ o, op = .newStream o → s.table = []) : PP (step s op) := by
  cases op with
  | newStream oneway =>
    have ht := hex oneway rfl
    rw [step_newStream]
    split
    · right; exact ⟨(gen s.proto s.base).2, by simp [allocated, insert, erase, ht], by simp [allocated]⟩
    · left; simp [allocated, ht]
  | reply id tok =>
    simp only [step]
    cases hl : lookup s.table id with
    | none => exact h
    | some w =>
      left
      rcases h with h | ⟨k, hk, _⟩
      · rw [h] at hl; simp [lookup_nil] at hl
      · show erase s.table id = []
        rw [hk] at hl ⊢
        rw [lookup_cons] at hl
        by_cases hki : k = id
        · simp [erase, hki]
        · simp [hki, lookup_nil] at hl
  | resetStream w =>
    simp only [step]
    split
    · have hf := baseReset_fields (if resetDeletes clientStream (s.waiter w).connReset = true then
          { s with table := erase s.table (s.waiter w).id } else s) w
      unfold PP
      rw [hf.1, hf.2.1]
      split
      · rcases h with h | ⟨k, hk, hn⟩
        · left; exact erase_sub_nil _ _ h
        · show erase s.table _ = [] ∨ ∃ id, erase s.table _ = [(id, s.nW - 1)] ∧ 0 < s.nW
          rw [hk]
          by_cases hki : k = (s.waiter w).id
          · left; simp [erase, hki]
          · right; exact ⟨k, by simp [erase, hki], hn⟩
      · exact h
    · exact h
  | connReset =>
    have hf := resetAll_fields s.table s
    unfold PP; simp only [step]; rw [hf.1, hf.2.1]; exact h
  | setBase v => exact h

theorem pp_run (s : Conn) (h : PP s) (ops : List Op) (hex : Exclusive s ops) : PP (run s ops) := by
  induction ops generalizing s with
  | nil => exact h
  | cons op r ih =>
    cases op with
    | newStream o => exact ih _ (pp_step s h _ (fun _ _ => hex.1)) hex.2
    | reply id tok => exact ih _ (pp_step s h _ (fun _ hh => by cases hh)) hex
    | resetStream w => exact ih _ (pp_step s h _ (fun _ hh => by cases hh)) hex
    | connReset => exact ih _ (pp_step s h _ (fun _ hh => by cases hh)) hex
    | setBase v => exact ih _ (pp_step s h _ (fun _ hh => by cases hh)) hex

/-- executable form of `Exclusive` -/
def exclusiveB (s : Conn) : List Op → Bool
  | [] => true
  | .newStream o :: r => s.table.isEmpty && exclusiveB (step s (.newStream o)) r
  | .reply id tok :: r => exclusiveB (step s (.reply id tok)) r
  | .resetStream w :: r => exclusiveB (step s (.resetStream w)) r
  | .connReset :: r => exclusiveB (step s .connReset) r
  | .setBase v :: r => exclusiveB (step s (.setBase v)) r

theorem exclusive_of_B (s : Conn) (ops : List Op) (h : exclusiveB s ops = true) : Exclusive s ops := by
  induction ops generalizing s with
  | nil => trivial
  | cons op r ih =>
    cases op with
    | newStream o =>
      simp only [exclusiveB, Bool.and_eq_true, List.isEmpty_iff] at h
      exact ⟨h.1, ih _ h.2⟩
    | reply id tok => exact ih _ h
    | resetStream w => exact ih _ h
    | connReset => exact ih _ h
    | setBase v => exact ih _ h

end MosnVerif.Model.StreamTable
