import MosnVerif.Model.H2Limits
import Mathlib.Tactic.SplitIfs
/-! Lemmas for `Model/H2Limits` (C18, c18r6): every regenerated limit comparison equals its RFC 7540 predicate. -/
namespace MosnVerif.Lemmas.H2Limits
open MosnVerif.Gen MosnVerif.Model.H2Limits
set_option linter.unusedTactic false
set_option linter.unusedSimpArgs false

/-- closes a leaf after `split_ifs`: equal outcomes, or contradictory / arithmetic side conditions -/
macro "fin" : tactic =>
  `(tactic| first | rfl | omega | (simp only [Out.ok.injEq]; omega) | (exfalso; omega) | (simp_all; done) | (simp_all; omega) | (exfalso; simp_all; omega) | ((try simp only [decide_eq_true_eq, decide_eq_false_iff_not, Decidable.not_not] at *); first | omega | (exfalso; omega)))

theorem readTooLarge_iff (len lim : Nat) : H2Limits.readTooLarge (iLen len) (iLen lim) = true ↔ len > lim := by
  simp [H2Limits.readTooLarge, iLen]

theorem readHeaderIncomplete_iff (avail : Nat) : H2Limits.readHeaderIncomplete (iLen avail) 0 = true ↔ avail < 9 := by
  simp [H2Limits.readHeaderIncomplete, iLen]; omega

theorem readPayloadIncomplete_iff (len avail : Nat) :
    H2Limits.readPayloadIncomplete (iLen len) (iLen avail) 0 = true ↔ avail < 9 + len := by
  simp [H2Limits.readPayloadIncomplete, iLen]; omega

theorem setMaxRead_eq (v : Nat) : setMaxRead v = min v 16777215 := by
  simp only [setMaxRead, H2Limits.readSizeClamped, H2Limits.readSizeClamp, iLen]
  by_cases h : v > 16777215
  · have : ((v:Int) > 16777215) := by omega
    simp [this]; omega
  · have : ¬ ((v:Int) > 16777215) := by omega
    simp [this]; omega

/-! each regenerated comparison as a `decide` of its RFC predicate over `Nat` -/
theorem priorityBadLength_eq (n : Nat) : H2Limits.priorityBadLength (iLen n) = decide (n ≠ 5) := by
  unfold H2Limits.priorityBadLength iLen; apply decide_eq_decide.2; omega
theorem rstBadLength_eq (n : Nat) : H2Limits.rstBadLength (iLen n) = decide (n ≠ 4) := by
  unfold H2Limits.rstBadLength iLen; apply decide_eq_decide.2; omega
theorem pingBadLength_eq (n : Nat) : H2Limits.pingBadLength (iLen n) = decide (n ≠ 8) := by
  unfold H2Limits.pingBadLength iLen; apply decide_eq_decide.2; omega
theorem goAwayBadLength_eq (n : Nat) : H2Limits.goAwayBadLength (iLen n) = decide (n < 8) := by
  unfold H2Limits.goAwayBadLength iLen; apply decide_eq_decide.2; omega
theorem windowUpdateBadLength_eq (n : Nat) : H2Limits.windowUpdateBadLength (iLen n) = decide (n ≠ 4) := by
  unfold H2Limits.windowUpdateBadLength iLen; apply decide_eq_decide.2; omega
theorem windowUpdateZero_eq (n : Nat) : H2Limits.windowUpdateZero (iLen n) = decide (n = 0) := by
  unfold H2Limits.windowUpdateZero iLen; apply decide_eq_decide.2; omega
theorem settingsBadLength_eq (n : Nat) : H2Limits.settingsBadLength (iLen n) = decide (n % 6 ≠ 0) := by
  unfold H2Limits.settingsBadLength iLen; apply decide_eq_decide.2; omega
theorem settingsAckWithPayload_eq (a : Bool) (n : Nat) :
    H2Limits.settingsAckWithPayload a (iLen n) = (a && decide (n > 0)) := by
  unfold H2Limits.settingsAckWithPayload iLen; congr 1; apply decide_eq_decide.2; omega
theorem dataPadTooBig_eq (pad n : Nat) : H2Frame.dataPadTooBig (iLen pad) (iLen n) = decide (pad > n) := by
  unfold H2Frame.dataPadTooBig iLen; apply decide_eq_decide.2; omega
theorem dataPadTooBig_zero (n : Nat) : H2Frame.dataPadTooBig 0 (iLen n) = false := by
  have := dataPadTooBig_eq 0 n; simpa [iLen] using this
theorem headersPadTooBig_eq (n pad : Nat) : H2Frame.headersPadTooBig (iLen n) (iLen pad) = decide (pad > n) := by
  unfold H2Frame.headersPadTooBig iLen; apply decide_eq_decide.2; omega
theorem pushPadTooBig_eq (pad n : Nat) : H2Limits.pushPadTooBig (iLen pad) (iLen n) = decide (pad > n) := by
  unfold H2Limits.pushPadTooBig iLen; apply decide_eq_decide.2; omega
theorem headersPadTooBig_zero (n : Nat) : H2Frame.headersPadTooBig (iLen n) 0 = false := by
  have := headersPadTooBig_eq n 0; simpa [iLen] using this
theorem pushPadTooBig_zero (n : Nat) : H2Limits.pushPadTooBig 0 (iLen n) = false := by
  have := pushPadTooBig_eq 0 n; simpa [iLen] using this
theorem headerListOver_eq (size remain : Nat) : H2Limits.headerListOver (iLen size) (iLen remain) = decide (size > remain) := by
  unfold H2Limits.headerListOver iLen; apply decide_eq_decide.2; omega
theorem tooManyStreams_eq (cur adv : Nat) : H2Limits.tooManyStreams (iLen cur) (iLen adv) = decide (cur ≥ adv) := by
  unfold H2Limits.tooManyStreams iLen; apply decide_eq_decide.2; omega

theorem parseData_eq (flags sid len pad fill : Nat) :
    parse ⟨0, flags, sid, len, pad, fill⟩ = refParse ⟨0, flags, sid, len, pad, fill⟩ := by
  simp [parse, refParse, parseData, H2Frame.frameData, H2Frame.flagDataPadded, dataPadTooBig_eq, dataPadTooBig_zero, protoErr,
    H2Limits.errCodeProtocol]

theorem parseHeaders_eq (flags sid len pad fill : Nat) :
    parse ⟨1, flags, sid, len, pad, fill⟩ = refParse ⟨1, flags, sid, len, pad, fill⟩ := by
  cases h8 : hasFlag flags 8 <;> cases h32 : hasFlag flags 32 <;>
  simp [parse, refParse, parseHeaders, H2Frame.frameData, H2Frame.frameHeaders, H2Frame.flagHeadersPadded,
    H2Frame.flagHeadersPriority, headersPadTooBig_eq, headersPadTooBig_zero, protoErr, H2Limits.errCodeProtocol, h8, h32] <;>
  split_ifs <;> fin

theorem parsePush_eq (flags sid len pad fill : Nat) :
    parse ⟨5, flags, sid, len, pad, fill⟩ = refParse ⟨5, flags, sid, len, pad, fill⟩ := by
  cases h8 : hasFlag flags 8 <;>
  simp [parse, refParse, parsePush, H2Frame.frameData, H2Frame.frameHeaders, H2Frame.framePriority, H2Frame.frameRSTStream,
    H2Frame.frameSettings, H2Frame.framePushPromise, pushPadTooBig_eq, pushPadTooBig_zero, protoErr, H2Limits.errCodeProtocol, h8] <;>
  split_ifs <;> fin

theorem parse_eq_ref (f : Frame) : parse f = refParse f := by
  rcases f with ⟨ty, flags, sid, len, pad, fill⟩
  match ty with
  | 0 => exact parseData_eq ..
  | 1 => exact parseHeaders_eq ..
  | 5 => exact parsePush_eq ..
  | 2 | 3 | 4 | 6 | 7 | 8 | 9 =>
    simp [parse, refParse, H2Frame.frameData, H2Frame.frameHeaders, H2Frame.framePriority, H2Frame.frameRSTStream,
      H2Frame.frameSettings, H2Frame.framePushPromise, H2Frame.framePing, H2Frame.frameGoAway, H2Frame.frameWindowUpdate,
      H2Frame.frameContinuation, H2Frame.flagSettingsAck, priorityBadLength_eq, rstBadLength_eq,
      settingsAckWithPayload_eq, settingsBadLength_eq, pingBadLength_eq, goAwayBadLength_eq,
      windowUpdateBadLength_eq, windowUpdateZero_eq, protoErr, sizeErr, H2Limits.errCodeProtocol,
      H2Limits.errCodeFrameSize] <;>
    (try (split_ifs <;> fin))
  | n + 10 =>
    simp [parse, refParse, H2Frame.frameData, H2Frame.frameHeaders, H2Frame.framePriority, H2Frame.frameRSTStream,
      H2Frame.frameSettings, H2Frame.framePushPromise, H2Frame.framePing, H2Frame.frameGoAway, H2Frame.frameWindowUpdate,
      H2Frame.frameContinuation]

theorem readOutcome_eq_ref (limit avail : Nat) (f : Frame) : readOutcome limit avail f = refOutcome limit avail f := by
  unfold readOutcome refOutcome
  have h1 := readHeaderIncomplete_iff avail
  have h2 := readTooLarge_iff f.len limit
  have h3 := readPayloadIncomplete_iff f.len avail
  rw [parse_eq_ref]
  simp only [H2Limits.readSizeTestFirst, if_true]
  by_cases a : avail < 9
  · simp [h1.2 a, a]
  · have a' : H2Limits.readHeaderIncomplete (iLen avail) 0 = false := by
      cases h : H2Limits.readHeaderIncomplete (iLen avail) 0 <;> simp_all
    by_cases b : f.len > limit
    · simp [a', a, h2.2 b, b]
    · have b' : H2Limits.readTooLarge (iLen f.len) (iLen limit) = false := by
        cases h : H2Limits.readTooLarge (iLen f.len) (iLen limit) <;> simp_all
      by_cases c : avail < 9 + f.len
      · simp [a', a, b', b, h3.2 c, c]
      · have c' : H2Limits.readPayloadIncomplete (iLen f.len) (iLen avail) 0 = false := by
          cases h : H2Limits.readPayloadIncomplete (iLen f.len) (iLen avail) 0 <;> simp_all
        simp [a', a, b', b, c', c]

theorem refParse_ne_tooLarge (f : Frame) : refParse f ≠ .tooLarge := by
  rcases f with ⟨ty, flags, sid, len, pad, fill⟩
  match ty with
  | 0 | 1 | 2 | 3 | 4 | 5 | 6 | 7 | 8 | 9 => simp only [refParse]; first | (split_ifs <;> simp) | simp
  | n + 10 => simp [refParse]

theorem settingCode_eq (server : Bool) (id val : Nat) : settingCode server id val = refSettingCode server id val := by
  have hs : C08H2Settings.serverValidatesFirst = true := by decide
  have hc : C08H2Settings.clientValidatesFirst = true := by decide
  simp only [settingCode, refSettingCode, H2Limits.settingsFrameWindowTooBig, H2Limits.settingInvalidCode,
    H2Limits.clientWindowTooBig, H2Limits.settingInitialWindowSize, H2Limits.errCodeFlowControl, iLen, hs, hc]
  cases server <;> simp <;> split_ifs <;> first | rfl | omega | simp_all

end MosnVerif.Lemmas.H2Limits
